package main

import (
	"go/token"
	"go/types"

	"golang.org/x/tools/go/ssa"
)

// R16.6: everything catchpoint catchup stages for an account is bound by the
// label. Found by an investigation started from a side note of an independent
// seeding agent; confirmed as a genuine defect on the pinned tree and repaired
// by a "fix:" commit (see known_findings.json "fixed" and DESIGN §7).
//
// Background: a multi-entry account arrives as several balance records with
// ExpectingMoreEntries=true followed by a final one. The staging writer stores
// the account data of the FIRST record of an address, while the account's trie
// leaf is computed from the LAST record only, and the totals come verbatim from
// the file header. Hence two necessary conditions for "a file that differs
// from what the label commits to is rejected":
//  (a) processStagingBalances accepts a further record of the address it is
//      expecting only if its encoded account data equals the previous
//      record's (the rejection is final: no success return after a mismatch);
//  (b) BuildMerkleTrie refuses to run while a partial record is still pending
//      (a trailing partial record would be stored and never hashed).
func init() {
	extend("C16", Extension{
		Run:         ruleStagedAccountDataBound,
		Explanation: "R16.6 (every staged account record is bound by the label): (a) in processStagingBalances a further record of the account being continued is accepted only if its EncodedAccountData equals the data remembered from the previous partial record — the staging writer keeps the first record's data while only the last record's data is hashed into the trie — and a mismatch is final; the remembered data is the loop element's own EncodedAccountData and is carried across calls; (b) BuildMerkleTrie succeeds only when no partial record is pending (expectingSpecificAccount == false), so a file cannot end on a record that is stored but never hashed.",
		Floor:       map[string]int{"R16.6": 4},
	})
}

func ruleStagedAccountDataBound(c *Ctx) {
	const rule = "R16.6"
	psb := c.Fn("ledger.catchpointCatchupAccessorImpl.processStagingBalances")
	fEnc := c.Field("ledger/store/trackerdb.NormalizedAccountBalance.EncodedAccountData")
	fExpecting := c.Field("ledger.catchpointCatchupAccessorImpl.expectingSpecificAccount")
	name := "ledger.catchpointCatchupAccessorImpl.processStagingBalances"

	// (a) a branch whose condition compares the element's EncodedAccountData (through bytes.Equal or a helper)
	cmp := GBool("entry.EncodedAccountData == previous partial entry's", func(v ssa.Value) bool {
		call, ok := v.(*ssa.Call)
		if !ok {
			return false
		}
		n := 0
		for _, a := range callArgs(call.Common()) {
			if Mentions(a, fEnc, 6) {
				n++
			}
		}
		// one operand is the current element's data; the other the remembered one
		return n >= 1 && len(callArgs(call.Common())) == 2
	}, true)
	edges, matched := PassEdges(psb, cmp)
	if matched == 0 {
		c.Bad(rule, name+":continued account<=same EncodedAccountData", c.Pos(psb.Pos()),
			"no branch of processStagingBalances compares the EncodedAccountData of the records of one address: the staging writer stores the FIRST record's account data, the trie leaf is computed from the LAST record only and the totals come verbatim from the file header, so a forged partial record placed before an account's genuine record is staged with an unchanged label")
	} else {
		// the failing edge is final: no success return reachable from it
		ok := true
		for _, e := range edges {
			fail := e.From.Succs[1-e.Idx]
			r := NewReachFromBlock(fail, nil, nil)
			for _, ret := range SuccessReturns(psb) {
				if r.Reaches(ret) {
					ok = false
				}
			}
		}
		c.Check(ok, rule, name+":continued account<=same EncodedAccountData", c.Pos(edges[0].From.Instrs[len(edges[0].From.Instrs)-1].Pos()),
			"a record whose account data differs from the previous partial record of the same address is rejected for good")
		// the comparison is only skipped when no account is being continued
		iff := edges[0].From
		guarded := false
		for _, b := range psb.Blocks {
			if in, isIf := b.Instrs[len(b.Instrs)-1].(*ssa.If); isIf && b != iff {
				for i, s := range b.Succs {
					if s == iff && i == 0 {
						_ = in
						guarded = true
					}
				}
			}
		}
		c.Check(guarded, rule, name+":comparison made whenever an account is being continued", c.Pos(psb.Pos()),
			"the comparison sits on the true edge of the 'expecting a specific account' test")
		// the remembered data is the element's own data and survives the call
		var remembered bool
		for _, f := range withAnon(psb) {
			for _, b := range f.Blocks {
				for _, in := range b.Instrs {
					if st, ok := in.(*ssa.Store); ok {
						if fa, ok := st.Addr.(*ssa.FieldAddr); ok && c.isAccessorField(fa) && Mentions(st.Val, fEnc, 8) {
							remembered = true
						}
					}
				}
			}
		}
		c.Check(remembered, rule, name+":remembered data carried across calls", c.Pos(psb.Pos()),
			"the data of a pending partial record is kept in the accessor between chunks")
	}

	// (b) BuildMerkleTrie only when nothing is pending
	bmt := c.Fn("ledger.catchpointCatchupAccessorImpl.BuildMerkleTrie")
	g := GBool("!c.expectingSpecificAccount", M(fExpecting), false)
	_, m := PassEdges(bmt, g)
	if m == 0 {
		c.Bad(rule, "ledger.catchpointCatchupAccessorImpl.BuildMerkleTrie:success<=no partial record pending", c.Pos(bmt.Pos()),
			"BuildMerkleTrie never looks at expectingSpecificAccount: a catchpoint file ending on a record with ExpectingMoreEntries=true has that record's account staged (a made-up address is enough) while nothing of it is hashed, with an unchanged label")
	} else {
		c.MustGuard(MustGuardSpec{Rule: rule, Fn: bmt, Effects: SuccessReturns(bmt), EffName: "success", Guards: []Guard{g}})
	}
}

// isAccessorField reports whether fa addresses a field of the catchup accessor.
func (c *Ctx) isAccessorField(fa *ssa.FieldAddr) bool {
	f := structField(fa.X.Type(), fa.Field)
	if f == nil {
		return false
	}
	acc := c.Named("ledger.catchpointCatchupAccessorImpl")
	st, ok := derefStruct(acc)
	if !ok {
		return false
	}
	for i := 0; i < st.NumFields(); i++ {
		if st.Field(i) == f {
			return true
		}
	}
	return false
}

// R13.6: the voters trees rebuilt at load time and the trees rebuilt by replay
// tile the round range: loadFromDisk covers [startR, latestDbRound] INCLUSIVE
// because trackerRegistry.replay starts at dbRound+1 (C09 R09.6).
func init() {
	extend("C13", Extension{
		Run:         ruleVotersReloadInclusive,
		Explanation: "R13.6 (restart does not lose a voters round): the loop of votersTracker.loadFromDisk that rebuilds the state-proof voters trees runs while r <= latestDbRound (inclusive bound on its latestDbRound parameter) and calls loadTree for every such round; replay rebuilds later rounds starting at dbRound+1, so an exclusive bound would leave the voters of a round equal to the DB round rebuilt by neither.",
		Floor:       map[string]int{"R13.6": 2},
	})
}

func ruleVotersReloadInclusive(c *Ctx) { ruleVotersReloadInclusiveAs(c, "R13.6") }

func ruleVotersReloadInclusiveAs(c *Ctx, rule string) {
	fn := c.Fn("ledger.votersTracker.loadFromDisk")
	loadTree := c.Func("ledger.votersTracker.loadTree")
	name := "ledger.votersTracker.loadFromDisk"
	var latest *ssa.Parameter
	for _, p := range fn.Params {
		if nt, ok := p.Type().(interface{ Obj() *types.TypeName }); ok && nt.Obj().Name() == "Round" {
			latest = p
		}
	}
	if latest == nil {
		c.Unk(rule, name+":latestDbRound", c.Pos(fn.Pos()), "no Round parameter found")
		return
	}
	calls := CallsTo(fn, false, loadTree)
	if len(calls) == 0 {
		c.Unk(rule, name+":loadTree", c.Pos(fn.Pos()), "no loadTree call found")
		return
	}
	// the loop test: a comparison between a loop-carried value and the parameter that dominates the loadTree call
	found := false
	inclusive := false
	var pos ssa.Instruction
	for _, b := range fn.Blocks {
		iff, ok := b.Instrs[len(b.Instrs)-1].(*ssa.If)
		if !ok {
			continue
		}
		bo, ok := iff.Cond.(*ssa.BinOp)
		if !ok {
			continue
		}
		var other ssa.Value
		op := bo.Op
		switch {
		case MentionsValue(bo.Y, latest, 3) && !MentionsValue(bo.X, latest, 3):
			other = bo.X
		case MentionsValue(bo.X, latest, 3) && !MentionsValue(bo.Y, latest, 3):
			other = bo.Y
			op = mirrorOp(op)
		default:
			continue
		}
		if _, isPhi := other.(*ssa.Phi); !isPhi {
			continue
		}
		if !b.Succs[0].Dominates(calls[0].Block()) {
			continue
		}
		found = true
		pos = iff
		// r <= latest   (or r < latest+1)
		if op == token.LEQ && (strip(bo.Y) == ssa.Value(latest) || strip(bo.X) == ssa.Value(latest)) {
			inclusive = true
		}
		if op == token.LSS {
			for _, side := range []ssa.Value{bo.X, bo.Y} {
				if add, ok := side.(*ssa.BinOp); ok && add.Op == token.ADD && (IsConstInt(1)(add.Y) || IsConstInt(1)(add.X)) && MentionsValue(add, latest, 2) {
					inclusive = true
				}
			}
		}
	}
	if !found {
		c.Unk(rule, name+":loop bound", c.Pos(fn.Pos()), "the rebuild loop's test against latestDbRound was not recognised")
		return
	}
	c.Check(inclusive, rule, name+":for r <= latestDbRound", c.Pos(pos.Pos()), "the rebuild loop includes the round equal to the tracker DB round (replay only rebuilds rounds after it)")
	c.Ok(rule, name+":loadTree per round", c.Pos(calls[0].Pos()), "loadTree is called inside that loop")
}
