package main

import (
	"golang.org/x/tools/go/ssa"
)

// R15.5 (after seed C15-2) and R17.5 (after seed C17-2).
func init() {
	extend("C15", Extension{
		Run:         ruleHashRoundOnlyWhenTrieMaintained,
		Explanation: "R15.5 (the persisted hash round says which round the balances trie reflects): in catchpointTracker.commitRound the round handed to AccountsWriterExt.UpdateAccountsHashRound is the constant 0 on every path except those through the true edge of ct.catchpointEnabled() — the branch that attaches the trie to this transaction. initializeHashes trusts a stored trie exactly when the stored hash round equals the DB round, so a node that commits rounds with tracking disabled must leave 0 there; otherwise, once tracking is enabled again, the stale trie is taken as current and two different states get the same root and label.",
		Floor:       map[string]int{"R15.5": 2},
	})
	extend("C17", Extension{
		Run:         ruleChildrenSlicesNotShared,
		Explanation: "R17.5 (no two trie nodes share a children array): every value stored into node.children in package merkletrie is nil, a freshly made slice (make or a composite literal), or a re-slice of the children of the SAME node object it is stored into; never append(…) on, or a slice of, another node's children. add/remove reuse the old node object of one level as the replacement node of the level above and overwrite its children in place, so a shared backing array silently rewrites the children of a live node and the root stops being a function of the element set.",
		Floor:       map[string]int{"R17.5": 8},
	})
}

func ruleHashRoundOnlyWhenTrieMaintained(c *Ctx) {
	const rule = "R15.5"
	const name = "ledger.catchpointTracker.commitRound"
	fn := c.Fn(name)
	upd := c.Func("ledger/store/trackerdb.AccountsWriterExt.UpdateAccountsHashRound")
	enabled := c.Func("ledger.catchpointTracker.catchpointEnabled")
	calls := CallsTo(fn, false, upd)
	if len(calls) == 0 {
		c.Unk(rule, name+":UpdateAccountsHashRound", c.Pos(fn.Pos()), "no UpdateAccountsHashRound call found in commitRound")
		return
	}
	edges, m := PassEdges(fn, GBool("ct.catchpointEnabled()", ResultOf(0, enabled), true))
	if m == 0 {
		c.Bad(rule, name+":UpdateAccountsHashRound(non-zero)<=ct.catchpointEnabled()", c.Pos(fn.Pos()), "commitRound never tests ct.catchpointEnabled(): the hash round it persists cannot depend on whether the trie is maintained")
		return
	}
	underGuard := func(b *ssa.BasicBlock) bool {
		for _, e := range edges {
			s := e.From.Succs[e.Idx]
			if len(s.Preds) == 1 && s.Dominates(b) {
				return true
			}
		}
		return false
	}
	for _, call := range calls {
		a := callArgs(call.Common())
		arg := a[len(a)-1]
		// leaves of the phi web feeding the argument, with the block each one arrives from
		type leaf struct {
			v   ssa.Value
			blk *ssa.BasicBlock
		}
		var leaves []leaf
		seen := map[ssa.Value]bool{}
		var walk func(v ssa.Value, from *ssa.BasicBlock)
		walk = func(v ssa.Value, from *ssa.BasicBlock) {
			v = strip(v)
			if p, ok := v.(*ssa.Phi); ok {
				if seen[p] {
					return
				}
				seen[p] = true
				for i, e := range p.Edges {
					walk(e, p.Block().Preds[i])
				}
				return
			}
			leaves = append(leaves, leaf{v, from})
		}
		walk(arg, call.Block())
		ok := true
		why := ""
		nz := 0
		for _, l := range leaves {
			if IsConstInt(0)(l.v) {
				continue
			}
			nz++
			if !underGuard(l.blk) {
				ok = false
				why = "the value " + describe(l.v) + " reaches the call on a path that does not go through the true edge of ct.catchpointEnabled()"
			}
		}
		c.Check(ok, rule, name+":UpdateAccountsHashRound(non-zero)<=ct.catchpointEnabled()", c.Pos(call.Pos()), itoa(len(leaves))+" value(s) feed the persisted hash round, "+itoa(nz)+" of them non-zero"+func() string {
			if why != "" {
				return "; " + why
			}
			return ""
		}())
		c.Check(nz > 0, rule, name+":UpdateAccountsHashRound(new base) when enabled", c.Pos(call.Pos()), "with tracking enabled a non-zero round is recorded")
	}
}

func ruleChildrenSlicesNotShared(c *Ctx) {
	const rule = "R17.5"
	fChildren := c.Field("crypto/merkletrie.node.children")
	n := 0
	for _, fn := range c.funcsOf(Mod + "/crypto/merkletrie") {
		for _, f := range withAnon(fn) {
			for _, b := range f.Blocks {
				for _, in := range b.Instrs {
					st, ok := in.(*ssa.Store)
					if !ok {
						continue
					}
					fa, ok := st.Addr.(*ssa.FieldAddr)
					if !ok || structField(fa.X.Type(), fa.Field) != fChildren {
						continue
					}
					n++
					okv, why := freshOrOwnSlice(st.Val, fa.X, fChildren, map[ssa.Value]bool{})
					c.Check(okv, rule, fnName(f)+":node.children = fresh or own slice", c.Pos(st.Pos()), "the stored slice is nil, freshly made, or a re-slice of the same node's children"+func() string {
						if why != "" {
							return "; here: " + why
						}
						return ""
					}())
				}
			}
		}
	}
	if n == 0 {
		c.Unk(rule, "crypto/merkletrie.node.children:stores", "-", "no store to node.children found")
	}
}

// freshOrOwnSlice: v is nil, make(...), a slice of a local array (composite
// literal), or a re-slice of owner.children.
func freshOrOwnSlice(v ssa.Value, owner ssa.Value, fChildren interface{}, seen map[ssa.Value]bool) (bool, string) {
	v = strip(v)
	if seen[v] {
		return true, ""
	}
	seen[v] = true
	switch x := v.(type) {
	case *ssa.Const:
		if x.IsNil() {
			return true, ""
		}
	case *ssa.MakeSlice:
		return true, ""
	case *ssa.Phi:
		for _, e := range x.Edges {
			if ok, why := freshOrOwnSlice(e, owner, fChildren, seen); !ok {
				return false, why
			}
		}
		return true, ""
	case *ssa.Slice:
		base := strip(x.X)
		if al, ok := base.(*ssa.Alloc); ok && al.Heap {
			return true, "" // []T{...}: a new array
		}
		if ld, ok := base.(*ssa.UnOp); ok {
			if fa, ok := ld.X.(*ssa.FieldAddr); ok && structField(fa.X.Type(), fa.Field) == fChildren && sameNodeValue(fa.X, owner) {
				return true, ""
			}
		}
		return false, "a slice of " + describe(base) + ", which is not this node's own children"
	case *ssa.Call:
		if cc, ok := isBuiltinCall(x, "append"); ok {
			// append(nil, xs...), append(make(...), xs...) and append(own, x) allocate or stay in the node's own array
			if ok2, _ := freshOrOwnSlice(cc.Args[0], owner, fChildren, seen); ok2 {
				return true, ""
			}
			return false, "append(" + describe(cc.Args[0]) + ", …) reuses the first argument's backing array whenever it has spare capacity"
		}
	}
	return false, "value of unrecognised origin: " + describe(v)
}

// sameNodeValue: the two SSA values denote the same node pointer (same value,
// or loads of the same local variable with no store in between being required
// is NOT attempted: only identical values and loads from the same alloc count).
func sameNodeValue(a, b ssa.Value) bool {
	a, b = strip(a), strip(b)
	if a == b {
		return true
	}
	la, ok1 := a.(*ssa.UnOp)
	lb, ok2 := b.(*ssa.UnOp)
	if ok1 && ok2 {
		if x, ok := la.X.(*ssa.Alloc); ok && la.X == lb.X && !x.Heap {
			return true
		}
	}
	return false
}
