package main

import (
	"go/token"
	"go/types"

	"golang.org/x/tools/go/ssa"
)

func init() {
	register(&Prop{
		ID:       "C30",
		Patterns: []string{"./catchup"},
		Run:      runC30,
		Explanation: "Decides, for the block-by-block catchup service (catchup.Service), the guard/dataflow chain that makes 'only authenticated blocks are appended, in round order' true in the shape of the code: " +
			"R30.1 in Service.fetchAndWrite every Ledger.AddBlock/AddValidatedBlock call is unreachable from the innerFetch call that produced the block unless (a) Block.ContentsMatchHeader() of THAT block was true — only bypass: s.cfg.CatchupVerifyPaysetHash()==false — and (b) s.auth.Authenticate(block, cert) of THAT block and THAT certificate returned nil — only bypass: s.cfg.CatchupVerifyCertificate()==false; and is unreachable from the function entry without having received from the prevFetchCompleteChan parameter (select case or plain receive); " +
			"R30.2 the block and certificate handed to AddBlock are exactly *blk and *cert of one innerFetch call, and for AddValidatedBlock the validated block is the result of Ledger.Validate applied to *blk of the same call (the checked values are the written values); " +
			"R30.3 within package catchup the ledger-appending methods (AddBlock, AddValidatedBlock, EnsureBlock of catchup.Ledger) are called only by fetchAndWrite and fetchRound, and the fetchRound site (block requested by agreement for a certificate it already holds) is reachable only when the fetched block's Hash() equals the digest of the caller's certificate and ContentsMatchHeader() is true, and it passes the caller's certificate, not the peer's; " +
			"R30.4 ordering: fetchAndWrite is called only from pipelinedFetch, with prevFetchCompleteChan = s.ledger.WaitMem(r-1) for the same SSA value r that is passed as the round, and fetchAndWrite requests exactly its round parameter from innerFetch; " +
			"R30.5 the fetched pair really is for the requested round: processBlockBytes returns a nil error only when decoded Block.Round()==r and Certificate.Round==r and returns pointers into that same decoded entry; universalBlockFetcher.fetchBlock and Service.innerFetch pass their round parameter down unchanged and return the callee's block/cert unchanged; " +
			"R30.6 agreement.Certificate.Authenticate returns nil only when Step==cert, claimsToAuthenticate(block)==nil and bundle verification returned nil, and claimsToAuthenticate returns nil only when cert.Round==block.Round() and cert.Proposal.BlockDigest==block.Digest(); in the thorough tier also that node.blockAuthenticatorImpl.Authenticate returns cert.Authenticate(*block, …) of its own arguments. " +
			"Does NOT decide: the cryptographic verification of the certificate's votes (bundle verify, see C04), the ledger's own round-sequencing check, the semantic meaning of WaitMem, nor the catchpoint (fast) catchup service, which stores blocks backwards by hash-chaining from a catchpoint label and is outside this property's 'in round order' statement.",
		Assumptions: []string{
			"Ledger.WaitMem(r) yields a channel that is closed only once round r is in the ledger",
			"the BlockAuthenticator installed by the node is node.blockAuthenticatorImpl (checked in the thorough tier only)",
			"blocks/certificates are not mutated through aliases between check and write (the fetched pointers are not shared with other goroutines)",
		},
		Floor: map[string]int{"R30.1": 6, "R30.2": 4, "R30.3": 7, "R30.4": 5, "R30.5": 7, "R30.6": 5},
	})
}

func runC30(c *Ctx) {
	faw := c.Fn("catchup.Service.fetchAndWrite")
	innerFetch := c.Func("catchup.Service.innerFetch")
	addBlock := c.Func("catchup.Ledger.AddBlock")
	addValidated := c.Func("catchup.Ledger.AddValidatedBlock")
	ensureBlock := c.Func("catchup.Ledger.EnsureBlock")
	validate := c.Func("catchup.Ledger.Validate")
	waitMem := c.Func("catchup.Ledger.WaitMem")
	contents := c.Func("data/bookkeeping.Block.ContentsMatchHeader")
	authenticate := c.Func("catchup.BlockAuthenticator.Authenticate")
	fCfg := c.Field("catchup.Service.cfg")
	fAuth := c.Field("catchup.Service.auth")
	fLedger := c.Field("catchup.Service.ledger")
	verifyPayset := c.Func("config.Local.CatchupVerifyPaysetHash")
	verifyCert := c.Func("config.Local.CatchupVerifyCertificate")

	// guard builders, parametrised by the fetched values they must speak about
	gContents := func(blk ssa.Value) Guard {
		return GBool("block.ContentsMatchHeader()", func(v ssa.Value) bool {
			call, ok := fIsCallTo(strip(v), contents)
			if !ok {
				return false
			}
			a := callArgs(call.Common())
			return len(a) > 0 && fRoot(a[0]) == blk
		}, true)
	}
	cfgFlag := func(name string, f *types.Func, want bool) Guard {
		return GBool(name, func(v ssa.Value) bool {
			call, ok := fIsCallTo(strip(v), f)
			if !ok {
				return false
			}
			a := callArgs(call.Common())
			return len(a) > 0 && Mentions(a[0], fCfg, 4)
		}, want)
	}

	// ---- R30.1 / R30.2: the ledger writes of fetchAndWrite ----
	writes := fCallsIn(faw, addBlock, addValidated)
	if len(writes) == 0 {
		c.Unk("R30.1", "catchup.Service.fetchAndWrite:ledger-write", c.Pos(faw.Pos()), "no AddBlock/AddValidatedBlock call found in fetchAndWrite")
	}
	for _, w := range writes {
		callee := calleeOf(w.Common())
		wname := "ledger." + callee.Name()
		site := "catchup.Service.fetchAndWrite:" + wname
		a := callArgs(w.Common()) // ledger, block|vb, cert
		if len(a) != 3 || !Mentions(a[0], fLedger, 4) {
			c.Unk("R30.2", site+":args", c.Pos(w.Pos()), "unexpected shape of the ledger write call")
			continue
		}
		// which fetch produced the certificate / the block?
		certPtr, okc := fDeref(a[2])
		var fetch *ssa.Call
		if okc {
			if call, idx := fCallOf(certPtr); call != nil && idx == 1 && sameFunc(calleeOf(call.Common()), innerFetch) {
				fetch = call
			}
		}
		if fetch == nil {
			c.Bad("R30.2", site+":cert<-innerFetch", c.Pos(w.Pos()), "the certificate written with "+wname+" is not *cert of an innerFetch call in this function: "+describe(a[2]))
			continue
		}
		c.Ok("R30.2", site+":cert<-innerFetch", c.Pos(w.Pos()), "certificate argument is *cert (result #1) of the innerFetch call")
		var blkVal ssa.Value
		for _, r := range *fetch.Referrers() {
			if e, ok := r.(*ssa.Extract); ok && e.Index == 0 {
				blkVal = e
			}
		}
		var certVal ssa.Value = certPtr
		okBlock := false
		detail := ""
		if sameFunc(callee, addBlock) {
			p, ok := fDeref(a[1])
			okBlock = ok && blkVal != nil && p == blkVal
			detail = "block argument is *blk (result #0) of the same innerFetch call"
		} else {
			// *vb where vb, err = s.ledger.Validate(ctx, *blk, pool)
			p, ok := fDeref(a[1])
			if ok {
				if vcall, idx := fCallOf(p); vcall != nil && idx == 0 && sameFunc(calleeOf(vcall.Common()), validate) {
					va := callArgs(vcall.Common())
					if len(va) == 4 {
						q, ok2 := fDeref(va[2])
						okBlock = ok2 && blkVal != nil && q == blkVal
					}
				}
			}
			detail = "validated block is result #0 of Ledger.Validate(*blk) with blk (result #0) of the same innerFetch call"
		}
		if !c.Check(okBlock, "R30.2", site+":block<-innerFetch", c.Pos(w.Pos()), detail) {
			continue
		}

		eff := []ssa.Instruction{w}
		c.fMustGuard(fGuardSpec{Rule: "R30.1", Fn: faw, From: fetch, FromName: "the innerFetch call", Effects: eff, EffName: wname,
			Guard:  gContents(blkVal),
			Bypass: []Guard{cfgFlag("!s.cfg.CatchupVerifyPaysetHash()", verifyPayset, false)}})
		gAuth := GErrNil("s.auth.Authenticate(block,cert)==nil", func(v ssa.Value) bool {
			call, _ := fCallOf(v)
			if call == nil || !sameFunc(calleeOf(call.Common()), authenticate) {
				return false
			}
			aa := callArgs(call.Common())
			return len(aa) == 3 && Mentions(aa[0], fAuth, 4) && fLocal(strip(aa[1])) == blkVal && fLocal(strip(aa[2])) == certVal
		})
		c.fMustGuard(fGuardSpec{Rule: "R30.1", Fn: faw, From: fetch, FromName: "the innerFetch call", Effects: eff, EffName: wname,
			Guard:  gAuth,
			Bypass: []Guard{cfgFlag("!s.cfg.CatchupVerifyCertificate()", verifyCert, false)}})

		// ordered write: a receive from the prevFetchCompleteChan parameter
		prev := fParamAt(faw, 2)
		construct := site + "<=recv(prevFetchCompleteChan)"
		if prev == nil || !fIsChan(prev.Type()) {
			c.Unk("R30.1", construct, c.Pos(faw.Pos()), "third parameter of fetchAndWrite is not a channel any more")
			continue
		}
		edges, recvs, n := fRecvWaits(faw, func(v ssa.Value) bool { return fIsParam(v, prev) })
		if n == 0 {
			c.Bad("R30.1", construct, c.Pos(w.Pos()), "fetchAndWrite never receives from its prevFetchCompleteChan parameter: the write is not ordered after the previous round")
			continue
		}
		r := fReachFrom(faw, nil, edges, func(in ssa.Instruction) bool { return recvs[in] })
		if r.Reaches(w) && !recvs[w] {
			c.Bad("R30.1", construct, c.Pos(w.Pos()), wname+" is reachable without having received from prevFetchCompleteChan; path: "+r.PathTo(c.Program, w))
		} else {
			c.Ok("R30.1", construct, c.Pos(w.Pos()), wname+" is reachable only through a receive from the prevFetchCompleteChan parameter")
		}
	}

	// ---- R30.3: who appends blocks in package catchup; the fetchRound site ----
	c.OwnerRule("R30.3", "call(catchup.Ledger.AddBlock/AddValidatedBlock/EnsureBlock)",
		c.Uses([]*types.Func{addBlock, addValidated, ensureBlock}, ScanOpts{SkipGenerated: true, OnlyPkgs: []string{"catchup/..."}}),
		map[string]string{
			"catchup.Service.fetchAndWrite": "pipelined catchup, guarded by R30.1",
			"catchup.Service.fetchRound":    "block for a certificate agreement already holds, guarded below",
		})
	// concrete ledger writers must not be reached around the interface
	{
		var conc []*types.Func
		for _, spec := range []string{"ledger.Ledger.AddBlock", "ledger.Ledger.AddValidatedBlock", "data.Ledger.EnsureBlock", "data.Ledger.EnsureValidatedBlock"} {
			if f, ok := c.TryObj(spec).(*types.Func); ok {
				conc = append(conc, f)
			}
		}
		if len(conc) > 0 {
			sites := c.Uses(conc, ScanOpts{SkipGenerated: true, OnlyPkgs: []string{"catchup/..."}})
			c.OwnerRule("R30.3", "call(concrete ledger append)", sites, map[string]string{})
			c.Ok("R30.3", "catchup:no-direct-ledger-append", "-", itoa(len(conc))+" concrete ledger append methods resolved; "+itoa(len(sites))+" direct uses in package catchup")
		}
	}
	{
		fr := c.Fn("catchup.Service.fetchRound")
		certParam := fParamAt(fr, 0)
		fDigest := c.Field("agreement.proposalValue.BlockDigest")
		hashFns := []*types.Func{c.Func("data/bookkeeping.BlockHeader.Hash")}
		if f, ok := c.TryObj("data/bookkeeping.Block.Hash").(*types.Func); ok {
			hashFns = append(hashFns, f)
		}
		ens := fCallsIn(fr, ensureBlock)
		if len(ens) == 0 {
			c.Unk("R30.3", "catchup.Service.fetchRound:EnsureBlock", c.Pos(fr.Pos()), "no EnsureBlock call found in fetchRound")
		}
		for _, e := range ens {
			site := "catchup.Service.fetchRound:ledger.EnsureBlock"
			a := callArgs(e.Common()) // ledger, block, cert
			if len(a) != 3 || certParam == nil {
				c.Unk("R30.3", site+":args", c.Pos(e.Pos()), "unexpected shape of EnsureBlock call")
				continue
			}
			blk := fLocal(strip(a[1]))
			fetch, idx := fCallOf(blk)
			if !c.Check(fetch != nil && idx == 0 && sameFunc(calleeOf(fetch.Common()), innerFetch), "R30.3", site+":block<-innerFetch", c.Pos(e.Pos()), "the block ensured is blk (result #0) of an innerFetch call") {
				continue
			}
			c.Check(fIsParam(a[2], certParam), "R30.3", site+":cert=caller's certificate", c.Pos(e.Pos()), "the certificate stored with the block is fetchRound's own (agreement-verified) cert parameter, not the one returned by the peer")
			gHash := GCmp("block.Hash()==cert.Proposal.BlockDigest", token.EQL,
				func(v ssa.Value) bool {
					call, ok := fIsCallTo(strip(v), hashFns...)
					if !ok {
						return false
					}
					ca := callArgs(call.Common())
					return len(ca) > 0 && fRoot(ca[0]) == blk
				},
				func(v ssa.Value) bool {
					return Mentions(v, fDigest, 6) && fRoot(v) == ssa.Value(certParam) && !fMentionsValue(v, fetch, 8)
				})
			c.fMustGuard(fGuardSpec{Rule: "R30.3", Fn: fr, From: fetch, FromName: "the innerFetch call", Effects: []ssa.Instruction{e}, EffName: "ledger.EnsureBlock", Guard: gHash})
			c.fMustGuard(fGuardSpec{Rule: "R30.3", Fn: fr, From: fetch, FromName: "the innerFetch call", Effects: []ssa.Instruction{e}, EffName: "ledger.EnsureBlock", Guard: gContents(blk)})
		}
	}

	// ---- R30.4: ordering is wired to the ledger's own progress ----
	{
		fawObj := c.Func("catchup.Service.fetchAndWrite")
		c.OwnerRule("R30.4", "call(Service.fetchAndWrite)", c.Uses([]*types.Func{fawObj}, ScanOpts{SkipGenerated: true}),
			map[string]string{"catchup.Service.pipelinedFetch": "one goroutine per round"})
		c.OwnerRule("R30.4", "call(Service.innerFetch)", c.Uses([]*types.Func{innerFetch}, ScanOpts{SkipGenerated: true}),
			map[string]string{"catchup.Service.fetchAndWrite": "pipelined catchup", "catchup.Service.fetchRound": "single round for a held certificate"})
		n := 0
		for _, fn := range c.funcsOf(Mod + "/catchup") {
			for _, call := range CallsTo(fn, false, fawObj) {
				n++
				site := fnName(fn) + ":fetchAndWrite(r, prev)"
				a := call.Common().Args // s, ctx, r, prev, lookback, ps
				ok := false
				detail := "prevFetchCompleteChan is not the result of s.ledger.WaitMem(r-1): " + describe(a[3])
				if wm, idx := fCallOf(a[3]); wm != nil && idx == 0 && sameFunc(calleeOf(wm.Common()), waitMem) {
					wa := callArgs(wm.Common())
					if len(wa) == 2 && Mentions(wa[0], fLedger, 5) {
						if bo, isBo := strip(wa[1]).(*ssa.BinOp); isBo && bo.Op == token.SUB && IsConstInt(1)(bo.Y) && strip(bo.X) == strip(a[2]) {
							if _, isLoad := strip(a[2]).(*ssa.UnOp); !isLoad {
								ok = true
								detail = "prevFetchCompleteChan = s.ledger.WaitMem(r-1) for the same value r passed as the round"
							} else {
								detail = "the round is re-read from a variable (possibly shared/captured) instead of being one value"
							}
						} else {
							detail = "WaitMem argument is not (round argument)-1: " + describe(wa[1])
						}
					}
				}
				c.Check(ok, "R30.4", site, c.Pos(call.Pos()), detail)
			}
		}
		if n == 0 {
			c.Unk("R30.4", "catchup:fetchAndWrite-call", "-", "no SSA call of fetchAndWrite found")
		}
		// fetchAndWrite fetches its own round
		rParam := fParamAt(faw, 1)
		for _, call := range fCallsIn(faw, innerFetch) {
			a := call.Common().Args // s, ctx, r, peer
			c.Check(len(a) == 4 && fIsParam(a[2], rParam), "R30.4", "catchup.Service.fetchAndWrite:innerFetch(r)", c.Pos(call.Pos()), "fetchAndWrite requests exactly its round parameter")
		}
	}

	// ---- R30.5: the fetched pair is for the requested round ----
	{
		pbb := c.Fn("catchup.processBlockBytes")
		rP := fParamAt(pbb, 1)
		blockRound := c.Func("data/bookkeeping.Block.Round")
		fEntBlock := c.Field("rpcs.EncodedBlockCert.Block")
		fEntCert := c.Field("rpcs.EncodedBlockCert.Certificate")
		fRound := c.Field("agreement.unauthenticatedBundle.Round")
		fHdrRound := c.Field("data/bookkeeping.BlockHeader.Round")
		succ := SuccessReturns(pbb)
		isR := func(v ssa.Value) bool { return fIsParam(v, rP) }
		var entry ssa.Value
		okRet := len(succ) > 0
		for _, s := range succ {
			ret := s.(*ssa.Return)
			b, okb := fLocal(ret.Results[0]).(*ssa.FieldAddr)
			ct, okc := fLocal(ret.Results[1]).(*ssa.FieldAddr)
			if !okb || !okc || structField(b.X.Type(), b.Field) != fEntBlock || structField(ct.X.Type(), ct.Field) != fEntCert || b.X != ct.X {
				okRet = false
				continue
			}
			if entry == nil {
				entry = b.X
			} else if entry != b.X {
				okRet = false
			}
		}
		c.Check(okRet, "R30.5", "catchup.processBlockBytes:returns(&entry.Block,&entry.Certificate)", c.Pos(pbb.Pos()), "every success return yields the Block and Certificate of one decoded EncodedBlockCert")
		if okRet {
			gB := GCmp("entry.Block.Round()==r", token.EQL, func(v ssa.Value) bool {
				v = strip(v)
				if call, ok := fIsCallTo(v, blockRound); ok {
					ca := callArgs(call.Common())
					return len(ca) > 0 && fRoot(ca[0]) == entry && Mentions(ca[0], fEntBlock, 4)
				}
				return Mentions(v, fHdrRound, 3) && Mentions(v, fEntBlock, 6) && fRoot(v) == entry
			}, isR)
			gC := GCmp("entry.Certificate.Round==r", token.EQL, func(v ssa.Value) bool {
				return Mentions(v, fRound, 3) && Mentions(v, fEntCert, 5) && fRoot(v) == entry
			}, isR)
			c.fMustGuard(fGuardSpec{Rule: "R30.5", Fn: pbb, Effects: succ, EffName: "return(nil error)", Guard: gB})
			c.fMustGuard(fGuardSpec{Rule: "R30.5", Fn: pbb, Effects: succ, EffName: "return(nil error)", Guard: gC})
		}

		// pass-through summaries: callee(round param) and returned (blk, cert) are the callee's
		passThrough := func(spec string, roundParam int, calleeSpec string, calleeRoundArg int) {
			fn := c.Fn(spec)
			callee := c.Func(calleeSpec)
			rp := fParamAt(fn, roundParam)
			calls := fCallsIn(fn, callee)
			if len(calls) != 1 {
				c.Unk("R30.5", spec+":"+callee.Name(), c.Pos(fn.Pos()), "expected exactly one call to "+callee.Name()+", found "+itoa(len(calls)))
				return
			}
			call := calls[0]
			a := call.Common().Args
			c.Check(calleeRoundArg < len(a) && fIsParam(a[calleeRoundArg], rp), "R30.5", spec+":"+callee.Name()+"(round)", c.Pos(call.Pos()), "the round requested from "+callee.Name()+" is this function's round parameter")
			ok := true
			n := 0
			for _, ret := range fReturnsOf(fn) {
				for idx := 0; idx < 2; idx++ {
					if !fResultFrom(ret.Results[idx], call, idx) {
						ok = false
					}
				}
				n++
			}
			c.Check(ok && n > 0, "R30.5", spec+":returns("+callee.Name()+" blk,cert)", c.Pos(fn.Pos()), "every return yields nil or the block (result #0) and certificate (result #1) of that call, unswapped")
		}
		passThrough("catchup.universalBlockFetcher.fetchBlock", 1, "catchup.processBlockBytes", 1)
		passThrough("catchup.Service.innerFetch", 1, "catchup.universalBlockFetcher.fetchBlock", 2)
	}

	// ---- R30.6: what Authenticate means ----
	{
		au := c.Fn("agreement.Certificate.Authenticate")
		claims := c.Func("agreement.Certificate.claimsToAuthenticate")
		verify := c.Func("agreement.unauthenticatedBundle.verify")
		fStep := c.Field("agreement.unauthenticatedBundle.Step")
		kCert := c.Const("agreement.cert")
		eParam := fParamAt(au, 0)
		succ := fSuccessReturns(au)
		gStep := GCmp("c.Step==cert", token.EQL, func(v ssa.Value) bool { return Mentions(v, fStep, 4) }, func(v ssa.Value) bool { return valueIs(strip(v), kCert) })
		c.fMustGuard(fGuardSpec{Rule: "R30.6", Fn: au, Effects: succ, EffName: "return(nil error)", Guard: gStep})
		c.fNilOnlyIf("R30.6", au, "c.claimsToAuthenticate(e)==nil", func(v ssa.Value) bool {
			call, _ := fCallOf(v)
			if call == nil || !sameFunc(calleeOf(call.Common()), claims) {
				return false
			}
			a := call.Common().Args
			return len(a) == 2 && fIsParam(a[1], eParam)
		})
		c.fNilOnlyIf("R30.6", au, "unauthenticatedBundle(c).verify(...)==nil", func(v ssa.Value) bool {
			call, idx := fCallOf(v)
			if call == nil || idx != 1 || !sameFunc(calleeOf(call.Common()), verify) {
				return false
			}
			a := call.Common().Args
			return len(a) > 0 && fRoot(a[0]) == ssa.Value(au.Params[0])
		})
		cl := c.Fn("agreement.Certificate.claimsToAuthenticate")
		blkP := fParamAt(cl, 0)
		fRound := c.Field("agreement.unauthenticatedBundle.Round")
		fDigest := c.Field("agreement.proposalValue.BlockDigest")
		blockRound := c.Func("data/bookkeeping.Block.Round")
		blockDigest := c.Func("data/bookkeeping.Block.Digest")
		onParam := func(f *types.Func) VM {
			return func(v ssa.Value) bool {
				call, ok := fIsCallTo(strip(v), f)
				if !ok {
					return false
				}
				a := callArgs(call.Common())
				return len(a) > 0 && fIsParam(a[0], blkP)
			}
		}
		cs := fSuccessReturns(cl)
		c.fMustGuard(fGuardSpec{Rule: "R30.6", Fn: cl, Effects: cs, EffName: "return(nil)", Guard: GCmp("c.Round==e.Round()", token.EQL, func(v ssa.Value) bool { return Mentions(v, fRound, 4) }, onParam(blockRound))})
		c.fMustGuard(fGuardSpec{Rule: "R30.6", Fn: cl, Effects: cs, EffName: "return(nil)", Guard: GCmp("c.Proposal.BlockDigest==e.Digest()", token.EQL, func(v ssa.Value) bool { return Mentions(v, fDigest, 5) }, onParam(blockDigest))})

		if c.HasPkg("node") {
			if impl, ok := c.TryObj("node.blockAuthenticatorImpl.Authenticate").(*types.Func); ok {
				fn := c.SSAOf(impl)
				certAuth := c.Func("agreement.Certificate.Authenticate")
				okImpl := fn != nil
				if fn != nil {
					bP, cP := fParamAt(fn, 0), fParamAt(fn, 1)
					rets := fReturnsOf(fn)
					okImpl = len(rets) > 0
					for _, ret := range rets {
						call, _ := fCallOf(ret.Results[0])
						if call == nil || !sameFunc(calleeOf(call.Common()), certAuth) {
							okImpl = false
							continue
						}
						a := call.Common().Args // cert value, block value, ledger, avv
						p0, ok0 := fDeref(a[0])
						p1, ok1 := fDeref(a[1])
						if !ok0 || !ok1 || !fIsParam(p0, cP) || !fIsParam(p1, bP) {
							okImpl = false
						}
					}
				}
				c.Check(okImpl, "R30.6", "node.blockAuthenticatorImpl.Authenticate:returns(cert.Authenticate(*block))", c.Pos(impl.Pos()), "the node's BlockAuthenticator returns Certificate.Authenticate of its own certificate and block arguments")
			} else {
				c.Unk("R30.6", "node.blockAuthenticatorImpl.Authenticate", "-", "the node's BlockAuthenticator implementation no longer resolves")
			}
		}
	}
}

// fResultFrom: a returned value is nil or result idx of call, on every store
// into the (named-result) local it is read from.
func fResultFrom(v ssa.Value, call *ssa.Call, idx int) bool {
	v = strip(v)
	isOK := func(x ssa.Value) bool {
		x = strip(x)
		if IsNil(x) {
			return true
		}
		e, ok := x.(*ssa.Extract)
		return ok && e.Tuple == ssa.Value(call) && e.Index == idx
	}
	if isOK(v) {
		return true
	}
	switch x := v.(type) {
	case *ssa.UnOp:
		if a, ok := x.X.(*ssa.Alloc); ok && x.Op == token.MUL {
			st := localStores(a)
			if len(st) == 0 {
				return true // zero value: nil
			}
			for _, s := range st {
				if !isOK(s) {
					return false
				}
			}
			return true
		}
	case *ssa.Phi:
		for _, e := range x.Edges {
			if !isOK(e) {
				return false
			}
		}
		return len(x.Edges) > 0
	}
	return false
}

func fIsChan(t types.Type) bool {
	_, ok := t.Underlying().(*types.Chan)
	return ok
}

// mentionsValue reports whether the definition tree of v contains the SSA value x.
func fMentionsValue(v ssa.Value, x ssa.Value, depth int) bool {
	found := false
	walkDef(v, depth, func(y ssa.Value) bool {
		if y == x {
			found = true
		}
		return !found
	})
	return found
}
