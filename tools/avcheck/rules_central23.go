package main

import (
	"go/token"
	"go/types"

	"golang.org/x/tools/go/ssa"
)

// R10.5 (after seed C10-2): the listing functions merge in-memory entries into
// a page with an early exit "page full and this id exceeds the largest id in
// the page". The running maximum is shared by consecutive merge loops; a later
// loop may only rely on it if every earlier loop that appended to the page kept
// it up to date. In SSA terms: the value with which a later loop's running
// maximum starts must not predate an earlier loop that appends to the page.
func init() {
	extend("C10", Extension{
		Run:         ruleRunningMaxCoversEarlierAppends,
		Explanation: "R10.5 (early exit of the page merge uses an up-to-date maximum): in lookupAssetResources and lookupApplicationResources, for every loop whose early exit compares the current id with a loop-carried running maximum, the value that maximum starts from is not older than any earlier loop that appends entries to the result page (it is that loop's own loop-carried value, updated next to its appends) — a stale maximum makes the later loop stop before inserting a smaller id, which the sort-and-truncate would have kept, so that id is skipped by the cursor and never listed.",
		Floor:       map[string]int{"R10.5": 2},
	})
}

type natLoop struct {
	header *ssa.BasicBlock
	blocks map[*ssa.BasicBlock]bool
}

func naturalLoops(fn *ssa.Function) []*natLoop {
	byHeader := map[*ssa.BasicBlock]*natLoop{}
	for _, b := range fn.Blocks {
		for _, s := range b.Succs {
			if s.Dominates(b) { // back edge b -> s
				l := byHeader[s]
				if l == nil {
					l = &natLoop{header: s, blocks: map[*ssa.BasicBlock]bool{s: true}}
					byHeader[s] = l
				}
				// add everything that reaches b without passing through s
				work := []*ssa.BasicBlock{b}
				for len(work) > 0 {
					x := work[0]
					work = work[1:]
					if l.blocks[x] {
						continue
					}
					l.blocks[x] = true
					work = append(work, x.Preds...)
				}
			}
		}
	}
	var out []*natLoop
	for _, b := range fn.Blocks {
		if l := byHeader[b]; l != nil {
			out = append(out, l)
		}
	}
	return out
}

func ruleRunningMaxCoversEarlierAppends(c *Ctx) {
	const rule = "R10.5"
	for _, spec := range []string{"ledger.accountUpdates.lookupAssetResources", "ledger.accountUpdates.lookupApplicationResources"} {
		fn := c.Fn(spec)
		if fn.Signature.Results().Len() == 0 {
			c.Unk(rule, spec, c.Pos(fn.Pos()), "unexpected signature")
			continue
		}
		pageType := fn.Signature.Results().At(0).Type()
		loops := naturalLoops(fn)
		// loops that append to the page
		appends := map[*natLoop]bool{}
		for _, l := range loops {
			for b := range l.blocks {
				for _, in := range b.Instrs {
					if cc, ok := isBuiltinCall(in, "append"); ok && len(cc.Args) > 0 && types.Identical(cc.Args[0].Type(), pageType) {
						appends[l] = true
					}
				}
			}
		}
		nChecked := 0
		ok := true
		why := ""
		for _, l2 := range loops {
			// running maxima: integer phis of the header used in an ordering comparison inside the loop
			for _, in := range l2.header.Instrs {
				p, isPhi := in.(*ssa.Phi)
				if !isPhi {
					break
				}
				if bt, isB := p.Type().Underlying().(*types.Basic); !isB || bt.Info()&types.IsInteger == 0 {
					continue
				}
				if _, isNamed := p.Type().(*types.Named); !isNamed {
					continue // loop counters are plain ints; ids are named types
				}
				usedInCmp := false
				for _, r := range *p.Referrers() {
					if bo, isBo := r.(*ssa.BinOp); isBo && l2.blocks[bo.Block()] {
						switch bo.Op {
						case token.GTR, token.LSS, token.GEQ, token.LEQ:
							usedInCmp = true
						}
					}
				}
				if !usedInCmp {
					continue
				}
				// entry value(s): incoming edges from outside the loop
				for i, e := range p.Edges {
					if l2.blocks[l2.header.Preds[i]] {
						continue
					}
					ev, isInstr := e.(ssa.Instruction)
					if !isInstr {
						continue
					}
					for _, l1 := range loops {
						if l1 == l2 || !appends[l1] || l1.blocks[l2.header] || !l1.header.Dominates(l2.header) {
							continue
						}
						nChecked++
						// stale if the entry value was computed before l1 started
						if ev.Block() != l1.header && ev.Block().Dominates(l1.header) {
							ok = false
							why = "the running maximum a later merge loop starts from (" + describe(e) + ") was computed before an earlier loop that appends to the page"
						}
					}
				}
			}
		}
		if spec == "ledger.accountUpdates.lookupApplicationResources" && nChecked == 0 {
			c.Unk(rule, spec+":running maximum across merge loops", c.Pos(fn.Pos()), "no later merge loop with a loop-carried running maximum following an appending loop was recognised")
			continue
		}
		c.Check(ok, rule, spec+":running maximum covers earlier appends", c.Pos(fn.Pos()), itoa(nChecked)+" (earlier appending loop, later early-exit loop) pair(s) examined"+func() string {
			if why != "" {
				return "; " + why
			}
			return ""
		}())
	}
}
