package main

// Helpers of contributor B (ledger trackers: C08, C09, C10, C11, C13).
// Every name is prefixed with b/B to avoid collisions with other rule files.

import (
	"fmt"
	"go/token"
	"go/types"
	"sort"
	"strings"

	"golang.org/x/tools/go/ssa"
)

// ---------- small value helpers ----------

// bCanon follows loads of locals to the nearest reaching store (same block /
// single-predecessor chain), repeatedly, and strips conversions.
func bCanon(v ssa.Value) ssa.Value {
	for i := 0; i < 6; i++ {
		w := bStripConv(v)
		r := resolveLocal(w, nil)
		if r == w {
			return w
		}
		v = r
	}
	return bStripConv(v)
}

// bStripConv removes value-preserving conversions but keeps interface boxing
// (a boxed pointer is a non-nil interface whatever the pointer is).
func bStripConv(v ssa.Value) ssa.Value {
	for {
		switch x := v.(type) {
		case *ssa.ChangeType:
			v = x.X
		case *ssa.Convert:
			v = x.X
		default:
			return v
		}
	}
}

// bCalleeKeepsField reports whether the static callee of call, which receives
// pointer p as argument #argIdx, can be seen not to write field through it:
// the parameter is only dereferenced as a whole, or addressed by field, and
// the address of field (if taken) is only loaded.
func bCalleeKeepsField(call ssa.CallInstruction, argIdx int, field *types.Var, depth int) bool {
	callee := call.Common().StaticCallee()
	if callee == nil || callee.Blocks == nil || argIdx >= len(callee.Params) || depth > 2 {
		return false
	}
	return bPtrKeepsField(callee.Params[argIdx], field, depth)
}

// bPtrKeepsField: every use of pointer p (to a struct having field) leaves
// field unwritten.
func bPtrKeepsField(p ssa.Value, field *types.Var, depth int) bool {
	for _, r := range *p.Referrers() {
		switch x := r.(type) {
		case *ssa.UnOp:
			if x.Op != token.MUL {
				return false
			}
		case *ssa.DebugRef:
		case *ssa.Store:
			// storing the pointer itself somewhere lets others write; a store
			// *through* p overwrites the whole struct including field
			return false
		case *ssa.FieldAddr:
			if x.X != p {
				return false
			}
			if field != nil && structField(x.X.Type(), x.Field) == field {
				for _, rr := range *x.Referrers() {
					switch y := rr.(type) {
					case *ssa.UnOp:
						if y.Op != token.MUL {
							return false
						}
					case *ssa.DebugRef:
					default:
						return false
					}
				}
			}
			// addresses of other fields cannot reach field
		case ssa.CallInstruction:
			cc := x.Common()
			ok := false
			for i, a := range callArgs(cc) {
				if a == p {
					if cc.IsInvoke() {
						return false
					}
					if !bCalleeKeepsField(x, i, field, depth+1) {
						return false
					}
					ok = true
				}
			}
			if !ok {
				return false
			}
		default:
			return false
		}
	}
	return true
}

// bAllocKeepsField: the local struct a has its field written only by stores of
// the whole struct (which the caller inspects with bWholeStores).
func bAllocKeepsField(a *ssa.Alloc, field *types.Var) bool {
	// whole-struct stores are inspected by the caller; every other use must keep the field
	for _, r := range *a.Referrers() {
		switch x := r.(type) {
		case *ssa.Store:
			if x.Addr == ssa.Value(a) {
				continue
			}
			return false
		case *ssa.UnOp:
			if x.Op != token.MUL {
				return false
			}
		case *ssa.DebugRef:
		case *ssa.FieldAddr:
			if structField(x.X.Type(), x.Field) == field {
				for _, rr := range *x.Referrers() {
					switch y := rr.(type) {
					case *ssa.UnOp:
						if y.Op != token.MUL {
							return false
						}
					case *ssa.DebugRef:
					default:
						return false
					}
				}
			}
		case ssa.CallInstruction:
			cc := x.Common()
			if cc.IsInvoke() {
				return false
			}
			found := false
			for i, arg := range cc.Args {
				if arg == ssa.Value(a) {
					found = true
					if !bCalleeKeepsField(x, i, field, 0) {
						return false
					}
				}
			}
			if !found {
				return false
			}
		default:
			return false
		}
	}
	return true
}

// bAllocPrivate reports whether an Alloc is only used by loads, stores into
// it, field/index addressing that is itself only loaded/stored, and debug
// references: nobody else can write through a pointer to it.
func bAllocPrivate(a *ssa.Alloc) bool {
	var ok func(v ssa.Value, depth int) bool
	ok = func(v ssa.Value, depth int) bool {
		if depth > 4 {
			return false
		}
		for _, r := range *v.Referrers() {
			switch x := r.(type) {
			case *ssa.Store:
				if x.Addr != v { // the address itself is stored somewhere
					return false
				}
			case *ssa.UnOp:
				if x.Op != token.MUL {
					return false
				}
			case *ssa.FieldAddr:
				if !ok(x, depth+1) {
					return false
				}
			case *ssa.IndexAddr:
				if !ok(x, depth+1) {
					return false
				}
			case *ssa.DebugRef:
			default:
				return false
			}
		}
		return true
	}
	return ok(a, 0)
}

// bWholeStores returns the values stored into the whole of alloc a and
// whether there are stores into parts of it (through FieldAddr/IndexAddr).
func bWholeStores(a *ssa.Alloc) (vals []ssa.Value, partial bool) {
	for _, r := range *a.Referrers() {
		switch x := r.(type) {
		case *ssa.Store:
			if x.Addr == ssa.Value(a) {
				vals = append(vals, x.Val)
			}
		case *ssa.FieldAddr:
			for _, rr := range *x.Referrers() {
				if st, ok := rr.(*ssa.Store); ok && st.Addr == ssa.Value(x) {
					partial = true
				}
			}
		case *ssa.IndexAddr:
			for _, rr := range *x.Referrers() {
				if st, ok := rr.(*ssa.Store); ok && st.Addr == ssa.Value(x) {
					partial = true
				}
			}
		}
	}
	return
}

// bDerivesStrict reports whether v is, on every path, the value src: through
// conversions, phis (all edges) and loads of private locals (all stores).
func bDerivesStrict(v ssa.Value, src func(ssa.Value) bool, depth int) bool {
	if v == nil || depth > 8 {
		return false
	}
	v = strip(v)
	if src(v) {
		return true
	}
	switch x := v.(type) {
	case *ssa.Phi:
		n := 0
		for _, e := range x.Edges {
			if e == ssa.Value(x) {
				continue
			}
			if !bDerivesStrict(e, src, depth+1) {
				return false
			}
			n++
		}
		return n > 0
	case *ssa.UnOp:
		if x.Op != token.MUL {
			return false
		}
		a, ok := x.X.(*ssa.Alloc)
		if !ok || !bAllocPrivate(a) {
			return false
		}
		st, partial := bWholeStores(a)
		if partial || len(st) == 0 {
			return false
		}
		for _, s := range st {
			if !bDerivesStrict(s, src, depth+1) {
				return false
			}
		}
		return true
	}
	return false
}

// bResultVM matches values that strictly are result #idx of the given call
// instruction; with field != nil, the value must be that field of the result
// (Field of the struct value, or a load of FieldAddr on a private local that
// only ever holds the result).
func bResultVM(call ssa.Value, idx int, field *types.Var) VM {
	isRes := func(v ssa.Value) bool {
		if idx < 0 {
			return v == call
		}
		e, ok := v.(*ssa.Extract)
		return ok && e.Tuple == call && e.Index == idx
	}
	return func(v ssa.Value) bool {
		v = strip(v)
		if field == nil {
			return bDerivesStrict(v, isRes, 0)
		}
		switch x := v.(type) {
		case *ssa.Field:
			return structField(x.X.Type(), x.Field) == field && bDerivesStrict(x.X, isRes, 0)
		case *ssa.UnOp:
			if x.Op != token.MUL {
				return false
			}
			fa, ok := x.X.(*ssa.FieldAddr)
			if !ok || structField(fa.X.Type(), fa.Field) != field {
				return false
			}
			a, ok := fa.X.(*ssa.Alloc)
			if !ok || !bAllocKeepsField(a, field) {
				return false
			}
			st, _ := bWholeStores(a)
			if len(st) == 0 {
				return false
			}
			for _, s := range st {
				if !bDerivesStrict(s, isRes, 0) {
					return false
				}
			}
			return true
		case *ssa.Phi:
			n := 0
			for _, e := range x.Edges {
				if e == ssa.Value(x) {
					continue
				}
				if !bResultVM(call, idx, field)(e) {
					return false
				}
				n++
			}
			return n > 0
		}
		return false
	}
}

// bFieldLoad returns the load instruction if v (after conversions) is a load
// of the given struct field through a FieldAddr.
func bFieldLoad(v ssa.Value, field *types.Var) (*ssa.UnOp, bool) {
	u, ok := strip(v).(*ssa.UnOp)
	if !ok || u.Op != token.MUL {
		return nil, false
	}
	fa, ok := u.X.(*ssa.FieldAddr)
	if !ok || structField(fa.X.Type(), fa.Field) != field {
		return nil, false
	}
	return u, true
}

// bFieldLoads lists every load of field in fn.
func bFieldLoads(fn *ssa.Function, field *types.Var) []*ssa.UnOp {
	var out []*ssa.UnOp
	for _, b := range fn.Blocks {
		for _, in := range b.Instrs {
			if u, ok := in.(*ssa.UnOp); ok {
				if l, ok := bFieldLoad(u, field); ok && l == u {
					out = append(out, u)
				}
			}
		}
	}
	return out
}

// bMethodOf resolves a method of the (pointer to the) type of a field/var by
// name, as an object (used for library types such as deadlock.RWMutex whose
// packages are not module packages).
func bMethodOf(t types.Type, name string) *types.Func {
	if _, isPtr := t.(*types.Pointer); !isPtr {
		t = types.NewPointer(t)
	}
	ms := types.NewMethodSet(t)
	for i := 0; i < ms.Len(); i++ {
		if f, ok := ms.At(i).Obj().(*types.Func); ok && f.Name() == name {
			return f
		}
	}
	return nil
}

// bCallsOnField returns the calls in fn (not nested literals) to one of the
// methods whose receiver argument is (the address of) the given field.
func bCallsOnField(fn *ssa.Function, field *types.Var, methods ...*types.Func) []ssa.Instruction {
	var out []ssa.Instruction
	for _, ci := range CallsTo(fn, false, methods...) {
		args := callArgs(ci.Common())
		if len(args) == 0 {
			continue
		}
		if Mentions(args[0], field, 4) {
			out = append(out, ci)
		}
	}
	return out
}

// ---------- non-nil analysis with local canonicalisation ----------

// bNonNil is definitelyNonNil with loads of the same local made equal when
// the same store reaches them (so `if err != nil { return err }` with a named
// result spilled to memory is understood).
func bNonNil(v ssa.Value, at *ssa.BasicBlock, depth int) bool {
	if depth > 4 || v == nil {
		return false
	}
	v = bCanon(v)
	if definitelyNonNil(v, at, depth) {
		return true
	}
	if at == nil {
		return false
	}
	for _, b := range at.Parent().Blocks {
		iff, ok := b.Instrs[len(b.Instrs)-1].(*ssa.If)
		if !ok {
			continue
		}
		cond, neg := condOf(iff.Cond)
		bo, ok := cond.(*ssa.BinOp)
		if !ok || (bo.Op != token.NEQ && bo.Op != token.EQL) {
			continue
		}
		var tested ssa.Value
		if IsNil(bo.Y) {
			tested = bo.X
		} else if IsNil(bo.X) {
			tested = bo.Y
		} else {
			continue
		}
		if bCanon(tested) != v {
			continue
		}
		nonNilOnTrue := (bo.Op == token.NEQ) != neg
		succ := b.Succs[1]
		if nonNilOnTrue {
			succ = b.Succs[0]
		}
		if len(succ.Preds) == 1 && succ.Dominates(at) {
			return true
		}
	}
	if p, ok := v.(*ssa.Phi); ok {
		for i, e := range p.Edges {
			if !bNonNil(e, p.Block().Preds[i], depth+1) {
				return false
			}
		}
		return len(p.Edges) > 0
	}
	return false
}

// bSuccessReturns is SuccessReturns using bNonNil.
func bSuccessReturns(fn *ssa.Function) []ssa.Instruction {
	idx := errResultIndex(fn)
	var out []ssa.Instruction
	for _, b := range fn.Blocks {
		ret, ok := b.Instrs[len(b.Instrs)-1].(*ssa.Return)
		if !ok || b == fn.Recover {
			continue // the recover block only runs after a recovered panic
		}
		if idx >= 0 && idx < len(ret.Results) && bNonNil(ret.Results[idx], b, 0) {
			continue
		}
		out = append(out, ret)
	}
	return out
}

// bErrEdges returns, for the error value matched by isErr, the edges taken
// when it is non-nil and when it is nil.
func bErrEdges(fn *ssa.Function, isErr VM) (nonNil, isNil []Edge) {
	for _, b := range fn.Blocks {
		iff, ok := b.Instrs[len(b.Instrs)-1].(*ssa.If)
		if !ok {
			continue
		}
		cond, neg := condOf(iff.Cond)
		bo, ok := cond.(*ssa.BinOp)
		if !ok || (bo.Op != token.NEQ && bo.Op != token.EQL) {
			continue
		}
		var tested ssa.Value
		if IsNil(bo.Y) {
			tested = bo.X
		} else if IsNil(bo.X) {
			tested = bo.Y
		} else {
			continue
		}
		if !isErr(tested) && !isErr(bCanon(tested)) {
			continue
		}
		nonNilOnTrue := (bo.Op == token.NEQ) != neg
		if nonNilOnTrue {
			nonNil = append(nonNil, Edge{b, 0})
			isNil = append(isNil, Edge{b, 1})
		} else {
			nonNil = append(nonNil, Edge{b, 1})
			isNil = append(isNil, Edge{b, 0})
		}
	}
	return
}

// bErrOf matches the error result (last result) of a call instruction.
func bErrOf(call ssa.CallInstruction) VM {
	v := call.Value()
	if v == nil {
		return func(ssa.Value) bool { return false }
	}
	res := call.Common().Signature().Results()
	n := res.Len()
	if n == 0 || !isErrorType(res.At(n-1).Type()) {
		return func(ssa.Value) bool { return false }
	}
	return func(x ssa.Value) bool {
		x = strip(x)
		if n == 1 {
			return x == ssa.Value(v)
		}
		e, ok := x.(*ssa.Extract)
		return ok && e.Tuple == ssa.Value(v) && e.Index == n-1
	}
}

// ---------- forward reachability from an instruction ----------

// bFrom computes what is reachable strictly after instruction start, without
// traversing cut edges, ending paths at stop instructions (which count as
// reached), at calls that never return, and when start itself is met again.
type bFrom struct {
	blocks  map[*ssa.BasicBlock]bool // blocks entered at their first instruction
	startB  *ssa.BasicBlock
	startI  int
	tailEnd int // index of the stop instruction in the tail of the start block, or -1
	cutAt   map[*ssa.BasicBlock]int
	pred    map[*ssa.BasicBlock]*ssa.BasicBlock
}

func bIndexOf(in ssa.Instruction) int {
	for i, x := range in.Block().Instrs {
		if x == in {
			return i
		}
	}
	return -1
}

func bReachFrom(start ssa.Instruction, cut []Edge, stop func(ssa.Instruction) bool) *bFrom {
	r := &bFrom{blocks: map[*ssa.BasicBlock]bool{}, startB: start.Block(), startI: bIndexOf(start), tailEnd: -1,
		cutAt: map[*ssa.BasicBlock]int{}, pred: map[*ssa.BasicBlock]*ssa.BasicBlock{}}
	cutSet := map[Edge]bool{}
	for _, e := range cut {
		cutSet[e] = true
	}
	isStop := func(in ssa.Instruction) bool {
		return in == start || noReturnCall(in) || (stop != nil && stop(in))
	}
	var work []*ssa.BasicBlock
	push := func(from *ssa.BasicBlock) {
		for i, s := range from.Succs {
			if cutSet[Edge{from, i}] || r.blocks[s] {
				continue
			}
			r.blocks[s] = true
			r.pred[s] = from
			work = append(work, s)
		}
	}
	// tail of the start block
	ended := false
	for i := r.startI + 1; i < len(r.startB.Instrs); i++ {
		if isStop(r.startB.Instrs[i]) {
			r.tailEnd = i
			ended = true
			break
		}
	}
	if !ended {
		push(r.startB)
	}
	for len(work) > 0 {
		b := work[0]
		work = work[1:]
		stopped := false
		for i, in := range b.Instrs {
			if isStop(in) {
				r.cutAt[b] = i
				stopped = true
				break
			}
		}
		if !stopped {
			push(b)
		}
	}
	return r
}

// Reaches reports whether instruction in can execute after start.
func (r *bFrom) Reaches(in ssa.Instruction) bool {
	b := in.Block()
	i := bIndexOf(in)
	if b == r.startB && i > r.startI && (r.tailEnd < 0 || i <= r.tailEnd) {
		return true
	}
	if !r.blocks[b] {
		return false
	}
	if c, ok := r.cutAt[b]; ok {
		return i <= c
	}
	return true
}

// ---------- relation-tracking path engine (DB round == snapshot) ----------

const (
	bLT = 1
	bEQ = 2
	bGT = 4
)

func bRelOf(op token.Token) int {
	switch op {
	case token.EQL:
		return bEQ
	case token.NEQ:
		return bLT | bGT
	case token.LSS:
		return bLT
	case token.LEQ:
		return bLT | bEQ
	case token.GTR:
		return bGT
	case token.GEQ:
		return bGT | bEQ
	}
	return bLT | bEQ | bGT
}

func bRelString(m int) string {
	var p []string
	if m&bLT != 0 {
		p = append(p, "<")
	}
	if m&bEQ != 0 {
		p = append(p, "==")
	}
	if m&bGT != 0 {
		p = append(p, ">")
	}
	return "{" + strings.Join(p, ",") + "}"
}

// bRelSpec describes one "the value A produced at Start must have been
// established equal to B" query.
type bRelSpec struct {
	Fn     *ssa.Function
	Start  ssa.Instruction
	IsA    VM
	IsB    VM
	Cut    []Edge                      // edges never followed (error edge of the call, tabled bypasses)
	Accept []Edge                      // edges that establish equality by a tabled variant
	Stop   func(ssa.Instruction) bool // a new attempt starts here
}

type bRelState struct {
	b    *ssa.BasicBlock
	mask int
}

// bRelResult holds, per block, the set of relation masks with which the block
// is entered, and for the start block tail the initial mask.
type bRelResult struct {
	spec    bRelSpec
	entered map[bRelState]bool
	pred    map[bRelState]bRelState
	startI  int
	tailEnd int
	cmps    int // comparisons between A and B seen on explored paths
}

func bRelRun(s bRelSpec) *bRelResult {
	r := &bRelResult{spec: s, entered: map[bRelState]bool{}, pred: map[bRelState]bRelState{}, startI: bIndexOf(s.Start), tailEnd: -1}
	cut := map[Edge]bool{}
	for _, e := range s.Cut {
		cut[e] = true
	}
	acc := map[Edge]bool{}
	for _, e := range s.Accept {
		acc[e] = true
	}
	isStop := func(in ssa.Instruction) bool {
		return in == s.Start || noReturnCall(in) || (s.Stop != nil && s.Stop(in))
	}
	var work []bRelState
	seenCmp := map[*ssa.BasicBlock]bool{}
	// leave propagates from the end of block from.b, entered in state from
	// (the pseudo state with mask -1 is the tail of the start block), carrying
	// relation mask cur.
	leave := func(from bRelState, cur int) {
		b := from.b
		masks := make([]int, len(b.Succs))
		for i := range masks {
			masks[i] = cur
		}
		if iff, ok := b.Instrs[len(b.Instrs)-1].(*ssa.If); ok {
			cond, neg := condOf(iff.Cond)
			if bo, ok := cond.(*ssa.BinOp); ok {
				op := token.ILLEGAL
				if s.IsA(bo.X) && s.IsB(bo.Y) {
					op = bo.Op
				} else if s.IsA(bo.Y) && s.IsB(bo.X) {
					op = mirrorOp(bo.Op)
				}
				if op != token.ILLEGAL && negOp(op) != token.ILLEGAL {
					if !seenCmp[b] {
						seenCmp[b] = true
						r.cmps++
					}
					t, f := bRelOf(op), bRelOf(negOp(op))
					if neg {
						t, f = f, t
					}
					masks[0] &= t
					masks[1] &= f
				}
			}
		}
		for i, succ := range b.Succs {
			e := Edge{b, i}
			if cut[e] {
				continue
			}
			m := masks[i]
			if acc[e] {
				m = bEQ
			}
			if m == 0 {
				continue // infeasible
			}
			st := bRelState{succ, m}
			if r.entered[st] {
				continue
			}
			r.entered[st] = true
			r.pred[st] = from
			work = append(work, st)
		}
	}
	// tail of start block
	sb := s.Start.Block()
	ended := false
	for i := r.startI + 1; i < len(sb.Instrs); i++ {
		if isStop(sb.Instrs[i]) {
			r.tailEnd = i
			ended = true
			break
		}
	}
	if !ended {
		leave(bRelState{sb, -1}, bLT|bEQ|bGT)
	}
	for len(work) > 0 {
		st := work[0]
		work = work[1:]
		stopped := false
		for _, in := range st.b.Instrs {
			if isStop(in) {
				stopped = true
				break
			}
		}
		if !stopped {
			leave(st, st.mask)
		}
	}
	return r
}

// BadMask returns a relation mask other than {==} with which instruction in
// can execute after Start (0 if none).
func (r *bRelResult) BadMask(in ssa.Instruction) (int, bRelState) {
	b := in.Block()
	i := bIndexOf(in)
	if b == r.spec.Start.Block() && i > r.startI && (r.tailEnd < 0 || i <= r.tailEnd) {
		return bLT | bEQ | bGT, bRelState{b, -1}
	}
	for m := 1; m < 8; m++ {
		if m == bEQ {
			continue
		}
		st := bRelState{b, m}
		if !r.entered[st] {
			continue
		}
		// instructions after a stop in this block are not executed
		ok := true
		for j, x := range b.Instrs {
			if j >= i {
				break
			}
			if x == r.spec.Start || noReturnCall(x) || (r.spec.Stop != nil && r.spec.Stop(x)) {
				ok = false
				break
			}
		}
		if ok {
			return m, st
		}
	}
	return 0, bRelState{}
}

// Path renders the block path from Start to the state as source lines.
func (r *bRelResult) Path(p *Program, st bRelState) string {
	var lines []string
	last := ""
	var chain []bRelState
	for n := 0; n < 300; n++ {
		chain = append(chain, st)
		if st.mask == -1 {
			break
		}
		pr, ok := r.pred[st]
		if !ok {
			break
		}
		st = pr
	}
	for i := len(chain) - 1; i >= 0; i-- {
		s := ""
		for _, x := range chain[i].b.Instrs {
			if x.Pos().IsValid() {
				s = p.Pos(x.Pos())
				break
			}
		}
		if j := strings.LastIndex(s, ":"); j >= 0 {
			s = s[j+1:]
		}
		if s != "" && s != last {
			lines = append(lines, s)
			last = s
		}
	}
	if len(lines) > 14 {
		lines = append(lines[:6], append([]string{"…"}, lines[len(lines)-6:]...)...)
	}
	return strings.Join(lines, "→")
}

// ---------- the DB-round recheck rule (R08.1 and its C10/C13 instances) ----------

// bRoundCarrier says where a reader method reports the database round its
// answer was read at: result index and, for struct results, the Round field.
type bRoundCarrier struct {
	Res    int
	Field  *types.Var
	Exempt string // non-empty: the method needs no recheck, with the reason
}

// bRecheckCfg configures the rule for one tracker type.
type bRecheckCfg struct {
	Rule, CacheRule string
	TrackerName     string     // "accountUpdates"
	Reader          *types.Var // field holding the prepared reader (accountsq)
	Snapshot        *types.Var // field caching the DB round (cachedDBRound)
	Mutex           *types.Var // accountsMu
	Carriers        map[*types.Func]bRoundCarrier
	CacheWrites     []*types.Func
	// variants, keyed by reader method: extra accepted equalities / bypasses
	EmptyZero  map[*types.Func]string // `len(rows)==0 && round==0` accepted (reason)
	EmptyRows  map[*types.Func]string // `len(rows)==0` → returns without DB data (reason)
	AltAccept  func(fn *ssa.Function, call ssa.CallInstruction, isB VM) ([]Edge, string)
	ZeroRound  map[string]string // function name -> reason: `dbRound == 0` accepted ("no DB query was made")
	OnlyFuncs  map[string]bool // restrict to these functions (nil = all)
	SkipFuncs  map[string]bool
}

// bLenZeroTrueSucc finds blocks that are entered only when len(X)==0 holds for
// an X matched by isRows (true successor with a single predecessor).
func bLenZeroEdges(fn *ssa.Function, isRows VM) (zero []Edge) {
	for _, b := range fn.Blocks {
		iff, ok := b.Instrs[len(b.Instrs)-1].(*ssa.If)
		if !ok {
			continue
		}
		cond, neg := condOf(iff.Cond)
		bo, ok := cond.(*ssa.BinOp)
		if !ok {
			continue
		}
		var lenSide, other ssa.Value
		if x, ok := lenOf(bo.X); ok {
			lenSide, other = x, bo.Y
		} else if x, ok := lenOf(bo.Y); ok {
			lenSide, other = x, bo.X
		} else {
			continue
		}
		if !IsConstInt(0)(other) || !isRows(lenSide) {
			continue
		}
		switch bo.Op {
		case token.EQL:
			if neg {
				zero = append(zero, Edge{b, 1})
			} else {
				zero = append(zero, Edge{b, 0})
			}
		case token.NEQ, token.GTR:
			// len != 0 / len > 0 (only when len is the left operand for GTR)
			if bo.Op == token.GTR {
				if _, ok := lenOf(bo.X); !ok {
					continue
				}
			}
			if neg {
				zero = append(zero, Edge{b, 0})
			} else {
				zero = append(zero, Edge{b, 1})
			}
		}
	}
	return
}

// bZeroEdges returns the edges on which a value matched by isA equals 0.
func bZeroEdges(fn *ssa.Function, isA VM) []Edge {
	g := GCmp("==0", token.EQL, isA, IsConstInt(0))
	e, _ := PassEdges(fn, g)
	return e
}

// bRecheckSnapshotSites handles DB reads made in a Snapshot transaction whose
// literal also stores AccountsRound() into a variable of the enclosing
// function: the site is the Snapshot call, the DB round is that variable.
func (c *Ctx) bRecheckSnapshotSites(cfg bRecheckCfg, fns []*ssa.Function, dbsField *types.Var, snapshot, accountsRound *types.Func, exempt map[string]string) int {
	lockM := map[string]*types.Func{}
	for _, n := range []string{"RLock", "RUnlock", "Lock", "Unlock"} {
		lockM[n] = bMethodOf(cfg.Mutex.Type(), n)
		if lockM[n] == nil {
			c.Unk(cfg.Rule, cfg.TrackerName+".accountsMu."+n, "-", "mutex method does not resolve")
			return 0
		}
	}
	sites := 0
	for _, fn := range fns {
		name := fnName(fn)
		for _, ci := range CallsTo(fn, false, snapshot) {
			if !Mentions(callArgs(ci.Common())[0], dbsField, 4) {
				continue
			}
			site := name + ":" + dbsField.Name() + ".Snapshot{AccountsRound}"
			if reason, ok := exempt[name]; ok {
				c.Ok(cfg.Rule, site+":exempt", c.Pos(ci.Pos()), "not a lookup retry site: "+reason)
				continue
			}
			lit, mc := bClosureArg(ci, 0)
			if lit == nil {
				c.Unk(cfg.Rule, site, c.Pos(ci.Pos()), "the Snapshot argument is not a function literal")
				continue
			}
			cell, n := bCellStoredFrom(lit, mc, 0, accountsRound)
			if cell == nil || n == 0 {
				c.Bad(cfg.Rule, site, c.Pos(ci.Pos()), name+" reads the tracker DB in a Snapshot transaction that does not also store AccountsRound() into a variable of the enclosing function: the DB round of the answer cannot be compared with the "+cfg.Snapshot.Name()+" snapshot")
				continue
			}
			isA, ok := bCellLoadVM(cell)
			if !ok {
				c.Unk(cfg.Rule, site, c.Pos(ci.Pos()), "the variable receiving AccountsRound() is also assigned outside the transaction literal")
				continue
			}
			sites++
			c.NoteFn(name)
			c.bRecheckCore(cfg, fn, ci, isA, accountsRound, dbsField.Name()+".Snapshot{…AccountsRound()}", site, lockM, func(ssa.Value) bool { return false })
		}
	}
	c.NoteSites(sites)
	return sites
}

// bRecheck runs the rule over the functions fns and returns the number of DB
// call sites examined.
func (c *Ctx) bRecheck(cfg bRecheckCfg, fns []*ssa.Function) int {
	sites := 0
	lockM := map[string]*types.Func{}
	for _, n := range []string{"RLock", "RUnlock", "Lock", "Unlock"} {
		lockM[n] = bMethodOf(cfg.Mutex.Type(), n)
		if lockM[n] == nil {
			c.Unk(cfg.Rule, cfg.TrackerName+".accountsMu."+n, "-", "mutex method does not resolve")
			return 0
		}
	}
	for _, fn := range fns {
		name := fnName(fn)
		if cfg.OnlyFuncs != nil && !cfg.OnlyFuncs[name] {
			continue
		}
		if cfg.SkipFuncs[name] {
			continue
		}
		for _, b := range fn.Blocks {
			for _, in := range b.Instrs {
				call, ok := in.(*ssa.Call)
				if !ok || !call.Common().IsInvoke() || !Mentions(call.Common().Value, cfg.Reader, 4) {
					continue
				}
				m := call.Common().Method
				site := name + ":" + cfg.Reader.Name() + "." + m.Name()
				car, known := cfg.Carriers[m.Origin()]
				if !known {
					c.Unk(cfg.Rule, site, c.Pos(call.Pos()), "reader method "+m.Name()+" has no entry in the round-carrier table: decide where it reports the DB round (new instance needs review)")
					continue
				}
				if car.Exempt != "" {
					if car.Exempt != "-" {
						c.Ok(cfg.Rule, site+":exempt", c.Pos(call.Pos()), "no recheck needed: "+car.Exempt)
					}
					continue
				}
				sites++
				c.NoteFn(name)
				c.bRecheckSite(cfg, fn, call, car, site, lockM)
			}
		}
	}
	c.NoteSites(sites)
	return sites
}

func (c *Ctx) bRecheckSite(cfg bRecheckCfg, fn *ssa.Function, call *ssa.Call, car bRoundCarrier, site string, lockM map[string]*types.Func) {
	m := call.Common().Method
	isA := bResultVM(call, car.Res, car.Field)
	c.bRecheckCore(cfg, fn, call, isA, m, cfg.Reader.Name()+"."+m.Name(), site, lockM, func() VM {
		return func(v ssa.Value) bool {
			e, ok := strip(v).(*ssa.Extract)
			if ok && e.Tuple == ssa.Value(call) && e.Index == 0 {
				return true
			}
			return bDerivesStrict(v, func(x ssa.Value) bool {
				e, ok := x.(*ssa.Extract)
				return ok && e.Tuple == ssa.Value(call) && e.Index == 0
			}, 0)
		}
	}())
}

// bRecheckCore is shared by reader-call sites and by Snapshot+AccountsRound
// sites: start is the instruction after which the DB answer exists, isA the
// matcher of the DB round it reported.
func (c *Ctx) bRecheckCore(cfg bRecheckCfg, fn *ssa.Function, start ssa.CallInstruction, isA VM, method *types.Func, callName string, site string, lockM map[string]*types.Func, isRows VM) {
	pos := c.Pos(start.Pos())
	// the snapshot: loads of the cached-round field that dominate the call
	var snaps []*ssa.UnOp
	snapSet := map[ssa.Instruction]bool{}
	for _, l := range bFieldLoads(fn, cfg.Snapshot) {
		if Dominates(l, start) {
			snaps = append(snaps, l)
			snapSet[l] = true
		}
	}
	isB := func(v ssa.Value) bool {
		l, ok := bFieldLoad(v, cfg.Snapshot)
		return ok && snapSet[l]
	}
	what := "the database round reported by " + callName
	snapName := cfg.TrackerName + "." + cfg.Snapshot.Name()
	construct := site + "<=dbRound==" + cfg.Snapshot.Name() + "(snapshot)"
	if len(snaps) == 0 {
		c.Bad(cfg.Rule, construct, pos, fmt.Sprintf("%s: no read of %s precedes the call on every path, so there is no pre-call snapshot to compare %s with", fnName(fn), snapName, what))
		return
	}
	// comparisons against a post-call read of the cached round are the classic mistake: name it
	lateNote := ""
	for _, b := range fn.Blocks {
		if iff, ok := b.Instrs[len(b.Instrs)-1].(*ssa.If); ok {
			cond, _ := condOf(iff.Cond)
			if bo, ok := cond.(*ssa.BinOp); ok {
				for _, pr := range [][2]ssa.Value{{bo.X, bo.Y}, {bo.Y, bo.X}} {
					if isA(pr[0]) {
						if l, ok := bFieldLoad(pr[1], cfg.Snapshot); ok && !snapSet[l] {
							lateNote = fmt.Sprintf(" (note: the comparison at %s reads %s after the call, not the pre-call snapshot)", c.Pos(bo.Pos()), snapName)
						}
					}
				}
			}
		}
	}
	nonNil, _ := bErrEdges(fn, bErrOf(start))
	cut := append([]Edge{}, nonNil...)
	var accept []Edge
	variant := ""
	if reason, ok := cfg.EmptyZero[method.Origin()]; ok {
		// `len(rows)==0 && round==0`: the round==0 edge inside the len==0 region is accepted
		zeroEdges := bLenZeroEdges(fn, isRows)
		for _, ze := range zeroEdges {
			region := ze.From.Succs[ze.Idx]
			if len(region.Preds) != 1 {
				continue
			}
			iff, ok := region.Instrs[len(region.Instrs)-1].(*ssa.If)
			if !ok {
				continue
			}
			cond, neg := condOf(iff.Cond)
			bo, ok := cond.(*ssa.BinOp)
			if !ok || (bo.Op != token.EQL && bo.Op != token.NEQ) {
				continue
			}
			if !(isA(bo.X) && IsConstInt(0)(bo.Y) || isA(bo.Y) && IsConstInt(0)(bo.X)) {
				continue
			}
			onTrue := (bo.Op == token.EQL) != neg
			if onTrue {
				accept = append(accept, Edge{region, 0})
			} else {
				accept = append(accept, Edge{region, 1})
			}
			variant = "; accepted variant `no rows && round==0` (" + reason + ")"
		}
	}
	if reason, ok := cfg.EmptyRows[method.Origin()]; ok {
		ze := bLenZeroEdges(fn, isRows)
		if len(ze) > 0 {
			cut = append(cut, ze...)
			variant += "; bypass `no rows` (" + reason + ")"
		}
	}
	if reason, ok := cfg.ZeroRound[fnName(fn)]; ok {
		if ze := bZeroEdges(fn, isA); len(ze) > 0 {
			accept = append(accept, ze...)
			variant += "; accepted variant `dbRound==0` (" + reason + ")"
		}
	}
	if cfg.AltAccept != nil {
		e, reason := cfg.AltAccept(fn, start, isB)
		if len(e) > 0 {
			accept = append(accept, e...)
			variant += "; accepted variant (" + reason + ")"
		}
	}
	res := bRelRun(bRelSpec{Fn: fn, Start: start, IsA: isA, IsB: isB, Cut: cut, Accept: accept,
		Stop: func(in ssa.Instruction) bool { return snapSet[in] }})

	// (a) no possibly-successful return without the equality
	rets := bSuccessReturns(fn)
	okRet := true
	for _, ret := range rets {
		if m, st := res.BadMask(ret); m != 0 {
			okRet = false
			c.Bad(cfg.Rule, construct, c.Pos(ret.Pos()), fmt.Sprintf("%s can return without an error after %s answered, with only dbRound %s %s established (need ==); path (lines): %s%s",
				fnName(fn), callName, bRelString(m), snapName+" snapshot", res.Path(c.Program, st), lateNote))
			break
		}
	}
	if okRet {
		if res.cmps == 0 && len(accept) == 0 {
			// nothing compared and nothing returned: the call's result is never used on a success path; still suspicious
			c.Bad(cfg.Rule, construct, pos, fmt.Sprintf("%s never compares %s with the %s snapshot%s", fnName(fn), what, snapName, lateNote))
		} else {
			c.Ok(cfg.Rule, construct, pos, fmt.Sprintf("every non-error return reachable after the call is reached only with dbRound == pre-call %s (%d comparison(s), %d return(s) examined)%s", snapName, res.cmps, len(rets), variant))
		}
	}

	// (b) cache writes only with the equality
	if cfg.CacheRule != "" {
		var writes []ssa.Instruction
		for _, ci := range CallsTo(fn, false, cfg.CacheWrites...) {
			writes = append(writes, ci)
		}
		reached := 0
		okW := true
		for _, w := range writes {
			if m, st := res.BadMask(w); m != 0 {
				okW = false
				c.Bad(cfg.CacheRule, site+":cache-write<=dbRound==snapshot", c.Pos(w.Pos()), fmt.Sprintf("%s writes %s into an LRU cache after %s answered with only dbRound %s snapshot established: a row of another round would be cached as 'at dbRound'; path (lines): %s",
					fnName(fn), funcObjName(calleeOf(w.(ssa.CallInstruction).Common())), callName, bRelString(m), res.Path(c.Program, st)))
				break
			}
			// count the writes that follow the call at all
			fr := bReachFrom(start, nil, func(in ssa.Instruction) bool { return snapSet[in] })
			if fr.Reaches(w) {
				reached++
			}
		}
		if okW && reached > 0 {
			c.Ok(cfg.CacheRule, site+":cache-write<=dbRound==snapshot", pos, fmt.Sprintf("%d cache write(s) after the call are reached only with dbRound == snapshot", reached))
		}
	}

	// (c) the snapshot is not re-read after the lock was released
	var releases []ssa.Instruction
	releases = append(releases, bCallsOnField(fn, cfg.Mutex, lockM["RUnlock"], lockM["Unlock"])...)
	acquires := map[ssa.Instruction]bool{}
	for _, a := range bCallsOnField(fn, cfg.Mutex, lockM["RLock"], lockM["Lock"]) {
		acquires[a] = true
	}
	okL := true
	for _, u := range releases {
		fr := bReachFrom(u, nil, func(in ssa.Instruction) bool { return acquires[in] })
		for _, l := range snaps {
			if fr.Reaches(l) && !acquires[ssa.Instruction(l)] {
				okL = false
				c.Bad(cfg.Rule, site+":snapshot-before-unlock", c.Pos(l.Pos()), fmt.Sprintf("%s reads %s at %s after releasing %s at %s without re-acquiring it: the snapshot the DB round is compared with is not the one the delta walk ran under",
					fnName(fn), snapName, c.Pos(l.Pos()), cfg.Mutex.Name(), c.Pos(u.Pos())))
				break
			}
		}
		if !okL {
			break
		}
	}
	if okL {
		c.Ok(cfg.Rule, site+":snapshot-before-unlock", pos, fmt.Sprintf("no read of %s used as snapshot is reachable from a release of %s without re-acquiring it (%d release site(s))", snapName, cfg.Mutex.Name(), len(releases)))
	}
}

// ---------- closure cells ----------

// bClosureArg returns the function literal passed (as a MakeClosure or a plain
// function) in argument position i of call.
func bClosureArg(call ssa.CallInstruction, i int) (*ssa.Function, *ssa.MakeClosure) {
	args := call.Common().Args
	if i >= len(args) {
		return nil, nil
	}
	a := args[i]
	for {
		if ct, ok := a.(*ssa.ChangeType); ok {
			a = ct.X
			continue
		}
		break
	}
	switch x := a.(type) {
	case *ssa.MakeClosure:
		if f, ok := x.Fn.(*ssa.Function); ok {
			return f, x
		}
	case *ssa.Function:
		return x, nil
	}
	return nil, nil
}

// bFreeVarCell maps a free variable of a closure to the cell (Alloc or outer
// free variable) bound to it.
func bFreeVarCell(mc *ssa.MakeClosure, fv *ssa.FreeVar) ssa.Value {
	fn := mc.Fn.(*ssa.Function)
	for i, f := range fn.FreeVars {
		if f == fv && i < len(mc.Bindings) {
			return mc.Bindings[i]
		}
	}
	return nil
}

// bCellStoredFrom finds the cell of the enclosing function that the closure
// assigns, in every store to it, from result #idx of a call to one of fns,
// and returns it together with the number of such stores.
func bCellStoredFrom(lit *ssa.Function, mc *ssa.MakeClosure, idx int, fns ...*types.Func) (ssa.Value, int) {
	if mc == nil {
		return nil, 0
	}
	var cell ssa.Value
	n := 0
	for _, fv := range lit.FreeVars {
		all, cnt := true, 0
		for _, r := range *fv.Referrers() {
			st, ok := r.(*ssa.Store)
			if !ok || st.Addr != ssa.Value(fv) {
				continue
			}
			cnt++
			if _, ok := asResultOf(st.Val, idx, fns...); !ok {
				all = false
			}
		}
		if cnt > 0 && all {
			if cell != nil {
				return nil, 0 // ambiguous
			}
			cell = bFreeVarCell(mc, fv)
			n = cnt
		}
	}
	return cell, n
}

// bCellLoadVM matches loads of the given cell in the enclosing function,
// provided the enclosing function itself never stores to it.
func bCellLoadVM(cell ssa.Value) (VM, bool) {
	for _, r := range *cell.Referrers() {
		if st, ok := r.(*ssa.Store); ok && st.Addr == cell {
			return nil, false
		}
	}
	return func(v ssa.Value) bool {
		u, ok := strip(v).(*ssa.UnOp)
		return ok && u.Op == token.MUL && u.X == cell
	}, true
}

// ---------- leaves of additive expressions (for "same range" checks) ----------

// bAddLeaves expands v through +, conversions, single-store locals and free
// variables (mapped to the bound cell through mc) and returns the set of leaf
// values; pure is false when an operator other than + was crossed.
func bAddLeaves(v ssa.Value, mc *ssa.MakeClosure) (leaves map[ssa.Value]bool, pure bool) {
	leaves = map[ssa.Value]bool{}
	pure = true
	var rec func(v ssa.Value, d int)
	rec = func(v ssa.Value, d int) {
		v = strip(v)
		if d > 8 {
			leaves[v] = true
			return
		}
		switch x := v.(type) {
		case *ssa.BinOp:
			if x.Op != token.ADD {
				pure = false
			}
			rec(x.X, d+1)
			rec(x.Y, d+1)
			return
		case *ssa.UnOp:
			if x.Op == token.MUL {
				switch a := x.X.(type) {
				case *ssa.Alloc:
					st := localStores(a)
					if len(st) == 1 && bAllocPrivate(a) {
						rec(st[0], d+1)
						return
					}
					leaves[a] = true
					return
				case *ssa.FreeVar:
					if mc != nil {
						if cell := bFreeVarCell(mc, a); cell != nil {
							if al, ok := cell.(*ssa.Alloc); ok {
								st := localStores(al)
								if len(st) == 1 {
									rec(st[0], d+1)
									return
								}
							}
							leaves[cell] = true
							return
						}
					}
					leaves[a] = true
					return
				case *ssa.FieldAddr:
					leaves[structFieldKey{structField(a.X.Type(), a.Field)}] = true
					return
				}
			}
		}
		leaves[v] = true
	}
	rec(v, 0)
	return
}

// structFieldKey lets a struct field stand as a leaf "value".
type structFieldKey struct{ f *types.Var }

func (structFieldKey) Name() string                  { return "field" }
func (k structFieldKey) String() string              { return "field " + k.f.Name() }
func (k structFieldKey) Type() types.Type            { return k.f.Type() }
func (structFieldKey) Parent() *ssa.Function         { return nil }
func (structFieldKey) Referrers() *[]ssa.Instruction { return nil }
func (structFieldKey) Pos() token.Pos                { return token.NoPos }

func bLeafNames(m map[ssa.Value]bool) string {
	var s []string
	for v := range m {
		switch x := v.(type) {
		case structFieldKey:
			s = append(s, "."+x.f.Name())
		case *ssa.Alloc:
			s = append(s, "var "+x.Comment)
		case *ssa.Const:
			s = append(s, x.String())
		default:
			s = append(s, v.Name())
		}
	}
	sort.Strings(s)
	return "{" + strings.Join(s, ", ") + "}"
}

func bSameLeaves(a, b map[ssa.Value]bool) bool {
	if len(a) != len(b) {
		return false
	}
	for k := range a {
		if !b[k] {
			return false
		}
	}
	return true
}

// ---------- guarded-from: "after call K failed, effect E must not happen" ----------

// bNoEffectAfter checks that none of effects is reachable after start when the
// cut edges are not followed; returns the first reachable effect.
func bNoEffectAfter(start ssa.Instruction, cut []Edge, stop func(ssa.Instruction) bool, effects []ssa.Instruction) ssa.Instruction {
	fr := bReachFrom(start, cut, stop)
	for _, e := range effects {
		if fr.Reaches(e) {
			return e
		}
	}
	return nil
}

// bSliceFrom describes `x.F = x.F[low:]`: a store to field whose value is a
// slice of a load of the same field with only a low bound; returns the low
// bound.
func bSliceFromSelf(st *ssa.Store, field *types.Var) (ssa.Value, bool) {
	sl, ok := st.Val.(*ssa.Slice)
	if !ok || sl.High != nil || sl.Max != nil || sl.Low == nil {
		return nil, false
	}
	if _, ok := bFieldLoad(sl.X, field); !ok {
		return nil, false
	}
	return sl.Low, true
}

// bStoreField returns the field a store writes, if its address is a FieldAddr.
func bStoreField(in ssa.Instruction) *types.Var {
	st, ok := in.(*ssa.Store)
	if !ok {
		return nil
	}
	fa, ok := st.Addr.(*ssa.FieldAddr)
	if !ok {
		return nil
	}
	return structField(fa.X.Type(), fa.Field)
}
