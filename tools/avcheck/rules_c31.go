package main

import (
	"fmt"
	"go/token"
	"go/types"
	"sort"
	"strings"

	"golang.org/x/tools/go/ssa"
)

func init() {
	register(&Prop{
		ID:       "C31",
		Patterns: []string{"./data/transactions/logic"},
		Run:      runC31,
		Explanation: "Decides the guard structure that makes AVM evaluation total and bounded, not the absence of every panic. " +
			"R31.1 in EvalContext.step the call through spec.op is reachable only past: GetOpSpec().op != nil, (cx.runMode & Modes) != 0, len(cx.Stack) >= len(Arg.Types), the immediate-size test pc+Size <= len(program) (Size==0 is the only bypass), opcost > 0 and opcost <= remainingBudget(); the argument-type loop (opCompat over Arg.Types against the stack) is on every path to the call and its failing edge cannot reach it; step's nil return is reachable only past `op error == nil` and len(cx.Stack) <= maxStackDepth, and — unless spec.trusted or the op failed — past the height test (stack delta == len(Return)-len(Arg), or AlwaysExits) and then through the return-type loop whose opCompat failure (except AlwaysExits) and len(Bytes) > maxStringSize failure cannot reach the nil return. " +
			"R31.2 the only call through an OpSpec.op value is in step and the only call through OpDetails.check is in checkStep (so no opcode runs without step's guards). " +
			"R31.3 (stack discipline, partial: today 129 of the 194 evaluation functions that touch the stack) for every opcode evaluation function whose accesses to cx.Stack are all in the function itself and whose indices are symbolic in the entry height (constant offsets from len(cx.Stack), tracked flow-sensitively through re-slices and appends), each index is >= len(cx.Stack)-len(Arg.Types) (the only height step's underflow test guarantees, taken as the minimum over the OpSpecs entries naming the function) and below the current height, and each re-slice keeps low <= high <= height; functions that use helpers touching the stack or data-dependent indices (dig, cover, uncover, bury, popn, dupn, frame_*, match, retsub, box ops, byte-math ops, const loads …) are NOT decided and are listed in the coverage obligation. " +
			"R31.4 the set of OpSpecs entries built with .trust() (for which step skips the post-conditions) equals the reviewed table; each trusted evaluation function must itself bound its stack growth (calls ensureStackCap or only shrinks the stack). " +
			"R31.5 eval and check install, in their entry block and before begin/step/checkStep, a deferred closure that calls recover() and stores a panicError into the named error result; in step the same opcost value that was compared with remainingBudget() is added to cx.cost before the op runs and subtracted from each pooled budget that remainingBudget() reads. " +
			"R31.6 every direct read cx.program[cx.pc+k] in an opcode evaluation function has k < Size for every OpSpecs entry naming that function (Size is what step bounds-checked); entries with Size==0 are exempt only if the read is dominated by an explicit length test. " +
			"Does NOT decide: absence of index/slice/nil panics inside op implementations beyond these indices, cost adequacy, termination of loops inside ops, or that maxStringSize is enforced on values ops store outside the stack (scratch, boxes, logs).",
		Assumptions: []string{
			"OpSpec.op and OpDetails.check are unexported: no other package can call an opcode implementation",
			"at most one of PooledApplicationBudget / PooledLogicSigBudget is non-nil in an EvalParams (NewSigEvalParams / NewAppEvalParams)",
		},
		Floor: map[string]int{"R31.1": 12, "R31.2": 2, "R31.3": 120, "R31.4": 6, "R31.5": 10, "R31.6": 60},
	})
}

func runC31(c *Ctx) {
	a := gAvmExtract(c)
	c31Step(c, a)
	c31OnlyStepCalls(c, a)
	c31Trusted(c, a)
	c31RecoverAndBudget(c, a)
	c31Immediates(c, a)
	c31StackDiscipline(c, a)
}

// c31LenOf matches len(x) with x matching vm.
func c31LenOf(vm VM) VM {
	return func(v ssa.Value) bool {
		x, ok := lenOf(strip(v))
		return ok && vm(x)
	}
}

// ---------------------------------------------------------------------------
// R31.1
// ---------------------------------------------------------------------------

func c31Step(c *Ctx, a *GAvm) {
	const rule = "R31.1"
	step := c.Fn(gLogic + ".EvalContext.step")
	name := fnName(step)
	getSpec := c.Func(gLogic + ".EvalContext.GetOpSpec")
	fOp := c.Field(gLogic + ".OpSpec.op")
	fModes := c.Field(gLogic + ".OpDetails.Modes")
	fSize := c.Field(gLogic + ".OpDetails.Size")
	fTrusted := c.Field(gLogic + ".OpDetails.trusted")
	fArg, fRet := c.Field(gLogic+".Proto.Arg"), c.Field(gLogic+".Proto.Return")
	fRunMode := c.Field(gLogic + ".EvalContext.runMode")
	fPc := c.Field(gLogic + ".EvalContext.pc")
	fProgram := c.Field(gLogic + ".EvalContext.program")
	fStack := c.Field(gLogic + ".EvalContext.Stack")
	fBytes := c.Field(gLogic + ".stackValue.Bytes")
	compute := c.Func(gLogic + ".linearCost.compute")
	cost := c.Func(gLogic + ".OpDetails.Cost")
	remaining := c.Func(gLogic + ".EvalContext.remainingBudget")
	opCompat := c.Func(gLogic + ".opCompat")
	alwaysExits := c.Func(gLogic + ".OpSpec.AlwaysExits")
	maxDepth, _ := constInt64(c.Const(gLogic + ".maxStackDepth"))
	maxStr, _ := constInt64(c.Const(gLogic + ".maxStringSize"))

	isSpec := func(x ssa.Value) bool {
		call, ok := x.(*ssa.Call)
		return ok && sameFunc(calleeOf(call.Common()), getSpec)
	}
	fromSpec := func(f *types.Var) VM { return gFieldOf(f, isSpec) }
	// the indirect call through spec.op
	var opCalls []ssa.Instruction
	for _, b := range step.Blocks {
		for _, in := range b.Instrs {
			call, ok := in.(*ssa.Call)
			if !ok || call.Common().IsInvoke() || call.Common().StaticCallee() != nil {
				continue
			}
			if fromSpec(fOp)(call.Common().Value) {
				opCalls = append(opCalls, in)
			}
		}
	}
	if len(opCalls) != 1 {
		c.Unk(rule, name+":call spec.op(cx)", c.Pos(step.Pos()), fmt.Sprintf("expected exactly one call through GetOpSpec().op in step, found %d", len(opCalls)))
		return
	}
	opCall := opCalls[0].(*ssa.Call)
	modeVal := func(v ssa.Value) bool {
		bo, ok := v.(*ssa.BinOp)
		if !ok || bo.Op != token.AND {
			return false
		}
		return (Mentions(bo.X, fRunMode, 4) && fromSpec(fModes)(bo.Y)) || (Mentions(bo.Y, fRunMode, 4) && fromSpec(fModes)(bo.X))
	}
	// opcost: the value compared with remainingBudget(), whatever computes it
	var opcost ssa.Value
	for _, b := range step.Blocks {
		if iff, ok := b.Instrs[len(b.Instrs)-1].(*ssa.If); ok {
			cond, _ := condOf(iff.Cond)
			if bo, ok := cond.(*ssa.BinOp); ok {
				if ResultOf(0, remaining)(bo.Y) {
					opcost = bo.X
				} else if ResultOf(0, remaining)(bo.X) {
					opcost = bo.Y
				}
			}
		}
	}
	if opcost == nil {
		c.Bad(rule, name+":spec.op(cx)<=opcost <= cx.remainingBudget()", c.Pos(step.Pos()), "step never compares a cost with cx.remainingBudget() before running the op")
		return
	}
	costVal := func(v ssa.Value) bool { // opcost itself or one of the values merged into it
		return v == opcost || gDerives(opcost, 3, func(x ssa.Value) bool { return x == v && !IsConstInt(0)(x) })
	}
	_, _ = compute, cost
	stackLen := c31LenOf(M(fStack))
	c.MustGuard(MustGuardSpec{Rule: rule, Fn: step, Effects: opCalls, EffName: "spec.op(cx)", Guards: []Guard{
		GCmp("spec.op != nil", token.NEQ, gFieldLoad(fOp, isSpec), IsNil),
		GCmp("(cx.runMode & spec.Modes) != 0", token.NEQ, modeVal, IsConstInt(0)),
		GCmp("len(cx.Stack) >= len(spec.Arg.Types)", token.GEQ, stackLen, c31LenOf(fromSpec(fArg))),
		GCmp("opcost > 0", token.GTR, costVal, IsConstInt(0)),
		GCmp("opcost <= cx.remainingBudget()", token.LEQ, IsV(opcost), ResultOf(0, remaining)),
	}})
	c.MustGuard(MustGuardSpec{Rule: rule, Fn: step, Effects: opCalls, EffName: "spec.op(cx)",
		Guards: []Guard{GCmp("cx.pc + Size <= len(cx.program)", token.LEQ, func(v ssa.Value) bool { return Mentions(v, fPc, 5) && fromSpec(fSize)(v) }, c31LenOf(M(fProgram)))},
		Bypass: []Guard{GCmp("Size == 0", token.EQL, fromSpec(fSize), IsConstInt(0))}})

	// argument-type loop
	compatOn := func(types VM) Guard {
		return GBool("opCompat(type, stack type)", func(v ssa.Value) bool {
			call, ok := asResultOf(v, 0, opCompat)
			if !ok || len(call.Call.Args) != 2 {
				return false
			}
			return types(call.Call.Args[0]) && gDerives(call.Call.Args[1], 6, func(x ssa.Value) bool { return valueIs(x, fStack) })
		}, true)
	}
	{
		blocks, fails := gIfs(step, compatOn(fromSpec(fArg)))
		if len(blocks) == 0 {
			c.Bad(rule, name+":spec.op(cx)<=argument types", c.Pos(step.Pos()), "step never compares the argument types of the spec with the values on the stack before calling the op")
		}
		for i, b := range blocks {
			reached, header := gForAll(b, fails[i], opCalls, nil)
			detail := "for every declared argument the stack value's type is tested; a mismatch cannot reach the op call and the loop is on every path to it"
			if reached != nil {
				detail = "the op call is still reachable when an argument has the wrong type"
			} else if header == nil {
				detail = "the type test is not in a loop that dominates the op call"
			}
			c.Check(reached == nil && header != nil, rule, name+":spec.op(cx)<=argument types", c.Pos(step.Pos()), detail)
		}
	}

	// nil return
	succ := gSuccessReturns(step)
	errNil := GCmp("op error == nil", token.EQL, IsV(opCall), IsNil)
	errNonNil := GCmp("op error != nil", token.NEQ, IsV(opCall), IsNil)
	c.MustGuard(MustGuardSpec{Rule: rule, Fn: step, Effects: succ, EffName: "return nil", Guards: []Guard{
		errNil,
		GCmp("len(cx.Stack) <= maxStackDepth", token.LEQ, stackLen, IsConstInt(maxDepth)),
	}})
	height := GAnyOf("stack delta == len(Return.Types)-len(Arg.Types) (or AlwaysExits)",
		GCmp("delta==declared", token.EQL, func(v ssa.Value) bool { return Mentions(v, fStack, 6) }, func(v ssa.Value) bool { return fromSpec(fRet)(v) && fromSpec(fArg)(v) }),
		GBool("AlwaysExits", ResultOf(0, alwaysExits), true))
	trusted := GBool("spec.trusted", gFieldLoad(fTrusted, isSpec), true)
	c.MustGuard(MustGuardSpec{Rule: rule, Fn: step, Effects: succ, EffName: "return nil", Guards: []Guard{height}, Bypass: []Guard{trusted, errNonNil}})

	// return-type loop: after the height test every path goes through one loop header; inside, failures cannot succeed
	heightEdges, _ := PassEdges(step, height)
	exitEdges, _ := PassEdges(step, GBool("AlwaysExits", ResultOf(0, alwaysExits), true))
	checkLoop := func(what string, g Guard, cut []Edge) {
		blocks, fails := gIfs(step, g)
		if len(blocks) == 0 {
			c.Bad(rule, name+":return nil<="+what, c.Pos(step.Pos()), "step has no test `"+g.Name+"` on the values an untrusted op left on the stack")
			return
		}
		for i, b := range blocks {
			reached, _ := gForAll(b, fails[i], succ, cut)
			// loop header: a block ending in If that dominates b, is reachable again from b, and through which every path from the height test to success passes
			var header *ssa.BasicBlock
			back := gBlockReach(b, nil)
			for h := b.Idom(); h != nil && header == nil; h = h.Idom() {
				if _, ok := h.Instrs[len(h.Instrs)-1].(*ssa.If); !ok || !back[h] {
					continue
				}
				through, n := true, 0
				for _, e := range heightEdges {
					if h.Dominates(e.From) {
						continue // a test inside the loop itself (the AlwaysExits break)
					}
					n++
					seen := gBlockReach(e.From.Succs[e.Idx], []Edge{{h, 0}, {h, 1}})
					for _, s := range succ {
						if seen[s.Block()] {
							through = false
						}
					}
				}
				if through && n > 0 {
					header = h
				}
			}
			detail := "every value an untrusted op returns is tested; a failure cannot reach the nil return and the loop is on every path from the height test to it"
			if reached != nil {
				detail = "the nil return is still reachable when the test fails"
			} else if header == nil {
				detail = "the test is not inside a loop that every path from the height test to the nil return passes"
			}
			c.Check(reached == nil && header != nil, rule, name+":return nil<="+what, c.Pos(step.Pos()), detail)
		}
	}
	checkLoop("return types", compatOn(fromSpec(fRet)), exitEdges)
	checkLoop("len(Bytes) <= maxStringSize", GCmp("len(value.Bytes) <= maxStringSize", token.LEQ, c31LenOf(M(fBytes, fStack)), IsConstInt(maxStr)), nil)
}

// ---------------------------------------------------------------------------
// R31.2
// ---------------------------------------------------------------------------

func c31OnlyStepCalls(c *Ctx, a *GAvm) {
	const rule = "R31.2"
	fOp := c.Field(gLogic + ".OpSpec.op")
	fCheck := c.Field(gLogic + ".OpDetails.check")
	owner := map[*types.Var]string{fOp: gLogic + ".EvalContext.step", fCheck: gLogic + ".EvalContext.checkStep"}
	found := map[*types.Var]map[string]ssa.Instruction{fOp: {}, fCheck: {}}
	for _, p := range c.sortedPkgs() {
		for _, fn := range c.funcsOf(p.PkgPath) {
			for _, b := range fn.Blocks {
				for _, in := range b.Instrs {
					ci, ok := in.(ssa.CallInstruction)
					if !ok || ci.Common().IsInvoke() || ci.Common().StaticCallee() != nil {
						continue
					}
					for f := range owner {
						f := f
						if gDerives(ci.Common().Value, 4, func(x ssa.Value) bool { return valueIs(x, f) }) {
							found[f][fnName(topFn(fn))] = in
						}
					}
				}
			}
		}
	}
	for _, f := range []*types.Var{fOp, fCheck} {
		what := "call through " + f.Name()
		if len(found[f]) == 0 {
			c.Unk(rule, what, "-", "no call through the function value "+f.Name()+" found: the dispatcher is not recognised")
			continue
		}
		var names []string
		for n := range found[f] {
			names = append(names, n)
		}
		sort.Strings(names)
		for _, n := range names {
			c.Check(n == owner[f], rule, what+"@"+n, c.Pos(found[f][n].Pos()), "opcode implementations are invoked only by "+owner[f]+", which applies the mode/stack/cost guards first")
		}
	}
}

// ---------------------------------------------------------------------------
// R31.4
// ---------------------------------------------------------------------------

func c31Trusted(c *Ctx, a *GAvm) {
	const rule = "R31.4"
	reviewed := map[string]string{
		"popn":       "pops N (immediate) values; tests N against the stack height itself",
		"dupn":       "pushes N copies; grows the stack through ensureStackCap (bounded by maxStackDepth)",
		"pushbytess": "pushes one value per immediate constant; ensureStackCap; sizes bounded by byteImmArgs",
		"pushints":   "pushes one value per immediate constant; ensureStackCap",
		"retsub":     "restores the caller's frame; tests the height against the frame first",
		"match":      "pops N+1 values; tests N+1 against the stack height itself",
	}
	ensure := c.Func(gLogic + ".EvalContext.ensureStackCap")
	fStack := c.Field(gLogic + ".EvalContext.Stack")
	seen := map[string]bool{}
	for _, o := range a.Ops {
		if !o.Need(c, rule, "trusted", "Name") || !o.Trusted {
			continue
		}
		why, ok := reviewed[o.Name]
		if !ok {
			c.Bad(rule, o.Key()+":trusted", c.Pos(o.Pos), "new .trust() opcode "+o.Name+": step skips the stack-height, return-type and maxStringSize post-conditions for it; it needs a review and a line in the trusted table")
			continue
		}
		seen[o.Name] = true
		// a trusted op that appends to the stack must bound the growth itself
		detail := "reviewed: " + why
		okGrow := true
		if fn := c.SSAOf(o.Op); fn != nil {
			grows := false
			for _, in := range Instrs(fn, func(in ssa.Instruction) bool {
				cc, ok := isBuiltinCall(in, "append")
				return ok && Mentions(cc.Args[0], fStack, 4)
			}) {
				_ = in
				grows = true
			}
			if grows && len(CallsTo(fn, false, ensure)) == 0 {
				okGrow = false
				detail = "trusted opcode appends to cx.Stack without calling ensureStackCap: nothing bounds the stack height for it except step's final test, after the allocation"
			}
		}
		c.Check(okGrow, rule, o.Key()+":trusted", c.Pos(o.Pos), detail)
	}
	for n := range reviewed {
		if !seen[n] {
			c.Unk(rule, "trusted-table:"+n, "-", "the reviewed trusted opcode "+n+" is no longer marked .trust() in OpSpecs: update the table")
		}
	}
}

// ---------------------------------------------------------------------------
// R31.5
// ---------------------------------------------------------------------------

func c31RecoverAndBudget(c *Ctx, a *GAvm) {
	const rule = "R31.5"
	panicErr := c.Named(gLogic + ".panicError")
	begin := c.Func(gLogic + ".EvalContext.begin")
	stepF := c.Func(gLogic + ".EvalContext.step")
	checkStepF := c.Func(gLogic + ".EvalContext.checkStep")
	for _, spec := range []struct {
		fn    string
		calls []*types.Func
	}{{gLogic + ".eval", []*types.Func{begin, stepF}}, {gLogic + ".check", []*types.Func{begin, checkStepF}}} {
		fn := c.Fn(spec.fn)
		name := fnName(fn)
		idx := errResultIndex(fn)
		var errAlloc *ssa.Alloc
		if fn.Recover != nil && idx >= 0 {
			if ret, ok := fn.Recover.Instrs[len(fn.Recover.Instrs)-1].(*ssa.Return); ok && idx < len(ret.Results) {
				if u, ok := ret.Results[idx].(*ssa.UnOp); ok {
					errAlloc, _ = u.X.(*ssa.Alloc)
				}
			}
		}
		var deferOK ssa.Instruction
		for _, in := range fn.Blocks[0].Instrs {
			d, ok := in.(*ssa.Defer)
			if !ok || errAlloc == nil {
				continue
			}
			mc, ok := d.Call.Value.(*ssa.MakeClosure)
			if !ok {
				continue
			}
			body, ok := mc.Fn.(*ssa.Function)
			if !ok {
				continue
			}
			var fv *ssa.FreeVar
			for j, bnd := range mc.Bindings {
				if bnd == ssa.Value(errAlloc) && j < len(body.FreeVars) {
					fv = body.FreeVars[j]
				}
			}
			if fv == nil {
				continue
			}
			var rec *ssa.Call
			for _, r := range Instrs(body, func(in ssa.Instruction) bool { _, ok := isBuiltinCall(in, "recover"); return ok }) {
				rec, _ = r.(*ssa.Call)
			}
			if rec == nil {
				continue
			}
			conv := Instrs(body, func(in ssa.Instruction) bool {
				st, ok := in.(*ssa.Store)
				if !ok || st.Addr != ssa.Value(fv) {
					return false
				}
				mi, ok := st.Val.(*ssa.MakeInterface)
				if !ok {
					return false
				}
				nt, ok := types.Unalias(mi.X.Type()).(*types.Named)
				return ok && nt.Origin() == panicErr.Origin()
			})
			if len(conv) == 0 {
				continue
			}
			// the conversion happens exactly when recover() returned non-nil
			edges, m := PassEdges(body, GCmp("recover() != nil", token.NEQ, IsV(rec), IsNil))
			if m == 0 || NewReach(body, edges, nil).Reaches(conv[0]) {
				continue
			}
			deferOK = in
		}
		c.Check(deferOK != nil, rule, name+":defer{recover()->panicError}", c.Pos(fn.Pos()), "the function installs in its entry block a deferred closure that calls recover() and, when it returns non-nil, stores a panicError into the named error result (so an internal panic becomes an error, never a crash)")
		for _, callee := range spec.calls {
			for _, ci := range CallsTo(fn, false, callee) {
				c.Check(deferOK != nil && Dominates(deferOK, ci), rule, name+":recover installed before "+callee.Name(), c.Pos(ci.Pos()), "the recovering defer is installed before "+callee.Name()+" can run")
			}
		}
	}

	// budget accounting in step
	step := c.Fn(gLogic + ".EvalContext.step")
	name := fnName(step)
	remaining := c.Func(gLogic + ".EvalContext.remainingBudget")
	fCost := c.Field(gLogic + ".EvalContext.cost")
	fOp := c.Field(gLogic + ".OpSpec.op")
	var opCall ssa.Instruction
	for _, in := range Instrs(step, func(in ssa.Instruction) bool {
		call, ok := in.(*ssa.Call)
		return ok && !call.Common().IsInvoke() && call.Common().StaticCallee() == nil && gDerives(call.Common().Value, 4, func(x ssa.Value) bool { return valueIs(x, fOp) })
	}) {
		opCall = in
	}
	// the value compared against remainingBudget()
	var opcost ssa.Value
	for _, b := range step.Blocks {
		iff, ok := b.Instrs[len(b.Instrs)-1].(*ssa.If)
		if !ok {
			continue
		}
		cond, _ := condOf(iff.Cond)
		if bo, ok := cond.(*ssa.BinOp); ok {
			if ResultOf(0, remaining)(bo.Y) {
				opcost = bo.X
			} else if ResultOf(0, remaining)(bo.X) {
				opcost = bo.Y
			}
		}
	}
	if opCall == nil || opcost == nil {
		c.Unk(rule, name+":budget", c.Pos(step.Pos()), "the op call or the comparison with remainingBudget() was not found in step")
		return
	}
	addsCost := Instrs(step, func(in ssa.Instruction) bool {
		st, ok := in.(*ssa.Store)
		if !ok {
			return false
		}
		fa, ok := st.Addr.(*ssa.FieldAddr)
		if !ok || structField(fa.X.Type(), fa.Field) != fCost {
			return false
		}
		bo, ok := st.Val.(*ssa.BinOp)
		return ok && bo.Op == token.ADD && ((bo.X == opcost && Mentions(bo.Y, fCost, 3)) || (bo.Y == opcost && Mentions(bo.X, fCost, 3)))
	})
	c.Check(len(addsCost) == 1 && Dominates(addsCost[0], opCall), rule, name+":cx.cost += opcost before spec.op(cx)", c.Pos(step.Pos()), "the cost compared with the remaining budget is the cost charged, and it is charged on every path to the op call")
	// pooled budgets read by remainingBudget must be decremented by the same value
	rb := c.SSAOf(remaining)
	pooled := map[*types.Var]bool{}
	costBased := 0
	for _, b := range rb.Blocks {
		ret, ok := b.Instrs[len(b.Instrs)-1].(*ssa.Return)
		if !ok {
			continue
		}
		v := ret.Results[0]
		if u, ok := v.(*ssa.UnOp); ok && u.Op == token.MUL {
			if u2, ok := u.X.(*ssa.UnOp); ok && u2.Op == token.MUL {
				if fa, ok := u2.X.(*ssa.FieldAddr); ok {
					pooled[structField(fa.X.Type(), fa.Field)] = true
					continue
				}
			}
		}
		if Mentions(v, fCost, 5) {
			costBased++
			continue
		}
		c.Unk(rule, fnName(rb)+":return form", c.Pos(ret.Pos()), "remainingBudget returns a value that is neither a pooled budget nor limit - cx.cost: "+describe(v))
	}
	c.Check(costBased > 0, rule, fnName(rb)+":unpooled budget == limit - cx.cost", c.Pos(rb.Pos()), "without a pooled budget the remaining budget decreases with cx.cost")
	var pf []*types.Var
	for f := range pooled {
		pf = append(pf, f)
	}
	sort.Slice(pf, func(i, j int) bool { return pf[i].Name() < pf[j].Name() })
	for _, f := range pf {
		dec := Instrs(step, func(in ssa.Instruction) bool {
			st, ok := in.(*ssa.Store)
			if !ok || !Mentions(st.Addr, f, 3) {
				return false
			}
			if _, isField := st.Addr.(*ssa.FieldAddr); isField {
				return false // replaces the pointer, not the budget
			}
			bo, ok := st.Val.(*ssa.BinOp)
			return ok && bo.Op == token.SUB && bo.Y == opcost && Mentions(bo.X, f, 4)
		})
		ok := len(dec) > 0
		if ok {
			edges, m := PassEdges(step, GCmp(f.Name()+" != nil", token.NEQ, M(f), IsNil))
			ok = m > 0 && !NewReach(step, edges, nil).Reaches(dec[0])
		}
		c.Check(ok, rule, name+":*cx."+f.Name()+" -= opcost", c.Pos(step.Pos()), "remainingBudget() reads *"+f.Name()+"; step subtracts the charged cost from it (only when the pointer is non-nil)")
	}
}

// ---------------------------------------------------------------------------
// R31.6 immediates are read inside the bounds step() checked
// ---------------------------------------------------------------------------

func c31Immediates(c *Ctx, a *GAvm) {
	const rule = "R31.6"
	fPc := c.Field(gLogic + ".EvalContext.pc")
	fProgram := c.Field(gLogic + ".EvalContext.program")
	roots, users := a.gOpRoots(c)
	n := 0
	for _, fn := range roots {
		maxK := int64(-1)
		var at ssa.Instruction
		var unguarded []ssa.Instruction
		for _, b := range fn.Blocks {
			for _, in := range b.Instrs {
				ia, ok := in.(*ssa.IndexAddr)
				if !ok {
					continue
				}
				ld, ok := ia.X.(*ssa.UnOp)
				if !ok || !valueIs(ld.X, fProgram) {
					continue
				}
				bo, ok := ia.Index.(*ssa.BinOp)
				if !ok || bo.Op != token.ADD {
					continue
				}
				var k *ssa.Const
				switch {
				case Mentions(bo.X, fPc, 2):
					k, _ = bo.Y.(*ssa.Const)
				case Mentions(bo.Y, fPc, 2):
					k, _ = bo.X.(*ssa.Const)
				}
				if k == nil {
					continue
				}
				kv, ok := gConstInt(k)
				if !ok {
					continue
				}
				if kv > maxK {
					maxK, at = kv, in
				}
				unguarded = append(unguarded, in)
			}
		}
		if maxK < 0 {
			continue
		}
		n++
		c.NoteFn(fnName(fn))
		for _, o := range users[fn] {
			if !o.Need(c, rule, "Size") {
				continue
			}
			construct := fmt.Sprintf("%s:%s reads cx.program[cx.pc+%d]<=Size", o.Key(), o.Op.Name(), maxK)
			if o.Size == 0 {
				// dynamic size: the read must be protected by an explicit test on len(cx.program)
				g := GCmp("cx.pc+k < len(cx.program)", token.LSS, func(v ssa.Value) bool { return Mentions(v, fPc, 4) }, c31LenOf(M(fProgram)))
				edges, m := PassEdges(fn, g)
				ok := m > 0
				if ok {
					r := NewReach(fn, edges, nil)
					for _, u := range unguarded {
						if r.Reaches(u) {
							ok = false
						}
					}
				}
				c.Check(ok, rule, construct, c.Pos(at.Pos()), "the opcode has a dynamic size (Size==0), so step did no bounds check: every immediate read must be dominated by an explicit comparison with len(cx.program)")
				continue
			}
			c.Check(o.Size > maxK, rule, construct, c.Pos(at.Pos()), fmt.Sprintf("step guarantees cx.pc+Size <= len(cx.program) with Size=%d; the implementation reads offset %d", o.Size, maxK))
		}
	}
	c.NoteSites(n)
}

// ---------------------------------------------------------------------------
// R31.3 — stack discipline of opcode implementations, decided for the class of
// evaluation functions that touch cx.Stack only themselves and only with
// indices that are symbolic in the entry height L = len(cx.Stack):
// every index i into a stack slice of length L+d satisfies
// L-len(Arg.Types) <= i < L+d (step guarantees only L >= len(Arg.Types)),
// and every re-slice keeps 0 <= low <= high <= length.

// c31Sym is a value of the form (Rel ? L : 0) + K.
type c31Sym struct {
	Rel bool
	K   int64
}

type c31Stack struct {
	fn      *ssa.Function
	fStack  *types.Var
	loadLen map[ssa.Value]c31Sym // length of each loaded cx.Stack value
	loadOK  map[ssa.Value]bool
	out     []string // reasons the function is outside the decidable class
}

func (s *c31Stack) isStackAddr(v ssa.Value) bool {
	fa, ok := v.(*ssa.FieldAddr)
	return ok && structField(fa.X.Type(), fa.Field) == s.fStack
}

// sym evaluates an integer SSA value.
func (s *c31Stack) sym(v ssa.Value, depth int) (c31Sym, bool) {
	if depth > 12 || v == nil {
		return c31Sym{}, false
	}
	switch x := v.(type) {
	case *ssa.Const:
		n, ok := gConstInt(x)
		return c31Sym{false, n}, ok
	case *ssa.Convert:
		if b, ok := x.Type().Underlying().(*types.Basic); ok && b.Info()&types.IsInteger != 0 {
			if b2, ok := x.X.Type().Underlying().(*types.Basic); ok && b2.Info()&types.IsInteger != 0 {
				return s.sym(x.X, depth+1)
			}
		}
	case *ssa.ChangeType:
		return s.sym(x.X, depth+1)
	case *ssa.Call:
		if cc, ok := isBuiltinCall(x, "len"); ok {
			return s.length(cc.Args[0], depth+1)
		}
	case *ssa.BinOp:
		a, ok1 := s.sym(x.X, depth+1)
		b, ok2 := s.sym(x.Y, depth+1)
		if !ok1 || !ok2 {
			return c31Sym{}, false
		}
		switch x.Op {
		case token.ADD:
			if a.Rel && b.Rel {
				return c31Sym{}, false
			}
			return c31Sym{a.Rel || b.Rel, a.K + b.K}, true
		case token.SUB:
			if !a.Rel && b.Rel {
				return c31Sym{}, false
			}
			return c31Sym{a.Rel && !b.Rel, a.K - b.K}, true
		}
	case *ssa.Phi:
		var first c31Sym
		for i, e := range x.Edges {
			y, ok := s.sym(e, depth+1)
			if !ok || (i > 0 && y != first) {
				return c31Sym{}, false
			}
			first = y
		}
		return first, len(x.Edges) > 0
	}
	return c31Sym{}, false
}

// length evaluates the length of a []stackValue value derived from cx.Stack.
func (s *c31Stack) length(v ssa.Value, depth int) (c31Sym, bool) {
	if depth > 12 {
		return c31Sym{}, false
	}
	if l, ok := s.loadLen[v]; ok {
		return l, s.loadOK[v]
	}
	switch x := v.(type) {
	case *ssa.Slice:
		base, ok := s.length(x.X, depth+1)
		if !ok {
			return c31Sym{}, false
		}
		lo, hi := c31Sym{false, 0}, base
		if x.Low != nil {
			if lo, ok = s.sym(x.Low, depth+1); !ok {
				return c31Sym{}, false
			}
		}
		if x.High != nil {
			if hi, ok = s.sym(x.High, depth+1); !ok {
				return c31Sym{}, false
			}
		}
		if !hi.Rel && lo.Rel {
			return c31Sym{}, false
		}
		return c31Sym{hi.Rel && !lo.Rel, hi.K - lo.K}, true
	case *ssa.Call:
		if cc, ok := isBuiltinCall(x, "append"); ok {
			base, ok := s.length(cc.Args[0], depth+1)
			if !ok || len(cc.Args) != 2 {
				return c31Sym{}, false
			}
			// the variadic part: either a spread slice, or a fresh array holding the listed values
			if sl, ok := cc.Args[1].(*ssa.Slice); ok {
				if al, ok := sl.X.(*ssa.Alloc); ok {
					if arr, ok := al.Type().(*types.Pointer).Elem().Underlying().(*types.Array); ok {
						return c31Sym{base.Rel, base.K + arr.Len()}, true
					}
				}
			}
			extra, ok := s.length(cc.Args[1], depth+1)
			if !ok || (base.Rel && extra.Rel) {
				return c31Sym{}, false
			}
			return c31Sym{base.Rel || extra.Rel, base.K + extra.K}, true
		}
	case *ssa.Phi:
		var first c31Sym
		for i, e := range x.Edges {
			y, ok := s.length(e, depth+1)
			if !ok || (i > 0 && y != first) {
				return c31Sym{}, false
			}
			first = y
		}
		return first, len(x.Edges) > 0
	}
	return c31Sym{}, false
}

// fromStack reports whether a slice value derives from a load of cx.Stack.
func (s *c31Stack) fromStack(v ssa.Value, depth int) bool {
	if depth > 8 {
		return false
	}
	if _, ok := s.loadLen[v]; ok {
		return true
	}
	switch x := v.(type) {
	case *ssa.Slice:
		return s.fromStack(x.X, depth+1)
	case *ssa.Phi:
		for _, e := range x.Edges {
			if s.fromStack(e, depth+1) {
				return true
			}
		}
	case *ssa.Call:
		if cc, ok := isBuiltinCall(x, "append"); ok {
			return s.fromStack(cc.Args[0], depth+1)
		}
	}
	return false
}

// run does the forward dataflow for the current height and fills loadLen.
func (s *c31Stack) run() {
	type st struct {
		known bool
		v     c31Sym
		set   bool
	}
	in := map[*ssa.BasicBlock]st{}
	out := map[*ssa.BasicBlock]st{}
	in[s.fn.Blocks[0]] = st{true, c31Sym{true, 0}, true}
	for iter := 0; iter < 20; iter++ {
		changed := false
		for _, b := range s.fn.Blocks {
			cur := in[b]
			if b != s.fn.Blocks[0] {
				cur = st{}
				for _, p := range b.Preds {
					o := out[p]
					if !o.set {
						continue
					}
					switch {
					case !cur.set:
						cur = o
					case !o.known || !cur.known || o.v != cur.v:
						cur = st{false, c31Sym{}, true}
					}
				}
			}
			if !cur.set {
				continue
			}
			for _, ins := range b.Instrs {
				switch x := ins.(type) {
				case *ssa.UnOp:
					if x.Op == token.MUL && s.isStackAddr(x.X) {
						if old, had := s.loadLen[x]; !had || old != cur.v || s.loadOK[x] != cur.known {
							changed = true
						}
						s.loadLen[x], s.loadOK[x] = cur.v, cur.known
					}
				case *ssa.Store:
					if s.isStackAddr(x.Addr) {
						l, ok := s.length(x.Val, 0)
						cur = st{ok, l, true}
					}
				}
			}
			if out[b] != cur {
				out[b] = cur
				changed = true
			}
		}
		if !changed {
			break
		}
	}
}

func c31StackDiscipline(c *Ctx, a *GAvm) {
	const rule = "R31.3"
	pkgPath := Mod + "/" + gLogic
	fStack := c.Field(gLogic + ".EvalContext.Stack")
	all := c.funcsOf(pkgPath)
	// functions that touch cx.Stack, directly or through static calls
	touches := map[*ssa.Function]bool{}
	for _, fn := range all {
		for _, in := range Instrs(fn, func(in ssa.Instruction) bool {
			fa, ok := in.(*ssa.FieldAddr)
			return ok && structField(fa.X.Type(), fa.Field) == fStack
		}) {
			_ = in
			touches[fn] = true
		}
	}
	for changed := true; changed; {
		changed = false
		for _, fn := range all {
			if touches[fn] {
				continue
			}
			for _, g := range gStaticCallees(fn) {
				if touches[g] {
					touches[fn], changed = true, true
					break
				}
			}
		}
	}
	roots, users := a.gOpRoots(c)
	nIn, nOut := 0, 0
	var outside []string
	for _, fn := range roots {
		if !touches[fn] {
			continue
		}
		nargs := int64(1 << 30)
		okAttr := true
		for _, o := range users[fn] {
			if !o.Need(c, rule, "Proto") {
				okAttr = false
				continue
			}
			if int64(len(o.Args)) < nargs {
				nargs = int64(len(o.Args))
			}
		}
		if !okAttr {
			continue
		}
		s := &c31Stack{fn: fn, fStack: fStack, loadLen: map[ssa.Value]c31Sym{}, loadOK: map[ssa.Value]bool{}}
		// class membership: no callee (or closure) that touches the stack, no escaping stack slice
		for _, g := range gStaticCallees(fn) {
			if touches[g] {
				s.out = append(s.out, "calls "+fnName(g)+", which touches cx.Stack")
			}
		}
		if len(fn.AnonFuncs) > 0 {
			for _, an := range fn.AnonFuncs {
				if touches[an] {
					s.out = append(s.out, "a function literal touches cx.Stack")
				}
			}
		}
		s.run()
		var bad []string
		nSites := 0
		for _, b := range fn.Blocks {
			for _, ins := range b.Instrs {
				switch x := ins.(type) {
				case *ssa.FieldAddr:
					if !s.isStackAddr(x) {
						continue
					}
					for _, r := range *x.Referrers() {
						switch y := r.(type) {
						case *ssa.UnOp:
						case *ssa.Store:
							if y.Addr != ssa.Value(x) {
								s.out = append(s.out, "&cx.Stack is stored")
							}
						case *ssa.DebugRef:
						default:
							s.out = append(s.out, "&cx.Stack escapes")
						}
					}
				case *ssa.IndexAddr:
					if !s.fromStack(x.X, 0) {
						continue
					}
					nSites++
					ln, ok1 := s.length(x.X, 0)
					idx, ok2 := s.sym(x.Index, 0)
					if !ok1 || !ok2 {
						s.out = append(s.out, "data-dependent stack index at "+c.Pos(x.Pos()))
						continue
					}
					switch {
					case idx.Rel && ln.Rel:
						if idx.K < -nargs {
							bad = append(bad, fmt.Sprintf("%s: index len(cx.Stack)%+d reaches below the %d argument(s) step() guarantees", c.Pos(x.Pos()), idx.K, nargs))
						}
						if idx.K >= ln.K {
							bad = append(bad, fmt.Sprintf("%s: index len(cx.Stack)%+d is not below the current height len(cx.Stack)%+d", c.Pos(x.Pos()), idx.K, ln.K))
						}
					case !idx.Rel && ln.Rel:
						// absolute index i < L+d for every L >= nargs  <=>  i - d + 1 <= nargs
						if idx.K < 0 || idx.K-ln.K+1 > nargs {
							bad = append(bad, fmt.Sprintf("%s: absolute index %d needs a stack of %d, step() guarantees %d", c.Pos(x.Pos()), idx.K, idx.K-ln.K+1, nargs))
						}
					case !idx.Rel && !ln.Rel:
						if idx.K < 0 || idx.K >= ln.K {
							bad = append(bad, fmt.Sprintf("%s: index %d outside a slice of length %d", c.Pos(x.Pos()), idx.K, ln.K))
						}
					default:
						s.out = append(s.out, "relative index into a fixed-length slice at "+c.Pos(x.Pos()))
					}
				case *ssa.Slice:
					if !s.fromStack(x.X, 0) {
						continue
					}
					nSites++
					ln, ok := s.length(x.X, 0)
					lo, hi := c31Sym{false, 0}, ln
					ok2, ok3 := true, true
					if x.Low != nil {
						lo, ok2 = s.sym(x.Low, 0)
					}
					if x.High != nil {
						hi, ok3 = s.sym(x.High, 0)
					}
					if !ok || !ok2 || !ok3 || !ln.Rel {
						s.out = append(s.out, "data-dependent re-slice of the stack at "+c.Pos(x.Pos()))
						continue
					}
					if lo.Rel && lo.K < -nargs || hi.Rel && hi.K < -nargs {
						bad = append(bad, fmt.Sprintf("%s: slice bound reaches below the %d argument(s) step() guarantees", c.Pos(x.Pos()), nargs))
					}
					if hi.Rel && hi.K > ln.K {
						bad = append(bad, fmt.Sprintf("%s: slice high bound len(cx.Stack)%+d exceeds the current height len(cx.Stack)%+d", c.Pos(x.Pos()), hi.K, ln.K))
					}
					if !hi.Rel && hi.K > nargs+ln.K {
						bad = append(bad, fmt.Sprintf("%s: absolute slice bound %d needs a taller stack than step() guarantees", c.Pos(x.Pos()), hi.K))
					}
					if lo.Rel == hi.Rel && lo.K > hi.K {
						bad = append(bad, fmt.Sprintf("%s: slice low bound above high bound", c.Pos(x.Pos())))
					}
				case *ssa.Call:
					// a loaded stack slice handed to a non-builtin callee
					if _, isB := x.Common().Value.(*ssa.Builtin); isB {
						continue
					}
					for _, arg := range x.Common().Args {
						if s.fromStack(arg, 0) {
							s.out = append(s.out, "passes the stack slice to "+describe(x))
						}
					}
				case *ssa.Range:
					if s.fromStack(x.X, 0) {
						s.out = append(s.out, "ranges over the stack")
					}
				}
			}
		}
		if len(s.out) > 0 {
			nOut++
			outside = append(outside, fn.Name())
			continue
		}
		nIn++
		c.NoteFn(fnName(fn))
		sort.Strings(bad)
		c.Check(len(bad) == 0, rule, fnName(fn)+":stack indices within [len-args, height)", c.Pos(fn.Pos()),
			fmt.Sprintf("%d index/slice site(s) on cx.Stack, declared arguments %d; %s", nSites, nargs, strings.Join(bad, "; ")))
	}
	sort.Strings(outside)
	c.NoteSites(nIn + nOut)
	// one summary obligation makes the partial coverage visible in the evidence
	c.Ok(rule, "OpSpecs:coverage of the decidable class", "-", fmt.Sprintf("decided for %d evaluation functions; NOT decided for %d that use helpers or data-dependent indices: %s", nIn, nOut, strings.Join(outside, " ")))
}
