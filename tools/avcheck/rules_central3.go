package main

import (
	"go/token"
	"go/types"

	"golang.org/x/tools/go/ssa"
)

// More rules added after independently seeded changes showed a gap.

func init() {
	extend("C06", Extension{
		Run:         ruleEquivocatorVoteRemoved,
		Explanation: "R06.5 (bundle material): once voteTracker.handle has charged a sender to EquivocatorsCount, every path to a return either drops the whole tally entry of its earlier value (delete(Counts, old)) or removes the sender's earlier vote from that entry's Votes map — otherwise genBundle packs the same sender both as a plain vote and as an equivocation pair and the bundle is not a valid quorum proof.",
		Floor:       map[string]int{"R06.5": 1},
	})
	extend("C03", Extension{
		Run:         func(c *Ctx) { ruleEquivocatorVoteRemovedAs(c, "R03.4") },
		Explanation: "R03.4 (distinct voters in the certificate the tracker builds): same obligation as R06.5 — once a sender is charged to EquivocatorsCount its earlier vote leaves the Votes set that genBundle packs, so the bundle handed on as a certificate never lists one voter both as a plain vote and as an equivocation pair.",
		Floor:       map[string]int{"R03.4": 1},
	})
	extend("C07", Extension{
		Run:         ruleEncodeKeepsCurrentAndFutureRounds,
		Explanation: "R07.5 (what encode persists of the router): the Children map stored into the encoded rootRouter is nil or a map filled inside a range over the original rr.Children, with the loop's own key and value, guarded only by key >= p.Round — so the pipelined state of rounds after the player's round is persisted, not just the current round.",
		Floor:       map[string]int{"R07.5": 3},
	})
	extend("C16", Extension{
		Run:         ruleCatchpointWriterKeepsChunk,
		Explanation: "R16.5 (producer side, time-sliced file writer): catchpointFileWriter.FileWriteStep calls readDatabaseStep, which overwrites cw.chunk, only when cw.chunk.empty() — a batch read just before a step deadline is written by the next step instead of being replaced; and cw.chunk is cleared only after it was handed to the writer.",
		Floor:       map[string]int{"R16.5": 2},
	})
	extend("C23", Extension{
		Run:         ruleBoxValueNeverNilByAppend,
		Explanation: "R23.6 (box value is never the nil slice): no value handed to LedgerForLogic.NewBox/SetBox derives from append(nil-slice, xs...), which yields nil for empty xs — kvPut treats a nil value as the deletion marker while NewBox still counts the box (the source's own comment in replaceCarefully forbids the append trick for this reason).",
		Floor:       map[string]int{"R23.6": 1},
		Patterns:    []string{"./data/transactions/logic"},
	})
}

func isBuiltinDeleteOn(in ssa.Instruction, mapField *types.Var) bool {
	cc, ok := isBuiltinCall(in, "delete")
	return ok && len(cc.Args) > 0 && Mentions(cc.Args[0], mapField, 6)
}

func ruleEquivocatorVoteRemoved(c *Ctx) { ruleEquivocatorVoteRemovedAs(c, "R06.5") }

func ruleEquivocatorVoteRemovedAs(c *Ctx, rule string) {
	fn := c.Fn("agreement.voteTracker.handle")
	fEq := c.Fields("agreement.voteTracker.EquivocatorsCount")
	fCounts := c.Field("agreement.voteTracker.Counts")
	fVotes := c.Field("agreement.proposalVoteCounter.Votes")
	name := "agreement.voteTracker.handle"
	stores := StoresToField(fn, false, fEq)
	if len(stores) == 0 {
		c.Unk(rule, name+":EquivocatorsCount+=", c.Pos(fn.Pos()), "no store to EquivocatorsCount found")
		return
	}
	for _, st := range stores {
		// start right after the store: the rest of its block is examined by hand, then successors
		stop := func(in ssa.Instruction) bool {
			return isBuiltinDeleteOn(in, fCounts) && !Mentions(in.(ssa.CallInstruction).Common().Args[0], fVotes, 6) || isBuiltinDeleteOn(in, fVotes)
		}
		// split: does the remainder of the store's own block contain a stop?
		b := st.Block()
		after := false
		stoppedInBlock := false
		for _, in := range b.Instrs {
			if in == st {
				after = true
				continue
			}
			if after && (stop(in) || noReturnCall(in)) {
				stoppedInBlock = true
				break
			}
		}
		ok := true
		if !stoppedInBlock {
			for _, s := range b.Succs {
				r := NewReachFromBlock(s, nil, stop)
				for _, blk := range fn.Blocks {
					if ret, isRet := blk.Instrs[len(blk.Instrs)-1].(*ssa.Return); isRet && r.Reaches(ret) {
						ok = false
					}
				}
			}
		}
		c.Check(ok, rule, name+":after(EquivocatorsCount+=)=>old vote leaves the tally", c.Pos(st.Pos()),
			"after a sender is charged as an equivocator every path to a return deletes the tally entry of its earlier value or deletes its earlier vote from that entry's Votes (the material genBundle packs)")
	}
}

func ruleEncodeKeepsCurrentAndFutureRounds(c *Ctx) {
	ruleEncodeKeepsCurrentAndFutureRoundsAs(c, "R07.5")
}

func ruleEncodeKeepsCurrentAndFutureRoundsAs(c *Ctx, rule string) {
	fn := c.Fn("agreement.encode")
	fChildren := c.Field("agreement.rootRouter.Children")
	fRound := c.Field("agreement.player.Round")
	name := "agreement.encode"
	// stores to rr.Children inside encode
	stores := StoresToField(fn, false, map[*types.Var]bool{fChildren: true})
	if len(stores) == 0 {
		c.Unk(rule, name+":rr.Children=", c.Pos(fn.Pos()), "encode no longer assigns rr.Children: idiom not recognised")
		return
	}
	var maps []*ssa.MakeMap
	okStores := true
	for _, s := range stores {
		v := strip(s.(*ssa.Store).Val)
		if IsNil(v) {
			continue
		}
		if mm, ok := v.(*ssa.MakeMap); ok {
			maps = append(maps, mm)
			continue
		}
		okStores = false
	}
	c.Check(okStores && len(maps) > 0, rule, name+":rr.Children=nil|filtered map", c.Pos(stores[0].Pos()), "the Children map encoded is nil or a freshly built map")
	for _, mm := range maps {
		var ups []ssa.Instruction
		for _, r := range *mm.Referrers() {
			if mu, ok := r.(*ssa.MapUpdate); ok && mu.Map == ssa.Value(mm) {
				ups = append(ups, mu)
			}
		}
		if len(ups) == 0 {
			c.Bad(rule, name+":children[rnd]=router", c.Pos(mm.Pos()), "nothing is copied into the persisted Children map")
			continue
		}
		okKV := true
		var key ssa.Value
		for _, u := range ups {
			mu := u.(*ssa.MapUpdate)
			k, isExtK := mu.Key.(*ssa.Extract)
			v, isExtV := mu.Value.(*ssa.Extract)
			if !isExtK || !isExtV || k.Tuple != v.Tuple || k.Index != 1 || v.Index != 2 {
				okKV = false
				continue
			}
			next, isNext := k.Tuple.(*ssa.Next)
			if !isNext {
				okKV = false
				continue
			}
			rng, isRange := next.Iter.(*ssa.Range)
			if !isRange || !Mentions(rng.X, fChildren, 5) {
				okKV = false
				continue
			}
			key = k
		}
		c.Check(okKV, rule, name+":children[rnd]=router of range rr.Children", c.Pos(ups[0].Pos()), "every entry copied is the (key, value) pair of a range over the original rr.Children")
		if okKV && key != nil {
			c.MustGuard(MustGuardSpec{Rule: rule, Fn: fn, Effects: ups, EffName: "children[rnd]=router",
				Guards: []Guard{GCmp("rnd>=p.Round", token.GEQ, IsV(key), M(fRound))}})
			// no other condition may exclude an entry: the copy must be reached from the loop body whenever rnd >= p.Round
			edges, _ := PassEdges(fn, GCmp("rnd>=p.Round", token.GEQ, IsV(key), M(fRound)))
			only := len(edges) == 1
			if only {
				succ := edges[0].From.Succs[edges[0].Idx]
				only = succ == ups[0].Block()
			}
			c.Check(only, rule, name+":rnd>=p.Round is the only filter", c.Pos(ups[0].Pos()), "the passing edge of rnd >= p.Round leads straight to the copy (no further condition drops a current or future round)")
		}
	}
}

func ruleCatchpointWriterKeepsChunk(c *Ctx) {
	const rule = "R16.5"
	fn := c.Fn("ledger.catchpointFileWriter.FileWriteStep")
	read := c.Func("ledger.catchpointFileWriter.readDatabaseStep")
	empty := c.Func("ledger.CatchpointSnapshotChunkV6.empty")
	fChunk := c.Fields("ledger.catchpointFileWriter.chunk")
	name := "ledger.catchpointFileWriter.FileWriteStep"
	calls := asInstrs(CallsTo(fn, false, read))
	c.MustGuard(MustGuardSpec{Rule: rule, Fn: fn, Effects: calls, EffName: "readDatabaseStep()",
		Guards: []Guard{GBool("cw.chunk.empty()", ResultOf(0, empty), true)}})
	// cw.chunk is reset only after a send of the chunk on the writer channel
	resets := StoresToField(fn, false, fChunk)
	ok := len(resets) > 0
	for _, rs := range resets {
		sent := false
		for _, b := range fn.Blocks {
			for _, in := range b.Instrs {
				if snd, isSend := in.(*ssa.Send); isSend && Mentions(snd.X, c.Field("ledger.catchpointFileWriter.chunk"), 4) && Dominates(snd, rs) {
					sent = true
				}
			}
		}
		if !sent {
			ok = false
		}
	}
	c.Check(ok, rule, name+":cw.chunk reset only after it was sent to the writer", c.Pos(fn.Pos()), "the batch is cleared only after being handed to the asynchronous writer")
}

func ruleBoxValueNeverNilByAppend(c *Ctx) {
	const rule = "R23.6"
	newBox := c.Func("data/transactions/logic.LedgerForLogic.NewBox")
	setBox := c.Func("data/transactions/logic.LedgerForLogic.SetBox")
	n := 0
	bad := 0
	for _, fn := range c.funcsOf(Mod + "/data/transactions/logic") {
		for _, ci := range CallsTo(fn, false, newBox, setBox) {
			args := ci.Common().Args // appID, key, value[, appAddr]
			if len(args) < 3 {
				continue
			}
			n++
			var culprit ssa.Instruction
			seenFn := map[*ssa.Function]bool{}
			var scan func(v ssa.Value, depth int)
			scan = func(v ssa.Value, depth int) {
				walkDef(v, 8, func(x ssa.Value) bool {
					if call, ok := x.(*ssa.Call); ok {
						if cc, isApp := isBuiltinCall(call, "append"); isApp && len(cc.Args) > 0 {
							if k, isConst := strip(cc.Args[0]).(*ssa.Const); isConst && k.IsNil() {
								culprit = call
							}
							return true
						}
						// value produced by a helper in package logic: look at what it returns
						if sc := call.Common().StaticCallee(); sc != nil && sc.Pkg == fn.Pkg && sc.Blocks != nil && depth > 0 && !seenFn[sc] {
							seenFn[sc] = true
							for _, b := range sc.Blocks {
								if ret, isRet := b.Instrs[len(b.Instrs)-1].(*ssa.Return); isRet {
									for _, r := range ret.Results {
										if isSliceLike(r.Type()) {
											scan(r, depth-1)
										}
									}
								}
							}
						}
						return false
					}
					return culprit == nil
				})
			}
			scan(args[2], 2)
			if culprit != nil {
				bad++
				c.Bad(rule, fnName(fn)+":"+calleeOf(ci.Common()).Name()+"(value)", c.Pos(culprit.Pos()), "the box value may be the nil slice: it derives from append(nil, xs...), which is nil when xs is empty; kvPut then records a deletion while the box is still counted")
			}
		}
	}
	if n == 0 {
		c.Unk(rule, "calls(NewBox/SetBox)", "-", "no NewBox/SetBox call found in package logic")
		return
	}
	if bad == 0 {
		c.Ok(rule, "no-append-to-nil(box value)", "-", itoa(n)+" NewBox/SetBox call sites: no value derives from append(nil-slice, …)")
	}
}
