package main

import (
	"fmt"
	"go/token"
	"go/types"

	"golang.org/x/tools/go/ssa"
)

func init() {
	register(&Prop{
		ID:       "C09",
		Patterns: []string{"./ledger"},
		Run:      runC09,
		Explanation: "Decides the ordering/atomicity skeleton that makes the on-disk ledger a consistent prefix at every crash point (it does not simulate crashes). " +
			"R09.1 in trackerRegistry.commitRound every tracker's commitRound(ctx, tx, dcc) and the single AccountsWriterExt.UpdateAccountsRound call sit in the one function literal passed to Store.TransactionWithRetryClearFn (no other caller in package ledger); after a tracker's commitRound failed neither UpdateAccountsRound nor a nil return of the literal is reachable; every possibly-nil return of the literal returns UpdateAccountsRound's own error; the round written is a pure sum of the same two variables (dbRound, offset) whose sum is stored in tr.dbRound, which are the values published to the trackers as dcc.oldBase/dcc.offset, and neither variable is assigned after that publication. " +
			"R09.2 tr.dbRound is assigned only in loadFromDisk and commitRound; in commitRound that assignment and every postCommit/postCommitUnlocked call are reachable only on the err==nil edge of the transaction call. " +
			"R09.3 in package ledger every writer factory call (MakeAccountsWriter, MakeAccountsOptimizedWriter, MakeOnlineAccountsOptimizedWriter, MakeSpVerificationCtxWriter, MakeCatchpointWriter, MakeMerkleCommitter) is made on a transaction/batch scope value, never on a value of type trackerdb.Store (a writer outside the commit transaction); MakeCatchpointReaderWriter is deliberately store-level (catchpoint bookkeeping) and not covered. " +
			"R09.4 blockQueue.lastCommitted is assigned only in start (from blockdb.BlockLatest) and syncer; in syncer the assignment, the trim of bq.q and ledger.notifyCommit are reachable only on the err==nil edge of the Wdb.Atomic call whose literal performs the BlockPut loop; lastCommitted grows and q shrinks by len of the very slice that literal wrote; a failing BlockPut makes the literal return non-nil; notifyCommit receives bq.lastCommitted. " +
			"R09.5 blockQueue.putBlock appends to bq.q only when blk.Round() == lastCommitted+len(q)+1 (pure sum with the constant 1) and returns nil only after the append. " +
			"R09.6 trackerRegistry.loadFromDisk takes dbRound from AccountsRound() read in a Snapshot, hands that same variable to tr.dbRound and to every tracker's loadFromDisk, and a failing tracker load or replay cannot be followed by a nil return; replay reads blocks starting at tr.dbRound+1 and calls newBlock only on the err==nil edge of trackerEvalVerified, whose failure ends in a non-nil return. " +
			"R09.7 in package ledger no call to a trackerdb writer-interface method or to a blockdb function discards its error result. " +
			"Does NOT decide: SQLite atomicity/durability, torn writes, catchpoint recovery (recoverFromCrash), lock discipline of q/lastCommitted (lockset rule provided separately).",
		Assumptions: []string{
			"Store.TransactionWithRetryClearFn and util/db.Accessor.Atomic commit the literal's writes atomically iff it returns nil",
		},
		Floor: map[string]int{"R09.1": 7, "R09.2": 4, "R09.3": 20, "R09.4": 9, "R09.5": 3, "R09.6": 7, "R09.7": 60},
	})
}

// bIfaceMethods lists the methods (with embedded ones) of a named interface.
func bIfaceMethods(t *types.Named) []*types.Func {
	it, ok := t.Underlying().(*types.Interface)
	if !ok {
		return nil
	}
	var out []*types.Func
	for i := 0; i < it.NumMethods(); i++ {
		out = append(out, it.Method(i))
	}
	return out
}

func runC09(c *Ctx) {
	ledgerFns := c.funcsOf(Mod + "/ledger")
	only := ScanOpts{SkipGenerated: true, OnlyPkgs: []string{"ledger"}}

	// ================= R09.1 / R09.2 =================
	cr := c.Fn("ledger.trackerRegistry.commitRound")
	crName := "ledger.trackerRegistry.commitRound"
	txFn := c.Func("ledger/store/trackerdb.Store.TransactionWithRetryClearFn")
	tCommit := c.Func("ledger.ledgerTracker.commitRound")
	tPost := c.Func("ledger.ledgerTracker.postCommit")
	tPostU := c.Func("ledger.trackerCommitLifetimeHandlers.postCommitUnlocked")
	upd := c.Func("ledger/store/trackerdb.AccountsWriterExt.UpdateAccountsRound")
	fDbRound := c.Field("ledger.trackerRegistry.dbRound")
	fOffset := c.Field("ledger.deferredCommitRange.offset")
	fOldBase := c.Field("ledger.deferredCommitRange.oldBase")

	c.OwnerRule("R09.1", "call(ledgerTracker.commitRound)", c.Uses([]*types.Func{tCommit}, only), map[string]string{crName: "inside the commit transaction"})
	c.OwnerRule("R09.1", "call(UpdateAccountsRound)", c.Uses([]*types.Func{upd}, only), map[string]string{crName: "inside the commit transaction"})
	c.OwnerRule("R09.2", "call(ledgerTracker.postCommit)", c.Uses([]*types.Func{tPost, tPostU}, only), map[string]string{crName: "after the transaction committed"})
	c.OwnerRule("R09.2", "write(trackerRegistry.dbRound)", c.FieldWrites(map[*types.Var]bool{fDbRound: true}, ScanOpts{SkipGenerated: true}),
		map[string]string{crName: "after the transaction committed", "ledger.trackerRegistry.loadFromDisk": "AccountsRound() read at load"})

	txCalls := CallsTo(cr, false, txFn)
	if len(txCalls) != 1 {
		c.Unk("R09.1", crName+":TransactionWithRetryClearFn", c.Pos(cr.Pos()), fmt.Sprintf("expected one transaction call, found %d", len(txCalls)))
	} else {
		tx := txCalls[0]
		lit, mc := bClosureArg(tx, 0)
		if lit == nil || mc == nil {
			c.Unk("R09.1", crName+":transaction-literal", c.Pos(tx.Pos()), "the transaction body is not a function literal")
		} else {
			inLit := CallsTo(lit, true, tCommit)
			updCalls := CallsTo(lit, true, upd)
			outside := len(CallsTo(cr, false, tCommit, upd))
			for _, o := range cr.AnonFuncs {
				if o != lit {
					outside += len(CallsTo(o, true, tCommit, upd))
				}
			}
			c.Check(len(inLit) >= 1 && len(updCalls) == 1 && outside == 0, "R09.1", crName+":commitRound+UpdateAccountsRound in one transaction literal", c.Pos(tx.Pos()),
				fmt.Sprintf("tracker commitRound calls (%d) and UpdateAccountsRound (%d) are all inside the literal passed to TransactionWithRetryClearFn (%d outside)", len(inLit), len(updCalls), outside))
			// a failing tracker aborts the transaction
			for _, k := range CallsTo(lit, false, tCommit) {
				_, isNil := bErrEdges(lit, bErrOf(k))
				effects := append(asInstrs(updCalls), bSuccessReturns(lit)...)
				bad := bNoEffectAfter(k, isNil, nil, effects)
				detail := "after a tracker's commitRound returned an error neither UpdateAccountsRound nor a nil return of the transaction literal is reachable"
				if bad != nil {
					detail = "after a tracker's commitRound returned an error the literal can still reach " + c.Pos(bad.Pos()) + " (UpdateAccountsRound or a nil return): a partial tracker commit would be made durable"
				}
				c.Check(bad == nil && len(isNil) > 0, "R09.1", crName+"$lit:commitRound error aborts", c.Pos(k.Pos()), detail)
			}
			// the literal's nil return is UpdateAccountsRound's
			okRet, nRet := true, 0
			for _, r := range bSuccessReturns(lit) {
				nRet++
				if _, ok := asResultOf(bCanon(r.(*ssa.Return).Results[0]), 0, upd); !ok {
					okRet = false
				}
			}
			c.Check(okRet && nRet > 0, "R09.1", crName+"$lit:returns(UpdateAccountsRound error)", c.Pos(lit.Pos()), "every return of the literal that may be nil returns the error of UpdateAccountsRound (the accounts round is written last, in the same transaction)")
			// the round written == the round remembered
			if len(updCalls) == 1 {
				argLeaves, pure1 := bAddLeaves(updCalls[0].Common().Args[0], mc)
				dbStores := StoresToField(cr, false, map[*types.Var]bool{fDbRound: true})
				ok := pure1 && len(dbStores) == 1 && len(argLeaves) == 2
				var memLeaves map[ssa.Value]bool
				if len(dbStores) == 1 {
					var pure2 bool
					memLeaves, pure2 = bAddLeaves(dbStores[0].(*ssa.Store).Val, nil)
					ok = ok && pure2 && bSameLeaves(argLeaves, memLeaves)
				}
				c.Check(ok, "R09.1", crName+":UpdateAccountsRound(arg)==tr.dbRound(new)", c.Pos(updCalls[0].Pos()),
					"the round written to the DB and the round stored in tr.dbRound are the same pure sum; DB: "+bLeafNames(argLeaves)+" memory: "+bLeafNames(memLeaves))
				// published to trackers as dcc.oldBase / dcc.offset, and frozen afterwards
				pub := StoresToField(cr, false, map[*types.Var]bool{fOffset: true, fOldBase: true})
				okPub := len(pub) == 2
				got := map[ssa.Value]bool{}
				for _, p := range pub {
					lv, pure := bAddLeaves(p.(*ssa.Store).Val, nil)
					if !pure || len(lv) != 1 || !Dominates(p, tx) {
						okPub = false
					}
					for l := range lv {
						got[l] = true
					}
				}
				okPub = okPub && bSameLeaves(got, argLeaves)
				if okPub {
					for cell := range argLeaves {
						a, isAlloc := cell.(*ssa.Alloc)
						if !isAlloc {
							okPub = false
							continue
						}
						for _, r := range *a.Referrers() {
							if st, isSt := r.(*ssa.Store); isSt && st.Addr == ssa.Value(a) {
								for _, p := range pub {
									if !Dominates(st, p) {
										okPub = false
									}
								}
							}
						}
					}
				}
				c.Check(okPub, "R09.1", crName+":dcc.oldBase/offset==(dbRound,offset) frozen", c.Pos(tx.Pos()), "the range given to the trackers (dcc.oldBase, dcc.offset) is the pair of variables the accounts round is computed from, assigned before the transaction and not modified afterwards")
			}
			// R09.2
			isTxErr := func(v ssa.Value) bool { return bCanon(v) == tx.Value() }
			effects := StoresToField(cr, false, map[*types.Var]bool{fDbRound: true})
			effects = append(effects, asInstrs(CallsTo(cr, false, tPost, tPostU))...)
			c.MustGuard(MustGuardSpec{Rule: "R09.2", Fn: cr, Effects: effects, EffName: "tr.dbRound=…/postCommit", Guards: []Guard{GErrNil("TransactionWithRetryClearFn()==nil", isTxErr)}})
		}
	}

	// ================= R09.3 =================
	{
		storeT := c.Named("ledger/store/trackerdb.Store")
		factories := c.Funcs(
			"ledger/store/trackerdb.Writer.MakeAccountsWriter", "ledger/store/trackerdb.Writer.MakeAccountsOptimizedWriter",
			"ledger/store/trackerdb.Writer.MakeOnlineAccountsOptimizedWriter", "ledger/store/trackerdb.Writer.MakeSpVerificationCtxWriter",
			"ledger/store/trackerdb.Catchpoint.MakeCatchpointWriter", "ledger/store/trackerdb.Catchpoint.MakeMerkleCommitter")
		perFn := map[string][2]int{}
		var order []string
		firstPos := map[string]token.Pos{}
		for _, fn := range ledgerFns {
			for _, ci := range CallsTo(fn, false, factories...) {
				name := fnName(topFn(fn)) + ":" + calleeOf(ci.Common()).Name()
				v := perFn[name]
				if _, seen := firstPos[name]; !seen {
					order = append(order, name)
					firstPos[name] = ci.Pos()
				}
				recv := callArgs(ci.Common())[0]
				if types.Identical(recv.Type(), storeT) {
					v[1]++
					firstPos[name] = ci.Pos()
				} else {
					v[0]++
				}
				perFn[name] = v
			}
		}
		for _, name := range order {
			v := perFn[name]
			c.Check(v[1] == 0, "R09.3", name+":on-scope", c.Pos(firstPos[name]), fmt.Sprintf("%d writer factory call(s) on a transaction/batch scope, %d on the bare trackerdb.Store (a writer outside any transaction is not atomic with the accounts round)", v[0], v[1]))
		}
	}

	// ================= R09.4 =================
	{
		fLast := c.Field("ledger.blockQueue.lastCommitted")
		fQ := c.Field("ledger.blockQueue.q")
		syncer := c.Fn("ledger.blockQueue.syncer")
		sName := "ledger.blockQueue.syncer"
		atomic := c.Func("util/db.Accessor.Atomic")
		blockPut := c.Func("ledger/store/blockdb.BlockPut")
		notify := c.Func("ledger.Ledger.notifyCommit")
		c.OwnerRule("R09.4", "write(blockQueue.lastCommitted)", c.FieldWrites(map[*types.Var]bool{fLast: true}, ScanOpts{SkipGenerated: true}),
			map[string]string{"ledger.blockQueue.start": "BlockLatest at start", sName: "after a successful flush"})
		c.OwnerRule("R09.4", "call(Ledger.notifyCommit)", c.Uses([]*types.Func{notify}, ScanOpts{SkipGenerated: true}), map[string]string{sName: "after a successful flush"})
		c.OwnerRule("R09.4", "call(blockdb.BlockPut)", c.Uses([]*types.Func{blockPut}, only), map[string]string{sName: "the flush transaction"})
		var flush ssa.CallInstruction
		var flushLit *ssa.Function
		var flushMC *ssa.MakeClosure
		for _, ci := range CallsTo(syncer, false, atomic) {
			lit, mc := bClosureArg(ci, 1)
			if lit != nil && len(CallsTo(lit, true, blockPut)) > 0 {
				flush, flushLit, flushMC = ci, lit, mc
			}
		}
		if flush == nil || flushMC == nil {
			c.Unk("R09.4", sName+":flush", c.Pos(syncer.Pos()), "no Atomic call whose literal performs BlockPut found")
		} else {
			isErr := func(v ssa.Value) bool { return bCanon(v) == flush.Value() }
			stores := StoresToField(syncer, false, map[*types.Var]bool{fLast: true, fQ: true})
			effects := append(append([]ssa.Instruction{}, stores...), asInstrs(CallsTo(syncer, false, notify))...)
			c.MustGuard(MustGuardSpec{Rule: "R09.4", Fn: syncer, Effects: effects, EffName: "lastCommitted+=…/q=q[…:]/notifyCommit", Guards: []Guard{GErrNil("Wdb.Atomic(BlockPut…)==nil", isErr)}})
			// BlockPut failure aborts
			for _, k := range CallsTo(flushLit, false, blockPut) {
				_, isNil := bErrEdges(flushLit, bErrOf(k))
				bad := bNoEffectAfter(k, isNil, nil, bSuccessReturns(flushLit))
				c.Check(bad == nil && len(isNil) > 0, "R09.4", sName+"$flush:BlockPut error aborts", c.Pos(k.Pos()), "after BlockPut failed the flush literal cannot return nil")
			}
			// amount == len(what was written)
			var cell ssa.Value
			// the literal iterates a captured []blockEntry: that variable is what was written
			entryT := c.Named("ledger.blockEntry")
			for _, fv := range flushLit.FreeVars {
				if pt, ok := fv.Type().(*types.Pointer); ok {
					if sl, ok := pt.Elem().Underlying().(*types.Slice); ok && types.Identical(sl.Elem(), entryT) {
						if cell != nil {
							cell = nil // ambiguous
							break
						}
						cell = bFreeVarCell(flushMC, fv)
					}
				}
			}
			lenOfCell := func(v ssa.Value) bool {
				x, ok := lenOf(strip(v))
				if !ok {
					return false
				}
				u, ok := x.(*ssa.UnOp)
				return ok && u.Op == token.MUL && u.X == cell
			}
			okAmt := cell != nil
			nL, nQ := 0, 0
			for _, s := range stores {
				st := s.(*ssa.Store)
				switch bStoreField(st) {
				case fLast:
					nL++
					bo, ok := st.Val.(*ssa.BinOp)
					if !ok || bo.Op != token.ADD {
						okAmt = false
						break
					}
					_, l1 := bFieldLoad(bo.X, fLast)
					_, l2 := bFieldLoad(bo.Y, fLast)
					if !(l1 && lenOfCell(bo.Y) || l2 && lenOfCell(bo.X)) {
						okAmt = false
					}
				case fQ:
					nQ++
					low, ok := bSliceFromSelf(st, fQ)
					if !ok || !lenOfCell(low) {
						okAmt = false
					}
				}
			}
			c.Check(okAmt && nL == 1 && nQ == 1, "R09.4", sName+":lastCommitted+=len(written);q=q[len(written):]", c.Pos(flush.Pos()), "the watermark advances and the queue shrinks by the length of the very slice the flush literal wrote with BlockPut")
			okN := false
			for _, n := range CallsTo(syncer, false, notify) {
				if _, ok := bFieldLoad(n.Common().Args[1], fLast); ok {
					okN = true
				}
			}
			c.Check(okN, "R09.4", sName+":notifyCommit(bq.lastCommitted)", c.Pos(flush.Pos()), "the trackers are told the durable watermark")
		}
		start := c.Fn("ledger.blockQueue.start")
		okS := false
		for _, lit := range start.AnonFuncs {
			for _, s := range StoresToField(lit, false, map[*types.Var]bool{fLast: true}) {
				if _, ok := asResultOf(bCanon(s.(*ssa.Store).Val), 0, c.Func("ledger/store/blockdb.BlockLatest")); ok {
					okS = true
				}
			}
		}
		c.Check(okS && len(StoresToField(start, false, map[*types.Var]bool{fLast: true})) == 0, "R09.4", "ledger.blockQueue.start:lastCommitted=BlockLatest()", c.Pos(start.Pos()), "the initial watermark is the latest block round read from the block DB")

		// ================= R09.5 =================
		put := c.Fn("ledger.blockQueue.putBlock")
		pName := "ledger.blockQueue.putBlock"
		round := c.Func("data/bookkeeping.Block.Round")
		qStores := StoresToField(put, false, map[*types.Var]bool{fQ: true})
		var nextRound ssa.Value
		contig := Guard{Name: "blk.Round()==lastCommitted+len(q)+1", Match: func(cond ssa.Value) (bool, bool) {
			bo, ok := cond.(*ssa.BinOp)
			if !ok || (bo.Op != token.EQL && bo.Op != token.NEQ) {
				return false, false
			}
			for _, pr := range [][2]ssa.Value{{bo.X, bo.Y}, {bo.Y, bo.X}} {
				if _, ok := asResultOf(pr[0], 0, round); ok && Mentions(pr[1], fLast, 6) {
					nextRound = pr[1]
					return true, bo.Op == token.EQL
				}
			}
			return false, false
		}}
		c.MustGuard(MustGuardSpec{Rule: "R09.5", Fn: put, Effects: qStores, EffName: "q=append(q,…)", Guards: []Guard{contig}})
		okNext := false
		if nextRound != nil {
			lv, pure := bAddLeaves(nextRound, nil)
			hasLast, hasLenQ, hasOne, other := false, false, false, 0
			for l := range lv {
				switch x := l.(type) {
				case structFieldKey:
					if x.f == fLast {
						hasLast = true
					} else {
						other++
					}
				case *ssa.Const:
					if IsConstInt(1)(x) {
						hasOne = true
					} else {
						other++
					}
				default:
					if y, ok := lenOf(l); ok {
						if _, ok := bFieldLoad(y, fQ); ok {
							hasLenQ = true
							continue
						}
					}
					other++
				}
			}
			okNext = pure && hasLast && hasLenQ && hasOne && other == 0
		}
		c.Check(okNext, "R09.5", pName+":nextRound=lastCommitted+len(q)+1", c.Pos(put.Pos()), "the only round accepted is the successor of the last queued/committed block")
		okAfter := len(qStores) == 1
		for _, r := range bSuccessReturns(put) {
			if okAfter && !Dominates(qStores[0], r) {
				okAfter = false
			}
		}
		c.Check(okAfter, "R09.5", pName+":return nil<=appended", c.Pos(put.Pos()), "putBlock reports success only after the block entered the queue")
	}

	// ================= R09.6 =================
	{
		lfd := c.Fn("ledger.trackerRegistry.loadFromDisk")
		lName := "ledger.trackerRegistry.loadFromDisk"
		snapshot := c.Func("ledger/store/trackerdb.Store.Snapshot")
		accRound := c.Func("ledger/store/trackerdb.AccountsReaderExt.AccountsRound")
		tLoad := c.Func("ledger.ledgerTracker.loadFromDisk")
		replayF := c.Func("ledger.trackerRegistry.replay")
		snaps := CallsTo(lfd, false, snapshot)
		if len(snaps) != 1 {
			c.Unk("R09.6", lName+":Snapshot", c.Pos(lfd.Pos()), fmt.Sprintf("expected one Snapshot call, found %d", len(snaps)))
		} else {
			lit, mc := bClosureArg(snaps[0], 0)
			var cell ssa.Value
			if lit != nil {
				cell, _ = bCellStoredFrom(lit, mc, 0, accRound)
			}
			isCell := func(v ssa.Value) bool {
				u, ok := strip(v).(*ssa.UnOp)
				return ok && cell != nil && u.Op == token.MUL && u.X == cell
			}
			okCell := cell != nil
			if okCell {
				if _, ok := bCellLoadVM(cell); !ok {
					okCell = false
				}
			}
			st := StoresToField(lfd, false, map[*types.Var]bool{fDbRound: true})
			okUse := okCell && len(st) == 1 && isCell(st[0].(*ssa.Store).Val)
			loads := CallsTo(lfd, false, tLoad)
			for _, l := range loads {
				if !isCell(l.Common().Args[1]) {
					okUse = false
				}
			}
			c.Check(okUse && len(loads) > 0, "R09.6", lName+":dbRound=AccountsRound()→tr.dbRound,lt.loadFromDisk", c.Pos(snaps[0].Pos()), "the round every tracker is loaded at and tr.dbRound are the variable assigned (only) from AccountsRound() inside the Snapshot")
			isErr := func(v ssa.Value) bool { return bCanon(v) == snaps[0].Value() }
			eff := append(append([]ssa.Instruction{}, st...), asInstrs(loads)...)
			eff = append(eff, asInstrs(CallsTo(lfd, false, replayF))...)
			c.MustGuard(MustGuardSpec{Rule: "R09.6", Fn: lfd, Effects: eff, EffName: "tr.dbRound=…/lt.loadFromDisk/replay", Guards: []Guard{GErrNil("Snapshot(AccountsRound)==nil", isErr)}})
			for _, k := range append(loads, CallsTo(lfd, false, replayF)...) {
				_, isNil := bErrEdges(lfd, bErrOf(k))
				bad := bNoEffectAfter(k, isNil, nil, bSuccessReturns(lfd))
				c.Check(bad == nil && len(isNil) > 0, "R09.6", lName+":"+calleeOf(k.Common()).Name()+" error => error", c.Pos(k.Pos()), "a failing "+funcObjName(calleeOf(k.Common()))+" cannot be followed by a nil return")
			}
		}
		rp := c.Fn("ledger.trackerRegistry.replay")
		rName := "ledger.trackerRegistry.replay"
		tev := c.Func("ledger.ledgerForTracker.trackerEvalVerified")
		newBlock := c.Func("ledger.trackerRegistry.newBlock")
		evs := CallsTo(rp, false, tev)
		c.MustGuard(MustGuardSpec{Rule: "R09.6", Fn: rp, Effects: asInstrs(CallsTo(rp, false, newBlock)), EffName: "tr.newBlock",
			Guards: []Guard{GErrNil("trackerEvalVerified()==nil", func(v ssa.Value) bool { _, ok := asResultOf(bCanon(v), 1, tev); return ok })}})
		for _, k := range evs {
			_, isNil := bErrEdges(rp, bErrOf(k))
			bad := bNoEffectAfter(k, isNil, nil, bSuccessReturns(rp))
			c.Check(bad == nil && len(isNil) > 0, "R09.6", rName+":trackerEvalVerified error => error", c.Pos(k.Pos()), "a block that fails evaluation during replay ends the replay with a non-nil error")
		}
		// first block read is tr.dbRound+1
		blockM := c.Func("ledger.ledgerForTracker.Block")
		okStart, found := false, false
		for _, b := range rp.Blocks {
			for _, in := range b.Instrs {
				mc, ok := in.(*ssa.MakeClosure)
				if !ok {
					continue
				}
				lit := mc.Fn.(*ssa.Function)
				for _, k := range CallsTo(lit, false, blockM) {
					found = true
					ph, ok := k.Common().Args[0].(*ssa.Phi)
					if !ok {
						continue
					}
					for _, e := range ph.Edges {
						dependsOnPhi := false
						walkDef(e, 6, func(x ssa.Value) bool {
							if x == ssa.Value(ph) {
								dependsOnPhi = true
							}
							return true
						})
						if dependsOnPhi {
							continue
						}
						lv, pure := bAddLeaves(e, mc)
						hasDb, hasOne, other := false, false, 0
						for l := range lv {
							switch x := l.(type) {
							case structFieldKey:
								if x.f == fDbRound {
									hasDb = true
								} else {
									other++
								}
							case *ssa.Const:
								if IsConstInt(1)(x) {
									hasOne = true
								} else {
									other++
								}
							default:
								other++
							}
						}
						okStart = pure && hasDb && hasOne && other == 0
					}
				}
			}
		}
		if !found {
			c.Unk("R09.6", rName+":first block", c.Pos(rp.Pos()), "no literal reading blocks through ledgerForTracker.Block found")
		} else {
			c.Check(okStart, "R09.6", rName+":first block=tr.dbRound+1", c.Pos(rp.Pos()), "replay starts with the block right after the tracker DB round")
		}
	}

	// ================= R09.7 =================
	{
		var sinks []*types.Func
		for _, it := range []string{"AccountsWriterExt", "AccountsWriter", "OnlineAccountsWriter", "CatchpointWriter", "SpVerificationCtxWriter", "MerkleCommitter"} {
			if o := c.TryObj("ledger/store/trackerdb." + it); o != nil {
				if nt, ok := o.Type().(*types.Named); ok {
					sinks = append(sinks, bIfaceMethods(nt)...)
				}
			}
		}
		bdb := c.Pkg("ledger/store/blockdb")
		for _, n := range bdb.Types.Scope().Names() {
			if f, ok := bdb.Types.Scope().Lookup(n).(*types.Func); ok {
				sinks = append(sinks, f)
			}
		}
		type agg struct {
			n, dropped int
			pos        token.Pos
		}
		per := map[string]*agg{}
		var order []string
		for _, fn := range ledgerFns {
			for _, b := range fn.Blocks {
				for _, in := range b.Instrs {
					ci, ok := in.(ssa.CallInstruction)
					if !ok {
						continue
					}
					f := calleeOf(ci.Common())
					if f == nil || !inFuncs(f, sinks) {
						continue
					}
					res := f.Type().(*types.Signature).Results()
					if res.Len() == 0 || !isErrorType(res.At(res.Len()-1).Type()) {
						continue
					}
					key := fnName(topFn(fn)) + ":" + f.Name()
					a := per[key]
					if a == nil {
						a = &agg{pos: ci.Pos()}
						per[key] = a
						order = append(order, key)
					}
					a.n++
					used := false
					if v := ci.Value(); v != nil {
						for _, r := range *v.Referrers() {
							switch x := r.(type) {
							case *ssa.DebugRef:
							case *ssa.Extract:
								if x.Index == res.Len()-1 && len(*x.Referrers()) > 0 {
									used = true
								}
							default:
								if res.Len() == 1 {
									used = true
								}
							}
						}
					}
					if _, isDefer := in.(*ssa.Defer); isDefer {
						used = false
					}
					if !used {
						a.dropped++
						a.pos = ci.Pos()
					}
				}
			}
		}
		for _, k := range order {
			a := per[k]
			c.Check(a.dropped == 0, "R09.7", k+":error used", c.Pos(a.pos), fmt.Sprintf("%d call(s), %d with the error result discarded", a.n, a.dropped))
		}
	}
}
