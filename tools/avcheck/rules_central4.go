package main

import (
	"go/types"

	"golang.org/x/tools/go/ssa"
)

// Rules added after independently seeded changes (third batch).

func init() {
	extend("C12", Extension{
		Run:         ruleTotalsComputedLast,
		Explanation: "R12.5 (totals cover every account change of the block): in BlockEvaluator.endOfBlock no call that can modify an account (anything that statically reaches roundCowState.putAccount within the evaluator) is made after CalculateTotals, so the totals recorded for the round include the proposer bookkeeping, payouts and suspensions of that same block.",
		Floor:       map[string]int{"R12.5": 1},
		Patterns:    []string{"./ledger/eval"},
	})
	extend("C14", Extension{
		Run:         ruleCompactDeltasStampUpdateRound,
		Explanation: "R14.6 (flush-schedule independence of hashed resource rows): in makeCompactResourceDeltas every entry handed to update/insert/insertMissing — asset and application branch alike — has its newResource.UpdateRound set from deltaRound*updateRoundMultiplier (directly or through MakeResourcesData), so the value hashed into the balances trie is the round of the last modification whichever way the rounds were split into commits.",
		Floor:       map[string]int{"R14.6": 6},
	})
	extend("C17", Extension{
		Run:         ruleTrieNodePathFromKey,
		Explanation: "R17.3 (node paths come from the key): in node.add every path stored into the hash field of a node derives from the key bytes (parameters d / path) or from the receiver's own stored path, never from the hash field of a node allocated during the same call — a wrong ancestor path is mixed into the node hash and makes the root depend on insertion order.",
		Floor:       map[string]int{"R17.3": 4},
	})
}

// reachesFunc reports whether fn statically reaches target within depth calls
// (calls through interfaces are resolved to module implementations).
func (c *Ctx) reachesFunc(fn *ssa.Function, target *types.Func, depth int, seen map[*ssa.Function]bool) bool {
	if fn == nil || fn.Blocks == nil || seen[fn] || depth < 0 {
		return false
	}
	seen[fn] = true
	for _, f := range withAnon(fn) {
		for _, b := range f.Blocks {
			for _, in := range b.Instrs {
				ci, ok := in.(ssa.CallInstruction)
				if !ok {
					continue
				}
				if sameFunc(calleeOf(ci.Common()), target) {
					return true
				}
				if sc := ci.Common().StaticCallee(); sc != nil {
					if c.reachesFunc(sc, target, depth-1, seen) {
						return true
					}
				} else if ci.Common().IsInvoke() {
					for _, impl := range c.implementations(ci.Common().Value.Type(), ci.Common().Method) {
						if impl.Pkg == fn.Pkg && c.reachesFunc(impl, target, depth-1, seen) {
							return true
						}
					}
				}
			}
		}
	}
	return false
}

func ruleTotalsComputedLast(c *Ctx) {
	const rule = "R12.5"
	fn := c.Fn("ledger/eval.BlockEvaluator.endOfBlock")
	calc := c.Func("ledger/eval.roundCowState.CalculateTotals")
	put := c.Func("ledger/eval.roundCowState.putAccount")
	name := "ledger/eval.BlockEvaluator.endOfBlock"
	cts := CallsTo(fn, false, calc)
	if len(cts) == 0 {
		c.Unk(rule, name+":CalculateTotals", c.Pos(fn.Pos()), "endOfBlock no longer calls CalculateTotals directly")
		return
	}
	var late []string
	for _, ct := range cts {
		for _, b := range fn.Blocks {
			for _, in := range b.Instrs {
				ci, ok := in.(ssa.CallInstruction)
				if !ok || in == ssa.Instruction(ct) || !Dominates(ct, in) {
					continue
				}
				if _, isDefer := in.(*ssa.Defer); isDefer {
					continue
				}
				sc := ci.Common().StaticCallee()
				if sc == nil || sc.Pkg != fn.Pkg {
					continue
				}
				if sameFunc(calleeOf(ci.Common()), put) || c.reachesFunc(sc, put, 4, map[*ssa.Function]bool{}) {
					late = append(late, fnName(sc)+" at "+c.Pos(in.Pos()))
				}
			}
		}
	}
	detail := "no account-modifying call follows CalculateTotals in endOfBlock"
	if len(late) > 0 {
		detail = "account-modifying call(s) after the totals were computed: " + late[0] + " — the totals stored for the round miss that change"
	}
	c.Check(len(late) == 0, rule, name+":CalculateTotals is the last account-affecting step", c.Pos(cts[0].Pos()), detail)
}

func ruleCompactDeltasStampUpdateRound(c *Ctx) {
	const rule = "R14.6"
	fn := c.Fn("ledger.makeCompactResourceDeltas")
	name := "ledger.makeCompactResourceDeltas"
	sinks := c.Funcs("ledger.compactResourcesDeltas.update", "ledger.compactResourcesDeltas.insert", "ledger.compactResourcesDeltas.insertMissing")
	fNew := c.Field("ledger.resourceDelta.newResource")
	fUpd := c.Field("ledger/store/trackerdb.ResourcesData.UpdateRound")
	mk := c.Func("ledger/store/trackerdb.MakeResourcesData")
	var mult *ssa.Parameter
	for _, p := range fn.Params {
		if p.Name() == "updateRoundMultiplier" {
			mult = p
		}
	}
	if mult == nil {
		// resolve by type/position: the last uint64 parameter
		for _, p := range fn.Params {
			if b, ok := p.Type().Underlying().(*types.Basic); ok && b.Kind() == types.Uint64 {
				mult = p
			}
		}
	}
	if mult == nil {
		c.Unk(rule, name+":updateRoundMultiplier", c.Pos(fn.Pos()), "multiplier parameter not found")
		return
	}
	calls := CallsTo(fn, false, sinks...)
	if len(calls) == 0 {
		c.Unk(rule, name+":sinks", c.Pos(fn.Pos()), "no update/insert call found")
		return
	}
	for _, ci := range calls {
		args := ci.Common().Args
		entry := args[len(args)-1]
		construct := name + ":" + calleeOf(ci.Common()).Name() + "(entry).newResource.UpdateRound=deltaRound*updateRoundMultiplier"
		ld, isLoad := entry.(*ssa.UnOp)
		var alloc *ssa.Alloc
		if isLoad {
			alloc, _ = ld.X.(*ssa.Alloc)
		}
		if alloc == nil {
			c.Bad(rule, construct, c.Pos(ci.Pos()), "the entry handed over is not a locally built record whose UpdateRound is stamped: "+describe(entry))
			continue
		}
		stamped := false
		// the record may be built in a composite-literal temporary and copied in whole
		allocs := []*ssa.Alloc{alloc}
		for _, r := range *alloc.Referrers() {
			if st, ok := r.(*ssa.Store); ok && st.Addr == ssa.Value(alloc) {
				if u, ok := st.Val.(*ssa.UnOp); ok {
					if src, ok := u.X.(*ssa.Alloc); ok {
						allocs = append(allocs, src)
					}
				}
			}
		}
		var refs []ssa.Instruction
		for _, a := range allocs {
			refs = append(refs, *a.Referrers()...)
		}
		for _, r := range refs {
			fa, ok := r.(*ssa.FieldAddr)
			if !ok || structField(fa.X.Type(), fa.Field) != fNew {
				continue
			}
			for _, r2 := range *fa.Referrers() {
				switch y := r2.(type) {
				case *ssa.Store:
					// newResource: MakeResourcesData(deltaRound*mult)
					if y.Addr == ssa.Value(fa) {
						if call, ok := asResultOf(y.Val, -1, mk); ok && len(call.Common().Args) > 0 && MentionsValue(call.Common().Args[0], mult, 5) && Dominates(y, ci) {
							stamped = true
						}
					}
				case *ssa.FieldAddr:
					if structField(y.X.Type(), y.Field) == fUpd {
						for _, r3 := range *y.Referrers() {
							if st, ok := r3.(*ssa.Store); ok && st.Addr == ssa.Value(y) && MentionsValue(st.Val, mult, 5) && Dominates(st, ci) {
								stamped = true
							}
						}
					}
				}
			}
		}
		c.Check(stamped, rule, construct, c.Pos(ci.Pos()), "the resource row handed to the compact deltas carries UpdateRound = deltaRound*updateRoundMultiplier of the round that modified it")
	}
}

func ruleTrieNodePathFromKey(c *Ctx) {
	const rule = "R17.3"
	fn := c.Fn("crypto/merkletrie.node.add")
	fHash := c.Field("crypto/merkletrie.node.hash")
	alloc := c.Func("crypto/merkletrie.merkleTrieCache.allocateNewNode")
	name := "crypto/merkletrie.node.add"
	stores := StoresToField(fn, false, map[*types.Var]bool{fHash: true})
	if len(stores) == 0 {
		c.Unk(rule, name+":store(node.hash)", c.Pos(fn.Pos()), "no store to node.hash found")
		return
	}
	for _, s := range stores {
		st := s.(*ssa.Store)
		// does the stored value read the hash field of a freshly allocated node?
		bad := false
		walkDef(st.Val, 8, func(v ssa.Value) bool {
			if fa, ok := v.(*ssa.FieldAddr); ok && structField(fa.X.Type(), fa.Field) == fHash {
				if _, fromAlloc := asResultOf(fa.X, 0, alloc); fromAlloc {
					bad = true
				}
			}
			return !bad
		})
		fromKey := false
		for _, p := range fn.Params[1:] {
			if MentionsValue(st.Val, p, 8) {
				fromKey = true
			}
		}
		if !fromKey && len(fn.Params) > 0 {
			// the receiver's own stored path
			walkDef(st.Val, 8, func(v ssa.Value) bool {
				if fa, ok := v.(*ssa.FieldAddr); ok && structField(fa.X.Type(), fa.Field) == fHash && fa.X == ssa.Value(fn.Params[0]) {
					fromKey = true
				}
				return !fromKey
			})
		}
		c.Check(!bad && fromKey, rule, name+":node.hash=path from key bytes", c.Pos(st.Pos()), "the path stored into a node derives from the key (d/path) or the receiver's own path, not from the hash field of a node allocated in this call")
	}
}
