package main

import (
	"go/ast"
	"go/token"
	"go/types"
	"sort"
	"strings"

	"golang.org/x/tools/go/ssa"
)

func init() {
	register(&Prop{
		ID:       "C47",
		Patterns: []string{"./ledger/store/trackerdb/..."},
		Run:      runC47,
		Explanation: "Decides two structural necessary conditions of 'the SQLite and key-value tracker backends give identical answers'. " +
			"R47.1 (sibling stubs): for every non-generic interface declared in ledger/store/trackerdb (discovered, not listed) and every method of it that returns at least one result, the declared methods that implement it in the SQLite backend (package sqlitedriver) and in the key-value backend (packages generickv and pebbledbdriver) are paired; a body is a stub when, in SSA, it uses neither its receiver nor any argument, performs no call, reads no global and either never returns (every exit is panic) or returns only zero values/nil. " +
			"A method that is a stub in one backend while some implementation of the same interface method in the other backend is real is a violation keyed by the stubbed method's qualified name; an interface implemented by one backend only must be explained by a stubbed factory method of the other backend that is already reported; stub-vs-stub and real-vs-real pairs are discharged. Exempt (frozen table, each an obligation): Store.SetSynchronousMode/IsSharedCacheConnection/Vacuum/ResetToV6Test (physical-storage settings, maintenance and a test reset, not answers about tracker data) and everything reachable only through the test-support interfaces AccountsReaderTestExt/WriterTestExt. " +
			"R47.2 (not-found sentinel): every pebbledbdriver implementation of generickv.KvRead.Get returns as its error the result of mapPebbleErrors applied to the error of the underlying pebble Get, and mapPebbleErrors returns trackerdb.ErrNotFound exactly on the err==pebble.ErrNotFound edge; generickv readers compare against trackerdb.ErrNotFound to produce the same 'absent row' answers as the SQLite readers do for sql.ErrNoRows. " +
			"Does NOT decide: equality of two real implementations (SQL text versus key-value iteration, ordering, pagination, round values), methods without results (Close, marker methods), generic interfaces (TableIterator[T]), implementations by unnamed struct types (the pebble batch/snapshot/transaction handles), or the run-time choice behind embedded interface fields.",
		Assumptions: []string{
			"the backends are exactly the packages sqlitedriver (SQLite) and generickv+pebbledbdriver (key-value); dualdriver and testdb only wrap them",
			"a body that uses no input, makes no call and returns zero values cannot answer a query about stored data",
		},
		Floor: map[string]int{"R47.1": 190, "R47.2": 5},
	})
}

const (
	c47Tdb    = "ledger/store/trackerdb"
	c47SQLite = "ledger/store/trackerdb/sqlitedriver"
	c47KV     = "ledger/store/trackerdb/generickv"
	c47Pebble = "ledger/store/trackerdb/pebbledbdriver"
)

type c47Impl struct {
	f       *types.Func
	backend string // "sqlite" | "kv"
	stub    string // "", "panic", "zero"
	pos     token.Pos
	// accumulated over all interface methods this function implements
	realOther  []string // real counterparts in the other backend
	stubOther  []string // stubbed counterparts in the other backend
	interfaces []string
}

func runC47(c *Ctx) {
	tdb := c.Pkg(c47Tdb).Types
	backendPkgs := map[string][]string{
		"sqlite": {c47SQLite},
		"kv":     {c47KV, c47Pebble},
	}
	backendOf := map[*types.Package]string{}
	for b, rels := range backendPkgs {
		for _, rel := range rels {
			backendOf[c.Pkg(rel).Types] = b
		}
	}
	other := map[string]string{"sqlite": "kv", "kv": "sqlite"}
	backendName := map[string]string{"sqlite": "the SQLite backend", "kv": "the key-value backend"}

	// ---- frozen exemption tables (resolved objects, one reason each) ----
	testIfaces := map[*types.Named]string{
		c.Named(c47Tdb + ".AccountsReaderTestExt"): "test-support interface (takes testing.TB); not part of the store's read/write answers",
		c.Named(c47Tdb + ".WriterTestExt"):         "test-support interface (takes testing.TB); not part of the store's read/write answers",
	}
	exemptMethods := map[*types.Func]string{
		c.Func(c47Tdb + ".Store.SetSynchronousMode"):      "physical-storage durability setting of SQLite, no answer about tracker data",
		c.Func(c47Tdb + ".Store.IsSharedCacheConnection"): "SQLite connection property; 'false' is the true answer for pebble",
		c.Func(c47Tdb + ".Store.Vacuum"):                  "SQLite maintenance, returns statistics about the file, no tracker data",
		c.Func(c47Tdb + ".Store.ResetToV6Test"):           "test-only schema reset",
	}
	tdbIface := func(t types.Type) *types.Named {
		nt, ok := types.Unalias(t).(*types.Named)
		if !ok || nt.Obj().Pkg() != tdb {
			return nil
		}
		if _, isIface := nt.Underlying().(*types.Interface); !isIface {
			return nil
		}
		return nt.Origin()
	}
	returnsTestIface := func(m *types.Func) bool {
		res := m.Type().(*types.Signature).Results()
		for i := 0; i < res.Len(); i++ {
			if nt := tdbIface(res.At(i).Type()); nt != nil {
				if _, ex := testIfaces[nt]; ex {
					return true
				}
			}
		}
		return false
	}

	// ---- interfaces in scope: every non-generic interface declared in trackerdb ----
	var ifaces []*types.Named
	names := tdb.Scope().Names()
	sort.Strings(names)
	for _, n := range names {
		tn, ok := tdb.Scope().Lookup(n).(*types.TypeName)
		if !ok || tn.IsAlias() {
			continue
		}
		nt, ok := tn.Type().(*types.Named)
		if !ok {
			continue
		}
		it, ok := nt.Underlying().(*types.Interface)
		if !ok || it.NumMethods() == 0 || nt.TypeParams().Len() > 0 {
			continue
		}
		if reason, ex := testIfaces[nt]; ex {
			c.Ok("R47.1", "exempt:"+c47Tdb+"."+n, c.Pos(tn.Pos()), "exempt interface: "+reason)
			continue
		}
		ifaces = append(ifaces, nt)
	}
	if len(ifaces) < 20 {
		c.Unk("R47.1", "interfaces("+c47Tdb+")", "-", "only "+itoa(len(ifaces))+" interfaces discovered in trackerdb; the rule no longer sees the backend contract")
	}

	// ---- candidate implementing types per backend: named types and the
	// unnamed struct types of composite literals (the pebble handles) ----
	type cand struct {
		t   types.Type
		pkg *types.Package
		pos token.Pos
	}
	cands := map[string][]cand{}
	for b, rels := range backendPkgs {
		for _, rel := range rels {
			pk := c.Pkg(rel)
			for _, nt := range iNamedTypes(pk.Types) {
				if _, isIface := nt.Underlying().(*types.Interface); !isIface {
					cands[b] = append(cands[b], cand{nt, pk.Types, nt.Obj().Pos()})
				}
			}
			seen := map[string]bool{}
			for _, f := range pk.Syntax {
				ast.Inspect(f, func(n ast.Node) bool {
					cl, ok := n.(*ast.CompositeLit)
					if !ok {
						return true
					}
					tv, ok := pk.TypesInfo.Types[cl]
					if !ok {
						return true
					}
					st, ok := types.Unalias(tv.Type).(*types.Struct)
					if !ok {
						return true
					}
					key := types.TypeString(st, nil)
					if !seen[key] {
						seen[key] = true
						cands[b] = append(cands[b], cand{st, pk.Types, cl.Pos()})
					}
					return true
				})
			}
		}
	}

	// ---- collect the implementations of every interface method ----
	impls := map[*types.Func]*c47Impl{}
	getImpl := func(f *types.Func, backend string) *c47Impl {
		if im, ok := impls[f]; ok {
			return im
		}
		im := &c47Impl{f: f, backend: backend, pos: f.Pos()}
		if fn := c.SSAOf(f); fn == nil {
			im.stub = "?"
		} else {
			im.stub = iStub(fn)
			c.NoteFn(funcObjName(f))
		}
		impls[f] = im
		return im
	}
	type methodImpls struct {
		m    *types.Func
		by   map[string][]*c47Impl
		seen map[*types.Func]bool
	}
	methods := map[*types.Func]*methodImpls{}
	var methodOrder []*types.Func
	for _, nt := range ifaces {
		it := nt.Underlying().(*types.Interface)
		for i := 0; i < it.NumMethods(); i++ {
			m := it.Method(i).Origin()
			if methods[m] == nil {
				methods[m] = &methodImpls{m: m, by: map[string][]*c47Impl{}, seen: map[*types.Func]bool{}}
				methodOrder = append(methodOrder, m)
			}
		}
		for b, cs := range cands {
			for _, cd := range cs {
				if !(types.Implements(cd.t, it) || types.Implements(types.NewPointer(cd.t), it)) {
					continue
				}
				for i := 0; i < it.NumMethods(); i++ {
					m := it.Method(i).Origin()
					obj, _, _ := types.LookupFieldOrMethod(types.NewPointer(cd.t), true, cd.pkg, m.Name())
					f, ok := obj.(*types.Func)
					if !ok {
						c.Unk("R47.1", funcObjName(m)+"@"+types.TypeString(cd.t, nil), c.Pos(cd.pos), "method set lookup failed")
						continue
					}
					if _, viaIface := f.Type().(*types.Signature).Recv().Type().Underlying().(*types.Interface); viaIface {
						continue // promoted from an embedded interface field: the code is chosen at run time and paired at its own type
					}
					f = f.Origin()
					if f.Pkg() == nil || backendOf[f.Pkg()] == "" {
						continue // promoted from a type outside the backends
					}
					mi := methods[m]
					if mi.seen[f] {
						continue
					}
					mi.seen[f] = true
					im := getImpl(f, backendOf[f.Pkg()])
					im.interfaces = append(im.interfaces, nt.Obj().Name())
					mi.by[im.backend] = append(mi.by[im.backend], im)
				}
			}
			_ = b
		}
	}
	sort.Slice(methodOrder, func(i, j int) bool { return funcObjName(methodOrder[i]) < funcObjName(methodOrder[j]) })

	// ---- pair per interface method ----
	exemptSeen := map[*types.Func]bool{}
	factoryImpls := map[*types.Named][]*c47Impl{}      // result interface -> implementations of the methods that hand it out
	unpaired := map[*types.Named]map[string][]string{} // declaring interface -> backend that has it -> method names
	for _, m := range methodOrder {
		mi := methods[m]
		sig := m.Type().(*types.Signature)
		if reason, ex := exemptMethods[m]; ex {
			exemptSeen[m] = true
			c.Ok("R47.1", "exempt:"+funcObjName(m), c.Pos(m.Pos()), "exempt method: "+reason)
			continue
		}
		if returnsTestIface(m) {
			c.Ok("R47.1", "exempt:"+funcObjName(m), c.Pos(m.Pos()), "exempt method: hands out a test-support interface")
			continue
		}
		if sig.Results().Len() == 0 {
			continue // no answer to compare (Close, marker methods)
		}
		for r := 0; r < sig.Results().Len(); r++ {
			if rnt := tdbIface(sig.Results().At(r).Type()); rnt != nil {
				for _, ims := range mi.by {
					factoryImpls[rnt] = append(factoryImpls[rnt], ims...)
				}
			}
		}
		ns, nk := len(mi.by["sqlite"]), len(mi.by["kv"])
		if ns == 0 && nk == 0 {
			continue // implemented by neither backend (ref/marker interfaces of other packages)
		}
		if ns == 0 || nk == 0 {
			decl := tdbIface(sig.Recv().Type())
			if decl == nil {
				c.Unk("R47.1", funcObjName(m)+":declaring-interface", c.Pos(m.Pos()), "cannot resolve the interface declaring this method")
				continue
			}
			present := "sqlite"
			if ns == 0 {
				present = "kv"
			}
			if unpaired[decl] == nil {
				unpaired[decl] = map[string][]string{}
			}
			unpaired[decl][present] = append(unpaired[decl][present], m.Name())
			continue
		}
		for b, ims := range mi.by {
			for _, im := range ims {
				for _, o := range mi.by[other[b]] {
					if o.stub == "" {
						im.realOther = append(im.realOther, funcObjName(o.f))
					} else {
						im.stubOther = append(im.stubOther, funcObjName(o.f))
					}
				}
			}
		}
	}
	for m := range exemptMethods {
		if !exemptSeen[m] {
			c.Unk("R47.1", "exempt:"+funcObjName(m), c.Pos(m.Pos()), "exemption table entry no longer matches a method of a trackerdb interface in scope")
		}
	}

	// ---- verdict per implementing function ----
	var fs []*c47Impl
	for _, im := range impls {
		fs = append(fs, im)
	}
	sort.Slice(fs, func(i, j int) bool { return funcObjName(fs[i].f) < funcObjName(fs[j].f) })
	uniq := func(xs []string) []string {
		xs = append([]string{}, xs...)
		sort.Strings(xs)
		var out []string
		for i, x := range xs {
			if i == 0 || xs[i-1] != x {
				out = append(out, x)
			}
		}
		return out
	}
	reportedStub := map[*types.Func]bool{}
	for _, im := range fs {
		name := funcObjName(im.f)
		real, stubs := uniq(im.realOther), uniq(im.stubOther)
		ifs := strings.Join(uniq(im.interfaces), ",")
		switch {
		case im.stub == "?":
			c.Unk("R47.1", name, c.Pos(im.pos), "no SSA body for this implementation of "+ifs)
		case len(real) == 0 && len(stubs) == 0:
			// exempt, void, or no counterpart in the other backend (decided per interface below)
			c.NoteSites(1)
		case im.stub != "" && len(real) > 0:
			reportedStub[im.f] = true
			kind := map[string]string{"panic": "its body is a lone panic", "zero": "it returns only zero values/nil without using its receiver or arguments"}[im.stub]
			c.Bad("R47.1", name, c.Pos(im.pos), "stub in one backend, real in the other: "+name+" (implements "+ifs+" in "+backendName[im.backend]+") is a stub — "+kind+" — while "+strings.Join(real, ", ")+" in "+backendName[other[im.backend]]+" is a real implementation; the two backends cannot give the same answer")
		case im.stub != "":
			c.Ok("R47.1", name, c.Pos(im.pos), "stub ("+im.stub+") in both backends: counterpart(s) "+strings.Join(stubs, ", ")+" are stubs too")
		case len(real) > 0:
			c.Ok("R47.1", name, c.Pos(im.pos), "real implementation of "+ifs+"; real counterpart(s): "+strings.Join(real, ", "))
		default:
			c.Ok("R47.1", name, c.Pos(im.pos), "real implementation of "+ifs+"; the stubbed counterpart(s) "+strings.Join(stubs, ", ")+" are reported under their own names")
		}
	}

	// ---- interface methods implemented by one backend only: must be explained
	// by a reported factory stub that hands out (a superset of) the interface ----
	var decls []*types.Named
	for d := range unpaired {
		decls = append(decls, d)
	}
	sort.Slice(decls, func(i, j int) bool { return decls[i].Obj().Name() < decls[j].Obj().Name() })
	for _, d := range decls {
		dIface := d.Underlying().(*types.Interface)
		for _, present := range iSortedKeys(unpaired[d]) {
			missing := other[present]
			var because []string
			for r, ims := range factoryImpls {
				if !types.Implements(r, dIface) {
					continue
				}
				for _, im := range ims {
					if im.backend == missing && reportedStub[im.f] {
						because = append(because, funcObjName(im.f))
					}
				}
			}
			because = uniq(because)
			construct := c47Tdb + "." + d.Obj().Name() + ":implemented-only-by(" + present + ")"
			ms := strings.Join(uniq(unpaired[d][present]), ",")
			if len(because) > 0 {
				c.Ok("R47.1", construct, c.Pos(d.Obj().Pos()), "methods "+ms+" have no implementation in "+backendName[missing]+"; explained by the stubbed factory method(s) "+strings.Join(because, ", ")+" reported under their own names")
			} else {
				c.Bad("R47.1", construct, c.Pos(d.Obj().Pos()), "methods "+ms+" of "+c47Tdb+"."+d.Obj().Name()+" are implemented in "+backendName[present]+" but by no type of "+backendName[missing]+", and no stubbed factory method of that backend explains it")
			}
		}
	}

	// ---- R47.2: the key-value not-found sentinel ----
	c47NotFound(c)
	iDumpObs(c)
}

// c47NotFound checks that pebble's "not found" reaches generickv as
// trackerdb.ErrNotFound on every read handle.
func c47NotFound(c *Ctx) {
	kvGet := c.Func(c47KV + ".KvRead.Get")
	kvRead := kvGet.Type().(*types.Signature).Recv().Type().Underlying().(*types.Interface)
	mapErr := c.Func(c47Pebble + ".mapPebbleErrors")
	mapFn := c.Fn(c47Pebble + ".mapPebbleErrors")
	errNotFound := c.Obj(c47Tdb + ".ErrNotFound")

	// (a) mapPebbleErrors: returns trackerdb.ErrNotFound exactly when err == pebble.ErrNotFound
	var pebbleNF types.Object
	if p := c.Pkg(c47Pebble).Types; p != nil {
		for _, imp := range p.Imports() {
			if imp.Path() == "github.com/cockroachdb/pebble" {
				pebbleNF = imp.Scope().Lookup("ErrNotFound")
			}
		}
	}
	if pebbleNF == nil {
		c.Unk("R47.2", c47Pebble+".mapPebbleErrors:pebble.ErrNotFound", c.Pos(mapFn.Pos()), "cannot resolve github.com/cockroachdb/pebble.ErrNotFound")
		return
	}
	isParam := func(v ssa.Value) bool { return len(mapFn.Params) == 1 && strip(v) == ssa.Value(mapFn.Params[0]) }
	loadsGlobal := func(obj types.Object) VM {
		return func(v ssa.Value) bool {
			u, ok := strip(v).(*ssa.UnOp)
			if !ok || u.Op != token.MUL {
				return false
			}
			g, ok := u.X.(*ssa.Global)
			return ok && g.Object() == obj
		}
	}
	g := GCmp("err==pebble.ErrNotFound", token.EQL, isParam, loadsGlobal(pebbleNF))
	pass, n := PassEdges(mapFn, g)
	nfRets := ReturnsWhere(mapFn, 0, loadsGlobal(errNotFound))
	var otherRets []ssa.Instruction
	for _, r := range iReturns(mapFn) {
		isNF := false
		for _, x := range nfRets {
			if x == ssa.Instruction(r) {
				isNF = true
			}
		}
		if !isNF {
			otherRets = append(otherRets, r)
		}
	}
	construct := c47Pebble + ".mapPebbleErrors:return(trackerdb.ErrNotFound)<=err==pebble.ErrNotFound"
	switch {
	case n == 0:
		c.Bad("R47.2", construct, c.Pos(mapFn.Pos()), "mapPebbleErrors no longer compares its argument with pebble.ErrNotFound")
	case len(nfRets) == 0:
		c.Bad("R47.2", construct, c.Pos(mapFn.Pos()), "mapPebbleErrors no longer returns trackerdb.ErrNotFound")
	default:
		// cutting the passing edge makes the sentinel return unreachable …
		r := NewReach(mapFn, pass, nil)
		ok := true
		for _, x := range nfRets {
			if r.Reaches(x) {
				ok = false
			}
		}
		// … and on the passing edge nothing else is returned
		var fail []Edge
		for _, e := range pass {
			fail = append(fail, Edge{e.From, 1 - e.Idx})
		}
		r2 := NewReach(mapFn, fail, nil)
		for _, x := range otherRets {
			if r2.Reaches(x) {
				ok = false
			}
		}
		c.Check(ok, "R47.2", construct, c.Pos(mapFn.Pos()), "mapPebbleErrors returns trackerdb.ErrNotFound on, and only on, the err==pebble.ErrNotFound edge")
	}
	// every other return hands back the argument unchanged
	okPass := len(otherRets) > 0
	for _, r := range otherRets {
		if !isParam(r.(*ssa.Return).Results[0]) {
			okPass = false
		}
	}
	c.Check(okPass, "R47.2", c47Pebble+".mapPebbleErrors:other-errors-unchanged", c.Pos(mapFn.Pos()), "every other return of mapPebbleErrors yields its argument unchanged")

	// (b) every implementation of KvRead.Get in pebbledbdriver maps its error
	n = 0
	for _, nt := range iNamedTypes(c.Pkg(c47Pebble).Types) {
		if _, isIface := nt.Underlying().(*types.Interface); isIface {
			continue
		}
		if !iImplements(nt, kvRead) {
			continue
		}
		f, via := iConcreteMethod(nt, "Get")
		if f == nil || via {
			continue
		}
		fn := c.SSAOf(f)
		name := funcObjName(f)
		if fn == nil {
			c.Unk("R47.2", name+":error<=mapPebbleErrors", c.Pos(f.Pos()), "no SSA body")
			continue
		}
		n++
		c.NoteFn(name)
		idx := errResultIndex(fn)
		ok := idx >= 0
		detail := "every return of " + name + " yields mapPebbleErrors(err of the pebble Get)"
		for _, r := range iReturns(fn) {
			if idx < 0 {
				break
			}
			call, isRes := asResultOf(r.Results[idx], -1, mapErr)
			if !isRes {
				ok = false
				detail = name + " returns an error that does not come from mapPebbleErrors (" + describe(r.Results[idx]) + "): a missing key would surface as pebble.ErrNotFound, which generickv does not recognise as 'absent'"
				continue
			}
			// the mapped error is the error result of a Get call on the underlying handle
			arg := call.Common().Args[0]
			e, isExt := strip(arg).(*ssa.Extract)
			var inner *ssa.Call
			if isExt {
				inner, _ = e.Tuple.(*ssa.Call)
			}
			var callee *types.Func
			if inner != nil {
				callee = calleeOf(inner.Common())
			}
			if callee == nil || callee.Pkg() == nil || callee.Pkg() != pebbleNF.Pkg() || callee.Name() != "Get" || !isErrorType(e.Type()) {
				ok = false
				detail = name + ": the value mapped by mapPebbleErrors is not the error result of the underlying Get call (" + describe(arg) + ")"
			}
		}
		c.Check(ok, "R47.2", name+":error<=mapPebbleErrors", c.Pos(f.Pos()), detail)
	}
	if n == 0 {
		c.Unk("R47.2", c47Pebble+":implementations-of(KvRead.Get)", "-", "no implementation of generickv.KvRead.Get found in pebbledbdriver")
	}
}
