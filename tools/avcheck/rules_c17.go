package main

import (
	"go/token"
	"go/types"

	"golang.org/x/tools/go/ssa"
)

func init() {
	register(&Prop{
		ID:       "C17",
		Patterns: []string{"./crypto/merkletrie"},
		Run:      runC17,
		Explanation: "Thin claim: decides only the transaction bracketing and the membership answers of merkletrie.Trie, not the hash. " +
			"R17.1 in every function that calls merkleTrieCache.beginTransaction (today Trie.Add twice, Trie.Delete once; nothing else in the module may call begin/commit/rollbackTransaction): every path from a begin reaches exactly one commitTransaction or rollbackTransaction before any return or further begin; returns after a commit report (true, nil), returns after a rollback report (false, non-nil error); every structural mutation made by these functions (node.add, node.remove, allocateNewNode, deleteNode, refurbishNode) and every store to Trie.root/elementLength happens after a begin, never after a rollback, and mutations never after the closing call; Trie.root is written only by MakeTrie, Add, Delete, deserialize and the node-relocation step of commit (reallocatePendingPages). " +
			"R17.2 Trie.Add returns true only if node.find on the root node reported (false, nil) for the same element, the only bypass being the empty-trie branch (root == storedNodeIdentifierNull); Trie.Delete returns true only if find reported (true, nil); both look the element up and then add/remove the same parameter d starting from getNode(mt.root); an element of the wrong length is refused before anything else. " +
			"Does NOT decide: that the root hash is the canonical hash of the element set (history independence of node.add/remove/calculateHash, leaf collapse), anything about commit/evict/reallocatePage/loadPage or page configurations, serialize/deserialize round-tripping, or node.find's own correctness.",
		Assumptions: []string{"node.find answers membership correctly"},
		Floor:       map[string]int{"R17.1": 15, "R17.2": 10},
	})
}

func runC17(c *Ctx) {
	mp := "crypto/merkletrie"
	begin := c.Func(mp + ".merkleTrieCache.beginTransaction")
	commit := c.Func(mp + ".merkleTrieCache.commitTransaction")
	rollback := c.Func(mp + ".merkleTrieCache.rollbackTransaction")
	mutators := c.Funcs(mp+".node.add", mp+".node.remove", mp+".merkleTrieCache.allocateNewNode", mp+".merkleTrieCache.deleteNode", mp+".merkleTrieCache.refurbishNode")
	fRoot := c.Field(mp + ".Trie.root")
	fElemLen := c.Field(mp + ".Trie.elementLength")
	findF := c.Func(mp + ".node.find")
	getNode := c.Func(mp + ".merkleTrieCache.getNode")
	nullK := c.Const(mp + ".storedNodeIdentifierNull")
	addFn, delFn := c.Fn(mp+".Trie.Add"), c.Fn(mp+".Trie.Delete")

	isCallTo := func(in ssa.Instruction, fs ...*types.Func) bool {
		ci, ok := in.(ssa.CallInstruction)
		return ok && inFuncs(calleeOf(ci.Common()), fs)
	}

	// ---- R17.1 ----
	only := []string{"crypto/merkletrie"}
	if c.Thorough {
		only = nil
	}
	c.OwnerRule("R17.1", "call(begin/commit/rollbackTransaction)", c.Uses([]*types.Func{begin, commit, rollback}, ScanOpts{SkipGenerated: true, OnlyPkgs: only}), map[string]string{
		mp + ".Trie.Add":    "first insertion and regular insertion",
		mp + ".Trie.Delete": "removal",
	})
	for _, fn := range []*ssa.Function{addFn, delFn} {
		name := fnName(fn)
		begins := CallsTo(fn, true, begin)
		closes := CallsTo(fn, true, commit, rollback)
		if len(begins) == 0 {
			c.Unk("R17.1", name+":begin", c.Pos(fn.Pos()), "no beginTransaction call found")
			continue
		}
		rets := libCReturns(fn)
		isClose := func(in ssa.Instruction) bool { return isCallTo(in, commit, rollback) }
		isBegin := func(in ssa.Instruction) bool { return isCallTo(in, begin) }
		// every begin is closed exactly once before return / next begin
		okClose, detail := true, "every path from a beginTransaction meets a commit/rollback before any return or second begin"
		for _, b := range begins {
			fw := libCReachFrom(b, isClose)
			for _, r := range rets {
				if fw.Reaches(r) {
					okClose = false
					detail = "a return at " + c.Pos(r.Pos()) + " is reachable from beginTransaction at " + c.Pos(b.Pos()) + " with the transaction still open"
				}
			}
			for _, b2 := range begins {
				if fw.Reaches(b2) {
					okClose = false
					detail = "a second beginTransaction is reachable while the first is open"
				}
			}
		}
		for _, cl := range closes {
			fw := libCReachFrom(cl, isBegin)
			for _, cl2 := range closes {
				if fw.Reaches(cl2) {
					okClose = false
					detail = "a transaction is closed twice (" + c.Pos(cl.Pos()) + " then " + c.Pos(cl2.Pos()) + ")"
				}
			}
			if NewReach(fn, nil, isBegin).Reaches(cl) {
				okClose = false
				detail = "commit/rollback at " + c.Pos(cl.Pos()) + " is reachable without a beginTransaction"
			}
		}
		c.Check(okClose, "R17.1", name+":begin…exactly-one-commit-or-rollback", c.Pos(begins[0].Pos()), detail)

		// result after commit / rollback
		okRes, detailRes := true, "returns after commitTransaction are (true, nil); returns after rollbackTransaction are (false, err != nil)"
		nCommit, nRollback := 0, 0
		for _, cl := range closes {
			isCommit := isCallTo(cl, commit)
			if isCommit {
				nCommit++
			} else {
				nRollback++
			}
			fw := libCReachFrom(cl, isBegin)
			for _, r := range rets {
				if !fw.Reaches(r) {
					continue
				}
				if len(r.Results) != 2 {
					okRes = false
					continue
				}
				ev := resolveLocal(r.Results[1], r)
				nonNil := definitelyNonNil(ev, r.Block(), 0) || libCNonNilByDominance(ev, r.Block())
				if isCommit && !(IsConstBool(true)(r.Results[0]) && IsNil(ev)) {
					okRes = false
					detailRes = "the return at " + c.Pos(r.Pos()) + " follows commitTransaction but does not report (true, nil)"
				}
				if !isCommit && !(IsConstBool(false)(r.Results[0]) && nonNil) {
					okRes = false
					detailRes = "the return at " + c.Pos(r.Pos()) + " follows rollbackTransaction but does not report (false, non-nil error)"
				}
			}
		}
		c.Check(okRes && nCommit > 0, "R17.1", name+":commit=>(true,nil),rollback=>(false,err)", c.Pos(fn.Pos()), detailRes)

		// mutations inside the bracket
		muts := Instrs(fn, func(in ssa.Instruction) bool { return isCallTo(in, mutators...) })
		rootStores := StoresToField(fn, true, map[*types.Var]bool{fRoot: true, fElemLen: true})
		okIn, detailIn := len(muts) > 0, "node.add/remove, allocateNewNode, deleteNode and the stores to root/elementLength are reachable only after beginTransaction; none is reachable after a rollback; no structural mutation after the closing call"
		noBegin := NewReach(fn, nil, isBegin)
		for _, m := range append(append([]ssa.Instruction{}, muts...), rootStores...) {
			if noBegin.Reaches(m) {
				okIn = false
				detailIn = "the effect at " + c.Pos(m.Pos()) + " is reachable without a beginTransaction"
			}
		}
		for _, cl := range closes {
			fw := libCReachFrom(cl, isBegin)
			for _, m := range muts {
				if fw.Reaches(m) {
					okIn = false
					detailIn = "the mutation at " + c.Pos(m.Pos()) + " is reachable after the transaction was closed at " + c.Pos(cl.Pos())
				}
			}
			if isCallTo(cl, rollback) {
				for _, s := range rootStores {
					if fw.Reaches(s) {
						okIn = false
						detailIn = "Trie.root/elementLength is written after a rollback"
					}
				}
			}
		}
		c.Check(okIn, "R17.1", name+":mutations-inside-transaction", c.Pos(fn.Pos()), detailIn)

		// the new root is the result of add/remove (or a fresh node / null)
		okRoot, detailRoot := true, "Trie.root is assigned the id returned by node.add/remove or allocateNewNode, or storedNodeIdentifierNull when the last element is removed"
		nRoot := 0
		for _, s := range StoresToField(fn, true, map[*types.Var]bool{fRoot: true}) {
			nRoot++
			v := resolveLocalAny(resolveLocal(s.(*ssa.Store).Val, s))
			switch {
			case libCIsConstOf(nullK)(v) && fn == delFn:
			case func() bool {
				_, ok := libCCallOfResult(v, -1, mutators[0], mutators[1], mutators[2])
				return ok
			}():
			default:
				okRoot = false
				detailRoot = "Trie.root is assigned " + describe(v)
			}
		}
		c.Check(okRoot && nRoot > 0, "R17.1", name+":root=result-of-add/remove", c.Pos(fn.Pos()), detailRoot)
	}
	c.OwnerRule("R17.1", "write(Trie.root)", c.libCDeepFieldWrites(map[*types.Var]bool{fRoot: true}, ScanOpts{SkipGenerated: true, OnlyPkgs: only}), map[string]string{
		mp + ".MakeTrie":         "empty trie",
		mp + ".Trie.Add":         "inside the transaction",
		mp + ".Trie.Delete":      "inside the transaction",
		mp + ".Trie.deserialize": "root page reload",
		mp + ".merkleTrieCache.reallocatePendingPages": "commit relocates nodes to pack pages and re-maps the root id through the same reallocation map",
	})

	// ---- R17.2 ----
	for _, side := range []struct {
		fn       *ssa.Function
		want     bool
		mut      *types.Func
		bypassOK bool
	}{{addFn, false, mutators[0], true}, {delFn, true, mutators[1], false}} {
		fn := side.fn
		name := fnName(fn)
		if len(fn.Params) != 2 {
			c.Unk("R17.2", name+":signature", c.Pos(fn.Pos()), "expected (mt, d)")
			continue
		}
		recv, d := fn.Params[0], fn.Params[1]
		finds := CallsTo(fn, false, findF)
		if len(finds) != 1 {
			c.Bad("R17.2", name+":find", c.Pos(fn.Pos()), "expected exactly one node.find call, found "+itoa(len(finds)))
			continue
		}
		find := libCCall(finds[0])
		trueRets := ReturnsWhere(fn, 0, func(v ssa.Value) bool { return !IsConstBool(false)(v) })
		found := func(v ssa.Value) bool { e, ok := v.(*ssa.Extract); return ok && e.Tuple == ssa.Value(find) && e.Index == 0 }
		ferr := func(v ssa.Value) bool { e, ok := v.(*ssa.Extract); return ok && e.Tuple == ssa.Value(find) && e.Index == 1 }
		var bypass []Guard
		if side.bypassOK {
			bypass = []Guard{GCmp("mt.root==null (first element)", token.EQL, func(v ssa.Value) bool { return Mentions(v, fRoot, 3) }, libCIsConstOf(nullK))}
		}
		word := "absent"
		if side.want {
			word = "present"
		}
		c.MustGuard(MustGuardSpec{Rule: "R17.2", Fn: fn, Effects: trueRets, EffName: "return true", Guards: []Guard{
			GBool("find reported "+word, found, side.want), GErrNil("find err==nil", ferr)}, Bypass: bypass})
		// same element looked up and added/removed, on the node of mt.root
		fa := find.Common().Args
		okArgs := len(fa) == 3 && c15Canon(fa[2]) == ssa.Value(d)
		var rootNode ssa.Value
		if okArgs {
			if call, ok := libCCallOfResult(fa[0], 0, getNode); ok && Mentions(call.Common().Args[1], fRoot, 3) && libCMentionsValue(call.Common().Args[1], recv) {
				rootNode = fa[0]
			} else {
				okArgs = false
			}
		}
		muts := CallsTo(fn, false, side.mut)
		okMut := okArgs && len(muts) == 1
		if okMut {
			ma := muts[0].Common().Args
			okMut = len(ma) == 4 && ma[0] == rootNode && c15Canon(ma[2]) == ssa.Value(d)
		}
		c.Check(okArgs, "R17.2", name+":find(d)-on-node-of-mt.root", c.Pos(find.Pos()), "membership is asked of the root node (getNode(mt.root)) for exactly the parameter d")
		c.Check(okMut, "R17.2", name+":"+side.mut.Name()+"(d)-on-the-same-node", c.Pos(fn.Pos()), "the element added/removed is the same d, starting from the same root node")
		// length check before lookup
		lenGuard := GCmp("len(d)==mt.elementLength", token.EQL, func(v ssa.Value) bool {
			call, ok := v.(*ssa.Call)
			if !ok {
				return false
			}
			cc, ok := isBuiltinCall(call, "len")
			return ok && c15Canon(cc.Args[0]) == ssa.Value(d)
		}, func(v ssa.Value) bool { return Mentions(v, fElemLen, 3) })
		c.MustGuard(MustGuardSpec{Rule: "R17.2", Fn: fn, Effects: []ssa.Instruction{find}, EffName: "find(d)", Guards: []Guard{lenGuard}})
	}
}
