package main

// lib_H.go — helpers of contributor H (C36, C37, C39, C40, C41).
//
// Part 1  go-codec's view of a struct type: the effective encoded fields
//         (hCodecFields), computed from go/types exactly as
//         go-codec/codec (*TypeInfos).rget + rgetResolveSFI do by reflection.
// Part 2  extractor over msgp-generated code (hMsgpExtract): per generated
//         type the map blocks of MarshalMsg (emitted key literals in order,
//         omit-empty mask wiring, encoded field per key) and the
//         `switch string(field)` statements of UnmarshalMsgWithState (case
//         labels, decoded field per case). Reused by C07:
//
//             m := hMsgpExtract(c)                       // cached per loaded program
//             g := m.ByName["agreement.diskState"]       // *HGenType, nil if not generated
//             b, s := g.TopBlock(), g.TopSwitch()        // the struct itself; g.Blocks/g.Switches also hold inlined structs
//             b.Keys[i].Name / b.FieldOf[i]              // emitted key and the go-codec field encoded after it
//             s.Cases[i].Labels / s.Cases[i].Field       // decoder label and the field it assigns
//             b.S (= hCodecFields(structType)).Names()   // go-codec's effective (flattened) field names, sorted
//             g.Problems, b.Problems, s.Problems         // non-empty => idiom not understood => record c.Unk
// Part 3  SSA helpers: allocation sites of generated decoders with their
//         dominating bound tests (hAllocSites), address paths, small matchers.
//
// Everything is resolved through go/types objects; the only strings read are
// struct tags, string/byte constants of the generated code and the
// `//msgp:allocbound` generator directives (which are where the declared
// bounds live). An idiom that is not understood is reported as a Problem of
// the block/switch/site and must be turned into an undecided obligation by
// the caller.

import (
	"fmt"
	"go/ast"
	"go/constant"
	"go/token"
	"go/types"
	"os"
	"reflect"
	"sort"
	"strings"

	"golang.org/x/tools/go/packages"
	"golang.org/x/tools/go/ssa"
)

// ===================================================================
// Part 1: go-codec effective fields
// ===================================================================

// HField is one encoded field of a struct as go-codec sees it.
type HField struct {
	Name           string       // encoded map key
	Path           []*types.Var // embedded steps followed by the field itself
	Var            *types.Var   // the field (== Path[len-1])
	OmitEmpty      bool         // own tag or the outermost struct's _struct option
	OmitEmptyArray bool
	TagParts       []string // the comma separated parts of the codec (or json) tag
	Depth          int      // 1 = declared in the struct itself
}

// Omittable reports whether go-codec may leave the field out of the encoding:
// omitempty is set and, for Go arrays, omitemptyarray too (isEmptyValue
// returns len==0 for arrays otherwise, which is never true).
func (f *HField) Omittable() bool {
	if !f.OmitEmpty {
		return false
	}
	if _, isArr := f.Var.Type().Underlying().(*types.Array); isArr {
		return f.OmitEmptyArray
	}
	return true
}

// AllocBounds returns the allocbound= parts of the tag, in order.
func (f *HField) AllocBounds() []string {
	var out []string
	for _, p := range f.TagParts[1:] {
		if strings.HasPrefix(p, "allocbound=") {
			out = append(out, strings.SplitN(p, "=", 2)[1])
		}
	}
	return out
}

// PathString renders the Go selector path of the field.
func (f *HField) PathString() string {
	var s []string
	for _, v := range f.Path {
		s = append(s, v.Name())
	}
	return strings.Join(s, ".")
}

// HStructInfo is go-codec's typeInfo of a struct.
type HStructInfo struct {
	Struct         *types.Struct
	Fields         []*HField // resolved (shadowing applied), sorted by Name bytewise
	HasStructTag   bool
	ToArray        bool
	OmitEmpty      bool
	OmitEmptyArray bool
	Problems       []string
}

// Names returns the encoded names in canonical (sorted) order.
func (s *HStructInfo) Names() []string {
	out := make([]string, len(s.Fields))
	for i, f := range s.Fields {
		out[i] = f.Name
	}
	return out
}

// ByName finds a field by encoded name.
func (s *HStructInfo) ByName(n string) *HField {
	for _, f := range s.Fields {
		if f.Name == n {
			return f
		}
	}
	return nil
}

// ByPathPrefix finds the field whose Path is a prefix of the given field steps.
func (s *HStructInfo) ByPathPrefix(steps []*types.Var) *HField {
	for _, f := range s.Fields {
		if len(f.Path) > len(steps) {
			continue
		}
		ok := true
		for i, v := range f.Path {
			if steps[i] != v {
				ok = false
				break
			}
		}
		if ok {
			return f
		}
	}
	return nil
}

// hStructTag mirrors (*TypeInfos).structTag: the codec tag, else the json tag.
func hStructTag(tag string) string {
	st := reflect.StructTag(tag)
	if s := st.Get("codec"); s != "" {
		return s
	}
	return st.Get("json")
}

func hDerefStruct(t types.Type) (*types.Struct, bool, bool) {
	isPtr := false
	for {
		p, ok := t.Underlying().(*types.Pointer)
		if !ok {
			break
		}
		isPtr = true
		t = p.Elem()
	}
	st, ok := t.Underlying().(*types.Struct)
	return st, ok, isPtr
}

// hFindStructInfoField mirrors reflect.Type.FieldByName("_struct"): the
// shallowest unique field of that name, looking through embedded structs.
func hFindStructInfoField(st *types.Struct) (tag string, found bool) {
	level := []*types.Struct{st}
	seen := map[*types.Struct]bool{}
	for depth := 0; len(level) > 0 && depth < 8; depth++ {
		var next []*types.Struct
		n := 0
		for _, s := range level {
			if seen[s] {
				continue
			}
			seen[s] = true
			for i := 0; i < s.NumFields(); i++ {
				f := s.Field(i)
				if f.Name() == "_struct" {
					n++
					tag = s.Tag(i)
				}
				if f.Embedded() {
					if es, ok, _ := hDerefStruct(f.Type()); ok {
						next = append(next, es)
					}
				}
			}
		}
		if n == 1 {
			return tag, true
		}
		if n > 1 {
			return "", false
		}
		level = next
	}
	return "", false
}

var hCodecCache = map[*types.Struct]*HStructInfo{}

// hCodecFields computes go-codec's effective field list of a struct type.
func hCodecFields(st *types.Struct) *HStructInfo {
	if si, ok := hCodecCache[st]; ok {
		return si
	}
	si := &HStructInfo{Struct: st}
	hCodecCache[st] = si
	if tag, ok := hFindStructInfoField(st); ok {
		si.HasStructTag = true
		parts := strings.Split(hStructTag(tag), ",")
		for _, p := range parts[1:] {
			switch p {
			case "omitempty":
				si.OmitEmpty = true
			case "omitemptyarray":
				si.OmitEmptyArray = true
			case "toarray":
				si.ToArray = true
			case "int", "uint", "float":
				si.Problems = append(si.Problems, "_struct key type option "+p+" is not modelled")
			}
		}
	}
	var all []*HField
	var rget func(s *types.Struct, path []*types.Var, etypes []*types.Struct)
	rget = func(s *types.Struct, path []*types.Var, etypes []*types.Struct) {
		for j := 0; j < s.NumFields(); j++ {
			f := s.Field(j)
			switch u := f.Type().Underlying().(type) {
			case *types.Signature:
				continue
			case *types.Basic:
				if u.Kind() == types.Complex64 || u.Kind() == types.Complex128 || u.Kind() == types.UnsafePointer {
					continue
				}
			}
			unexported := !f.Exported()
			if unexported && !f.Embedded() {
				continue
			}
			stag := hStructTag(s.Tag(j))
			if stag == "-" {
				continue
			}
			parts := strings.Split(stag, ",")
			tagName := ""
			ownOmit, ownOmitArr := false, false
			if stag != "" {
				tagName = parts[0]
				for _, p := range parts[1:] {
					switch p {
					case "omitempty":
						ownOmit = true
					case "omitemptyarray":
						ownOmitArr = true
					}
				}
			} else {
				parts = []string{""}
			}
			if f.Embedded() {
				if _, isIntf := f.Type().Underlying().(*types.Interface); !isIntf {
					es, isStruct, isPtr := hDerefStruct(f.Type())
					if (unexported && !isStruct) || (unexported && isPtr) {
						continue
					}
					if tagName == "" && isStruct {
						n := 0
						for _, k := range etypes {
							if k == es {
								n++
							}
						}
						if n >= 2 {
							continue
						}
						p2 := append(append([]*types.Var{}, path...), f)
						rget(es, p2, append(append([]*types.Struct{}, etypes...), es))
						continue
					}
				}
			}
			if unexported {
				continue
			}
			name := f.Name()
			if tagName != "" {
				name = tagName
			}
			all = append(all, &HField{
				Name: name, Path: append(append([]*types.Var{}, path...), f), Var: f,
				OmitEmpty: si.OmitEmpty || ownOmit, OmitEmptyArray: si.OmitEmptyArray || ownOmitArr,
				TagParts: parts, Depth: len(path) + 1,
			})
		}
	}
	rget(st, nil, []*types.Struct{st})
	// shadowing: the shallowest field of a name wins (rgetResolveSFI)
	byName := map[string]*HField{}
	dead := map[*HField]bool{}
	for _, f := range all {
		prev, ok := byName[f.Name]
		if !ok {
			byName[f.Name] = f
			continue
		}
		switch {
		case f.Depth == prev.Depth:
			si.Problems = append(si.Problems, "two fields encode as "+fmt.Sprintf("%q", f.Name)+" at the same embedding depth ("+prev.PathString()+", "+f.PathString()+")")
		case f.Depth < prev.Depth:
			dead[prev] = true
			byName[f.Name] = f
		default:
			dead[f] = true
		}
	}
	for _, f := range all {
		if !dead[f] {
			si.Fields = append(si.Fields, f)
		}
	}
	sort.SliceStable(si.Fields, func(i, j int) bool { return si.Fields[i].Name < si.Fields[j].Name })
	return si
}

// ===================================================================
// Part 2: extractor over msgp-generated code
// ===================================================================

// HStep is one step of an access chain: a struct field, or (F==nil) an
// index into a slice/array/map.
type HStep struct{ F *types.Var }

// HChain is an lvalue-like expression: a local variable/receiver followed by
// field and index steps (pointer dereferences, parentheses, conversions and
// full slices are transparent).
type HChain struct {
	Base  *types.Var
	Steps []HStep
	Pos   token.Pos
}

func (c HChain) String() string {
	if c.Base == nil {
		return "?"
	}
	s := c.Base.Name()
	for _, st := range c.Steps {
		if st.F == nil {
			s += "[]"
		} else {
			s += "." + st.F.Name()
		}
	}
	return s
}

func (c HChain) hasPrefix(p HChain) bool {
	if c.Base != p.Base || len(c.Steps) < len(p.Steps) {
		return false
	}
	for i, s := range p.Steps {
		if c.Steps[i] != s {
			return false
		}
	}
	return true
}

func (c HChain) nFields() int {
	n := 0
	for _, s := range c.Steps {
		if s.F != nil {
			n++
		}
	}
	return n
}

// leadingFields returns the field steps at the start of steps.
func hLeadingFields(steps []HStep) []*types.Var {
	var out []*types.Var
	for _, s := range steps {
		if s.F == nil {
			break
		}
		out = append(out, s.F)
	}
	return out
}

// hChainOf converts an expression into a chain.
func hChainOf(info *types.Info, e ast.Expr) (HChain, bool) {
	switch x := ast.Unparen(e).(type) {
	case *ast.Ident:
		obj := info.Uses[x]
		if obj == nil {
			obj = info.Defs[x]
		}
		v, ok := obj.(*types.Var)
		if !ok || v.IsField() {
			return HChain{}, false
		}
		return HChain{Base: v, Pos: x.Pos()}, true
	case *ast.StarExpr:
		return hChainOf(info, x.X)
	case *ast.UnaryExpr:
		if x.Op == token.AND {
			return hChainOf(info, x.X)
		}
	case *ast.SliceExpr:
		return hChainOf(info, x.X)
	case *ast.IndexExpr:
		c, ok := hChainOf(info, x.X)
		if !ok {
			return HChain{}, false
		}
		c.Steps = append(append([]HStep{}, c.Steps...), HStep{})
		return c, true
	case *ast.SelectorExpr:
		sel, ok := info.Selections[x]
		if !ok || sel.Kind() != types.FieldVal {
			return HChain{}, false
		}
		c, ok := hChainOf(info, x.X)
		if !ok {
			return HChain{}, false
		}
		steps := append([]HStep{}, c.Steps...)
		t := sel.Recv()
		for _, i := range sel.Index() {
			st, ok, _ := hDerefStruct(t)
			if !ok || i >= st.NumFields() {
				return HChain{}, false
			}
			f := st.Field(i)
			steps = append(steps, HStep{F: f})
			t = f.Type()
		}
		c.Steps = steps
		return c, true
	case *ast.CallExpr:
		if len(x.Args) == 1 {
			if tv, ok := info.Types[x.Fun]; ok && tv.IsType() {
				return hChainOf(info, x.Args[0])
			}
		}
	}
	return HChain{}, false
}

// hChainsIn collects the maximal chains with at least one field step below n.
func hChainsIn(info *types.Info, n ast.Node) []HChain {
	var out []HChain
	var visit func(n ast.Node)
	visit = func(n ast.Node) {
		ast.Inspect(n, func(m ast.Node) bool {
			e, ok := m.(ast.Expr)
			if !ok {
				return true
			}
			switch e.(type) {
			case *ast.SelectorExpr, *ast.IndexExpr, *ast.StarExpr, *ast.SliceExpr:
			default:
				return true
			}
			c, ok := hChainOf(info, e)
			if !ok || c.nFields() == 0 {
				return true
			}
			out = append(out, c)
			// index / slice sub-expressions may hold further chains
			for x := ast.Unparen(e); x != nil; {
				switch y := x.(type) {
				case *ast.IndexExpr:
					visit(y.Index)
					x = ast.Unparen(y.X)
				case *ast.SliceExpr:
					for _, s := range []ast.Expr{y.Low, y.High, y.Max} {
						if s != nil {
							visit(s)
						}
					}
					x = ast.Unparen(y.X)
				case *ast.SelectorExpr:
					x = ast.Unparen(y.X)
				case *ast.StarExpr:
					x = ast.Unparen(y.X)
				case *ast.UnaryExpr:
					x = ast.Unparen(y.X)
				case *ast.CallExpr:
					if len(y.Args) == 1 {
						x = ast.Unparen(y.Args[0])
					} else {
						x = nil
					}
				default:
					x = nil
				}
			}
			return false
		})
	}
	visit(n)
	return out
}

// HMaskBit names one bit of an omit-empty mask variable.
type HMaskBit struct {
	Mask *types.Var
	Word int
	Bit  uint64
}

// HKey is one map key literal emitted by a generated MarshalMsg.
type HKey struct {
	Name   string
	Pos    token.Pos
	Cond   *HMaskBit // non-nil when emitted under `if (mask & bit) == 0`
	Chains []HChain  // access chains in the statements that encode the value
}

// HEmptyTest is one `if <empty(field)> { len--; mask |= bit }` statement.
type HEmptyTest struct {
	Bit    HMaskBit
	Len    *types.Var
	Pos    token.Pos
	Chains []HChain
}

// HMapBlock is one struct-as-map encoding inside a generated MarshalMsg.
type HMapBlock struct {
	Fn         *types.Func
	Pos        token.Pos
	Variable   bool // header is 0x80|len or AppendMapHeader(len): omit-empty struct
	LenVar     *types.Var
	Count      int // declared number of entries (maximum for variable headers)
	Keys       []*HKey
	EmptyTests []HEmptyTest
	Parent     *HMapBlock // the block whose key's value this block is (nil at top)
	ParentKey  int
	First      bool // first block of the method and not nested in a key
	Recv       *types.Var
	remaining  int

	// resolved
	E        HChain       // the struct expression that is encoded
	SType    types.Type   // its type
	S        *HStructInfo // go-codec view of SType
	FieldOf  []*HField    // per key: the go-codec field whose value is encoded after the key
	Problems []string
}

// HCase is one case clause of a generated `switch string(field)`.
type HCase struct {
	Labels []string
	Pos    token.Pos
	Chains []HChain
	Field  *HField
}

// HSwitch is one struct-from-map decoder inside UnmarshalMsgWithState.
type HSwitch struct {
	Fn             *types.Func
	Pos            token.Pos
	Cases          []*HCase
	HasDefault     bool
	DefaultNoField bool // default clause calls msgp.ErrNoField
	Parent         *HSwitch
	ParentCase     int
	First          bool
	Recv           *types.Var

	E        HChain
	SType    types.Type
	S        *HStructInfo
	Problems []string
}

// HGenType is everything extracted for one type with generated methods.
type HGenType struct {
	Name      string // "pkgrel.Type"
	Named     *types.Named
	Pkg       *packages.Package
	File      *ast.File
	Marshal   *types.Func
	Unmarshal *types.Func // UnmarshalMsgWithState
	Blocks    []*HMapBlock
	Switches  []*HSwitch
	Problems  []string
	// the generator emits pure forwarding wrappers (`return ((*(T))(z)).MarshalMsg(b)`)
	// for types defined as another generated type
	MarshalForwards   bool
	UnmarshalForwards bool
}

// TopBlock returns the block that encodes the type itself (nil for non-structs).
func (g *HGenType) TopBlock() *HMapBlock {
	for _, b := range g.Blocks {
		if b.First {
			return b
		}
	}
	return nil
}

// TopSwitch returns the switch that decodes the type itself.
func (g *HGenType) TopSwitch() *HSwitch {
	for _, s := range g.Switches {
		if s.First {
			return s
		}
	}
	return nil
}

// HMsgp is the result of the extraction over all loaded generated files.
type HMsgp struct {
	Files  []string // generated files seen (repo-relative)
	Types  []*HGenType
	ByName map[string]*HGenType
	Msgp   *types.Package // github.com/algorand/msgp/msgp
}

const hMsgpPath = "github.com/algorand/msgp/msgp"

var hMsgpCache = map[*Program]*HMsgp{}

// hExtPkg finds a non-module package imported by some loaded module package.
func hExtPkg(c *Ctx, path string) *types.Package {
	for _, pk := range c.sortedPkgs() {
		if ip, ok := pk.Imports[path]; ok && ip.Types != nil {
			return ip.Types
		}
	}
	return nil
}

// hExtFunc resolves a package-level function of a non-module package.
func hExtFunc(c *Ctx, path, name string) *types.Func {
	p := hExtPkg(c, path)
	if p == nil {
		panic(abortRule("package " + path + " is not imported by any loaded package"))
	}
	f, ok := p.Scope().Lookup(name).(*types.Func)
	if !ok {
		panic(abortRule("anchor " + path + "." + name + " does not resolve"))
	}
	return f
}

// hIsMsgpGenFile: a generated file (header comment) that imports msgp.
func hIsMsgpGenFile(pk *packages.Package, f *ast.File) bool {
	if !isGenerated(f) {
		return false
	}
	for _, im := range f.Imports {
		if strings.Trim(im.Path.Value, `"`) == hMsgpPath {
			return true
		}
	}
	return false
}

// hMsgpExtract runs the extractor over every loaded module package.
func hMsgpExtract(c *Ctx) *HMsgp {
	if r, ok := hMsgpCache[c.Program]; ok {
		return r
	}
	res := &HMsgp{ByName: map[string]*HGenType{}, Msgp: hExtPkg(c, hMsgpPath)}
	hMsgpCache[c.Program] = res
	if res.Msgp == nil {
		return res
	}
	for _, pk := range c.sortedPkgs() {
		for _, f := range pk.Syntax {
			if !hIsMsgpGenFile(pk, f) {
				continue
			}
			res.Files = append(res.Files, c.Pos(f.Package))
			for _, d := range f.Decls {
				fd, ok := d.(*ast.FuncDecl)
				if !ok || fd.Recv == nil || fd.Body == nil {
					continue
				}
				fo, ok := pk.TypesInfo.Defs[fd.Name].(*types.Func)
				if !ok {
					continue
				}
				if fo.Name() != "MarshalMsg" && fo.Name() != "UnmarshalMsgWithState" {
					continue
				}
				nt := hRecvNamed(fo)
				if nt == nil {
					continue
				}
				name := relPkg(pk.PkgPath) + "." + nt.Obj().Name()
				g := res.ByName[name]
				if g == nil {
					g = &HGenType{Name: name, Named: nt, Pkg: pk, File: f}
					res.ByName[name] = g
					res.Types = append(res.Types, g)
				}
				if fo.Name() == "MarshalMsg" {
					g.Marshal = fo
					hParseMarshal(res, g, fd)
				} else {
					g.Unmarshal = fo
					hParseUnmarshal(res, g, fd)
				}
			}
		}
	}
	return res
}

func hRecvNamed(f *types.Func) *types.Named {
	sig, _ := f.Type().(*types.Signature)
	if sig == nil || sig.Recv() == nil {
		return nil
	}
	t := sig.Recv().Type()
	if p, ok := t.(*types.Pointer); ok {
		t = p.Elem()
	}
	nt, _ := types.Unalias(t).(*types.Named)
	return nt
}

func hRecvVar(info *types.Info, fd *ast.FuncDecl) *types.Var {
	if fd.Recv == nil || len(fd.Recv.List) == 0 || len(fd.Recv.List[0].Names) == 0 {
		return nil
	}
	v, _ := info.Defs[fd.Recv.List[0].Names[0]].(*types.Var)
	return v
}

// ---- msgpack literal events ----

type hEvent struct {
	kind byte // 'm' map header, 'a' array header, 's' string, '?' unknown
	n    int
	s    string
}

func hParseMsgpackLiteral(b []byte) []hEvent {
	var out []hEvent
	for i := 0; i < len(b); {
		x := b[i]
		switch {
		case x >= 0x80 && x <= 0x8f:
			out = append(out, hEvent{kind: 'm', n: int(x & 0x0f)})
			i++
		case x == 0xde && i+3 <= len(b):
			out = append(out, hEvent{kind: 'm', n: int(b[i+1])<<8 | int(b[i+2])})
			i += 3
		case x >= 0x90 && x <= 0x9f:
			out = append(out, hEvent{kind: 'a', n: int(x & 0x0f)})
			i++
		case x >= 0xa0 && x <= 0xbf:
			n := int(x & 0x1f)
			if i+1+n > len(b) {
				return append(out, hEvent{kind: '?'})
			}
			out = append(out, hEvent{kind: 's', s: string(b[i+1 : i+1+n])})
			i += 1 + n
		case x == 0xd9 && i+2 <= len(b):
			n := int(b[i+1])
			if i+2+n > len(b) {
				return append(out, hEvent{kind: '?'})
			}
			out = append(out, hEvent{kind: 's', s: string(b[i+2 : i+2+n])})
			i += 2 + n
		default:
			return append(out, hEvent{kind: '?'})
		}
	}
	return out
}

// ---- marshal side ----

type hMarshalParser struct {
	res     *HMsgp
	g       *HGenType
	info    *types.Info
	fn      *types.Func
	out     *types.Var
	recv    *types.Var
	lenDecl map[*types.Var]int
	pending []HEmptyTest
	nBlocks int
}

type hMCtx struct {
	stack     []*HMapBlock
	parent    *HMapBlock
	parentKey int
}

func (p *hMarshalParser) problem(pos token.Pos, format string, a ...any) {
	p.g.Problems = append(p.g.Problems, fmt.Sprintf("MarshalMsg@%d: ", p.g.Pkg.Fset.Position(pos).Line)+fmt.Sprintf(format, a...))
}

func hParseMarshal(res *HMsgp, g *HGenType, fd *ast.FuncDecl) {
	info := g.Pkg.TypesInfo
	p := &hMarshalParser{res: res, g: g, info: info, fn: g.Marshal, lenDecl: map[*types.Var]int{}, recv: hRecvVar(info, fd)}
	if fd.Type.Results != nil && len(fd.Type.Results.List) == 1 && len(fd.Type.Results.List[0].Names) == 1 {
		p.out, _ = info.Defs[fd.Type.Results.List[0].Names[0]].(*types.Var)
	}
	if p.out == nil {
		// dangling wrappers: `return ((*(T))(z)).MarshalMsg(b)` — nothing to extract
		g.MarshalForwards = hIsForwarder(info, fd, "MarshalMsg")
		if !g.MarshalForwards {
			p.problem(fd.Pos(), "MarshalMsg has no named result and is not a forwarding wrapper")
		}
		return
	}
	ctx := &hMCtx{parentKey: -1}
	p.parseList(fd.Body.List, ctx, nil)
	p.closeCtx(ctx, 0, fd.Body.End())
	first := len(g.Blocks) - p.nBlocks
	for _, b := range g.Blocks[first:] {
		p.resolveBlock(b)
	}
}

func (p *hMarshalParser) closeCtx(ctx *hMCtx, floor int, pos token.Pos) {
	for len(ctx.stack) > floor {
		top := ctx.stack[len(ctx.stack)-1]
		if top.remaining != 0 {
			top.Problems = append(top.Problems, fmt.Sprintf("map header announces %d entries but %d key literal(s) follow", top.Count, len(top.Keys)))
		}
		ctx.stack = ctx.stack[:len(ctx.stack)-1]
	}
}

func (p *hMarshalParser) constInt(e ast.Expr) (uint64, bool) {
	tv, ok := p.info.Types[e]
	if !ok || tv.Value == nil {
		return 0, false
	}
	v := constant.ToInt(tv.Value)
	if v.Kind() != constant.Int {
		return 0, false
	}
	return constant.Uint64Val(v)
}

func (p *hMarshalParser) identVar(e ast.Expr) *types.Var {
	id, ok := ast.Unparen(e).(*ast.Ident)
	if !ok {
		return nil
	}
	obj := p.info.Uses[id]
	if obj == nil {
		obj = p.info.Defs[id]
	}
	v, _ := obj.(*types.Var)
	return v
}

func (p *hMarshalParser) isBuiltin(e ast.Expr, name string) bool {
	id, ok := ast.Unparen(e).(*ast.Ident)
	if !ok {
		return false
	}
	b, ok := p.info.Uses[id].(*types.Builtin)
	return ok && b.Name() == name
}

func (p *hMarshalParser) msgpCallee(e ast.Expr) *types.Func {
	call, ok := ast.Unparen(e).(*ast.CallExpr)
	if !ok {
		return nil
	}
	sel, ok := ast.Unparen(call.Fun).(*ast.SelectorExpr)
	if !ok {
		return nil
	}
	f, ok := p.info.Uses[sel.Sel].(*types.Func)
	if !ok || f.Pkg() != p.res.Msgp {
		return nil
	}
	return f
}

// maskBitOf recognises `M & c` / `M[i] & c`.
func (p *hMarshalParser) maskBitOf(e ast.Expr) (HMaskBit, bool) {
	be, ok := ast.Unparen(e).(*ast.BinaryExpr)
	if !ok || be.Op != token.AND {
		return HMaskBit{}, false
	}
	bit, ok := p.constInt(be.Y)
	if !ok {
		return HMaskBit{}, false
	}
	return p.maskRef(be.X, bit)
}

func (p *hMarshalParser) maskRef(e ast.Expr, bit uint64) (HMaskBit, bool) {
	switch x := ast.Unparen(e).(type) {
	case *ast.Ident:
		if v := p.identVar(x); v != nil {
			return HMaskBit{Mask: v, Bit: bit}, true
		}
	case *ast.IndexExpr:
		if v := p.identVar(x.X); v != nil {
			if w, ok := p.constInt(x.Index); ok {
				return HMaskBit{Mask: v, Word: int(w), Bit: bit}, true
			}
		}
	}
	return HMaskBit{}, false
}

// emptyTest recognises `if cond { L--; M |= bit }`.
func (p *hMarshalParser) emptyTest(s *ast.IfStmt) (HEmptyTest, bool) {
	if s.Init != nil || s.Else != nil || len(s.Body.List) != 2 {
		return HEmptyTest{}, false
	}
	dec, ok := s.Body.List[0].(*ast.IncDecStmt)
	if !ok || dec.Tok != token.DEC {
		return HEmptyTest{}, false
	}
	lv := p.identVar(dec.X)
	if lv == nil {
		return HEmptyTest{}, false
	}
	if _, ok := p.lenDecl[lv]; !ok {
		return HEmptyTest{}, false
	}
	as, ok := s.Body.List[1].(*ast.AssignStmt)
	if !ok || as.Tok != token.OR_ASSIGN || len(as.Lhs) != 1 || len(as.Rhs) != 1 {
		return HEmptyTest{}, false
	}
	bit, ok := p.constInt(as.Rhs[0])
	if !ok {
		return HEmptyTest{}, false
	}
	mb, ok := p.maskRef(as.Lhs[0], bit)
	if !ok {
		return HEmptyTest{}, false
	}
	return HEmptyTest{Bit: mb, Len: lv, Pos: s.Pos(), Chains: hChainsIn(p.info, s.Cond)}, true
}

func (p *hMarshalParser) newBlock(ctx *hMCtx, pos token.Pos, variable bool, lenVar *types.Var, count int) {
	b := &HMapBlock{Fn: p.fn, Recv: p.recv, Pos: pos, Variable: variable, LenVar: lenVar, Count: count, remaining: count, ParentKey: -1}
	if len(ctx.stack) > 0 {
		top := ctx.stack[len(ctx.stack)-1]
		if len(top.Keys) > 0 {
			b.Parent, b.ParentKey = top, len(top.Keys)-1
		} else {
			b.Problems = append(b.Problems, "map header directly after another map header")
		}
	} else if ctx.parent != nil {
		b.Parent, b.ParentKey = ctx.parent, ctx.parentKey
	} else if p.nBlocks == 0 {
		b.First = true
	}
	if variable {
		var rest []HEmptyTest
		for _, t := range p.pending {
			if t.Len == lenVar {
				b.EmptyTests = append(b.EmptyTests, t)
			} else {
				rest = append(rest, t)
			}
		}
		p.pending = rest
	}
	p.nBlocks++
	p.g.Blocks = append(p.g.Blocks, b)
	ctx.stack = append(ctx.stack, b)
}

func (p *hMarshalParser) addKey(ctx *hMCtx, pos token.Pos, name string, cond *HMaskBit) {
	for len(ctx.stack) > 0 && ctx.stack[len(ctx.stack)-1].remaining == 0 {
		ctx.stack = ctx.stack[:len(ctx.stack)-1]
	}
	if len(ctx.stack) == 0 {
		p.problem(pos, "key literal %q outside any open map block", name)
		return
	}
	top := ctx.stack[len(ctx.stack)-1]
	top.Keys = append(top.Keys, &HKey{Name: name, Pos: pos, Cond: cond})
	top.remaining--
}

func (p *hMarshalParser) addChains(ctx *hMCtx, ch []HChain) {
	if len(ch) == 0 {
		return
	}
	for _, b := range ctx.stack {
		if n := len(b.Keys); n > 0 {
			b.Keys[n-1].Chains = append(b.Keys[n-1].Chains, ch...)
		}
	}
}

// ownsMask reports whether an open block has an emptiness test on mask m.
func hOwnsMask(ctx *hMCtx, m *types.Var) bool {
	for i := len(ctx.stack) - 1; i >= 0; i-- {
		for _, t := range ctx.stack[i].EmptyTests {
			if t.Bit.Mask == m {
				return true
			}
		}
	}
	return false
}

func (p *hMarshalParser) parseList(stmts []ast.Stmt, ctx *hMCtx, cond *HMaskBit) {
	for _, s := range stmts {
		switch x := s.(type) {
		case *ast.AssignStmt:
			// L := uint32(N)
			if x.Tok == token.DEFINE && len(x.Lhs) == 1 && len(x.Rhs) == 1 {
				if call, ok := x.Rhs[0].(*ast.CallExpr); ok && len(call.Args) == 1 {
					if tv, ok := p.info.Types[call.Fun]; ok && tv.IsType() {
						if b, ok := tv.Type.Underlying().(*types.Basic); ok && b.Kind() == types.Uint32 {
							if n, ok := p.constInt(call.Args[0]); ok {
								if v := p.identVar(x.Lhs[0]); v != nil {
									p.lenDecl[v] = int(n)
									continue
								}
							}
						}
					}
				}
			}
			if x.Tok == token.ASSIGN && len(x.Lhs) == 1 && len(x.Rhs) == 1 && p.identVar(x.Lhs[0]) == p.out {
				if call, ok := x.Rhs[0].(*ast.CallExpr); ok {
					// o = append(o, …)
					if p.isBuiltin(call.Fun, "append") && len(call.Args) >= 2 && p.identVar(call.Args[0]) == p.out && !call.Ellipsis.IsValid() {
						if p.parseAppend(ctx, x, call, cond) {
							continue
						}
					}
					// o = msgp.AppendMapHeader(o, L)
					if f := p.msgpCallee(call); f != nil && f.Name() == "AppendMapHeader" && len(call.Args) == 2 {
						if lv := p.identVar(call.Args[1]); lv != nil {
							if n, ok := p.lenDecl[lv]; ok {
								p.newBlock(ctx, x.Pos(), true, lv, n)
								continue
							}
						}
					}
				}
			}
		case *ast.DeclStmt:
			continue
		case *ast.IfStmt:
			if t, ok := p.emptyTest(x); ok {
				p.pending = append(p.pending, t)
				p.addChains(ctx, t.Chains)
				continue
			}
			if x.Init == nil && x.Else == nil {
				if be, ok := ast.Unparen(x.Cond).(*ast.BinaryExpr); ok {
					if z, isC := p.constInt(be.Y); isC && z == 0 {
						// if L != 0 { … }
						if be.Op == token.NEQ {
							if lv := p.identVar(be.X); lv != nil && len(ctx.stack) > 0 && ctx.stack[len(ctx.stack)-1].LenVar == lv {
								depth := len(ctx.stack)
								p.parseList(x.Body.List, ctx, cond)
								p.popTo(ctx, depth)
								continue
							}
						}
						// if (M & bit) == 0 { … }
						if be.Op == token.EQL {
							if mb, ok := p.maskBitOf(be.X); ok && hOwnsMask(ctx, mb.Mask) {
								depth := len(ctx.stack)
								p.parseList(x.Body.List, ctx, &mb)
								p.popTo(ctx, depth)
								continue
							}
						}
					}
				}
			}
		}
		// any other statement encodes (part of) a value
		p.addChains(ctx, hChainsIn(p.info, s))
		var parent *HMapBlock
		pk := -1
		for i := len(ctx.stack) - 1; i >= 0; i-- {
			if n := len(ctx.stack[i].Keys); n > 0 {
				parent, pk = ctx.stack[i], n-1
				break
			}
		}
		if parent == nil {
			parent, pk = ctx.parent, ctx.parentKey
		}
		ast.Inspect(s, func(m ast.Node) bool {
			switch y := m.(type) {
			case *ast.FuncLit:
				return false
			case *ast.BlockStmt:
				sub := &hMCtx{parent: parent, parentKey: pk}
				p.parseList(y.List, sub, nil)
				p.closeCtx(sub, 0, y.End())
				return false
			case *ast.CaseClause:
				sub := &hMCtx{parent: parent, parentKey: pk}
				p.parseList(y.Body, sub, nil)
				p.closeCtx(sub, 0, y.End())
				return false
			}
			return true
		})
	}
}

// popTo drops blocks opened inside a nested statement list that shares the stack.
func (p *hMarshalParser) popTo(ctx *hMCtx, depth int) {
	for len(ctx.stack) > depth {
		top := ctx.stack[len(ctx.stack)-1]
		if top.remaining != 0 {
			top.Problems = append(top.Problems, fmt.Sprintf("map header announces %d entries but %d key literal(s) follow", top.Count, len(top.Keys)))
		}
		ctx.stack = ctx.stack[:len(ctx.stack)-1]
	}
}

// parseAppend handles `o = append(o, args…)`; false when it is an ordinary value append.
func (p *hMarshalParser) parseAppend(ctx *hMCtx, as *ast.AssignStmt, call *ast.CallExpr, cond *HMaskBit) bool {
	args := call.Args[1:]
	// variable header: 0x80 | uint8(L)
	if len(args) == 1 {
		if be, ok := ast.Unparen(args[0]).(*ast.BinaryExpr); ok && be.Op == token.OR {
			if k, ok := p.constInt(be.X); ok && k == 0x80 {
				if conv, ok := ast.Unparen(be.Y).(*ast.CallExpr); ok && len(conv.Args) == 1 {
					if tv, ok := p.info.Types[conv.Fun]; ok && tv.IsType() {
						if lv := p.identVar(conv.Args[0]); lv != nil {
							if n, ok := p.lenDecl[lv]; ok {
								p.newBlock(ctx, as.Pos(), true, lv, n)
								return true
							}
						}
					}
				}
			}
		}
	}
	var bytes []byte
	for _, a := range args {
		v, ok := p.constInt(a)
		if !ok || v > 0xff {
			return false
		}
		bytes = append(bytes, byte(v))
	}
	for _, ev := range hParseMsgpackLiteral(bytes) {
		switch ev.kind {
		case 'm':
			p.newBlock(ctx, as.Pos(), false, nil, ev.n)
		case 's':
			p.addKey(ctx, as.Pos(), ev.s, cond)
		case 'a':
			p.problem(as.Pos(), "array header literal (struct encoded as tuple) is not modelled")
		default:
			p.problem(as.Pos(), "constant append % x is not a msgpack map header / string literal", bytes)
		}
	}
	return true
}

// hTypeOfChain walks the type along a chain.
func hTypeOfChain(c HChain) types.Type {
	if c.Base == nil {
		return nil
	}
	t := c.Base.Type()
	deref := func(t types.Type) types.Type {
		for {
			p, ok := t.Underlying().(*types.Pointer)
			if !ok {
				return t
			}
			t = p.Elem()
		}
	}
	for _, s := range c.Steps {
		t = deref(t)
		if s.F != nil {
			t = s.F.Type()
			continue
		}
		switch u := t.Underlying().(type) {
		case *types.Slice:
			t = u.Elem()
		case *types.Array:
			t = u.Elem()
		case *types.Map:
			t = u.Elem()
		default:
			return nil
		}
	}
	return deref(t)
}

// hResolveE determines the struct expression of a block/switch.
//
//	first:   the receiver itself
//	nested:  parent expression + parent field path (+ index steps), or a local
//	         temporary when the value is decoded/encoded through one
func hResolveE(recv *types.Var, first bool, parentE *HChain, parentField *HField, chains []HChain) (HChain, string) {
	if first && recv != nil {
		if _, ok, _ := hDerefStruct(recv.Type()); ok {
			return HChain{Base: recv}, ""
		}
	}
	if parentE != nil {
		if parentField == nil {
			return HChain{}, "the enclosing key/case could not be attributed to a field"
		}
		l := HChain{Base: parentE.Base, Steps: append([]HStep{}, parentE.Steps...)}
		for _, v := range parentField.Path {
			l.Steps = append(l.Steps, HStep{F: v})
		}
		for _, c := range chains {
			if c.hasPrefix(l) {
				e := HChain{Base: l.Base, Steps: append([]HStep{}, l.Steps...)}
				for _, s := range c.Steps[len(l.Steps):] {
					if s.F != nil {
						break
					}
					e.Steps = append(e.Steps, s)
				}
				return e, ""
			}
		}
	}
	for _, c := range chains {
		if parentE != nil && c.Base == parentE.Base {
			continue
		}
		e := HChain{Base: c.Base}
		for _, s := range c.Steps {
			if s.F != nil {
				break
			}
			e.Steps = append(e.Steps, s)
		}
		return e, ""
	}
	return HChain{}, "no access chain identifies the encoded struct"
}

// hFieldOfChains maps the chains below E to one go-codec field of S.
func hFieldOfChains(e HChain, s *HStructInfo, chains []HChain) (*HField, string) {
	var found *HField
	n := 0
	for _, c := range chains {
		if !c.hasPrefix(e) {
			continue
		}
		lead := hLeadingFields(c.Steps[len(e.Steps):])
		if len(lead) == 0 {
			continue
		}
		n++
		f := s.ByPathPrefix(lead)
		if f == nil {
			return nil, "accesses " + c.String() + ", which is not a field go-codec encodes for this struct"
		}
		if found != nil && found != f {
			return nil, "accesses two different encoded fields (" + found.PathString() + ", " + f.PathString() + ")"
		}
		found = f
	}
	if n == 0 {
		return nil, "no field access found"
	}
	return found, ""
}

func (p *hMarshalParser) resolveBlock(b *HMapBlock) {
	var chains []HChain
	for _, k := range b.Keys {
		chains = append(chains, k.Chains...)
	}
	var pe *HChain
	var pf *HField
	if b.Parent != nil {
		if b.Parent.S == nil {
			b.Problems = append(b.Problems, "enclosing block unresolved")
			return
		}
		pe = &b.Parent.E
		if b.ParentKey >= 0 && b.ParentKey < len(b.Parent.FieldOf) {
			pf = b.Parent.FieldOf[b.ParentKey]
		}
	}
	if len(b.Keys) == 0 && !(b.First && p.recv != nil) {
		// an empty struct: nothing to attribute
		b.FieldOf = nil
		if b.Count != 0 {
			b.Problems = append(b.Problems, "no key literals")
		}
	}
	e, why := hResolveE(p.recv, b.First, pe, pf, chains)
	if why != "" {
		if len(b.Keys) == 0 && b.Count == 0 {
			// empty inline struct: nothing to attribute; name it after the enclosing key
			b.S = &HStructInfo{}
			if pe != nil && pf != nil {
				b.E = HChain{Base: pe.Base, Steps: append([]HStep{}, pe.Steps...)}
				for _, v := range pf.Path {
					b.E.Steps = append(b.E.Steps, HStep{F: v})
				}
			}
			return
		}
		b.Problems = append(b.Problems, why)
		return
	}
	b.E = e
	b.SType = hTypeOfChain(e)
	st, ok := (*types.Struct)(nil), false
	if b.SType != nil {
		st, ok = b.SType.Underlying().(*types.Struct)
	}
	if !ok {
		b.Problems = append(b.Problems, "encoded expression "+e.String()+" is not a struct")
		return
	}
	b.S = hCodecFields(st)
	b.FieldOf = make([]*HField, len(b.Keys))
	for i, k := range b.Keys {
		f, why := hFieldOfChains(e, b.S, k.Chains)
		if f == nil && len(k.Chains) == 0 {
			// an empty inline struct is encoded as a bare `0x80` with no field
			// access: attribute by name when the named field is such a struct
			for _, ch := range p.g.Blocks {
				if ch.Parent == b && ch.ParentKey == i && ch.Count == 0 && len(ch.Keys) == 0 {
					if cand := b.S.ByName(k.Name); cand != nil {
						if es, ok, _ := hDerefStruct(cand.Var.Type()); ok && len(hCodecFields(es).Fields) == 0 {
							f = cand
						}
					}
				}
			}
		}
		if f == nil {
			b.Problems = append(b.Problems, fmt.Sprintf("key %q: %s", k.Name, why))
		}
		b.FieldOf[i] = f
	}
}

// ---- unmarshal side ----

func hParseUnmarshal(res *HMsgp, g *HGenType, fd *ast.FuncDecl) {
	info := g.Pkg.TypesInfo
	recv := hRecvVar(info, fd)
	g.UnmarshalForwards = hIsForwarder(info, fd, "UnmarshalMsgWithState")
	// variables assigned from msgp.ReadMapKeyZC
	keyVars := map[*types.Var]bool{}
	callee := func(e ast.Expr) *types.Func {
		call, ok := ast.Unparen(e).(*ast.CallExpr)
		if !ok {
			return nil
		}
		sel, ok := ast.Unparen(call.Fun).(*ast.SelectorExpr)
		if !ok {
			return nil
		}
		f, ok := info.Uses[sel.Sel].(*types.Func)
		if !ok || f.Pkg() != res.Msgp {
			return nil
		}
		return f
	}
	ast.Inspect(fd.Body, func(n ast.Node) bool {
		as, ok := n.(*ast.AssignStmt)
		if !ok || len(as.Rhs) != 1 || len(as.Lhs) == 0 {
			return true
		}
		if f := callee(as.Rhs[0]); f != nil && f.Name() == "ReadMapKeyZC" {
			if id, ok := as.Lhs[0].(*ast.Ident); ok {
				if v, ok := info.Uses[id].(*types.Var); ok {
					keyVars[v] = true
				}
			}
		}
		return true
	})
	start := len(g.Switches)
	nTop := 0
	var walk func(n ast.Node, parent *HSwitch, pc int)
	walk = func(root ast.Node, parent *HSwitch, pc int) {
		ast.Inspect(root, func(n ast.Node) bool {
			if ifs, ok := n.(*ast.IfStmt); ok && hIsTypeErrorTest(info, res.Msgp, ifs) {
				// struct-from-array compatibility branch: not part of the map layout
				if ifs.Else != nil {
					walk(ifs.Else, parent, pc)
				}
				return false
			}
			sw, ok := n.(*ast.SwitchStmt)
			if !ok || sw.Tag == nil {
				return true
			}
			conv, ok := ast.Unparen(sw.Tag).(*ast.CallExpr)
			if !ok || len(conv.Args) != 1 {
				return true
			}
			tv, ok := info.Types[conv.Fun]
			if !ok || !tv.IsType() {
				return true
			}
			if b, ok := tv.Type.Underlying().(*types.Basic); !ok || b.Kind() != types.String {
				return true
			}
			id, ok := ast.Unparen(conv.Args[0]).(*ast.Ident)
			if !ok {
				return true
			}
			v, _ := info.Uses[id].(*types.Var)
			if v == nil || !keyVars[v] {
				return true
			}
			h := &HSwitch{Fn: g.Unmarshal, Recv: recv, Pos: sw.Pos(), Parent: parent, ParentCase: pc}
			if parent == nil {
				if nTop == 0 {
					h.First = true
				}
				nTop++
			}
			g.Switches = append(g.Switches, h)
			for _, cl := range sw.Body.List {
				cc, ok := cl.(*ast.CaseClause)
				if !ok {
					continue
				}
				if cc.List == nil {
					h.HasDefault = true
					for _, s := range cc.Body {
						ast.Inspect(s, func(m ast.Node) bool {
							if call, ok := m.(*ast.CallExpr); ok {
								if sel, ok := ast.Unparen(call.Fun).(*ast.SelectorExpr); ok {
									if tn, ok := info.Uses[sel.Sel].(*types.TypeName); ok && tn.Pkg() == res.Msgp && tn.Name() == "ErrNoField" {
										h.DefaultNoField = true
									}
								}
							}
							return true
						})
					}
					continue
				}
				hc := &HCase{Pos: cc.Pos()}
				for _, l := range cc.List {
					ltv, ok := info.Types[l]
					if !ok || ltv.Value == nil || ltv.Value.Kind() != constant.String {
						h.Problems = append(h.Problems, "case label is not a string constant")
						continue
					}
					hc.Labels = append(hc.Labels, constant.StringVal(ltv.Value))
				}
				for _, s := range cc.Body {
					hc.Chains = append(hc.Chains, hChainsIn(info, s)...)
				}
				h.Cases = append(h.Cases, hc)
				idx := len(h.Cases) - 1
				for _, s := range cc.Body {
					walk(s, h, idx)
				}
			}
			return false
		})
	}
	walk(fd.Body, nil, -1)
	for _, h := range g.Switches[start:] {
		var chains []HChain
		for _, cs := range h.Cases {
			chains = append(chains, cs.Chains...)
		}
		var pe *HChain
		var pf *HField
		if h.Parent != nil {
			if h.Parent.S == nil {
				h.Problems = append(h.Problems, "enclosing switch unresolved")
				continue
			}
			pe = &h.Parent.E
			pf = h.Parent.Cases[h.ParentCase].Field
		}
		e, why := hResolveE(recv, h.First, pe, pf, chains)
		if why != "" {
			if len(h.Cases) == 0 {
				h.S = &HStructInfo{}
				if pe != nil && pf != nil {
					h.E = HChain{Base: pe.Base, Steps: append([]HStep{}, pe.Steps...)}
					for _, v := range pf.Path {
						h.E.Steps = append(h.E.Steps, HStep{F: v})
					}
				}
				continue
			}
			h.Problems = append(h.Problems, why)
			continue
		}
		h.E = e
		h.SType = hTypeOfChain(e)
		st, ok := (*types.Struct)(nil), false
		if h.SType != nil {
			st, ok = h.SType.Underlying().(*types.Struct)
		}
		if !ok {
			h.Problems = append(h.Problems, "decoded expression "+e.String()+" is not a struct")
			continue
		}
		h.S = hCodecFields(st)
		for _, cs := range h.Cases {
			f, why := hFieldOfChains(e, h.S, cs.Chains)
			if f == nil {
				h.Problems = append(h.Problems, fmt.Sprintf("case %q: %s", strings.Join(cs.Labels, ","), why))
			}
			cs.Field = f
		}
	}
}

// hIsForwarder: the body is a single `return X.<method>(args…)`.
func hIsForwarder(info *types.Info, fd *ast.FuncDecl, method string) bool {
	if fd.Body == nil || len(fd.Body.List) != 1 {
		return false
	}
	ret, ok := fd.Body.List[0].(*ast.ReturnStmt)
	if !ok || len(ret.Results) != 1 {
		return false
	}
	call, ok := ast.Unparen(ret.Results[0]).(*ast.CallExpr)
	if !ok {
		return false
	}
	sel, ok := ast.Unparen(call.Fun).(*ast.SelectorExpr)
	if !ok {
		return false
	}
	f, ok := info.Uses[sel.Sel].(*types.Func)
	return ok && f.Name() == method
}

// hIsTypeErrorTest recognises `if _, ok := err.(msgp.TypeError); ok {`.
func hIsTypeErrorTest(info *types.Info, msgp *types.Package, ifs *ast.IfStmt) bool {
	as, ok := ifs.Init.(*ast.AssignStmt)
	if !ok || len(as.Rhs) != 1 {
		return false
	}
	ta, ok := ast.Unparen(as.Rhs[0]).(*ast.TypeAssertExpr)
	if !ok || ta.Type == nil {
		return false
	}
	tv, ok := info.Types[ta.Type]
	if !ok {
		return false
	}
	nt, ok := types.Unalias(tv.Type).(*types.Named)
	return ok && nt.Obj().Pkg() == msgp && nt.Obj().Name() == "TypeError"
}

// hEString renders the struct expression of a block for obligation keys:
// the receiver is "z", a temporary is "<its type>".
func hEString(recv *types.Var, e HChain) string {
	if e.Base == nil {
		return "?"
	}
	s := "z"
	if e.Base != recv {
		s = "<" + types.TypeString(e.Base.Type(), func(p *types.Package) string { return p.Name() }) + ">"
	}
	for _, st := range e.Steps {
		if st.F == nil {
			s += "[]"
		} else {
			s += "." + st.F.Name()
		}
	}
	return s
}

func hNamedOf(t types.Type) *types.Named {
	if p, ok := t.(*types.Pointer); ok {
		t = p.Elem()
	}
	nt, _ := types.Unalias(t).(*types.Named)
	return nt
}

// ===================================================================
// Part 3: SSA helpers
// ===================================================================

// hStripConv removes numeric conversions and type changes.
func hStripConv(v ssa.Value) ssa.Value {
	for {
		switch x := v.(type) {
		case *ssa.Convert:
			v = x.X
		case *ssa.ChangeType:
			v = x.X
		default:
			return v
		}
	}
}

// hIsStaticBound: a constant, a package-level variable, or arithmetic on those.
func hIsStaticBound(v ssa.Value) bool {
	switch x := hStripConv(v).(type) {
	case *ssa.Const:
		return true
	case *ssa.UnOp:
		if x.Op == token.MUL {
			_, ok := x.X.(*ssa.Global)
			return ok
		}
	case *ssa.BinOp:
		return hIsStaticBound(x.X) && hIsStaticBound(x.Y)
	}
	return false
}

// hAddrPath renders an address/value as root + field/index steps.
func hAddrPath(v ssa.Value) (root ssa.Value, steps []HStep, ok bool) {
	switch x := v.(type) {
	case *ssa.Parameter, *ssa.Alloc, *ssa.Global, *ssa.FreeVar:
		return x, nil, true
	case *ssa.FieldAddr:
		r, st, ok := hAddrPath(x.X)
		if !ok {
			return nil, nil, false
		}
		return r, append(st, HStep{F: structField(x.X.Type(), x.Field)}), true
	case *ssa.Field:
		r, st, ok := hAddrPath(x.X)
		if !ok {
			return nil, nil, false
		}
		return r, append(st, HStep{F: structField(x.X.Type(), x.Field)}), true
	case *ssa.IndexAddr:
		r, st, ok := hAddrPath(x.X)
		if !ok {
			return nil, nil, false
		}
		return r, append(st, HStep{}), true
	case *ssa.Index:
		r, st, ok := hAddrPath(x.X)
		if !ok {
			return nil, nil, false
		}
		return r, append(st, HStep{}), true
	case *ssa.Lookup:
		r, st, ok := hAddrPath(x.X)
		if !ok {
			return nil, nil, false
		}
		return r, append(st, HStep{}), true
	case *ssa.UnOp:
		if x.Op == token.MUL {
			return hAddrPath(x.X)
		}
	case *ssa.ChangeType:
		return hAddrPath(x.X)
	case *ssa.Convert:
		return hAddrPath(x.X)
	case *ssa.Slice:
		return hAddrPath(x.X)
	}
	return nil, nil, false
}

func hPathString(fn *ssa.Function, root ssa.Value, steps []HStep) string {
	s := ""
	switch r := root.(type) {
	case *ssa.Parameter:
		if len(fn.Params) > 0 && fn.Params[0] == r && fn.Signature.Recv() != nil {
			s = "z"
		} else {
			s = r.Name()
		}
	case *ssa.Alloc:
		s = "<local " + types.TypeString(r.Type().(*types.Pointer).Elem(), func(p *types.Package) string { return p.Name() }) + ">"
	default:
		s = root.Name()
	}
	for _, st := range steps {
		if st.F == nil {
			s += "[]"
		} else {
			s += "." + st.F.Name()
		}
	}
	return s
}

// HAllocSite is one place where a generated decoder sizes a collection from
// the input: make([]T, n) / make(map, n) with n read from an array/map
// header, or msgp.ReadBytesBytes / ReadStringBytes.
type HAllocSite struct {
	Fn        *ssa.Function
	Instr     ssa.Instruction
	Kind      string    // make-slice | make-map | read-bytes | read-string
	Size      ssa.Value // the decoded element/byte count (nil: not read separately)
	Dest      string    // rendered destination, "z.Field[]"
	DestRoot  ssa.Value
	DestSteps []HStep
	Bounded   bool      // a dominating `Size <= static bound` test exists
	Bound     ssa.Value // its bound operand
	Problem   string    // non-empty: idiom not understood
}

// IsRecvDest reports whether the destination is rooted at the receiver.
func (s *HAllocSite) IsRecvDest() bool {
	p, ok := s.DestRoot.(*ssa.Parameter)
	return ok && len(s.Fn.Params) > 0 && s.Fn.Params[0] == p && s.Fn.Signature.Recv() != nil
}

// LastField returns the last field step of the destination and the number of
// index steps after it.
func (s *HAllocSite) LastField() (*types.Var, int) {
	depth := 0
	for i := len(s.DestSteps) - 1; i >= 0; i-- {
		if s.DestSteps[i].F != nil {
			return s.DestSteps[i].F, depth
		}
		depth++
	}
	return nil, depth
}

func hMsgpCall(v ssa.Value, msgp *types.Package, names ...string) (*ssa.Call, bool) {
	call, ok := v.(*ssa.Call)
	if !ok {
		return nil, false
	}
	f := calleeOf(call.Common())
	if f == nil || f.Pkg() != msgp {
		return nil, false
	}
	for _, n := range names {
		if f.Name() == n {
			return call, true
		}
	}
	return nil, false
}

// hBoundGuard finds a branch `size <= static` (any spelling) whose passing
// edges dominate instr in the reachability sense.
func hBoundGuard(fn *ssa.Function, size ssa.Value, site ssa.Instruction) (bool, ssa.Value) {
	var bound ssa.Value
	isSize := func(v ssa.Value) bool { return hStripConv(v) == hStripConv(size) }
	static := func(v ssa.Value) bool {
		if hIsStaticBound(v) {
			bound = v
			return true
		}
		return false
	}
	g := GAnyOf("size<=bound", GCmp("size<=bound", token.LEQ, isSize, static), GCmp("size<bound", token.LSS, isSize, static))
	edges, n := PassEdges(fn, g)
	if n == 0 {
		return false, nil
	}
	r := NewReach(fn, edges, nil)
	if r.Reaches(site) {
		return false, bound
	}
	return true, bound
}

// hAllocSites lists the allocation sites of a (generated) decoder function.
func hAllocSites(fn *ssa.Function, msgp *types.Package) []*HAllocSite {
	var out []*HAllocSite
	headerCount := func(v ssa.Value) (ssa.Value, bool) {
		v = hStripConv(v)
		e, ok := v.(*ssa.Extract)
		if !ok || e.Index != 0 {
			return nil, false
		}
		if _, ok := hMsgpCall(e.Tuple, msgp, "ReadArrayHeaderBytes", "ReadMapHeaderBytes"); !ok {
			return nil, false
		}
		return e, true
	}
	storeDest := func(val ssa.Value) (ssa.Value, bool) {
		// the address the value (possibly converted) is stored to
		seen := map[ssa.Value]bool{}
		var find func(v ssa.Value) ssa.Value
		find = func(v ssa.Value) ssa.Value {
			if seen[v] || v.Referrers() == nil {
				return nil
			}
			seen[v] = true
			for _, r := range *v.Referrers() {
				switch x := r.(type) {
				case *ssa.Store:
					if x.Val == v {
						return x.Addr
					}
				case *ssa.ChangeType:
					if a := find(x); a != nil {
						return a
					}
				case *ssa.Convert:
					if a := find(x); a != nil {
						return a
					}
				case *ssa.MapUpdate:
					if x.Value == v {
						return x.Map
					}
				}
			}
			return nil
		}
		a := find(val)
		return a, a != nil
	}
	for _, b := range fn.Blocks {
		for _, in := range b.Instrs {
			var s *HAllocSite
			switch x := in.(type) {
			case *ssa.MakeSlice:
				if _, isConst := hStripConv(x.Len).(*ssa.Const); isConst {
					continue
				}
				s = &HAllocSite{Fn: fn, Instr: in, Kind: "make-slice"}
				if sz, ok := headerCount(x.Len); ok {
					s.Size = sz
				} else {
					s.Problem = "length of make is not the count returned by msgp.ReadArrayHeaderBytes/ReadMapHeaderBytes: " + describe(x.Len)
				}
				if a, ok := storeDest(x); ok {
					s.DestRoot, s.DestSteps, _ = hAddrPath(a)
				}
			case *ssa.MakeMap:
				if x.Reserve == nil {
					continue
				}
				if _, isConst := hStripConv(x.Reserve).(*ssa.Const); isConst {
					continue
				}
				s = &HAllocSite{Fn: fn, Instr: in, Kind: "make-map"}
				if sz, ok := headerCount(x.Reserve); ok {
					s.Size = sz
				} else {
					s.Problem = "size hint of make is not the count returned by msgp.ReadMapHeaderBytes: " + describe(x.Reserve)
				}
				if a, ok := storeDest(x); ok {
					s.DestRoot, s.DestSteps, _ = hAddrPath(a)
				}
			case *ssa.Call:
				call, ok := hMsgpCall(x, msgp, "ReadBytesBytes", "ReadStringBytes")
				if !ok {
					continue
				}
				kind := "read-bytes"
				if calleeOf(call.Common()).Name() == "ReadStringBytes" {
					kind = "read-string"
				}
				s = &HAllocSite{Fn: fn, Instr: in, Kind: kind}
				// the size, when the generator read the header first: the closest
				// dominating ReadBytesBytesHeader on the same input slice
				src := call.Common().Args[0]
				var best *ssa.Call
				for _, b2 := range fn.Blocks {
					for _, in2 := range b2.Instrs {
						hc, ok := in2.(*ssa.Call)
						if !ok {
							continue
						}
						if _, ok := hMsgpCall(hc, msgp, "ReadBytesBytesHeader"); !ok || hc.Common().Args[0] != src || !Dominates(hc, in) {
							continue
						}
						if best == nil || Dominates(best, hc) {
							best = hc
						}
					}
				}
				if best != nil {
					for _, r := range *best.Referrers() {
						if e, ok := r.(*ssa.Extract); ok && e.Index == 0 {
							s.Size = e
						}
					}
				}
				// destination: where result #0 goes
				for _, r := range *call.Referrers() {
					if e, ok := r.(*ssa.Extract); ok && e.Index == 0 {
						if a, ok := storeDest(e); ok {
							s.DestRoot, s.DestSteps, _ = hAddrPath(a)
						}
					}
				}
				if s.DestRoot == nil && kind == "read-bytes" && len(call.Common().Args) == 2 {
					s.DestRoot, s.DestSteps, _ = hAddrPath(call.Common().Args[1])
				}
			default:
				continue
			}
			if s.DestRoot != nil {
				s.Dest = hPathString(fn, s.DestRoot, s.DestSteps)
			} else {
				s.Dest = "?"
			}
			if s.Size != nil && s.Problem == "" {
				s.Bounded, s.Bound = hBoundGuard(fn, s.Size, in)
			}
			out = append(out, s)
		}
	}
	return out
}

// hAllocDirectives parses the `//msgp:allocbound Type bound[,bound]` generator
// directives of a package: the declared bounds of named slice/map/bytes types.
func hAllocDirectives(pk *packages.Package) map[string]struct {
	Bounds []string
	Pos    token.Pos
} {
	out := map[string]struct {
		Bounds []string
		Pos    token.Pos
	}{}
	for _, f := range pk.Syntax {
		for _, cg := range f.Comments {
			for _, cm := range cg.List {
				t := strings.TrimPrefix(cm.Text, "//")
				if !strings.HasPrefix(t, "msgp:allocbound ") {
					continue
				}
				fs := strings.Fields(t)
				if len(fs) != 3 {
					continue
				}
				out[fs[1]] = struct {
					Bounds []string
					Pos    token.Pos
				}{strings.Split(fs[2], ","), cm.Pos()}
			}
		}
	}
	return out
}

// hEvalBound evaluates a declared bound expression in the scope of pkg at pos:
// its constant value, or the package-level variable it names.
func hEvalBound(fset *token.FileSet, pkg *types.Package, pos token.Pos, text string) (constant.Value, types.Object, error) {
	tv, err := types.Eval(fset, pkg, pos, text)
	if err != nil {
		return nil, nil, err
	}
	if tv.Value != nil {
		return tv.Value, nil, nil
	}
	// a variable: resolve the (qualified) identifier
	parts := strings.Split(text, ".")
	scope := pkg.Scope().Innermost(pos)
	if scope == nil {
		scope = pkg.Scope()
	}
	_, obj := scope.LookupParent(parts[0], pos)
	if len(parts) == 2 {
		if pn, ok := obj.(*types.PkgName); ok {
			obj = pn.Imported().Scope().Lookup(parts[1])
		} else {
			obj = nil
		}
	} else if len(parts) != 1 {
		obj = nil
	}
	if obj == nil {
		return nil, nil, fmt.Errorf("bound %q is neither a constant nor a package-level variable", text)
	}
	return nil, obj, nil
}

// hSameBound compares the bound operand of a generated test with a declared bound.
func hSameBound(gen ssa.Value, val constant.Value, obj types.Object) bool {
	gen = hStripConv(gen)
	if k, ok := gen.(*ssa.Const); ok {
		if val == nil || k.Value == nil {
			return false
		}
		return constant.Compare(constant.ToInt(k.Value), token.EQL, constant.ToInt(val))
	}
	if u, ok := gen.(*ssa.UnOp); ok && u.Op == token.MUL {
		if g, ok := u.X.(*ssa.Global); ok {
			return obj != nil && g.Object() == obj
		}
	}
	return false
}

// ---- loops and per-iteration guards ----

// hReachFrom returns the blocks reachable from start without traversing the
// cut edges; calls that never return end a path.
func hReachFrom(start *ssa.BasicBlock, cut []Edge) map[*ssa.BasicBlock]bool {
	cutSet := map[Edge]bool{}
	for _, e := range cut {
		cutSet[e] = true
	}
	seen := map[*ssa.BasicBlock]bool{start: true}
	work := []*ssa.BasicBlock{start}
	for len(work) > 0 {
		b := work[0]
		work = work[1:]
		stop := false
		for _, in := range b.Instrs {
			if noReturnCall(in) {
				stop = true
				break
			}
		}
		if stop {
			continue
		}
		for i, s := range b.Succs {
			if cutSet[Edge{b, i}] || seen[s] {
				continue
			}
			seen[s] = true
			work = append(work, s)
		}
	}
	return seen
}

// HLoop is a loop recognised by its header test.
type HLoop struct {
	Header *ssa.BasicBlock // block ending in the continue/exit test
	Body   *ssa.BasicBlock // first block of an iteration
	Exit   *ssa.BasicBlock
	Next   *ssa.Next // for range loops over maps/strings/channels
}

// hRangeLoops finds `for k, v := range X` loops over maps whose X satisfies x.
func hRangeLoops(fn *ssa.Function, x VM) []HLoop {
	var out []HLoop
	for _, b := range fn.Blocks {
		iff, ok := b.Instrs[len(b.Instrs)-1].(*ssa.If)
		if !ok {
			continue
		}
		e, ok := iff.Cond.(*ssa.Extract)
		if !ok || e.Index != 0 {
			continue
		}
		nx, ok := e.Tuple.(*ssa.Next)
		if !ok {
			continue
		}
		rg, ok := nx.Iter.(*ssa.Range)
		if !ok || !x(rg.X) {
			continue
		}
		out = append(out, HLoop{Header: b, Body: b.Succs[0], Exit: b.Succs[1], Next: nx})
	}
	return out
}

// hCondLoops finds loops whose header test satisfies match (`for i < n`):
// the header must be re-entered from inside its own body.
func hCondLoops(fn *ssa.Function, match func(cond ssa.Value) bool) []HLoop {
	var out []HLoop
	for _, b := range fn.Blocks {
		iff, ok := b.Instrs[len(b.Instrs)-1].(*ssa.If)
		if !ok || !match(iff.Cond) {
			continue
		}
		if !hReachFrom(b.Succs[0], nil)[b] {
			continue // not a loop
		}
		out = append(out, HLoop{Header: b, Body: b.Succs[0], Exit: b.Succs[1]})
	}
	return out
}

// hIterGuard decides: inside one iteration of loop (from the body entry), the
// next iteration and every success return are reachable only through a
// passing edge of g. Records one obligation.
func hIterGuard(c *Ctx, rule, construct string, fn *ssa.Function, loop HLoop, g Guard) bool {
	pos := c.Pos(fn.Pos())
	for _, in := range loop.Body.Instrs {
		if in.Pos().IsValid() {
			pos = c.Pos(in.Pos())
			break
		}
	}
	edges, n := PassEdges(fn, g)
	inLoop := hReachFrom(loop.Body, []Edge{{loop.Header, 1}})
	var loopEdges []Edge
	for _, e := range edges {
		if inLoop[e.From] {
			loopEdges = append(loopEdges, e)
		}
	}
	if n == 0 || len(loopEdges) == 0 {
		c.Bad(rule, construct, pos, fmt.Sprintf("guard %q is not tested inside the loop body of %s", g.Name, fnName(fn)))
		return false
	}
	seen := hReachFrom(loop.Body, edges)
	if seen[loop.Header] {
		c.Bad(rule, construct, pos, fmt.Sprintf("in %s the next loop iteration (and so the end of the loop) is reachable without passing %q for the current element", fnName(fn), g.Name))
		return false
	}
	for _, r := range hSuccessReturns(fn) {
		if seen[r.Block()] {
			c.Bad(rule, construct, c.Pos(r.Pos()), fmt.Sprintf("in %s a success return is reachable from inside the loop without passing %q", fnName(fn), g.Name))
			return false
		}
	}
	c.Ok(rule, construct, pos, fmt.Sprintf("every iteration passes %q before the next iteration or a success return (%d passing edge(s))", g.Name, len(loopEdges)))
	return true
}

// hLitFields returns, for a struct held in alloc a, the values stored into its
// fields — directly or through a composite-literal temporary copied into it.
func hLitFields(a *ssa.Alloc) map[*types.Var][]ssa.Value {
	out := map[*types.Var][]ssa.Value{}
	allocs := []*ssa.Alloc{a}
	for _, r := range *a.Referrers() {
		if st, ok := r.(*ssa.Store); ok && st.Addr == ssa.Value(a) {
			if u, ok := st.Val.(*ssa.UnOp); ok && u.Op == token.MUL {
				if lit, ok := u.X.(*ssa.Alloc); ok {
					allocs = append(allocs, lit)
				}
			}
		}
	}
	for _, al := range allocs {
		for _, r := range *al.Referrers() {
			fa, ok := r.(*ssa.FieldAddr)
			if !ok {
				continue
			}
			f := structField(fa.X.Type(), fa.Field)
			for _, r2 := range *fa.Referrers() {
				if st, ok := r2.(*ssa.Store); ok && st.Addr == ssa.Value(fa) {
					out[f] = append(out[f], st.Val)
				}
			}
		}
	}
	return out
}

// hFieldPath renders v (an address or a loaded value) as root + field steps only.
func hFieldPath(v ssa.Value) (ssa.Value, []*types.Var, bool) {
	root, steps, ok := hAddrPath(v)
	if !ok {
		return nil, nil, false
	}
	var fs []*types.Var
	for _, s := range steps {
		if s.F == nil {
			return nil, nil, false
		}
		fs = append(fs, s.F)
	}
	return root, fs, true
}

// hIsPath: v denotes root.f1.f2… exactly.
func hIsPath(v ssa.Value, root ssa.Value, fields ...*types.Var) bool {
	r, fs, ok := hFieldPath(v)
	if !ok || r != root || len(fs) != len(fields) {
		return false
	}
	for i := range fs {
		if fs[i] != fields[i] {
			return false
		}
	}
	return true
}

// hFromParam: v is the parameter p, possibly converted, loaded from its
// spill slot, or a full slice of it.
func hFromParam(v ssa.Value, p *ssa.Parameter) bool {
	for i := 0; i < 6; i++ {
		switch x := v.(type) {
		case *ssa.Parameter:
			return x == p
		case *ssa.ChangeType:
			v = x.X
		case *ssa.Convert:
			v = x.X
		case *ssa.Slice:
			if x.Low != nil || x.High != nil {
				return false
			}
			v = x.X
		case *ssa.UnOp:
			if x.Op != token.MUL {
				return false
			}
			v = x.X
		case *ssa.Alloc:
			st := localStores(x)
			if len(st) != 1 {
				return false
			}
			v = st[0]
		default:
			return false
		}
	}
	return false
}

// hErrOf matches the error result of call (through the usual wrappers).
func hErrOf(call ssa.CallInstruction) VM {
	return func(v ssa.Value) bool {
		v = hResolveLoadsLocal(v)
		if v == call.Value() {
			return true
		}
		e, ok := v.(*ssa.Extract)
		return ok && e.Tuple == call.Value() && isErrorType(e.Type())
	}
}

func hResolveLoadsLocal(v ssa.Value) ssa.Value {
	for i := 0; i < 8; i++ {
		n := resolveLocal(v, nil)
		if n == v {
			return v
		}
		v = n
	}
	return v
}

// ---- corrected copy of the core's return classification ----
//
// ssalib.definitelyNonNil gives up on `if err := f(); err != nil { return err }`
// when f has a single (error) result, because its *ssa.Call case returns before
// the dominance test. hDefinitelyNonNil falls through to that test.

func hDefinitelyNonNil(v ssa.Value, at *ssa.BasicBlock) bool {
	if definitelyNonNil(v, at, 0) {
		return true
	}
	if v == nil || at == nil {
		return false
	}
	fn := at.Parent()
	for _, b := range fn.Blocks {
		iff, ok := b.Instrs[len(b.Instrs)-1].(*ssa.If)
		if !ok {
			continue
		}
		cond, neg := condOf(iff.Cond)
		bo, ok := cond.(*ssa.BinOp)
		if !ok || (bo.Op != token.NEQ && bo.Op != token.EQL) {
			continue
		}
		var other ssa.Value
		if bo.X == v {
			other = bo.Y
		} else if bo.Y == v {
			other = bo.X
		} else {
			continue
		}
		if !IsNil(other) {
			continue
		}
		nonNilOnTrue := (bo.Op == token.NEQ) != neg
		succ := b.Succs[1]
		if nonNilOnTrue {
			succ = b.Succs[0]
		}
		if len(succ.Preds) == 1 && succ.Dominates(at) {
			return true
		}
	}
	return false
}

// hSuccessReturns: the returns of fn that may carry a nil error.
func hSuccessReturns(fn *ssa.Function) []ssa.Instruction {
	idx := errResultIndex(fn)
	var out []ssa.Instruction
	for _, b := range fn.Blocks {
		ret, ok := b.Instrs[len(b.Instrs)-1].(*ssa.Return)
		if !ok {
			continue
		}
		if idx >= 0 && idx < len(ret.Results) {
			if hDefinitelyNonNil(hResolveLoadsLocal(ret.Results[idx]), b) {
				continue
			}
		}
		out = append(out, ret)
	}
	return out
}

// hConstEq matches an SSA constant with the numeric value of k (any integer type).
func hConstEq(k *types.Const) VM {
	return func(v ssa.Value) bool {
		x, ok := hStripConv(v).(*ssa.Const)
		if !ok || x.Value == nil {
			return false
		}
		a, b := constant.ToInt(x.Value), constant.ToInt(k.Val())
		return a.Kind() == constant.Int && b.Kind() == constant.Int && constant.Compare(a, token.EQL, b)
	}
}

// hDebugDump prints every obligation when AVCHECK_HDEBUG is set (rule development aid).
func hDebugDump(c *Ctx) {
	if os.Getenv("AVCHECK_HDEBUG") == "" {
		return
	}
	for _, o := range c.obs {
		fmt.Printf("DBG %s %s@%s %s :: %s\n", o.Verdict, o.Rule, o.Construct, o.Pos, o.Detail)
	}
}
