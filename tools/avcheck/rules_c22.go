package main

import (
	"go/token"
	"go/types"

	"golang.org/x/tools/go/ssa"
)

func init() {
	register(&Prop{
		ID:       "C22",
		Patterns: []string{"./ledger/apply", "./ledger/eval", "./data/transactions/logic"},
		Run:      runC22,
		Explanation: "Decides the code-shape conditions under which asset units are only ever moved, never minted or burnt, and the holder rules are tested before a holding changes: " +
			"R22.1 inside the transaction-applying packages (ledger/apply, ledger/eval/…, data/transactions/logic/…) the field basics.AssetHolding.Amount is written only by apply.takeOut, apply.putIn and the creation literal in apply.AssetConfig; takeOut/putIn are called only by apply.AssetTransfer; Balances.PutAssetHolding/DeleteAssetHolding are called only by the tabled apply functions. " +
			"R22.2 in AssetTransfer every takeOut(b,src,id,A,f) is followed, on every path to a possibly-nil return, by a putIn(b,dst,id',A',f') whose id/A/f denote the same runtime values (same SSA value, or loads of the same local path with no intervening write), and every putIn is reachable only through the err==nil edge of such a takeOut (no mint, no burn). " +
			"R22.3 in takeOut and putIn the PutAssetHolding write-back is reachable only when the holding exists (ok result of GetAssetHolding: opt-in clause), Frozen is false unless the bypassFreeze parameter is true, and the overflow flag of OSub/OAdd is false (zero-amount moves return before any lookup, as the code documents); the stored Amount is result #0 of OSub/OAdd(holding.Amount, amount); at the call sites the bypass argument is either the clawback flag, which is true only behind header.Sender==params.Clawback with params from getParams(ct.XferAsset) (the additional !Clawback.IsZero() test is not required: transactions with a zero sender are rejected by WellFormed), or the close-to-creator flag HasAssetParams(ct.AssetCloseTo, ct.XferAsset) (tabled exception of the code: closing out to the creator ignores freeze). " +
			"R22.4 in AssetConfig the destroy effects (DeleteAssetHolding, DeleteAssetParams, DeallocateAsset) are reachable only through assetHolding.Amount==params.Total with assetHolding=GetAssetHolding(creator,cc.ConfigAsset) and (params,creator)=getParams(cc.ConfigAsset), and through Sender==params.Manager; the deletes address the same (creator, asset). " +
			"R22.5 in AssetTransfer the close-out DeleteAssetHolding(source,id) is reachable only through Amount==0 tested on a holding read by GetAssetHolding(source,id) and never by clawback. " +
			"R22.6 every PutAssetHolding(addr,id,h) in ledger/apply writes back a holding h that was read by GetAssetHolding(addr,id) with the same addr/id (so a balance is never copied between accounts or assets), with only the tabled fields modified (Amount in takeOut/putIn, Frozen in AssetFreeze and the opt-in branch), or — creation — a fresh literal whose Amount is cc.AssetParams.Total while the stored params are cc.AssetParams; the opt-in write happens only on the !ok edge (zero holding). " +
			"R22.7 roundCowState.PutAssetHolding/putAssetHolding/DeleteAssetHolding forward their addr/aidx/data parameters unchanged to AccountDeltas.UpsertAssetResource. " +
			"Does NOT decide: the numeric sum itself over histories, OSub/OAdd exactness (C45), that GetAssetHolding returns the zero holding when !ok, persistence of holdings in the trackers (C13/C14), nor AVM inner-transaction construction.",
		Assumptions: []string{"Balances.GetAssetHolding returns the zero AssetHolding when ok is false", "basics.OSub/OAdd are exact with a correct overflow flag"},
		Floor:       map[string]int{"R22.1": 11, "R22.2": 6, "R22.3": 18, "R22.4": 8, "R22.5": 4, "R22.6": 7, "R22.7": 3},
	})
}

// c22Holding checks that the holding value h written by a Put call comes from
// GetAssetHolding with the same (addr, asset); returns the local it lives in.
func c22HoldingFromGet(c *Ctx, getH *types.Func, addr, asset, h ssa.Value) (a *ssa.Alloc, gets []*ssa.Call, why string) {
	a, ok := eLoadedLocal(h)
	if !ok {
		return nil, nil, "holding argument is not a load of a local: " + describe(h)
	}
	ws := eWholeStores(a)
	if len(ws) == 0 {
		return a, nil, ""
	}
	for _, st := range ws {
		g, ok := eCallOfExtract(st.Val, 0)
		if !ok || !sameFunc(calleeOf(g.Common()), getH) {
			return a, nil, "holding local is assigned from something else than GetAssetHolding: " + describe(st.Val)
		}
		ga := eArgs(g.Common())
		if len(ga) != 2 || !eSameVal(ga[0], addr) {
			return a, nil, "holding was read from a different account than it is written to (GetAssetHolding address argument differs)"
		}
		if !eSameVal(ga[1], asset) {
			return a, nil, "holding was read for a different asset than it is written to (GetAssetHolding asset argument differs)"
		}
		gets = append(gets, g)
	}
	return a, gets, ""
}

func runC22(c *Ctx) {
	defer eGuardRun(c, "C22")
	const ap = "ledger/apply."
	takeOut := c.Fn(ap + "takeOut")
	putIn := c.Fn(ap + "putIn")
	xfer := c.Fn(ap + "AssetTransfer")
	cfg := c.Fn(ap + "AssetConfig")
	frz := c.Fn(ap + "AssetFreeze")
	fTakeOut, fPutIn := c.Func(ap+"takeOut"), c.Func(ap+"putIn")
	getH := c.Func(ap + "Balances.GetAssetHolding")
	putH := c.Func(ap + "Balances.PutAssetHolding")
	delH := c.Func(ap + "Balances.DeleteAssetHolding")
	delP := c.Func(ap + "Balances.DeleteAssetParams")
	putP := c.Func(ap + "Balances.PutAssetParams")
	dealloc := c.Func(ap + "Balances.DeallocateAsset")
	hasP := c.Func(ap + "Balances.HasAssetParams")
	getParams := c.Func(ap + "getParams")
	fAmount := c.Field("data/basics.AssetHolding.Amount")
	fFrozen := c.Field("data/basics.AssetHolding.Frozen")
	fTotal := c.Field("data/basics.AssetParams.Total")
	fClawback := c.Field("data/basics.AssetParams.Clawback")
	fManager := c.Field("data/basics.AssetParams.Manager")
	fSender := c.Field("data/transactions.Header.Sender")
	fXferAsset := c.Field("data/transactions.AssetTransferTxnFields.XferAsset")
	fCloseTo := c.Field("data/transactions.AssetTransferTxnFields.AssetCloseTo")
	fCfgParams := c.Field("data/transactions.AssetConfigTxnFields.AssetParams")
	fCfgAsset := c.Field("data/transactions.AssetConfigTxnFields.ConfigAsset")
	oSub, oAdd := c.Func("data/basics.OSub"), c.Func("data/basics.OAdd")

	scope := ScanOpts{SkipGenerated: true, OnlyPkgs: []string{"ledger/apply", "ledger/eval/...", "data/transactions/logic/..."}}

	// ---- R22.1 ownership ----
	c.OwnerRule("R22.1", "write(AssetHolding.Amount)", c.FieldWrites(map[*types.Var]bool{fAmount: true}, scope), map[string]string{
		ap + "takeOut":     "debit under the holder rules",
		ap + "putIn":       "credit under the holder rules",
		ap + "AssetConfig": "creation: the creator receives Total",
	})
	c.OwnerRule("R22.1", "use(takeOut/putIn)", c.Uses([]*types.Func{fTakeOut, fPutIn}, scope), map[string]string{
		ap + "AssetTransfer": "the paired transfer and close-out moves",
	})
	c.OwnerRule("R22.1", "call(Balances.PutAssetHolding)", c.Uses([]*types.Func{putH}, scope), map[string]string{
		ap + "takeOut":       "debit write-back",
		ap + "putIn":         "credit write-back",
		ap + "AssetConfig":   "creation",
		ap + "AssetTransfer": "opt-in with a zero holding",
		ap + "AssetFreeze":   "freeze flag only",
	})
	c.OwnerRule("R22.1", "call(Balances.DeleteAssetHolding)", c.Uses([]*types.Func{delH}, scope), map[string]string{
		ap + "AssetConfig":   "destroy (creator holds Total)",
		ap + "AssetTransfer": "close-out (holding is zero)",
	})

	// ---- R22.2 pairing in AssetTransfer ----
	outs := eCallsToIn(xfer, true, fTakeOut)
	ins := eCallsToIn(xfer, true, fPutIn)
	if len(outs) == 0 || len(ins) == 0 {
		c.Unk("R22.2", ap+"AssetTransfer:takeOut/putIn", c.Pos(xfer.Pos()), "no takeOut/putIn calls found in AssetTransfer")
	}
	argName := []string{"balances", "address", "asset", "amount", "bypassFreeze"}
	// match(T,P): same balances, asset, amount and bypass values
	mismatch := func(t, p *ssa.Call) string {
		ta, pa := t.Common().Args, p.Common().Args
		if len(ta) != 5 || len(pa) != 5 {
			return "arity"
		}
		for _, i := range []int{0, 2, 3, 4} {
			if !eSameVal(ta[i], pa[i]) {
				return argName[i]
			}
		}
		return ""
	}
	succ := eSuccessReturns(xfer)
	pairedIn := map[*ssa.Call]*ssa.Call{}
	for i, t := range outs {
		site := ap + "AssetTransfer:takeOut#" + itoa(i+1)
		via := map[ssa.Instruction]bool{}
		var firstWhy string
		for _, p := range ins {
			if p.Parent() != t.Parent() {
				continue
			}
			if why := mismatch(t, p); why == "" {
				via[p] = true
				if _, dup := pairedIn[p]; !dup {
					pairedIn[p] = t
				}
			} else if firstWhy == "" && Dominates(t, p) {
				firstWhy = why
			}
		}
		if len(via) == 0 {
			d := "no putIn call takes the same asset, amount and bypassFreeze values as this takeOut"
			if firstWhy != "" {
				d += " (the following putIn differs in its " + firstWhy + " argument)"
			}
			c.Bad("R22.2", site+"=>putIn(same asset,amount,bypass)", c.Pos(t.Pos()), d)
			continue
		}
		ok, w := eOnlyThrough(t, succ, via, nil)
		d := "every path from takeOut to a possibly-nil return passes a putIn with the same asset/amount/bypass values"
		if !ok {
			d = "a return that may carry a nil error (" + c.Pos(w.Pos()) + ") is reachable after takeOut without the matching putIn: units are burnt"
		}
		c.Check(ok, "R22.2", site+"=>putIn(same asset,amount,bypass)", c.Pos(t.Pos()), d)
	}
	for i, p := range ins {
		site := ap + "AssetTransfer:putIn#" + itoa(i+1)
		t := pairedIn[p]
		if t == nil {
			c.Bad("R22.2", site+"<=takeOut(same asset,amount,bypass)", c.Pos(p.Pos()), "putIn has no takeOut with the same asset, amount and bypassFreeze values: units are minted")
			continue
		}
		c.Check(Dominates(t, p), "R22.2", site+"<=takeOut dominates", c.Pos(p.Pos()), "the matching takeOut executes before putIn on every path")
		c.MustGuard(MustGuardSpec{Rule: "R22.2", Fn: p.Parent(), Effects: []ssa.Instruction{p}, EffName: "putIn#" + itoa(i+1), Guards: []Guard{GErrNil("takeOut err==nil", IsV(t))}})
	}

	// ---- R22.3 holder rules inside takeOut / putIn ----
	for _, side := range []struct {
		fn  *ssa.Function
		op  *types.Func
		opn string
	}{{takeOut, oSub, "OSub"}, {putIn, oAdd, "OAdd"}} {
		fn := side.fn
		name := fnName(fn)
		puts := eCallsToIn(fn, true, putH)
		if len(puts) != 1 {
			c.Unk("R22.3", name+":PutAssetHolding", c.Pos(fn.Pos()), "expected exactly one PutAssetHolding write-back, found "+itoa(len(puts)))
			continue
		}
		put := puts[0]
		pa := eArgs(put.Common())
		pAddr, pAsset, pAmount, pBypass := eParamN(fn, 1), eParamN(fn, 2), eParamN(fn, 3), eParamN(fn, 4)
		if pBypass == nil || len(pa) != 3 {
			c.Unk("R22.3", name+":signature", c.Pos(fn.Pos()), "unexpected signature")
			continue
		}
		okArgs := eIsParamVal(pa[0], pAddr) && eIsParamVal(pa[1], pAsset)
		c.Check(okArgs, "R22.3", name+":PutAssetHolding(addr,asset)", c.Pos(put.Pos()), "the write-back addresses the function's own addr and asset parameters")
		hold, gets, why := c22HoldingFromGet(c, getH, pa[0], pa[1], pa[2])
		if why != "" || len(gets) != 1 {
			if why == "" {
				why = "expected the holding to be read by exactly one GetAssetHolding"
			}
			c.Bad("R22.3", name+":holding<-GetAssetHolding(addr,asset)", c.Pos(put.Pos()), why)
			continue
		}
		get := gets[0]
		c.Ok("R22.3", name+":holding<-GetAssetHolding(addr,asset)", c.Pos(get.Pos()), "the holding written back is the one read for the same addr/asset")
		// the Amount store
		sts, flds := eFieldStores(hold)
		var opCall *ssa.Call
		okStore := len(sts) > 0
		detail := "holding.Amount is assigned result #0 of basics." + side.opn + "(holding.Amount, amount)"
		for i, st := range sts {
			if flds[i] != fAmount {
				okStore = false
				detail = "takeOut/putIn modify field " + flds[i].Name() + " of the holding; only Amount is expected"
				continue
			}
			oc, ok := eCallOfExtract(st.Val, 0)
			if !ok || !sameFunc(calleeOf(oc.Common()), side.op) {
				okStore = false
				detail = "holding.Amount is assigned " + describe(st.Val) + ", not result #0 of basics." + side.opn
				continue
			}
			oa := oc.Common().Args
			la, lf, isLoad := eFieldLoadLocal(oa[0])
			if len(oa) != 2 || !isLoad || la != hold || lf != fAmount || !eIsParamVal(oa[1], pAmount) {
				okStore = false
				detail = "operands of basics." + side.opn + " are not (holding.Amount, amount): " + describe(oa[0]) + ", " + describe(oa[1])
				continue
			}
			if !Dominates(st, put) {
				okStore = false
				detail = "the Amount assignment does not precede the write-back"
			}
			opCall = oc
		}
		c.Check(okStore, "R22.3", name+":Amount="+side.opn+"(holding.Amount,amount)", c.Pos(put.Pos()), detail)
		guards := []Guard{
			GBool("holding exists (ok)", func(v ssa.Value) bool { return eExtractOf(v, get, 1) }, true),
			GErrNil("GetAssetHolding err==nil", func(v ssa.Value) bool { return eExtractOf(v, get, 2) }),
		}
		if opCall != nil {
			guards = append(guards, GBool("!overflowed", func(v ssa.Value) bool { return eExtractOf(v, opCall, 1) }, false))
		}
		c.MustGuard(MustGuardSpec{Rule: "R22.3", Fn: fn, Effects: []ssa.Instruction{put}, EffName: "PutAssetHolding", Guards: guards})
		frozenOfHolding := func(v ssa.Value) bool {
			a, f, ok := eFieldLoadLocal(v)
			return ok && a == hold && f == fFrozen
		}
		c.MustGuard(MustGuardSpec{Rule: "R22.3", Fn: fn, Effects: []ssa.Instruction{put}, EffName: "PutAssetHolding",
			Guards: []Guard{GBool("!holding.Frozen", frozenOfHolding, false)},
			Bypass: []Guard{GBool("bypassFreeze", func(v ssa.Value) bool { return eIsParamVal(v, pBypass) }, true)}})
	}
	// bypassFreeze at the call sites
	for _, call := range append(append([]*ssa.Call{}, outs...), ins...) {
		callee := calleeOf(call.Common()).Name()
		args := call.Common().Args
		if len(args) != 5 {
			continue
		}
		asset, byp := args[2], args[4]
		switch b := byp.(type) {
		case *ssa.Phi:
			// clawback flag: constant false/true merged; true only behind the clawback test
			site := ap + "AssetTransfer:" + callee + "(bypass=clawback)"
			ok := true
			detail := "bypassFreeze is true only behind Sender==params.Clawback with params=getParams(ct.XferAsset)"
			nTrue := 0
			for i, e := range b.Edges {
				if IsConstBool(false)(e) {
					continue
				}
				if !IsConstBool(true)(e) {
					ok, detail = false, "bypassFreeze flag merges a non-constant value: "+describe(e)
					continue
				}
				nTrue++
				pred := b.Block().Preds[i]
				clawOf := func(v ssa.Value) bool {
					a, f, isL := eFieldLoadLocal(v)
					if !isL || f != fClawback {
						return false
					}
					ws := eWholeStores(a)
					if len(ws) == 0 {
						return false
					}
					for _, st := range ws {
						g, isG := eCallOfExtract(st.Val, 0)
						if !isG || !sameFunc(calleeOf(g.Common()), getParams) || !eSameVal(g.Common().Args[1], asset) {
							return false
						}
					}
					return true
				}
				g1 := GCmp("Sender==params.Clawback", token.EQL, eLeafIs(fSender), clawOf)
				for _, g := range []Guard{g1} {
					if gok, n := eGuardedBlock(xfer, pred, g); !gok {
						ok = false
						if n == 0 {
							detail = "guard " + g.Name + " (params of the transferred asset) not found in AssetTransfer"
						} else {
							detail = "the clawback flag becomes true on a path that does not pass " + g.Name
						}
					}
				}
			}
			if nTrue == 0 {
				ok, detail = false, "the clawback flag is never true"
			}
			c.Check(ok, "R22.3", site, c.Pos(call.Pos()), detail)
		default:
			site := ap + "AssetTransfer:" + callee + "(bypass=close-to-creator)"
			hp, ok := eCallOfExtract(byp, 0)
			if IsConstBool(false)(byp) {
				c.Ok("R22.3", ap+"AssetTransfer:"+callee+"(bypass=false)", c.Pos(call.Pos()), "freeze is never bypassed here")
				continue
			}
			if !ok || !sameFunc(calleeOf(hp.Common()), hasP) {
				c.Bad("R22.3", ap+"AssetTransfer:"+callee+"(bypass=?)", c.Pos(call.Pos()), "bypassFreeze argument is neither the clawback flag nor HasAssetParams(closeTo, asset): "+describe(byp))
				continue
			}
			ha := eArgs(hp.Common())
			good := len(ha) == 2 && Mentions(ha[0], fCloseTo, 4) && eSameVal(ha[1], asset) && Mentions(asset, fXferAsset, 4)
			c.Check(good, "R22.3", site, c.Pos(call.Pos()), "tabled exception: freeze is bypassed when closing out to the asset's creator, HasAssetParams(ct.AssetCloseTo, ct.XferAsset)")
		}
	}

	// ---- R22.4 destroy requires the creator to hold Total ----
	{
		name := ap + "AssetConfig"
		dels := eCallsToIn(cfg, true, delH, delP, dealloc)
		gp := eCallsToIn(cfg, false, getParams)
		if len(gp) != 1 || len(dels) == 0 {
			c.Unk("R22.4", name+":getParams/deletes", c.Pos(cfg.Pos()), "expected one getParams call and the destroy calls")
		} else {
			g := gp[0]
			okAsset := Mentions(g.Common().Args[1], fCfgAsset, 4)
			c.Check(okAsset, "R22.4", name+":getParams(cc.ConfigAsset)", c.Pos(g.Pos()), "params and creator are those of the configured asset")
			isCreator := func(v ssa.Value) bool { return eExtractOf(v, g, 1) }
			fromParams := func(f *types.Var) VM {
				return func(v ssa.Value) bool {
					a, lf, ok := eFieldLoadLocal(v)
					if !ok || lf != f {
						return false
					}
					ws := eWholeStores(a)
					if len(ws) == 0 {
						return false
					}
					for _, st := range ws {
						if !eExtractOf(st.Val, g, 0) {
							return false
						}
					}
					return true
				}
			}
			creatorAmount := func(v ssa.Value) bool {
				a, lf, ok := eFieldLoadLocal(v)
				if !ok || lf != fAmount {
					return false
				}
				if s, _ := eFieldStores(a); len(s) != 0 {
					return false
				}
				ws := eWholeStores(a)
				if len(ws) == 0 {
					return false
				}
				for _, st := range ws {
					h, ok := eCallOfExtract(st.Val, 0)
					if !ok || !sameFunc(calleeOf(h.Common()), getH) {
						return false
					}
					ha := eArgs(h.Common())
					if !isCreator(ha[0]) || !eSameVal(ha[1], g.Common().Args[1]) {
						return false
					}
				}
				return true
			}
			var effs []ssa.Instruction
			for _, d := range dels {
				da := eArgs(d.Common())
				ok := len(da) >= 2 && isCreator(da[0]) && eSameVal(da[1], g.Common().Args[1])
				c.Check(ok, "R22.4", name+":"+calleeOf(d.Common()).Name()+"(creator,cc.ConfigAsset)", c.Pos(d.Pos()), "the destroy call addresses the creator and asset whose holding was compared with Total")
				effs = append(effs, d)
			}
			c.MustGuard(MustGuardSpec{Rule: "R22.4", Fn: cfg, Effects: effs, EffName: "destroy(asset)", Guards: []Guard{
				GCmp("creatorHolding.Amount==params.Total", token.EQL, creatorAmount, fromParams(fTotal)),
				GCmp("Sender==params.Manager", token.EQL, eLeafIs(fSender), fromParams(fManager)),
				GErrNil("getParams err==nil", func(v ssa.Value) bool { return eExtractOf(v, g, 2) }),
			}})
		}
	}

	// ---- R22.5 close-out deletes only an empty holding ----
	{
		name := ap + "AssetTransfer"
		dels := eCallsToIn(xfer, true, delH)
		if len(dels) != 1 {
			c.Unk("R22.5", name+":DeleteAssetHolding", c.Pos(xfer.Pos()), "expected one DeleteAssetHolding call, found "+itoa(len(dels)))
		} else {
			d := dels[0]
			da := eArgs(d.Common())
			zeroAmount := func(v ssa.Value) bool {
				a, lf, ok := eFieldLoadLocal(v)
				if !ok || lf != fAmount {
					return false
				}
				if s, _ := eFieldStores(a); len(s) != 0 {
					return false
				}
				ws := eWholeStores(a)
				if len(ws) == 0 {
					return false
				}
				for _, st := range ws {
					h, ok := eCallOfExtract(st.Val, 0)
					if !ok || !sameFunc(calleeOf(h.Common()), getH) {
						return false
					}
					ha := eArgs(h.Common())
					if !eSameVal(ha[0], da[0]) || !eSameVal(ha[1], da[1]) {
						return false
					}
				}
				return true
			}
			c.Check(Mentions(da[1], fXferAsset, 4), "R22.5", name+":DeleteAssetHolding(source,ct.XferAsset)", c.Pos(d.Pos()), "the deleted slot is that of the transferred asset")
			c.MustGuard(MustGuardSpec{Rule: "R22.5", Fn: xfer, Effects: []ssa.Instruction{d}, EffName: "DeleteAssetHolding", Guards: []Guard{
				GCmp("holding(source,asset).Amount==0", token.EQL, zeroAmount, IsConstInt(0)),
			}})
			// not by clawback: the flag phi must be false on the passing edge
			var claw ssa.Value
			for _, t := range outs {
				if p, ok := t.Common().Args[4].(*ssa.Phi); ok {
					claw = p
				}
			}
			if claw == nil {
				c.Unk("R22.5", name+":DeleteAssetHolding<=!clawback", c.Pos(d.Pos()), "clawback flag not identified")
			} else {
				c.MustGuard(MustGuardSpec{Rule: "R22.5", Fn: xfer, Effects: []ssa.Instruction{d}, EffName: "DeleteAssetHolding", Guards: []Guard{GBool("!clawback", IsV(claw), false)}})
			}
			// the close-out moves precede the deletion
			var closeOut *ssa.Call
			for _, t := range outs {
				if Dominates(t, d) && !IsConstBool(false)(t.Common().Args[4]) {
					if _, isPhi := t.Common().Args[4].(*ssa.Phi); !isPhi {
						closeOut = t
					}
				}
			}
			c.Check(closeOut != nil, "R22.5", name+":DeleteAssetHolding<=close-out takeOut", c.Pos(d.Pos()), "the deletion is preceded on every path by the close-out takeOut/putIn pair")
		}
	}

	// ---- R22.6 provenance of every holding written in ledger/apply ----
	allowedFieldStores := map[*ssa.Function]*types.Var{takeOut: fAmount, putIn: fAmount, xfer: fFrozen, frz: fFrozen}
	for _, fn := range []*ssa.Function{takeOut, putIn, xfer, frz, cfg} {
		for _, put := range eCallsToIn(fn, true, putH) {
			pa := eArgs(put.Common())
			site := fnName(fn) + ":PutAssetHolding"
			hold, gets, why := c22HoldingFromGet(c, getH, pa[0], pa[1], pa[2])
			if why != "" {
				c.Bad("R22.6", site+"<-GetAssetHolding(same addr,asset)", c.Pos(put.Pos()), why)
				continue
			}
			sts, flds := eFieldStores(hold)
			if len(gets) == 0 {
				// creation literal
				site += "(creation)"
				ok := fn == cfg && len(sts) == 1 && flds[0] == fAmount
				detail := "the creator's initial holding is AssetHolding{Amount: cc.AssetParams.Total}"
				if ok {
					p, isP := ePathOf(sts[0].Val)
					ok = isP && Mentions(sts[0].Val, fCfgParams, 4) && Mentions(sts[0].Val, fTotal, 2) && p.mem
					// and the params stored for the asset are cc.AssetParams
					pps := eCallsToIn(fn, false, putP)
					found := false
					for _, pp := range pps {
						ppa := eArgs(pp.Common())
						if eSameVal(ppa[1], pa[1]) && eSameVal(ppa[0], pa[0]) {
							pv, isPv := ePathOf(ppa[2])
							if isPv && pv.mem && p.root == pv.root && len(pv.fields) > 0 && len(pv.fields)+1 == len(p.fields) && structField(pv.root.Type().(*types.Pointer).Elem(), pv.fields[0]) == fCfgParams {
								found = true
							}
						}
					}
					if ok && !found {
						ok, detail = false, "the AssetParams stored for the new asset are not the cc.AssetParams whose Total seeds the creator's holding"
					}
				} else {
					detail = "a holding that was not read by GetAssetHolding is written; only the creation literal with Amount=cc.AssetParams.Total is allowed"
				}
				c.Check(ok, "R22.6", site, c.Pos(put.Pos()), detail)
				continue
			}
			ok := true
			detail := "written holding = GetAssetHolding(same addr, same asset) with only the tabled field modified"
			for i := range sts {
				if flds[i] != allowedFieldStores[fn] {
					ok, detail = false, fnName(fn)+" modifies field "+flds[i].Name()+" of a holding before writing it back; not in the table"
				}
			}
			c.Check(ok, "R22.6", site+"<-GetAssetHolding(same addr,asset)", c.Pos(put.Pos()), detail)
			if fn == xfer {
				// opt-in: only on the !ok edge (the holding is the zero value)
				g := gets[0]
				c.MustGuard(MustGuardSpec{Rule: "R22.6", Fn: fn, Effects: []ssa.Instruction{put}, EffName: "PutAssetHolding(opt-in)", Guards: []Guard{
					GBool("holding does not exist (!ok)", func(v ssa.Value) bool { return eExtractOf(v, g, 1) }, false),
					GErrNil("GetAssetHolding err==nil", func(v ssa.Value) bool { return eExtractOf(v, g, 2) }),
				}})
			}
		}
	}

	// ---- R22.7 the cow forwards holdings unchanged ----
	{
		const ev = "ledger/eval.roundCowState."
		inner := c.Func(ev + "putAssetHolding")
		upsert := c.Func("ledger/ledgercore.AccountDeltas.UpsertAssetResource")
		fHolding := c.Field("ledger/ledgercore.AssetHoldingDelta.Holding")
		fDeleted := c.Field("ledger/ledgercore.AssetHoldingDelta.Deleted")
		for _, w := range []struct {
			fn   string
			kind string
		}{{"PutAssetHolding", "put"}, {"DeleteAssetHolding", "del"}} {
			fn := c.Fn(ev + w.fn)
			calls := eCallsToIn(fn, false, inner)
			ok := len(calls) == 1
			detail := w.fn + " forwards (addr, aidx) and the delta unchanged to putAssetHolding"
			if ok {
				a := eArgs(calls[0].Common())
				ok = len(a) == 3 && eIsParamVal(a[0], eParamN(fn, 0)) && eIsParamVal(a[1], eParamN(fn, 1))
				if !ok {
					detail = w.fn + " does not pass its own addr/aidx parameters to putAssetHolding"
				} else if la, isL := eLoadedLocal(a[2]); isL {
					sts, flds := eFieldStores(la)
					good := len(sts) == 1 && len(eWholeStores(la)) == 0
					if good && w.kind == "put" {
						// Holding: &data where data is the spilled parameter
						al, isA := sts[0].Val.(*ssa.Alloc)
						good = flds[0] == fHolding && isA
						if good {
							ws, esc := eAllocWriters(al)
							_ = esc
							n := 0
							for _, x := range ws {
								if st, isSt := x.(*ssa.Store); isSt && st.Addr == ssa.Value(al) {
									n++
									good = good && st.Val == ssa.Value(eParamN(fn, 2))
								}
							}
							good = good && n == 1
						}
					} else if good {
						good = flds[0] == fDeleted && IsConstBool(true)(sts[0].Val)
					}
					if !good {
						ok, detail = false, w.fn+" builds a delta that is not exactly {Holding:&data} / {Deleted:true}"
					}
				} else {
					ok, detail = false, "delta argument not understood: "+describe(a[2])
				}
			} else {
				detail = "expected exactly one putAssetHolding call in " + w.fn
			}
			c.Check(ok, "R22.7", ev+w.fn+"=>putAssetHolding(addr,aidx,delta)", c.Pos(fn.Pos()), detail)
		}
		fn := c.Fn(ev + "putAssetHolding")
		calls := eCallsToIn(fn, false, upsert)
		ok := len(calls) == 1
		if ok {
			a := eArgs(calls[0].Common())
			ok = len(a) == 4 && eIsParamVal(a[0], eParamN(fn, 0)) && eIsParamVal(a[1], eParamN(fn, 1)) && eIsParamVal(a[3], eParamN(fn, 2))
		}
		c.Check(ok, "R22.7", ev+"putAssetHolding=>UpsertAssetResource(addr,aidx,_,data)", c.Pos(fn.Pos()), "the delta is recorded for the same account and asset")
	}
	eDump(c)
}
