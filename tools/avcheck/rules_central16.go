package main

import (
	"go/token"
	"go/types"

	"golang.org/x/tools/go/ssa"
)

// R28.8 (after seed C28-2) and R01.7 (after seed C01-2).
func init() {
	extend("C28", Extension{
		Run:         ruleBatchVerifierAccountsForEveryEntry,
		Explanation: "R28.8 (a batch verifier accounts for every enqueued signature): for each BatchVerifier implementation in package crypto whose EnqueueSignature can set a sticky failure flag instead of adding the signature to the inner batch (the pure-Go ed25519consensus verifier, algod's production default, does so for non-canonical / small-order inputs), every path of EnqueueSignature either adds the signature to the inner batch or sets the flag, and both Verify() and VerifyWithFeedback() return success for a non-empty batch only when the flag is false and the inner batch verified — otherwise a crafted signature that fails the strictness pre-checks is simply skipped whenever a genuine signature shares its batch.",
		Floor:       map[string]int{"R28.8": 3},
	})
	extend("C01", Extension{
		Run:         func(c *Ctx) { ruleEncodeKeepsCurrentAndFutureRoundsAs(c, "R01.7") },
		Explanation: "R01.7 (a restarted node remembers what it voted in the current round): same obligation as R07.5 — encode() persists every router child whose round is >= the player's round, the current round included; without the current round's router a node that crashes after cert-voting a value restarts not knowing it and next-votes bottom in the same period, which lets a quorum of restarted honest nodes certify a second block for the round.",
		Floor:       map[string]int{"R01.7": 3},
	})
}

func ruleBatchVerifierAccountsForEveryEntry(c *Ctx) {
	const rule = "R28.8"
	cryptoPkg := c.Pkg("crypto")
	bvIface, ok := cryptoPkg.Types.Scope().Lookup("BatchVerifier").Type().Underlying().(*types.Interface)
	if !ok {
		c.Unk(rule, "crypto.BatchVerifier", "-", "interface not found")
		return
	}
	n := 0
	scope := cryptoPkg.Types.Scope()
	for _, name := range scope.Names() {
		tn, isT := scope.Lookup(name).(*types.TypeName)
		if !isT {
			continue
		}
		nt, isN := tn.Type().(*types.Named)
		if !isN {
			continue
		}
		st, isS := nt.Underlying().(*types.Struct)
		if !isS || !types.Implements(types.NewPointer(nt), bvIface) {
			continue
		}
		tname := "crypto." + name
		enq := c.SSAOf(methodOf(nt, "EnqueueSignature"))
		if enq == nil {
			continue
		}
		// sticky flags: bool fields of the verifier stored with constant true in EnqueueSignature
		flags := map[*types.Var]bool{}
		var flagStores []ssa.Instruction
		for _, b := range enq.Blocks {
			for _, in := range b.Instrs {
				st2, ok := in.(*ssa.Store)
				if !ok || !IsConstBool(true)(st2.Val) {
					continue
				}
				if fa, ok := st2.Addr.(*ssa.FieldAddr); ok && fa.X == ssa.Value(enq.Params[0]) {
					flags[structField(fa.X.Type(), fa.Field)] = true
					flagStores = append(flagStores, st2)
				}
			}
		}
		if len(flags) == 0 {
			c.Ok(rule, tname+":no sticky failure flag", c.Pos(tn.Pos()), "EnqueueSignature of this verifier never diverts a signature away from the batch")
			n++
			continue
		}
		n++
		// every path of EnqueueSignature: inner-batch add or flag store
		isAccounted := func(in ssa.Instruction) bool {
			for _, s := range flagStores {
				if in == s {
					return true
				}
			}
			if call, ok := in.(*ssa.Call); ok {
				if cal := calleeOf(call.Common()); cal != nil && cal.Name() == "Add" && cal.Pkg() != nil && cal.Pkg().Path() != Mod+"/crypto" {
					return true
				}
			}
			return false
		}
		r := NewReach(enq, nil, isAccounted)
		okEnq := true
		for _, b := range enq.Blocks {
			if ret, isRet := b.Instrs[len(b.Instrs)-1].(*ssa.Return); isRet && r.Reaches(ret) {
				okEnq = false
			}
		}
		c.Check(okEnq, rule, tname+".EnqueueSignature:added to the inner batch or flagged", c.Pos(enq.Pos()), "no path returns without either adding the signature to the inner batch or setting the sticky failure flag")
		_ = st
		for _, mname := range []string{"Verify", "VerifyWithFeedback"} {
			m := c.SSAOf(methodOf(nt, mname))
			if m == nil {
				c.Unk(rule, tname+"."+mname, c.Pos(tn.Pos()), "method not found")
				continue
			}
			var guards []Guard
			for f := range flags {
				guards = append(guards, GBool("!"+f.Name(), M(f), false))
			}
			guards = append(guards, GBool("inner batch verified", func(v ssa.Value) bool {
				call, ok := v.(*ssa.Call)
				if !ok {
					return false
				}
				cal := calleeOf(call.Common())
				return cal != nil && cal.Name() == "Verify" && cal.Pkg() != nil && cal.Pkg().Path() != Mod+"/crypto"
			}, true))
			empty := Guard{Name: "len(entries)==0", Match: func(cond ssa.Value) (bool, bool) {
				bo, ok := cond.(*ssa.BinOp)
				if !ok {
					return false, false
				}
				if _, isLen := lenOf(bo.X); isLen && IsConstInt(0)(bo.Y) {
					switch bo.Op {
					case token.EQL:
						return true, true
					case token.NEQ, token.GTR:
						return true, false
					}
				}
				return false, false
			}}
			c.MustGuard(MustGuardSpec{Rule: rule, Fn: m, Effects: SuccessReturns(m), EffName: "success", Guards: guards, Bypass: []Guard{empty}})
		}
	}
	if n == 0 {
		c.Unk(rule, "BatchVerifier implementations", "-", "no implementation of crypto.BatchVerifier found")
	}
}

func methodOf(nt *types.Named, name string) *types.Func {
	obj, _, _ := types.LookupFieldOrMethod(types.NewPointer(nt), true, nt.Obj().Pkg(), name)
	f, _ := obj.(*types.Func)
	return f
}
