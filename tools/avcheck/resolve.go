package main

import (
	"fmt"
	"go/ast"
	"go/constant"
	"go/types"
	"sort"
	"strings"

	"golang.org/x/tools/go/packages"
	"golang.org/x/tools/go/ssa"
)

// splitSpec splits "ledger/eval.BlockEvaluator.TransactionGroup" into the
// package path and the dotted remainder.
func splitSpec(spec string) (pkg string, rest []string) {
	slash := strings.LastIndex(spec, "/")
	dot := strings.Index(spec[slash+1:], ".")
	if dot < 0 {
		return Mod + "/" + spec, nil
	}
	pkg = spec[:slash+1+dot]
	r := spec[slash+1+dot+1:]
	r = strings.NewReplacer("(", "", ")", "", "*", "").Replace(r)
	if pkg == "" {
		return Mod, strings.Split(r, ".")
	}
	return Mod + "/" + pkg, strings.Split(r, ".")
}

// Pkg returns a loaded module package by its path relative to the module.
func (c *Ctx) Pkg(rel string) *packages.Package {
	p := c.ByPath[Mod+"/"+rel]
	if p == nil {
		panic(abortRule(fmt.Sprintf("package %s is not loaded", rel)))
	}
	return p
}

// HasPkg reports whether a module package is loaded.
func (c *Ctx) HasPkg(rel string) bool { return c.ByPath[Mod+"/"+rel] != nil }

// Obj resolves "pkg.Name" or "pkg.Type.Member" (method or field) to its
// types.Object. A missing anchor aborts the property run as undecided.
func (c *Ctx) Obj(spec string) types.Object {
	o := c.TryObj(spec)
	if o == nil {
		panic(abortRule(fmt.Sprintf("anchor %s does not resolve in the current tree (renamed or removed): the rules that depend on it cannot be decided", spec)))
	}
	return o
}

// TryObj is Obj without the abort.
func (c *Ctx) TryObj(spec string) types.Object {
	path, rest := splitSpec(spec)
	p := c.ByPath[path]
	if p == nil || len(rest) == 0 {
		return nil
	}
	o := p.Types.Scope().Lookup(rest[0])
	if o == nil {
		return nil
	}
	for _, name := range rest[1:] {
		tn, ok := o.(*types.TypeName)
		if !ok {
			// field of a var's type etc: not supported
			return nil
		}
		obj, _, _ := types.LookupFieldOrMethod(tn.Type(), true, p.Types, name)
		if obj == nil {
			return nil
		}
		if v, ok := obj.(*types.Var); ok && v.IsField() {
			// continue into the field's type if more components follow
			o = v
			if name != rest[len(rest)-1] {
				t := v.Type()
				if pt, ok := t.(*types.Pointer); ok {
					t = pt.Elem()
				}
				if nt, ok := t.(*types.Named); ok {
					o = nt.Obj()
				}
			}
			continue
		}
		o = obj
	}
	return o
}

// Func resolves a function or method spec to its *types.Func.
func (c *Ctx) Func(spec string) *types.Func {
	f, ok := c.Obj(spec).(*types.Func)
	if !ok {
		panic(abortRule(fmt.Sprintf("anchor %s is not a function", spec)))
	}
	return f
}

// Funcs resolves several specs.
func (c *Ctx) Funcs(specs ...string) []*types.Func {
	var out []*types.Func
	for _, s := range specs {
		out = append(out, c.Func(s))
	}
	return out
}

// Field resolves "pkg.Type.Field".
func (c *Ctx) Field(spec string) *types.Var {
	v, ok := c.Obj(spec).(*types.Var)
	if !ok || !v.IsField() {
		panic(abortRule(fmt.Sprintf("anchor %s is not a struct field", spec)))
	}
	return v
}

// Fields resolves several field specs into a set.
func (c *Ctx) Fields(specs ...string) map[*types.Var]bool {
	m := map[*types.Var]bool{}
	for _, s := range specs {
		m[c.Field(s)] = true
	}
	return m
}

// Named resolves "pkg.Type" to its named type.
func (c *Ctx) Named(spec string) *types.Named {
	tn, ok := c.Obj(spec).(*types.TypeName)
	if !ok {
		panic(abortRule(fmt.Sprintf("anchor %s is not a type", spec)))
	}
	nt, ok := tn.Type().(*types.Named)
	if !ok {
		panic(abortRule(fmt.Sprintf("anchor %s is not a named type", spec)))
	}
	return nt
}

// Const resolves "pkg.Name" to a constant.
func (c *Ctx) Const(spec string) *types.Const {
	k, ok := c.Obj(spec).(*types.Const)
	if !ok {
		panic(abortRule(fmt.Sprintf("anchor %s is not a constant", spec)))
	}
	return k
}

// Fn resolves a spec to the SSA function with a body.
func (c *Ctx) Fn(spec string) *ssa.Function {
	f := c.SSA.FuncValue(c.Func(spec))
	if f == nil || f.Blocks == nil {
		panic(abortRule(fmt.Sprintf("anchor %s has no SSA body", spec)))
	}
	c.NoteFn(spec)
	return f
}

// SSAOf returns the SSA function of a types.Func, or nil.
func (c *Ctx) SSAOf(f *types.Func) *ssa.Function {
	if f == nil {
		return nil
	}
	fn := c.SSA.FuncValue(f)
	if fn == nil || fn.Blocks == nil {
		return nil
	}
	return fn
}

// relPkg strips the module prefix from a package path.
func relPkg(path string) string {
	if path == Mod {
		return ""
	}
	return strings.TrimPrefix(path, Mod+"/")
}

// funcObjName renders a *types.Func as "pkgrel.Type.Method" / "pkgrel.Func".
func funcObjName(f *types.Func) string {
	if f == nil {
		return "<nil>"
	}
	f = f.Origin()
	pk := ""
	if f.Pkg() != nil {
		pk = relPkg(f.Pkg().Path())
	}
	sig, _ := f.Type().(*types.Signature)
	if sig != nil && sig.Recv() != nil {
		t := sig.Recv().Type()
		if pt, ok := t.(*types.Pointer); ok {
			t = pt.Elem()
		}
		switch nt := t.(type) {
		case *types.Named:
			return pk + "." + nt.Obj().Name() + "." + f.Name()
		case *types.Alias:
			return pk + "." + nt.Obj().Name() + "." + f.Name()
		}
		return pk + ".?." + f.Name()
	}
	return pk + "." + f.Name()
}

// fnName renders an SSA function; function literals are "parent$N".
func fnName(fn *ssa.Function) string {
	if fn == nil {
		return "<nil>"
	}
	if fn.Parent() != nil {
		name := fn.Name()
		if i := strings.LastIndex(name, "$"); i >= 0 {
			return fnName(fn.Parent()) + name[i:]
		}
		return fnName(fn.Parent()) + "$" + name
	}
	if o, ok := fn.Object().(*types.Func); ok {
		return funcObjName(o)
	}
	if fn.Pkg != nil {
		return relPkg(fn.Pkg.Pkg.Path()) + "." + fn.Name()
	}
	return fn.Name()
}

// topFn returns the outermost enclosing declared function.
func topFn(fn *ssa.Function) *ssa.Function {
	for fn.Parent() != nil {
		fn = fn.Parent()
	}
	return fn
}

// withAnon returns fn and all function literals nested in it.
func withAnon(fn *ssa.Function) []*ssa.Function {
	out := []*ssa.Function{fn}
	for _, a := range fn.AnonFuncs {
		out = append(out, withAnon(a)...)
	}
	return out
}

// constInt64 returns the integer value of a constant object.
func constInt64(k *types.Const) (int64, bool) {
	return constant.Int64Val(constant.ToInt(k.Val()))
}

// enclosingFuncName names the declared function enclosing a position in a file
// ("pkgrel.Type.Method", "pkgrel.Func", or "pkgrel.<pkginit>").
func enclosingFuncName(pk *packages.Package, file *ast.File, node ast.Node) string {
	for _, d := range file.Decls {
		fd, ok := d.(*ast.FuncDecl)
		if !ok || node.Pos() < fd.Pos() || node.End() > fd.End() {
			continue
		}
		if o, ok := pk.TypesInfo.Defs[fd.Name].(*types.Func); ok {
			return funcObjName(o)
		}
	}
	return relPkg(pk.PkgPath) + ".<pkginit>"
}

// sortedPkgs returns the loaded module packages in path order.
func (c *Ctx) sortedPkgs() []*packages.Package {
	paths := make([]string, 0, len(c.ByPath))
	for p := range c.ByPath {
		paths = append(paths, p)
	}
	sort.Strings(paths)
	out := make([]*packages.Package, 0, len(paths))
	for _, p := range paths {
		out = append(out, c.ByPath[p])
	}
	return out
}

// isGenerated reports whether a file is msgp/stringer generated code.
func isGenerated(f *ast.File) bool {
	for _, cg := range f.Comments {
		if cg.Pos() > f.Package {
			break
		}
		for _, cm := range cg.List {
			if strings.Contains(cm.Text, "Code generated") || strings.Contains(cm.Text, "DO NOT EDIT") {
				return true
			}
		}
	}
	return false
}
