package main

import (
	"fmt"
	"go/token"
	"go/types"
	"os"
	"path/filepath"
	"sort"
	"strings"

	"golang.org/x/tools/go/packages"
	"golang.org/x/tools/go/ssa"
	"golang.org/x/tools/go/ssa/ssautil"
)

// Mod is the module path of the analysed repository.
const Mod = "github.com/algorand/go-algorand"

// Program is the resolved program every rule inspects: type-checked syntax of
// the loaded packages (and of every dependency) plus SSA for the packages of
// the module itself.
type Program struct {
	Root   string
	Fset   *token.FileSet
	Roots  []*packages.Package
	ByPath map[string]*packages.Package // every package of the module that was loaded (roots and deps)
	SSA    *ssa.Program
	SSAPkg map[string]*ssa.Package
	NFuncs int
}

// infraFail reports an infrastructure failure: exit 2, never a VIOLATION line.
func infraFail(format string, a ...any) {
	fmt.Fprintf(os.Stderr, "avcheck: infrastructure failure: "+format+"\n", a...)
	os.Exit(2)
}

func verifDir() string {
	if d := os.Getenv("AVCHECK_VERIF"); d != "" {
		return d
	}
	exe, err := os.Executable()
	if err == nil {
		d := filepath.Dir(filepath.Dir(exe))
		if _, err := os.Stat(filepath.Join(d, "properties.jsonl")); err == nil {
			return d
		}
	}
	return "/verif"
}

// Load type-checks patterns under root with the fork's libsodium headers made
// visible to cgo, and builds SSA for the module's packages.
func Load(root string, patterns []string) *Program {
	if os.Getenv("GOWORK") != "" && os.Getenv("GOWORK") != "off" {
		infraFail("GOWORK is set (%q); refusing to analyse a workspace", os.Getenv("GOWORK"))
	}
	vd := verifDir()
	cgoInc := filepath.Join(vd, "tools", "cgo-include")
	if _, err := os.Stat(filepath.Join(cgoInc, "sodium", "version.h")); err != nil {
		infraFail("missing %s/sodium/version.h (run setup_cmd)", cgoInc)
	}
	env := []string{}
	for _, e := range os.Environ() {
		k := strings.SplitN(e, "=", 2)[0]
		switch k {
		case "GOFLAGS", "GOPROXY", "GOSUMDB", "GOTOOLCHAIN", "CGO_CFLAGS", "GOWORK", "PATH", "CGO_ENABLED", "GOARCH", "GOOS":
			continue
		}
		env = append(env, e)
	}
	gobin := "/opt/veriftools/go1.26.8/bin"
	if _, err := os.Stat(filepath.Join(gobin, "go")); err != nil {
		infraFail("go1.26.8 toolchain not found at %s", gobin)
	}
	// exec.LookPath resolves "go" with this process's PATH, not cfg.Env's
	os.Setenv("PATH", gobin+":"+os.Getenv("PATH"))
	env = append(env,
		"PATH="+os.Getenv("PATH"),
		"GOFLAGS=-mod=mod", "GOPROXY=off", "GOSUMDB=off", "GOTOOLCHAIN=local", "GOWORK=off", "CGO_ENABLED=1",
		"CGO_CFLAGS=-I"+filepath.Join(root, "crypto/libsodium-fork/src/libsodium/include")+" -I"+cgoInc,
	)
	if a := os.Getenv("AVCHECK_GOARCH"); a != "" {
		env = append(env, "GOARCH="+a)
	}
	cfg := &packages.Config{
		Mode: packages.NeedName | packages.NeedFiles | packages.NeedCompiledGoFiles | packages.NeedImports |
			packages.NeedDeps | packages.NeedTypes | packages.NeedSyntax | packages.NeedTypesInfo | packages.NeedTypesSizes | packages.NeedModule,
		Dir:   root,
		Env:   env,
		Tests: false,
	}
	pkgs, err := packages.Load(cfg, patterns...)
	if err != nil {
		infraFail("packages.Load: %v", err)
	}
	if len(pkgs) == 0 {
		infraFail("no packages matched %v", patterns)
	}
	p := &Program{Root: root, Roots: pkgs, ByPath: map[string]*packages.Package{}, SSAPkg: map[string]*ssa.Package{}}
	nerr := 0
	packages.Visit(pkgs, nil, func(pk *packages.Package) {
		for _, e := range pk.Errors {
			if nerr < 20 {
				fmt.Fprintf(os.Stderr, "load error: %s: %v\n", pk.PkgPath, e)
			}
			nerr++
		}
		if pk.PkgPath == Mod || strings.HasPrefix(pk.PkgPath, Mod+"/") {
			p.ByPath[pk.PkgPath] = pk
		}
	})
	if nerr > 0 {
		infraFail("%d load/type errors in %v", nerr, patterns)
	}
	p.Fset = pkgs[0].Fset
	prog, _ := ssautil.AllPackages(pkgs, ssa.InstantiateGenerics)
	p.SSA = prog
	paths := make([]string, 0, len(p.ByPath))
	for path := range p.ByPath {
		paths = append(paths, path)
	}
	sort.Strings(paths)
	for _, path := range paths {
		sp := prog.Package(p.ByPath[path].Types)
		if sp == nil {
			infraFail("no SSA package for %s", path)
		}
		sp.Build()
		p.SSAPkg[path] = sp
	}
	for _, path := range paths {
		for range p.funcsOf(path) {
			p.NFuncs++
		}
	}
	return p
}

// funcsOf returns every source function of an SSA package: package-level
// functions, methods of named types, and all nested function literals.
func (p *Program) funcsOf(path string) []*ssa.Function {
	sp := p.SSAPkg[path]
	if sp == nil {
		return nil
	}
	var out []*ssa.Function
	seen := map[*ssa.Function]bool{}
	var add func(f *ssa.Function)
	add = func(f *ssa.Function) {
		if f == nil || seen[f] {
			return
		}
		seen[f] = true
		if f.Blocks != nil {
			out = append(out, f)
		}
		for _, a := range f.AnonFuncs {
			add(a)
		}
	}
	names := make([]string, 0, len(sp.Members))
	for n := range sp.Members {
		names = append(names, n)
	}
	sort.Strings(names)
	for _, n := range names {
		switch m := sp.Members[n].(type) {
		case *ssa.Function:
			add(m)
		case *ssa.Type:
			nt, ok := m.Type().(*types.Named)
			if !ok {
				continue
			}
			for i := 0; i < nt.NumMethods(); i++ {
				add(p.SSA.FuncValue(nt.Method(i)))
			}
		}
	}
	return out
}

// AllFuncs returns every source function of every loaded module package
// (non-test code only; tests are never loaded).
func (p *Program) AllFuncs() []*ssa.Function {
	var out []*ssa.Function
	paths := make([]string, 0, len(p.SSAPkg))
	for path := range p.SSAPkg {
		paths = append(paths, path)
	}
	sort.Strings(paths)
	for _, path := range paths {
		out = append(out, p.funcsOf(path)...)
	}
	return out
}

// Pos renders a position relative to the repository root.
func (p *Program) Pos(pos token.Pos) string {
	if !pos.IsValid() {
		return "-"
	}
	ps := p.Fset.Position(pos)
	rel, err := filepath.Rel(p.Root, ps.Filename)
	if err != nil || strings.HasPrefix(rel, "..") {
		rel = ps.Filename
	}
	return fmt.Sprintf("%s:%d", rel, ps.Line)
}
