package main

import (
	"go/constant"
	"regexp"
	"sort"
	"strings"

	"golang.org/x/tools/go/ssa"
)

// R16.7 (after seed C16-2): table agreement (T6) over the SQL statements of the
// staging reset. Every staging table that ResetCatchpointStagingBalances
// (re)creates, and every staging table that ApplyCatchpointStagingBalances later
// renames into a live table, must also be dropped by the reset — a table that
// survives a reset keeps rows of a failed or aborted download attempt whose
// hashes were dropped, and those rows are adopted under the genuine label.
func init() {
	extend("C16", Extension{
		Run:         ruleStagingResetDropsEveryTable,
		Explanation: "R16.7 (a reset really empties the staging area): among the SQL string constants of sqlitedriver catchpointWriter.ResetCatchpointStagingBalances, the set of tables named by CREATE TABLE IF NOT EXISTS, and the set of catchpoint* tables that ApplyCatchpointStagingBalances renames into live tables, are subsets of the tables the reset drops (DROP TABLE IF EXISTS, whether written out per statement or built from a list of names) — so rows staged by a failed or aborted download attempt cannot survive into the next attempt and be adopted under a label that never covered them.",
		Floor:       map[string]int{"R16.7": 2},
		Patterns:    []string{"./ledger/store/trackerdb/sqlitedriver"},
	})
}

func stringConsts(fn *ssa.Function) []string {
	var out []string
	for _, f := range withAnon(fn) {
		for _, b := range f.Blocks {
			for _, in := range b.Instrs {
				for _, op := range in.Operands(nil) {
					if k, ok := (*op).(*ssa.Const); ok && k.Value != nil && k.Value.Kind() == constant.String {
						out = append(out, constant.StringVal(k.Value))
					}
				}
			}
		}
	}
	return out
}

var (
	reDrop   = regexp.MustCompile(`(?i)DROP\s+TABLE\s+IF\s+EXISTS\s+(\w+)`)
	reCreate = regexp.MustCompile(`(?i)CREATE\s+TABLE\s+IF\s+NOT\s+EXISTS\s+(\w+)`)
	reRename = regexp.MustCompile(`(?i)ALTER\s+TABLE\s+(catchpoint\w+)\s+RENAME\s+TO`)
	reIdent  = regexp.MustCompile(`^\w+$`)
)

func ruleStagingResetDropsEveryTable(c *Ctx) {
	const rule = "R16.7"
	if !c.HasPkg("ledger/store/trackerdb/sqlitedriver") {
		c.Unk(rule, "sqlitedriver", "-", "package not loaded")
		return
	}
	reset := c.Fn("ledger/store/trackerdb/sqlitedriver.catchpointWriter.ResetCatchpointStagingBalances")
	apply := c.Fn("ledger/store/trackerdb/sqlitedriver.catchpointWriter.ApplyCatchpointStagingBalances")
	name := "ledger/store/trackerdb/sqlitedriver.catchpointWriter.ResetCatchpointStagingBalances"
	dropped, created, renamed := map[string]bool{}, map[string]bool{}, map[string]bool{}
	barePrefix := false
	var bare []string
	for _, s := range stringConsts(reset) {
		if m := reDrop.FindStringSubmatch(s); m != nil {
			dropped[strings.ToLower(m[1])] = true
			continue
		}
		if m := reCreate.FindStringSubmatch(s); m != nil {
			created[strings.ToLower(m[1])] = true
			continue
		}
		if regexp.MustCompile(`(?i)DROP\s+TABLE\s+IF\s+EXISTS\s*$`).MatchString(s) {
			barePrefix = true
			continue
		}
		if reIdent.MatchString(s) {
			bare = append(bare, strings.ToLower(s))
		}
	}
	if barePrefix {
		// statements assembled from a list of table names
		for _, b := range bare {
			dropped[b] = true
		}
	}
	for _, s := range stringConsts(apply) {
		if m := reRename.FindStringSubmatch(s); m != nil {
			renamed[strings.ToLower(m[1])] = true
		}
	}
	if len(created) == 0 || len(dropped) == 0 {
		c.Unk(rule, name+":SQL statements", c.Pos(reset.Pos()), "no CREATE/DROP TABLE statements recognised among the function's string constants ("+itoa(len(created))+" created, "+itoa(len(dropped))+" dropped)")
		return
	}
	missing := func(want map[string]bool) []string {
		var out []string
		for t := range want {
			if !dropped[t] {
				out = append(out, t)
			}
		}
		sort.Strings(out)
		return out
	}
	m1 := missing(created)
	c.Check(len(m1) == 0, rule, name+":created ⊆ dropped", c.Pos(reset.Pos()), itoa(len(created))+" staging tables are re-created by the reset, "+itoa(len(dropped))+" dropped"+func() string {
		if len(m1) > 0 {
			return "; re-created but never dropped (rows of an earlier attempt survive): " + strings.Join(m1, ", ")
		}
		return ""
	}())
	if len(renamed) == 0 {
		c.Unk(rule, "ApplyCatchpointStagingBalances:renames", c.Pos(apply.Pos()), "no ALTER TABLE catchpoint… RENAME statement recognised")
		return
	}
	m2 := missing(renamed)
	c.Check(len(m2) == 0, rule, name+":tables later applied ⊆ dropped", c.Pos(reset.Pos()), itoa(len(renamed))+" staging tables are renamed into live tables by ApplyCatchpointStagingBalances"+func() string {
		if len(m2) > 0 {
			return "; applied but never dropped by the reset: " + strings.Join(m2, ", ")
		}
		return ""
	}())
}
