package main

import (
	"go/token"
	"go/types"

	"golang.org/x/tools/go/ssa"
)

func init() {
	register(&Prop{
		ID:       "C28",
		Patterns: []string{"./data/transactions/verify", "./crypto", "./ledger/eval", "./data/transactions"},
		Run:      runC28,
		Explanation: "Decides the structural chain behind 'exactly one authorization, valid for the sender's current authorizer': " +
			"R28.1 verify.checkTxnSigTypeCounts: the tested value is a pure counter (0, +1, phi) with one increment per authorization-carrying field of transactions.SignedTxn (every field except Txn and AuthAddr must be counted, so a new signature kind cannot be forgotten), each increment is entered only on the 'present' edge of that field's presence predicate and sets the matching sigOrTxnType constant; a nil-error return needs counter>=1 and counter<=1, except the state-proof return which needs counter==0, Sender==StateProofSender and Type==StateProofTx; " +
			"R28.2 verify.stxnCoreChecks: the signed transaction s is groupCtx.signedGroupTxns[gi]; no nil return is reachable unless checkTxnSigTypeCounts(s,gi) returned a nil error, and unless one of these well-formed verifications lies on the path: batch.EnqueueSignature(key=s.Authorizer(), msg=s.Txn, sig=s.Sig) on the caller's batch, crypto.MultisigBatchPrep(s.Txn, s.Authorizer(), s.Msig, batch)==nil, logicSigVerify(gi, groupCtx)==nil, s.PQsig.Verify(params, s.Txn, s.Authorizer())==nil, or sigType==stateProofTxn from that same checkTxnSigTypeCounts call; every verification call site must take its key from s.Authorizer() (never Sender), its message from s.Txn and its signature from the matching field of the same s; " +
			"R28.3 crypto.MultisigBatchPrep: nil only if len(sig.Subsigs)>=1, MultisigAddrGenWithSubsigs(sig.Version, sig.Threshold, sig.Subsigs) succeeded, addr equals the generated address, sig.Signatures() >= sig.Threshold; the loop over sig.Subsigs cannot advance past a non-blank subsig without enqueuing (its Key, msg, its Sig) on the caller's batch; MultisigSig.Signatures counts only non-blank subsigs; " +
			"R28.4 batch discipline: wherever a function hands a BatchEnqueuer to one of the *BatchPrep functions it is either its own BatchEnqueuer parameter, or a verifier it created with crypto.MakeBatchVerifier*, in which case it can return a nil error only if Verify() of that very verifier returned nil (or it returns that error), or the stream verifier's batchLoad, for which ProcessBatch must call VerifyWithFeedback on the verifier of the batchLoad returned by preProcessUnverifiedTxns and hand both results to postProcessVerifiedJobs, and batchLoad.verifier is written only by makeBatchLoad; " +
			"R28.5 ledger/eval BlockEvaluator.transaction: applyTransaction is unreachable (bypass only eval.validate==false) unless cow.lookup(txn.Txn.Sender) succeeded and txn.Authorizer() equals a value that is the looked-up AuthAddr, or Txn.Sender only on the edge where that AuthAddr is zero; " +
			"R28.6 SignedTxn.Authorizer returns Txn.Sender only when AuthAddr.IsZero(), else AuthAddr; verify.logicSigVerify returns nil only if LogicSigSanityCheck(gi,groupCtx)==nil, EvalSignatureFull(gi, groupCtx.evalParams) returned no error and pass==true; verify.logicSigSanityCheckBatchPrep returns nil only through hash(program)==txn.Authorizer(), a PQ delegation verify, an enqueued delegation signature or MultisigBatchPrep==nil, each keyed by txn.Authorizer() with the program taken from the same transaction's Lsig. " +
			"Does NOT decide: the cryptography (ed25519/PQ verification, hashing), that Transaction's canonical encoding covers every field (the 'any change after signing' clause is decided only as 'the verified message is s.Txn itself'), the AVM's evaluation of the logic signature, and the stream verifier's attribution of failed signature indexes to groups (postProcessVerifiedJobs index arithmetic).",
		Assumptions: []string{
			"a blank signature / multisig / PQ signature never verifies, so with exactly one category present (R28.1) only that category's verifier can succeed",
			"BatchVerifier.Verify returns a non-nil error if any enqueued signature is invalid",
			"context.Context.Err is sticky: once non-nil it stays non-nil",
		},
		Floor: map[string]int{"R28.1": 9, "R28.2": 7, "R28.3": 7, "R28.4": 13, "R28.5": 4, "R28.6": 10},
	})
}

type c28Presence struct {
	fn   string
	want bool
}

func runC28(c *Ctx) {
	c28SigTypeCounts(c)
	c28CoreChecks(c)
	c28Multisig(c)
	c28BatchDiscipline(c)
	c28EvalAuthorizer(c)
	c28LogicSig(c)
}

// ---------------- R28.1 ----------------

func c28SigTypeCounts(c *Ctx) {
	const rule = "R28.1"
	const fname = "data/transactions/verify.checkTxnSigTypeCounts"
	fn := c.Fn(fname)
	sP := fParamAt(fn, 0)
	stxn := c.Named("data/transactions.SignedTxn")
	kState := c.Const("data/transactions/verify.stateProofTxn")
	wantK := map[string]*types.Const{
		"Sig":   c.Const("data/transactions/verify.regularSig"),
		"Msig":  c.Const("data/transactions/verify.multiSig"),
		"Lsig":  c.Const("data/transactions/verify.logicSig"),
		"PQsig": c.Const("data/transactions/verify.pqSig"),
	}
	presence := map[string][]c28Presence{
		"Sig":   {{"crypto.Signature.Blank", false}},
		"Msig":  {{"crypto.MultisigSig.Blank", false}},
		"Lsig":  {{"data/transactions.LogicSig.HasProgram", true}, {"data/transactions.LogicSig.Blank", false}},
		"PQsig": {{"data/transactions.PQSig.Blank", false}},
	}
	exempt := map[string]string{"_struct": "codec marker", "Txn": "the signed message", "AuthAddr": "names the authorizer, carries no authorization"}

	// classify returns
	var okRets, spRets []ssa.Instruction
	for _, ret := range fReturnsOf(fn) {
		if len(ret.Results) != 2 {
			c.Unk(rule, fname+":returns", c.Pos(ret.Pos()), "unexpected result arity")
			return
		}
		e := ret.Results[1]
		switch {
		case IsNil(e):
			if valueIs(strip(ret.Results[0]), kState) {
				spRets = append(spRets, ret)
			} else {
				okRets = append(okRets, ret)
			}
		default:
			if _, isAlloc := e.(*ssa.Alloc); !isAlloc {
				c.Unk(rule, fname+":returns", c.Pos(ret.Pos()), "a return carries an error value that is neither nil nor a fresh TxGroupError: "+describe(e))
			}
		}
	}
	if len(okRets) == 0 {
		c.Unk(rule, fname+":return(sigType,nil)", c.Pos(fn.Pos()), "no success return found")
		return
	}

	// the counter: the one counter-shaped value compared with a constant
	var cnt ssa.Value
	multi := false
	for _, b := range fn.Blocks {
		iff, ok := b.Instrs[len(b.Instrs)-1].(*ssa.If)
		if !ok {
			continue
		}
		cond, _ := condOf(iff.Cond)
		bo, ok := cond.(*ssa.BinOp)
		if !ok {
			continue
		}
		for _, pair := range [][2]ssa.Value{{bo.X, bo.Y}, {bo.Y, bo.X}} {
			if _, isK := fConstIntOf(pair[1]); !isK {
				continue
			}
			if _, isCnt := fCounterAdds(pair[0]); isCnt {
				if cnt != nil && cnt != pair[0] {
					multi = true
				}
				cnt = pair[0]
			}
		}
	}
	if cnt == nil || multi {
		c.Bad(rule, fname+":counter", c.Pos(fn.Pos()), "expected exactly one signature-category counter (0, +1 per present category) to be tested; found none or several different ones")
		return
	}
	adds, _ := fCounterAdds(cnt)
	isCnt := IsV(cnt)

	// the sigType chain returned on success
	chain := map[ssa.Value]bool{}
	for _, r := range okRets {
		walkDef(r.(*ssa.Return).Results[0], 12, func(v ssa.Value) bool { chain[v] = true; return true })
	}

	seen := map[string]bool{}
	for _, add := range adds {
		b := add.Block()
		cond, val, ok := fBranchInto(b)
		site := fname + ":count"
		if !ok {
			c.Unk(rule, site, c.Pos(add.Pos()), "an increment of the category counter is not in a block entered by a single branch")
			continue
		}
		call, isCall := cond.(*ssa.Call)
		if !isCall || calleeOf(call.Common()) == nil {
			c.Bad(rule, site, c.Pos(add.Pos()), "an increment of the category counter is not conditioned on a presence predicate call: "+describe(cond))
			continue
		}
		a := callArgs(call.Common())
		var fa *ssa.FieldAddr
		if len(a) > 0 {
			x := strip(a[0])
			if u, isLoad := x.(*ssa.UnOp); isLoad && u.Op == token.MUL {
				x = u.X
			}
			fa, _ = x.(*ssa.FieldAddr)
		}
		if fa == nil || !fIsParam(fa.X, sP) {
			c.Bad(rule, site, c.Pos(add.Pos()), "the presence predicate guarding an increment is not applied to a field of the SignedTxn parameter")
			continue
		}
		fld := structField(fa.X.Type(), fa.Field)
		site = fname + ":count(" + fld.Name() + ")"
		okPred := false
		for _, p := range presence[fld.Name()] {
			if f, isF := c.TryObj(p.fn).(*types.Func); isF && sameFunc(calleeOf(call.Common()), f) && p.want == val {
				okPred = true
			}
		}
		if !okPred {
			c.Bad(rule, site, c.Pos(add.Pos()), "the counter is incremented for field "+fld.Name()+" on the wrong edge or with an untabled predicate: "+funcObjName(calleeOf(call.Common()))+" == "+fBoolStr(val))
			continue
		}
		if seen[fld.Name()] {
			c.Bad(rule, site, c.Pos(add.Pos()), "field "+fld.Name()+" is counted twice")
			continue
		}
		seen[fld.Name()] = true
		// the sigType set alongside
		kOK := false
		if len(b.Succs) == 1 {
			m := b.Succs[0]
			pi := -1
			for i, p := range m.Preds {
				if p == b {
					pi = i
				}
			}
			for _, in := range m.Instrs {
				phi, isPhi := in.(*ssa.Phi)
				if !isPhi {
					break
				}
				if chain[phi] && pi >= 0 && wantK[fld.Name()] != nil && valueIs(phi.Edges[pi], wantK[fld.Name()]) {
					kOK = true
				}
			}
		}
		c.Check(kOK, rule, site, c.Pos(add.Pos()), "present "+fld.Name()+" increments the category counter and selects its own sigOrTxnType constant")
	}
	// every authorization-carrying field is counted
	st := stxn.Underlying().(*types.Struct)
	for i := 0; i < st.NumFields(); i++ {
		f := st.Field(i)
		if _, isEx := exempt[f.Name()]; isEx {
			continue
		}
		if !seen[f.Name()] {
			c.Bad(rule, fname+":counts(SignedTxn."+f.Name()+")", c.Pos(f.Pos()), "field "+f.Name()+" of SignedTxn is not counted as a signature category (a transaction carrying it next to another authorization would be accepted); if it carries no authorization, table it")
		}
	}

	c.fMustGuard(fGuardSpec{Rule: rule, Fn: fn, Effects: okRets, EffName: "return(sigType,nil)", Guard: fGRange("categories>=1", isCnt, 1, -1)})
	c.fMustGuard(fGuardSpec{Rule: rule, Fn: fn, Effects: okRets, EffName: "return(sigType,nil)", Guard: fGRange("categories<=1", isCnt, 0, 1)})
	if len(spRets) > 0 {
		gSP := c.Obj("data/transactions.StateProofSender")
		fSender := c.Field("data/transactions.Header.Sender")
		fType := c.Field("data/transactions.Transaction.Type")
		kSP := c.Const("protocol.StateProofTx")
		onS := func(f *types.Var) VM {
			return func(v ssa.Value) bool { return Mentions(v, f, 5) && fIsParam(fRoot(v), sP) }
		}
		c.fMustGuard(fGuardSpec{Rule: rule, Fn: fn, Effects: spRets, EffName: "return(stateProofTxn,nil)", Guard: fGRange("categories==0", isCnt, 0, 0)})
		c.fMustGuard(fGuardSpec{Rule: rule, Fn: fn, Effects: spRets, EffName: "return(stateProofTxn,nil)", Guard: GCmp("s.Txn.Sender==StateProofSender", token.EQL, onS(fSender), func(v ssa.Value) bool { return Mentions(v, gSP, 3) })})
		c.fMustGuard(fGuardSpec{Rule: rule, Fn: fn, Effects: spRets, EffName: "return(stateProofTxn,nil)", Guard: GCmp("s.Txn.Type==StateProofTx", token.EQL, onS(fType), func(v ssa.Value) bool { return valueIs(strip(v), kSP) })})
	}
}

func fBoolStr(b bool) string {
	if b {
		return "true"
	}
	return "false"
}

// ---------------- shared shape: the transaction of a group ----------------

type c28Txn struct {
	c      *Ctx
	fn     *ssa.Function
	gi     *ssa.Parameter
	gctx   *ssa.Parameter
	batch  *ssa.Parameter
	fGroup *types.Var
	auth   *types.Func
}

func c28NewTxn(c *Ctx, fn *ssa.Function) *c28Txn {
	return &c28Txn{c: c, fn: fn, gi: fParamAt(fn, 0), gctx: fParamAt(fn, 1), batch: fParamAt(fn, 2),
		fGroup: c.Field("data/transactions/verify.GroupContext.signedGroupTxns"),
		auth:   c.Func("data/transactions.SignedTxn.Authorizer")}
}

// isPtr: v is &groupCtx.signedGroupTxns[gi].
func (t *c28Txn) isPtr(v ssa.Value) bool {
	ia, ok := fLocal(strip(v)).(*ssa.IndexAddr)
	return ok && fIsParam(ia.Index, t.gi) && Mentions(ia.X, t.fGroup, 3) && fIsParam(fRoot(ia.X), t.gctx)
}

// of: v is read from (a copy of a part of) that transaction.
func (t *c28Txn) of(v ssa.Value) bool { return t.isPtr(fRoot(v)) }

// field: v is read through the given fields of that transaction (each field
// is selected somewhere on the access path from the transaction to v).
func (t *c28Txn) field(v ssa.Value, fields ...*types.Var) bool {
	root, path := fRootPath(v)
	if !t.isPtr(root) {
		return false
	}
	for _, f := range fields {
		found := false
		for _, p := range path {
			if p == f {
				found = true
			}
		}
		if !found {
			return false
		}
	}
	return true
}

// built: v is the field path itself, or a local value (or pointer to one) that
// has it as a component.
func (t *c28Txn) built(v ssa.Value, fields ...*types.Var) bool {
	v = strip(v)
	if t.field(v, fields...) {
		return true
	}
	var a *ssa.Alloc
	switch x := v.(type) {
	case *ssa.Alloc:
		a = x
	case *ssa.UnOp:
		if x.Op == token.MUL {
			a, _ = x.X.(*ssa.Alloc)
		}
	}
	if a == nil {
		return false
	}
	for _, comp := range fComponents(a) {
		if t.field(comp, fields...) {
			return true
		}
	}
	return false
}

// authorizer: v is (a conversion of) s.Authorizer() of that transaction.
func (t *c28Txn) authorizer(v ssa.Value) bool {
	call, ok := fLocal(strip(v)).(*ssa.Call)
	if !ok || !sameFunc(calleeOf(call.Common()), t.auth) {
		return false
	}
	p, ok := fDeref(call.Common().Args[0])
	return ok && t.isPtr(p)
}

func (t *c28Txn) onBatch(call *ssa.Call) bool {
	cc := call.Common()
	return cc.IsInvoke() && fIsParam(cc.Value, t.batch)
}

// phiLeaves: every leaf of v through phis satisfies pred.
func fAllLeaves(v ssa.Value, pred VM) bool { return fAllLeavesZ(v, pred, true) }

// fAllLeavesZ: allowZero says whether a zero-value constant leaf is acceptable.
func fAllLeavesZ(v ssa.Value, pred VM, allowZero bool) bool {
	seen := map[ssa.Value]bool{}
	var rec func(v ssa.Value) bool
	rec = func(v ssa.Value) bool {
		v = fLocal(v)
		if seen[v] {
			return true
		}
		seen[v] = true
		if p, ok := v.(*ssa.Phi); ok {
			for _, e := range p.Edges {
				if !rec(e) {
					return false
				}
			}
			return true
		}
		// zero-initialised declarations (`var msig T`) contribute a zero constant
		if allowZero && fIsZeroConst(v) {
			return true
		}
		return pred(v)
	}
	return rec(v)
}

// ---------------- R28.2 ----------------

func c28CoreChecks(c *Ctx) {
	const rule = "R28.2"
	const fname = "data/transactions/verify.stxnCoreChecks"
	fn := c.Fn(fname)
	t := c28NewTxn(c, fn)
	ctc := c.Func("data/transactions/verify.checkTxnSigTypeCounts")
	enq := c.Func("crypto.BatchEnqueuer.EnqueueSignature")
	msigPrep := c.Func("crypto.MultisigBatchPrep")
	lsigVerify := c.Func("data/transactions/verify.logicSigVerify")
	pqVerify := c.Func("data/transactions.PQSig.Verify")
	kState := c.Const("data/transactions/verify.stateProofTxn")
	fTxn := c.Field("data/transactions.SignedTxn.Txn")
	fSig := c.Field("data/transactions.SignedTxn.Sig")
	fMsig := c.Field("data/transactions.SignedTxn.Msig")
	fPQ := c.Field("data/transactions.SignedTxn.PQsig")

	nilRets := fNilResultReturns(fn, 0)
	calls := fCallsIn(fn, ctc)
	if len(calls) != 1 {
		c.Unk(rule, fname+":checkTxnSigTypeCounts", c.Pos(fn.Pos()), "expected exactly one checkTxnSigTypeCounts call, found "+itoa(len(calls)))
		return
	}
	cc := calls[0]
	a := cc.Common().Args
	c.Check(len(a) == 2 && t.isPtr(a[0]) && fIsParam(a[1], t.gi), rule, fname+":checkTxnSigTypeCounts(&groupCtx.signedGroupTxns[gi],gi)", c.Pos(cc.Pos()), "the signature categories are counted on the transaction being verified")
	c.fMustGuard(fGuardSpec{Rule: rule, Fn: fn, Effects: nilRets, EffName: "return(nil)", Guard: GErrNil("checkTxnSigTypeCounts err==nil", func(v ssa.Value) bool { return fExtractOf(v, cc, 1) })})

	// verification call sites
	isMsg := func(v ssa.Value) bool { return t.field(v, fTxn) && !fMentionsAnyField(v, fSig, fMsig, fPQ) }
	wf := map[*ssa.Call]bool{}
	site := func(call *ssa.Call, name string, ok bool, why string) {
		wf[call] = ok
		c.Check(ok, rule, fname+":"+name, c.Pos(call.Pos()), why)
	}
	for _, call := range fCallsIn(fn, enq) {
		aa := callArgs(call.Common()) // batch, key, msg, sig
		ok := len(aa) == 4 && t.onBatch(call) && t.authorizer(aa[1]) && isMsg(aa[2]) && t.field(aa[3], fSig)
		site(call, "EnqueueSignature(s.Authorizer(),s.Txn,s.Sig)", ok, "the plain signature is enqueued on the caller's batch with key s.Authorizer(), message s.Txn and signature s.Sig of the same transaction")
	}
	for _, call := range fCallsIn(fn, msigPrep) {
		aa := call.Common().Args // msg, addr, sig, batch
		ok := len(aa) == 4 && isMsg(aa[0]) && t.authorizer(aa[1]) && t.field(aa[2], fMsig) && fIsParam(aa[3], t.batch)
		site(call, "MultisigBatchPrep(s.Txn,s.Authorizer(),s.Msig,batch)", ok, "the multisignature is checked for address s.Authorizer(), message s.Txn, on the caller's batch")
	}
	for _, call := range fCallsIn(fn, lsigVerify) {
		aa := call.Common().Args
		ok := len(aa) == 2 && fIsParam(aa[0], t.gi) && fIsParam(aa[1], t.gctx)
		site(call, "logicSigVerify(gi,groupCtx)", ok, "the logic signature of the same group member is verified")
	}
	for _, call := range fCallsIn(fn, pqVerify) {
		aa := call.Common().Args // recv, params, msg, addr
		ok := len(aa) == 4 && t.field(aa[0], fPQ) && isMsg(aa[2]) && t.authorizer(aa[3])
		site(call, "s.PQsig.Verify(params,s.Txn,s.Authorizer())", ok, "the post-quantum signature of the same transaction is verified for s.Authorizer() over s.Txn")
	}
	errOf := func(f *types.Func) Guard {
		return GErrNil(f.Name()+"(...)==nil", func(v ssa.Value) bool {
			call, _ := fCallOf(v)
			return call != nil && sameFunc(calleeOf(call.Common()), f) && wf[call]
		})
	}
	gState := GCmp("sigType==stateProofTxn", token.EQL, func(v ssa.Value) bool { return fExtractOf(v, cc, 0) }, func(v ssa.Value) bool { return valueIs(strip(v), kState) })
	c.fUnreachableUnless(rule, fname+":return(nil)<=some authorization verified", fn, nil, nilRets, "return(nil)",
		[]Guard{errOf(msigPrep), errOf(lsigVerify), errOf(pqVerify), gState},
		func(in ssa.Instruction) bool {
			call, ok := in.(*ssa.Call)
			return ok && wf[call] && sameFunc(calleeOf(call.Common()), enq)
		},
		"a verified authorization (enqueued signature, multisig prep, logic sig, PQ sig) or the state-proof exemption")
}

func fMentionsAnyField(v ssa.Value, fs ...*types.Var) bool {
	for _, f := range fs {
		if Mentions(v, f, 6) {
			return true
		}
	}
	return false
}

// ---------------- R28.3 ----------------

func c28Multisig(c *Ctx) {
	const rule = "R28.3"
	const fname = "crypto.MultisigBatchPrep"
	fn := c.Fn(fname)
	msgP, addrP, sigP, batchP := fParamAt(fn, 0), fParamAt(fn, 1), fParamAt(fn, 2), fParamAt(fn, 3)
	fSubsigs := c.Field("crypto.MultisigSig.Subsigs")
	fThreshold := c.Field("crypto.MultisigSig.Threshold")
	fVersion := c.Field("crypto.MultisigSig.Version")
	fKey := c.Field("crypto.MultisigSubsig.Key")
	fSubSig := c.Field("crypto.MultisigSubsig.Sig")
	addrGen := c.Func("crypto.MultisigAddrGenWithSubsigs")
	signatures := c.Func("crypto.MultisigSig.Signatures")
	blank := c.Func("crypto.Signature.Blank")
	enq := c.Func("crypto.BatchEnqueuer.EnqueueSignature")
	ofSig := func(f *types.Var) VM {
		return func(v ssa.Value) bool { return fIsFieldLoad(v, f) && fIsParam(fRoot(v), sigP) }
	}
	succ := fSuccessReturns(fn)

	c.fMustGuard(fGuardSpec{Rule: rule, Fn: fn, Effects: succ, EffName: "return(nil)", Guard: fGRange("len(sig.Subsigs)>=1", func(v ssa.Value) bool {
		x, ok := fLenOf(strip(v))
		return ok && ofSig(fSubsigs)(x)
	}, 1, -1)})
	gens := fCallsIn(fn, addrGen)
	if len(gens) != 1 {
		c.Unk(rule, fname+":MultisigAddrGenWithSubsigs", c.Pos(fn.Pos()), "expected exactly one address generation call, found "+itoa(len(gens)))
	} else {
		gen := gens[0]
		a := gen.Common().Args
		c.Check(len(a) == 3 && ofSig(fVersion)(a[0]) && ofSig(fThreshold)(a[1]) && ofSig(fSubsigs)(a[2]), rule, fname+":MultisigAddrGenWithSubsigs(sig.Version,sig.Threshold,sig.Subsigs)", c.Pos(gen.Pos()), "the address is regenerated from the version, threshold and keys of the signature being checked")
		c.fNilOnlyIf(rule, fn, "MultisigAddrGenWithSubsigs err==nil", func(v ssa.Value) bool { return fExtractOf(v, gen, 1) })
		c.fMustGuard(fGuardSpec{Rule: rule, Fn: fn, Effects: succ, EffName: "return(nil)", Guard: GCmp("addr==generated address", token.EQL, func(v ssa.Value) bool { return fIsParam(v, addrP) }, func(v ssa.Value) bool { return fExtractOf(v, gen, 0) })})
	}
	c.fMustGuard(fGuardSpec{Rule: rule, Fn: fn, Effects: succ, EffName: "return(nil)", Guard: GCmp("sig.Signatures()>=sig.Threshold", token.GEQ,
		func(v ssa.Value) bool {
			call, ok := fIsCallTo(strip(v), signatures)
			return ok && fIsParam(fRoot(call.Common().Args[0]), sigP)
		}, ofSig(fThreshold))})

	// the enqueue loop
	var loopOK bool
	loopDetail := "no EnqueueSignature call on the batch parameter found"
	var loopPos token.Pos = fn.Pos()
	for _, call := range fCallsIn(fn, enq) {
		aa := callArgs(call.Common()) // batch, key, msg, sig
		loopPos = call.Pos()
		if len(aa) != 4 || !fIsParam(aa[0], batchP) {
			loopDetail = "EnqueueSignature is not called on the batch parameter"
			continue
		}
		ek, okk := fRoot(aa[1]).(*ssa.IndexAddr)
		es, oks := fRoot(aa[3]).(*ssa.IndexAddr)
		if !okk || !oks || ek.Index != es.Index || !fIsFieldLoad(aa[1], fKey) || !fIsFieldLoad(aa[3], fSubSig) || !fIsParam(aa[2], msgP) {
			loopDetail = "EnqueueSignature does not take (Key, msg parameter, Sig) of one and the same subsig element"
			continue
		}
		if !ofSig(fSubsigs)(ek.X) || !ofSig(fSubsigs)(es.X) {
			loopDetail = "the enqueued Key/Sig are not taken from an element of sig.Subsigs itself (e.g. a sub-slice or another list)"
			continue
		}
		// loop header: the block computing the index, ending in `idx < len(sig.Subsigs)`
		idxIn, isInstr := ek.Index.(ssa.Instruction)
		if !isInstr {
			loopDetail = "unrecognised loop index"
			continue
		}
		h := idxIn.Block()
		iff, isIf := h.Instrs[len(h.Instrs)-1].(*ssa.If)
		if !isIf {
			loopDetail = "the element index is not produced by a loop header"
			continue
		}
		bo, isBo := iff.Cond.(*ssa.BinOp)
		okHdr := false
		if isBo && bo.Op == token.LSS && bo.X == ek.Index {
			if x, isLen := fLenOf(bo.Y); isLen && ofSig(fSubsigs)(x) {
				okHdr = true
			}
		}
		// the index visits every element: phi(-1|0, idx+1)
		var phi *ssa.Phi
		first := int64(0)
		switch x := ek.Index.(type) {
		case *ssa.BinOp:
			if x.Op == token.ADD && IsConstInt(1)(x.Y) {
				phi, _ = x.X.(*ssa.Phi)
				first = -1
			}
		case *ssa.Phi:
			phi = x
		}
		okIdx := false
		if phi != nil && len(phi.Edges) >= 2 {
			nFirst, nStep := 0, 0
			for _, o := range phi.Edges {
				switch {
				case IsConstInt(first)(o):
					nFirst++
				case first == -1 && o == ek.Index:
					nStep++
				case first == 0:
					if b2, isB := o.(*ssa.BinOp); isB && b2.Op == token.ADD && b2.X == ssa.Value(phi) && IsConstInt(1)(b2.Y) {
						nStep++
					}
				}
			}
			okIdx = nFirst == 1 && nFirst+nStep == len(phi.Edges)
		}
		if !okHdr || !okIdx {
			loopDetail = "the loop does not range over every index of sig.Subsigs"
			continue
		}
		body := h.Succs[0]
		isBlank := GBool("subsig.Sig.Blank()", func(v ssa.Value) bool {
			bc, ok := fIsCallTo(strip(v), blank)
			if !ok {
				return false
			}
			r, isEl := fRoot(bc.Common().Args[0]).(*ssa.IndexAddr)
			_, path := fRootPath(bc.Common().Args[0])
			return isEl && r.Index == ek.Index && ofSig(fSubsigs)(r.X) && len(path) == 1 && path[0] == fSubSig
		}, true)
		edges, _ := PassEdges(fn, isBlank)
		this := call
		r := fReachFromBlock(fn, body, edges, func(in ssa.Instruction) bool { return in == ssa.Instruction(this) })
		escaped := r.ReachesBlockStart(h)
		for _, ret := range succ {
			if r.Reaches(ret) {
				escaped = true
			}
		}
		if escaped {
			loopDetail = "a loop iteration can finish without enqueuing a subsig whose Sig is not blank"
			continue
		}
		// no early success out of the loop
		{
			cut := []Edge{{h, 1}}
			for _, p := range phi.Block().Preds {
				cut = append(cut, Edge{p, fEdgeIndex(p, phi.Block())})
			}
			r2 := fReachFrom(fn, ek, cut, nil)
			early := false
			for _, ret := range succ {
				if r2.Reaches(ret) {
					early = true
				}
			}
			if early {
				loopDetail = "the loop over sig.Subsigs can be left towards the nil return from inside an iteration (later subsigs would not be enqueued)"
				continue
			}
		}
		loopOK = true
		loopDetail = "every iteration over sig.Subsigs either sees a blank Sig or enqueues (Key, msg, Sig) of that element on the caller's batch"
	}
	c.Check(loopOK, rule, fname+":every non-blank subsig enqueued", c.Pos(loopPos), loopDetail)

	// Signatures() counts non-blank subsigs only
	{
		sf := c.Fn("crypto.MultisigSig.Signatures")
		recv := sf.Params[0]
		ok := true
		detail := "MultisigSig.Signatures returns a counter incremented only for elements of Subsigs whose Sig is not blank"
		n := 0
		for _, ret := range fReturnsOf(sf) {
			adds, isCnt := fCounterAdds(ret.Results[0])
			if !isCnt {
				ok = false
				detail = "the value returned by Signatures is not a pure counter"
				continue
			}
			for _, add := range adds {
				n++
				cond, val, okb := fBranchInto(add.Block())
				bc, isCall := cond.(*ssa.Call)
				if !okb || !isCall || !sameFunc(calleeOf(bc.Common()), blank) || val ||
					!Mentions(bc.Common().Args[0], fSubSig, 5) || !Mentions(bc.Common().Args[0], fSubsigs, 8) || !fIsParam(fRootThroughIndex(bc.Common().Args[0]), recv) {
					ok = false
					detail = "Signatures increments its count without a Subsigs[i].Sig.Blank()==false test on the receiver"
				}
			}
		}
		c.Check(ok && n > 0, rule, "crypto.MultisigSig.Signatures:counts non-blank only", c.Pos(sf.Pos()), detail)
	}
}

// fRootThroughIndex is fRoot that also steps through element addressing.
func fRootThroughIndex(v ssa.Value) ssa.Value {
	for i := 0; i < 6; i++ {
		v = fRoot(v)
		if ia, ok := v.(*ssa.IndexAddr); ok {
			v = ia.X
			continue
		}
		return v
	}
	return v
}

// ---------------- R28.4 ----------------

func c28BatchDiscipline(c *Ctx) {
	const rule = "R28.4"
	beT := c.Named("crypto.BatchEnqueuer")
	mk := c.Funcs("crypto.MakeBatchVerifier", "crypto.MakeBatchVerifierWithHint")
	verify := c.Func("crypto.BatchVerifier.Verify")
	batchLoadT := c.Named("data/transactions/verify.batchLoad")

	// functions with a BatchEnqueuer parameter
	type target struct {
		f   *types.Func
		idx int // index into Args of a static call
	}
	var targets []target
	for _, fn := range c.AllFuncs() {
		if fn.Parent() != nil {
			continue
		}
		obj, ok := fn.Object().(*types.Func)
		if !ok {
			continue
		}
		for i, p := range fn.Params {
			if types.Identical(p.Type(), beT) {
				targets = append(targets, target{obj, i})
			}
		}
	}
	if len(targets) < 5 {
		c.Unk(rule, "functions(BatchEnqueuer param)", "-", "expected at least 5 functions taking a crypto.BatchEnqueuer, found "+itoa(len(targets)))
	}
	nSites := 0
	for _, g := range c.AllFuncs() {
		for _, tg := range targets {
			for _, ci := range CallsTo(g, false, tg.f) {
				call, ok := ci.(*ssa.Call)
				if !ok || call.Common().IsInvoke() || tg.idx >= len(call.Common().Args) {
					continue
				}
				nSites++
				arg := fLocal(call.Common().Args[tg.idx])
				site := fnName(g) + ":" + tg.f.Name() + "(batch)"
				// (a) own parameter
				if p, isP := arg.(*ssa.Parameter); isP && types.Identical(p.Type(), beT) && p.Parent() == g {
					c.Ok(rule, site+"=own parameter", c.Pos(call.Pos()), "the enqueuer is passed through; the duty to verify stays with the caller")
					continue
				}
				inner := fLocal(strip(arg))
				// (b) freshly made verifier
				if mkCall, isMk := inner.(*ssa.Call); isMk && inFuncs(calleeOf(mkCall.Common()), mk) && mkCall.Parent() == g {
					c.fNilOnlyIfAt(rule, g, site+"=MakeBatchVerifier:Verify()==nil", "Verify() of the verifier handed to "+tg.f.Name(), func(v ssa.Value) bool {
						vc, _ := fCallOf(v)
						return vc != nil && vc.Common().IsInvoke() && sameFunc(calleeOf(vc.Common()), verify) && fLocal(vc.Common().Value) == ssa.Value(mkCall)
					})
					continue
				}
				// (c) the stream verifier's staging batchLoad
				if pt, isPtr := inner.Type().(*types.Pointer); isPtr && types.Identical(pt.Elem(), batchLoadT) {
					c28StreamVerifier(c, g, call, inner, site)
					continue
				}
				c.Bad(rule, site, c.Pos(call.Pos()), "the BatchEnqueuer handed to "+tg.f.Name()+" is neither this function's own BatchEnqueuer parameter, nor a verifier created here by crypto.MakeBatchVerifier*, nor the stream verifier's batchLoad: "+describe(arg)+"; nothing shows that the enqueued signatures are ever verified")
			}
		}
	}
	if nSites == 0 {
		c.Unk(rule, "calls(*BatchPrep)", "-", "no call passing a BatchEnqueuer found")
	}
}

func c28StreamVerifier(c *Ctx, g *ssa.Function, call *ssa.Call, bl ssa.Value, site string) {
	const rule = "R28.4"
	mkLoad := c.Func("data/transactions/verify.makeBatchLoad")
	pre := c.Func("data/transactions/verify.txnSigBatchProcessor.preProcessUnverifiedTxns")
	post := c.Func("data/transactions/verify.txnSigBatchProcessor.postProcessVerifiedJobs")
	vwf := c.Func("crypto.BatchVerifier.VerifyWithFeedback")
	fVerifier := c.Field("data/transactions/verify.batchLoad.verifier")
	commit := c.Func("data/transactions/verify.batchLoad.commitGroup")
	enq := c.Func("crypto.BatchEnqueuer.EnqueueSignature")

	gObj, _ := g.Object().(*types.Func)
	mkc, _ := fCallOf(bl)
	okA := sameFunc(gObj, pre) && mkc != nil && sameFunc(calleeOf(mkc.Common()), mkLoad)
	if okA {
		// the batchLoad that collected the signatures is the one returned
		for _, ret := range fReturnsOf(g) {
			if fLocal(ret.Results[0]) != ssa.Value(mkc) {
				okA = false
			}
		}
	}
	c.Check(okA, rule, site+"=batchLoad of preProcessUnverifiedTxns", c.Pos(call.Pos()), "signatures are staged in the batchLoad made by makeBatchLoad in preProcessUnverifiedTxns, which is the value it returns")

	pb := c.Fn("data/transactions/verify.txnSigBatchProcessor.ProcessBatch")
	pres := fCallsIn(pb, pre)
	vcs := fCallsIn(pb, vwf)
	posts := fCallsIn(pb, post)
	okB := len(pres) == 1 && len(vcs) == 1 && len(posts) == 1
	if okB {
		vc := vcs[0]
		okB = vc.Common().IsInvoke() && Mentions(vc.Common().Value, fVerifier, 3) && fRoot(vc.Common().Value) == ssa.Value(pres[0])
		pa := posts[0].Common().Args // recv, bl, failed, err, reported
		okB = okB && len(pa) == 5 && fLocal(pa[1]) == ssa.Value(pres[0]) && fExtractOf(pa[2], vc, 0) && fExtractOf(pa[3], vc, 1) && Dominates(vc, posts[0])
	}
	c.Check(okB, rule, "data/transactions/verify.txnSigBatchProcessor.ProcessBatch:VerifyWithFeedback(bl.verifier)->postProcessVerifiedJobs", c.Pos(pb.Pos()), "the verifier of the batchLoad returned by preProcessUnverifiedTxns is verified and both results are handed to postProcessVerifiedJobs")

	c.OwnerRule(rule, "write(batchLoad.verifier)", c.FieldWrites(map[*types.Var]bool{fVerifier: true}, ScanOpts{SkipGenerated: true}), map[string]string{"data/transactions/verify.makeBatchLoad": "created once per batch"})

	// commitGroup forwards every staged signature to the verifier
	cg := c.SSAOf(commit)
	okC := cg != nil
	if cg != nil {
		fStaged := c.Field("data/transactions/verify.batchLoad.staged")
		es := fCallsIn(cg, enq)
		okC = len(es) == 1
		if okC {
			e := es[0]
			aa := callArgs(e.Common())
			okC = len(aa) == 4 && Mentions(aa[0], fVerifier, 3)
			var el *ssa.IndexAddr
			for i := 1; i < 4 && okC; i++ {
				r, isEl := fRoot(aa[i]).(*ssa.IndexAddr)
				if !isEl || !fIsFieldLoad(r.X, fStaged) || !fIsParam(fRoot(r.X), cg.Params[0]) || (el != nil && el.Index != r.Index) {
					okC = false
				}
				el = r
			}
			// the index ranges over len(bl.staged)
			if okC && el != nil {
				okC = false
				if h, isIn := el.Index.(ssa.Instruction); isIn {
					hb := h.Block()
					if iff, isIf := hb.Instrs[len(hb.Instrs)-1].(*ssa.If); isIf {
						if bo, isBo := iff.Cond.(*ssa.BinOp); isBo && bo.Op == token.LSS && bo.X == el.Index {
							if x, isLen := fLenOf(bo.Y); isLen && fIsFieldLoad(x, fStaged) {
								okC = true
							}
						}
					}
				}
			}
			okC = okC && Mentions(aa[1], c.Field("data/transactions/verify.stagedSig.sigVerifier"), 4) && Mentions(aa[2], c.Field("data/transactions/verify.stagedSig.message"), 4) && Mentions(aa[3], c.Field("data/transactions/verify.stagedSig.sig"), 4)
		}
	}
	c.Check(okC, rule, "data/transactions/verify.batchLoad.commitGroup:forwards staged (key,msg,sig)", c.Pos(commit.Pos()), "commitGroup enqueues each staged signature's own key, message and signature on batchLoad.verifier")
}

// fNilOnlyIfAt is fNilOnlyIf with an explicit construct name, for functions
// whose single result is an error or (closures run on a pool) `any`.
func (c *Ctx) fNilOnlyIfAt(rule string, fn *ssa.Function, construct, gname string, errVM VM) bool {
	idx := errResultIndex(fn)
	res := fn.Signature.Results()
	if idx < 0 && res.Len() == 1 && types.IsInterface(res.At(0).Type()) {
		idx = 0
	}
	if idx < 0 {
		c.Unk(rule, construct, c.Pos(fn.Pos()), fnName(fn)+" has no error-like result")
		return false
	}
	var eff []ssa.Instruction
	prop := 0
	for _, ret := range fReturnsOf(fn) {
		if !fLiveReturn(fn, ret) {
			continue
		}
		v := resolveLocal(ret.Results[idx], ret)
		sv := strip(v)
		if errVM(sv) || errVM(v) {
			prop++
			continue
		}
		if definitelyNonNil(v, ret.Block(), 0) || fNonNilByTest(v, ret.Block()) || fNonNilByTest(sv, ret.Block()) || fStickyErr(sv, ret.Block()) {
			continue
		}
		eff = append(eff, ret)
	}
	g := GErrNil(gname, errVM)
	edges, matched := PassEdges(fn, g)
	if len(eff) == 0 {
		if prop == 0 {
			c.Unk(rule, construct, c.Pos(fn.Pos()), "no possibly-nil return found in "+fnName(fn))
			return false
		}
		c.Ok(rule, construct, c.Pos(fn.Pos()), itoa(prop)+" return(s) yield that error value itself")
		return true
	}
	if matched == 0 {
		c.Bad(rule, construct, c.Pos(eff[0].Pos()), fnName(fn)+" can return a nil error but never tests "+gname+": the enqueued signatures are not verified before success is reported")
		return false
	}
	r := fReachFrom(fn, nil, edges, nil)
	for _, e := range eff {
		if r.Reaches(e) {
			c.Bad(rule, construct, c.Pos(e.Pos()), "a possibly-nil return of "+fnName(fn)+" is reachable without "+gname+" having returned nil; path: "+r.PathTo(c.Program, e))
			return false
		}
	}
	c.Ok(rule, construct, c.Pos(eff[0].Pos()), itoa(len(eff))+" possibly-nil return(s) lie behind "+gname+"==nil; "+itoa(prop)+" return(s) yield that error itself")
	return true
}

// fStickyErr: v is ctx.Err() and a dominating branch has tested ctx.Err()!=nil
// on the same context value (context errors never revert to nil).
func fStickyErr(v ssa.Value, at *ssa.BasicBlock) bool {
	isCtxErr := func(x ssa.Value) (ssa.Value, bool) {
		call, ok := x.(*ssa.Call)
		if !ok || !call.Common().IsInvoke() || call.Common().Method.Name() != "Err" {
			return nil, false
		}
		nt, ok := call.Common().Value.Type().(*types.Named)
		if !ok || nt.Obj().Pkg() == nil || nt.Obj().Pkg().Path() != "context" || nt.Obj().Name() != "Context" {
			return nil, false
		}
		return fLocal(call.Common().Value), true
	}
	ctx, ok := isCtxErr(v)
	if !ok {
		return false
	}
	for _, b := range at.Parent().Blocks {
		iff, isIf := b.Instrs[len(b.Instrs)-1].(*ssa.If)
		if !isIf {
			continue
		}
		cond, neg := condOf(iff.Cond)
		bo, isBo := cond.(*ssa.BinOp)
		if !isBo || (bo.Op != token.NEQ && bo.Op != token.EQL) || !IsNil(bo.Y) {
			continue
		}
		c2, ok2 := isCtxErr(bo.X)
		if !ok2 || !fSameVar(c2, ctx) {
			continue
		}
		nonNilOnTrue := (bo.Op == token.NEQ) != neg
		succ := b.Succs[1]
		if nonNilOnTrue {
			succ = b.Succs[0]
		}
		if len(succ.Preds) == 1 && succ.Dominates(at) {
			return true
		}
	}
	return false
}

// ---------------- R28.5 ----------------

func c28EvalAuthorizer(c *Ctx) {
	const rule = "R28.5"
	const fname = "ledger/eval.BlockEvaluator.transaction"
	fn := c.Fn(fname)
	txnP := fParamAt(fn, 0)
	apply := c.Func("ledger/eval.BlockEvaluator.applyTransaction")
	lookup := c.Func("ledger/eval.roundCowState.lookup")
	auth := c.Func("data/transactions.SignedTxn.Authorizer")
	fValidate := c.Field("ledger/eval.BlockEvaluator.validate")
	fAuthAddr := c.Field("ledger/ledgercore.AccountBaseData.AuthAddr")
	fSender := c.Field("data/transactions.Header.Sender")
	isZero := c.Func("data/basics.Address.IsZero")

	effects := asInstrs(CallsTo(fn, false, apply))
	bypass := []Guard{GBool("!eval.validate", M(fValidate), false)}
	isSender := func(v ssa.Value) bool { return Mentions(v, fSender, 5) && fIsParam(fRoot(v), txnP) }

	// the lookup of the sender
	var lk *ssa.Call
	for _, call := range fCallsIn(fn, lookup) {
		a := call.Common().Args
		if len(a) == 2 && isSender(a[1]) {
			lk = call
		}
	}
	if lk == nil {
		c.Bad(rule, fname+":cow.lookup(txn.Txn.Sender)", c.Pos(fn.Pos()), "transaction() does not look up the sender's account data, so the sender's current AuthAddr cannot be enforced")
		return
	}
	c.fMustGuard(fGuardSpec{Rule: rule, Fn: fn, Effects: effects, EffName: "applyTransaction", Guard: GErrNil("cow.lookup(txn.Txn.Sender) err==nil", func(v ssa.Value) bool { return fExtractOf(v, lk, 1) }), Bypass: bypass})
	isAcctAuth := func(v ssa.Value) bool {
		if !Mentions(v, fAuthAddr, 5) {
			return false
		}
		return fExtractOf(fRoot(v), lk, 0)
	}
	// correctAuthorizer: AuthAddr of the looked-up account, or Sender on the AuthAddr-is-zero edge
	gZero := GAnyOf("acct.AuthAddr is zero",
		GCmp("AuthAddr==Address{}", token.EQL, isAcctAuth, fIsZeroConst),
		GBool("AuthAddr.IsZero()", func(v ssa.Value) bool {
			call, ok := fIsCallTo(strip(v), isZero)
			return ok && isAcctAuth(call.Common().Args[0])
		}, true))
	zeroEdges, _ := PassEdges(fn, gZero)
	isCorrect := func(v ssa.Value) bool {
		v = fLocal(v)
		if isAcctAuth(v) {
			// using AuthAddr unconditionally would reject every non-rekeyed sender, not accept a wrong one
			return true
		}
		phi, ok := v.(*ssa.Phi)
		if !ok {
			return false
		}
		nAuth := 0
		for i, e := range phi.Edges {
			switch {
			case isAcctAuth(e):
				nAuth++
			case isSender(e):
				// only on an edge dominated by "AuthAddr is zero"
				okEdge := false
				pb := phi.Block().Preds[i]
				for _, ze := range zeroEdges {
					t := ze.From.Succs[ze.Idx]
					if len(t.Preds) == 1 && t.Dominates(pb) {
						okEdge = true
					}
				}
				if !okEdge {
					return false
				}
			default:
				return false
			}
		}
		return nAuth > 0
	}
	gAuth := GCmp("txn.Authorizer()==correctAuthorizer", token.EQL, func(v ssa.Value) bool {
		call, ok := fIsCallTo(strip(v), auth)
		return ok && fIsParam(fRoot(call.Common().Args[0]), txnP)
	}, isCorrect)
	c.fMustGuard(fGuardSpec{Rule: rule, Fn: fn, Effects: effects, EffName: "applyTransaction", Guard: gAuth, Bypass: bypass})
	// what is applied is the transaction that was authorized
	okArg := len(effects) > 0
	for _, e := range effects {
		a := e.(*ssa.Call).Common().Args // eval, tx, cow, ...
		if len(a) < 2 || !Mentions(a[1], c.Field("data/transactions.SignedTxn.Txn"), 3) || !fIsParam(fRoot(a[1]), txnP) {
			okArg = false
		}
	}
	c.Check(okArg, rule, fname+":applyTransaction(txn.Txn)", c.Pos(fn.Pos()), "the transaction applied is the Txn of the signed transaction whose authorizer was checked")
	c.OwnerRule(rule, "call(applyTransaction)", c.Uses([]*types.Func{apply}, ScanOpts{SkipGenerated: true}), map[string]string{"ledger/eval.BlockEvaluator.transaction": "after the authorizer check"})
}

// ---------------- R28.6 ----------------

func c28LogicSig(c *Ctx) {
	const rule = "R28.6"
	// SignedTxn.Authorizer
	{
		const fname = "data/transactions.SignedTxn.Authorizer"
		fn := c.Fn(fname)
		recv := fn.Params[0]
		fAuthAddr := c.Field("data/transactions.SignedTxn.AuthAddr")
		fSender := c.Field("data/transactions.Header.Sender")
		isZero := c.Func("data/basics.Address.IsZero")
		onRecv := func(f *types.Var) VM {
			return func(v ssa.Value) bool { return Mentions(v, f, 5) && fIsParam(fRoot(v), recv) }
		}
		var senderRets []ssa.Instruction
		ok := true
		for _, ret := range fReturnsOf(fn) {
			v := ret.Results[0]
			switch {
			case onRecv(fAuthAddr)(v) && !Mentions(v, fSender, 5):
			case onRecv(fSender)(v):
				senderRets = append(senderRets, ret)
			default:
				ok = false
			}
		}
		c.Check(ok, rule, fname+":returns(AuthAddr|Txn.Sender)", c.Pos(fn.Pos()), "every return yields the receiver's AuthAddr or its Txn.Sender")
		if len(senderRets) > 0 {
			c.fMustGuard(fGuardSpec{Rule: rule, Fn: fn, Effects: senderRets, EffName: "return(s.Txn.Sender)", Guard: GAnyOf("s.AuthAddr is zero",
				GBool("s.AuthAddr.IsZero()", func(v ssa.Value) bool {
					call, isC := fIsCallTo(strip(v), isZero)
					return isC && onRecv(fAuthAddr)(call.Common().Args[0])
				}, true),
				GCmp("s.AuthAddr==Address{}", token.EQL, onRecv(fAuthAddr), fIsZeroConst))})
		} else {
			c.Unk(rule, fname+":return(s.Txn.Sender)", c.Pos(fn.Pos()), "no return of Txn.Sender found")
		}
	}
	// logicSigVerify
	{
		const fname = "data/transactions/verify.logicSigVerify"
		fn := c.Fn(fname)
		giP, gcP := fParamAt(fn, 0), fParamAt(fn, 1)
		sanity := c.Func("data/transactions/verify.LogicSigSanityCheck")
		evalFull := c.Func("data/transactions/logic.EvalSignatureFull")
		fEP := c.Field("data/transactions/verify.GroupContext.evalParams")
		c.fNilOnlyIf(rule, fn, "LogicSigSanityCheck(gi,groupCtx)==nil", func(v ssa.Value) bool {
			call, _ := fCallOf(v)
			if call == nil || !sameFunc(calleeOf(call.Common()), sanity) {
				return false
			}
			a := call.Common().Args
			return len(a) == 2 && fIsParam(a[0], giP) && fIsParam(a[1], gcP)
		})
		var ev *ssa.Call
		for _, call := range fCallsIn(fn, evalFull) {
			a := call.Common().Args
			if len(a) == 2 && fIsParam(a[0], giP) && Mentions(a[1], fEP, 3) && fIsParam(fRoot(a[1]), gcP) {
				ev = call
			}
		}
		if ev == nil {
			c.Bad(rule, fname+":EvalSignatureFull(gi,groupCtx.evalParams)", c.Pos(fn.Pos()), "logicSigVerify does not evaluate the logic signature of group member gi with the group's eval params")
		} else {
			c.fNilOnlyIf(rule, fn, "EvalSignatureFull err==nil", func(v ssa.Value) bool { return fExtractOf(v, ev, 2) })
			c.fMustGuard(fGuardSpec{Rule: rule, Fn: fn, Effects: fSuccessReturns(fn), EffName: "return(nil error)", Guard: GBool("pass==true", func(v ssa.Value) bool { return fExtractOf(v, ev, 0) }, true)})
		}
	}
	// logicSigSanityCheckBatchPrep
	{
		const fname = "data/transactions/verify.logicSigSanityCheckBatchPrep"
		fn := c.Fn(fname)
		t := c28NewTxn(c, fn)
		enq := c.Func("crypto.BatchEnqueuer.EnqueueSignature")
		msigPrep := c.Func("crypto.MultisigBatchPrep")
		pqVerify := c.Func("data/transactions.PQSig.Verify")
		hashObj := c.Func("crypto.HashObj")
		fLsig := c.Field("data/transactions.SignedTxn.Lsig")
		fLogic := c.Field("data/transactions.LogicSig.Logic")
		fLSig := c.Field("data/transactions.LogicSig.Sig")
		fLMsig := c.Field("data/transactions.LogicSig.Msig")
		fLLMsig := c.Field("data/transactions.LogicSig.LMsig")
		fLPQ := c.Field("data/transactions.LogicSig.PQsig")
		// the program: a value built from Lsig.Logic of this transaction
		isProgram := func(v ssa.Value) bool {
			return fAllLeaves(strip(v), func(x ssa.Value) bool { return t.built(x, fLsig, fLogic) })
		}
		lsigField := func(f *types.Var) VM {
			return func(v ssa.Value) bool { return t.field(v, fLsig, f) }
		}
		wf := map[*ssa.Call]bool{}
		site := func(call *ssa.Call, name string, ok bool, why string) {
			wf[call] = ok
			c.Check(ok, rule, fname+":"+name, c.Pos(call.Pos()), why)
		}
		for _, call := range fCallsIn(fn, enq) {
			aa := callArgs(call.Common())
			ok := len(aa) == 4 && t.onBatch(call) && t.authorizer(aa[1]) && isProgram(aa[2]) && lsigField(fLSig)(aa[3])
			site(call, "EnqueueSignature(txn.Authorizer(),program,lsig.Sig)", ok, "the delegation signature is enqueued on the caller's batch for key txn.Authorizer() over the program of the same transaction's Lsig")
		}
		for _, call := range fCallsIn(fn, msigPrep) {
			aa := call.Common().Args
			ok := len(aa) == 4 && isProgram(aa[0]) && t.authorizer(aa[1]) && fIsParam(aa[3], t.batch) &&
				fAllLeaves(strip(aa[2]), func(x ssa.Value) bool { return lsigField(fLMsig)(x) || lsigField(fLLMsig)(x) })
			site(call, "MultisigBatchPrep(program,txn.Authorizer(),lsig.Msig|LMsig,batch)", ok, "the delegation multisignature is checked for address txn.Authorizer() over the program, on the caller's batch")
		}
		for _, call := range fCallsIn(fn, pqVerify) {
			aa := call.Common().Args
			ok := len(aa) == 4 && lsigField(fLPQ)(aa[0]) && isProgram(aa[2]) && t.authorizer(aa[3])
			site(call, "lsig.PQsig.Verify(params,program,txn.Authorizer())", ok, "the PQ delegation signature is verified for txn.Authorizer() over the program")
		}
		gHash := GCmp("hash(program)==txn.Authorizer()", token.EQL, t.authorizer, func(v ssa.Value) bool {
			call, ok := fIsCallTo(strip(v), hashObj)
			return ok && isProgram(call.Common().Args[0])
		})
		_, nHash := PassEdges(fn, gHash)
		c.Check(nHash > 0, rule, fname+":hash(program)==txn.Authorizer()", c.Pos(fn.Pos()), "an undelegated logic signature is accepted only for the contract account hash(program)")
		errOf := func(f *types.Func) Guard {
			return GErrNil(f.Name()+"(...)==nil", func(v ssa.Value) bool {
				call, _ := fCallOf(v)
				return call != nil && sameFunc(calleeOf(call.Common()), f) && wf[call]
			})
		}
		c.fUnreachableUnless(rule, fname+":return(nil)<=delegation verified or contract account", fn, nil, fSuccessReturns(fn), "return(nil error)",
			[]Guard{gHash, errOf(msigPrep), errOf(pqVerify)},
			func(in ssa.Instruction) bool {
				call, ok := in.(*ssa.Call)
				return ok && wf[call] && sameFunc(calleeOf(call.Common()), enq)
			},
			"hash(program)==txn.Authorizer(), a verified PQ/multisig delegation or an enqueued delegation signature")
	}
}

// fSameVar: the same SSA value, or two loads of the same variable (local,
// captured or global).
func fSameVar(a, b ssa.Value) bool {
	if a == b {
		return true
	}
	ua, ok1 := a.(*ssa.UnOp)
	ub, ok2 := b.(*ssa.UnOp)
	if !ok1 || !ok2 || ua.Op != token.MUL || ub.Op != token.MUL || ua.X != ub.X {
		return false
	}
	switch ua.X.(type) {
	case *ssa.FreeVar, *ssa.Alloc, *ssa.Global:
		return true
	}
	return false
}
