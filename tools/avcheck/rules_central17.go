package main

import (
	"go/types"

	"golang.org/x/tools/go/ssa"
)

// R02.7: the snapshot that persistState encodes is initialised on every path
// on which a persistent action can be executed. Service.mainLoop assigns
// persistRouter/persistStatus/persistActions only after submitTop; the action
// list restored from the crash database contains the persistent attest action
// that caused the persist, and executing it calls persistState — which, unless
// the snapshot fields were set from the decoded state, encodes zero values over
// the good crash state (see DESIGN §7).
func init() {
	extend("C02", Extension{
		Run:         ruleRestoredSnapshotInitialised,
		Explanation: "R02.7 (a restart does not wipe the crash state): in Service.mainLoop the action list produced by decode() can reach the demux loop (it contains the persistent attest action, whose execution calls persistState), so on the restore path the three snapshot fields persistRouter, persistStatus and persistActions are assigned from decode()'s results before the first hand-off of actions — otherwise persistState encodes zero values over the persisted state and a second crash restarts the node from scratch in a round it already voted in.",
		Floor:       map[string]int{"R02.7": 1},
	})
}

func ruleRestoredSnapshotInitialised(c *Ctx) {
	const rule = "R02.7"
	ml := c.Fn("agreement.Service.mainLoop")
	decode := c.Func("agreement.decode")
	submitTop := c.Func("agreement.rootRouter.submitTop")
	name := "agreement.Service.mainLoop"
	dcalls := CallsTo(ml, false, decode)
	if len(dcalls) != 1 {
		c.Unk(rule, name+":decode", c.Pos(ml.Pos()), "expected one decode() call, found "+itoa(len(dcalls)))
		return
	}
	d := dcalls[0].(*ssa.Call)
	st := CallsTo(ml, false, submitTop)
	if len(st) != 1 {
		c.Unk(rule, name+":submitTop", c.Pos(ml.Pos()), "expected one submitTop call")
		return
	}
	loopCall := st[0]
	fields := map[string]*types.Var{
		"persistRouter":  c.Field("agreement.Service.persistRouter"),
		"persistStatus":  c.Field("agreement.Service.persistStatus"),
		"persistActions": c.Field("agreement.Service.persistActions"),
	}
	missing := ""
	for _, fname := range []string{"persistRouter", "persistStatus", "persistActions"} {
		f := fields[fname]
		ok := false
		for _, s := range StoresToField(ml, false, map[*types.Var]bool{f: true}) {
			sto := s.(*ssa.Store)
			// a store outside the event loop (not after submitTop) whose value comes from decode()
			if Dominates(loopCall, sto) {
				continue
			}
			if MentionsValue(sto.Val, d, 6) {
				ok = true
			}
		}
		if !ok {
			missing += " " + fname
		}
	}
	detail := "the snapshot fields are set from the decoded crash state before the restored actions are executed"
	if missing != "" {
		detail = "on the restore path mainLoop hands the decoded action list (with its persistent attest action) to the demux loop without initialising" + missing + " from decode()'s results: executing that action calls persistState, which encodes zero values over the persisted crash state; a second crash before the next attest then restarts the node from scratch in a round it already voted in"
	}
	c.Check(missing == "", rule, name+":restored snapshot initialised before the first hand-off", c.Pos(d.Pos()), detail)
}
