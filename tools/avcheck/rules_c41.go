package main

import (
	"fmt"
	"go/ast"
	"go/token"
	"go/types"
	"sort"
	"strings"

	"golang.org/x/tools/go/packages"
	"golang.org/x/tools/go/ssa"
)

func init() {
	register(&Prop{
		ID:       "C41",
		Patterns: hGenPatterns,
		Run:      runC41,
		Explanation: "Decides structural necessary conditions of 'decoding untrusted bytes returns a value or an error, never crashes, never builds collections beyond the declared bounds' over every msgp decoder (all UnmarshalMsgWithState methods of the loaded packages, generated or hand written): " +
			"R41.1 every allocation sized by the input — make([]T,n)/make(map,n) with n from msgp.ReadArrayHeaderBytes/ReadMapHeaderBytes, and every msgp.ReadBytesBytes/ReadStringBytes — is classified: a make must be unreachable unless the branch `n <= bound` (bound a constant or package-level variable) is passed, otherwise it must be one of the reviewed `allocbound=-` sites (frozen table: agreement disk state, participation key secrets, tx-tail rows); where the destination is a struct field or the receiver of a named collection type, the bound tested equals the declared one (the field's `allocbound=` codec tag part, or the type's //msgp:allocbound directive) by value, and a bytes/string site with a declared bound must have its header-length test; a size the rule cannot trace is undecided; " +
			"R41.2 the types whose decoders reach a reviewed unbounded site (transitively through generated UnmarshalMsgWithState calls) are handed to protocol.Decode/DecodeMsgp/MsgpDecoderBytes.Decode/UnmarshalMsg* only in the reviewed functions that read the node's own databases (so no network handler decodes them); a decode call whose target is known only as an interface (a generic forwarder) must itself be in the reviewed table, since its callers choose the type; " +
			"R41.3 every UnmarshalMsgWithState refuses to run when st.AllowableDepth == 0 before touching the input, decrements it before any nested UnmarshalMsgWithState call and passes that decremented state on (pure forwarding wrappers excepted); protocol.init sets msgp.DefaultUnmarshalState.AllowableDepth to a positive constant; " +
			"R41.4 protocol.DecodeMsgp installs, before calling UnmarshalMsg, a deferred function that recovers and stores a non-nil error into the result; protocol.Decode reaches the generated decoder only through DecodeMsgp; calls of UnmarshalMsg/UnmarshalMsgWithState from hand-written code are the reviewed ones. " +
			"Does NOT decide: go-codec reflection decoding, absence of run-time panics inside the generated code other than through allocation size (index/nil-map panics are left to the recover of R41.4), maxtotalbytes accounting, nor that the numeric value of a declared bound is adequate.",
		Assumptions: []string{
			"msgp.ReadBytesBytes/ReadStringBytes never allocate more than the remaining input length",
			"the databases read by the functions tabled in R41.2 are written only by the node itself",
		},
		Floor: map[string]int{"R41.1": 335, "R41.2": 12, "R41.3": 355, "R41.4": 8},
	})
}

// hUnboundedSites is the reviewed table of input-sized allocations without a
// bound test (all carry `allocbound=-` in their codec tag). Key: type:dest.
var hUnboundedSites = map[string]string{
	"agreement.blockAssembler:z.Authenticators":                                  "agreement crash-recovery state (local crash database only)",
	"agreement.diskState:z.ActionTypes":                                          "agreement crash-recovery state (local crash database only)",
	"agreement.diskState:z.Actions":                                              "agreement crash-recovery state (local crash database only)",
	"agreement.periodRouter:z.Children":                                          "agreement crash-recovery state (local crash database only)",
	"agreement.proposalStore:z.Relevant":                                         "agreement crash-recovery state (local crash database only)",
	"agreement.proposalStore:z.Assemblers":                                       "agreement crash-recovery state (local crash database only)",
	"agreement.proposalTable:z.Pending":                                          "agreement crash-recovery state (local crash database only)",
	"agreement.proposalTracker:z.Duplicate":                                      "agreement crash-recovery state (local crash database only)",
	"agreement.proposalVoteCounter:z.Votes":                                      "agreement crash-recovery state (local crash database only)",
	"agreement.rootRouter:z.Children":                                            "agreement crash-recovery state (local crash database only)",
	"agreement.roundRouter:z.Children":                                           "agreement crash-recovery state (local crash database only)",
	"agreement.voteTracker:z.Voters":                                             "agreement crash-recovery state (local crash database only)",
	"agreement.voteTracker:z.Counts":                                             "agreement crash-recovery state (local crash database only)",
	"agreement.voteTracker:z.Equivocators":                                       "agreement crash-recovery state (local crash database only)",
	"crypto.OneTimeSignatureSecrets:z.OneTimeSignatureSecretsPersistent.Batches": "participation key database",
	"crypto.OneTimeSignatureSecrets:z.OneTimeSignatureSecretsPersistent.Offsets": "participation key database",
	"crypto.OneTimeSignatureSecretsPersistent:z.Batches":                         "participation key database",
	"crypto.OneTimeSignatureSecretsPersistent:z.Offsets":                         "participation key database",
	"ledger/store/trackerdb.TxTailRound:z.TxnIDs":                                "tracker database tx-tail rows",
	"ledger/store/trackerdb.TxTailRound:z.LastValid":                             "tracker database tx-tail rows",
	"ledger/store/trackerdb.TxTailRound:z.Leases":                                "tracker database tx-tail rows",
}

func runC41(c *Ctx) {
	m := hMsgpExtract(c)
	if m.Msgp == nil {
		c.Unk("R41.1", "msgp", "-", "github.com/algorand/msgp/msgp is not imported by any loaded package")
		return
	}
	unm, _ := hLookupIface(m.Msgp, "Unmarshaler")
	if unm == nil {
		c.Unk("R41.1", "msgp.Unmarshaler", "-", "interface not found")
		return
	}
	var stateT *types.Named
	if tn, ok := m.Msgp.Scope().Lookup("UnmarshalState").(*types.TypeName); ok {
		stateT, _ = tn.Type().(*types.Named)
	}
	var depthF *types.Var
	if stateT != nil {
		if st, ok := stateT.Underlying().(*types.Struct); ok {
			for i := 0; i < st.NumFields(); i++ {
				if st.Field(i).Name() == "AllowableDepth" {
					depthF = st.Field(i)
				}
			}
		}
	}
	if depthF == nil {
		c.Unk("R41.3", "msgp.UnmarshalState.AllowableDepth", "-", "field not found")
		return
	}

	// every UnmarshalMsgWithState method in the loaded module packages
	type dec struct {
		name string
		nt   *types.Named
		fo   *types.Func
		fn   *ssa.Function
		gen  bool
		pk   *packages.Package
	}
	var decs []*dec
	byNamed := map[*types.Named]*dec{}
	for _, pk := range c.sortedPkgs() {
		for _, f := range pk.Syntax {
			gen := hIsMsgpGenFile(pk, f)
			for _, d := range f.Decls {
				fd, ok := d.(*ast.FuncDecl)
				if !ok || fd.Recv == nil || fd.Body == nil || fd.Name.Name != "UnmarshalMsgWithState" {
					continue
				}
				fo, ok := pk.TypesInfo.Defs[fd.Name].(*types.Func)
				if !ok {
					continue
				}
				nt := hRecvNamed(fo)
				if nt == nil || !types.Implements(types.NewPointer(nt), unm) {
					continue
				}
				fn := c.SSAOf(fo)
				if fn == nil {
					c.Unk("R41.3", relPkg(pk.PkgPath)+"."+nt.Obj().Name()+".UnmarshalMsgWithState", c.Pos(fd.Pos()), "no SSA body")
					continue
				}
				x := &dec{name: relPkg(pk.PkgPath) + "." + nt.Obj().Name(), nt: nt, fo: fo, fn: fn, gen: gen, pk: pk}
				decs = append(decs, x)
				byNamed[nt] = x
			}
		}
	}
	isNestedUnmarshal := func(in ssa.Instruction) (*ssa.Call, *types.Func) {
		call, ok := in.(*ssa.Call)
		if !ok {
			return nil, nil
		}
		f := calleeOf(call.Common())
		if f == nil || f.Name() != "UnmarshalMsgWithState" {
			return nil, nil
		}
		return call, f
	}

	// ---------------- R41.1 allocation sites ----------------
	unboundedTypes := map[*types.Named]bool{}
	seenTable := map[string]bool{}
	dirCache := map[*packages.Package]map[string]struct {
		Bounds []string
		Pos    token.Pos
	}{}
	for _, d := range decs {
		c.NoteFn(d.name + ".UnmarshalMsgWithState")
		sites := hAllocSites(d.fn, m.Msgp)
		c.NoteSites(len(sites))
		for _, s := range sites {
			construct := d.name + ".UnmarshalMsgWithState:" + s.Kind + "(" + s.Dest + ")"
			pos := c.Pos(s.Instr.Pos())
			if s.Problem != "" {
				c.Unk("R41.1", construct, pos, s.Problem)
				continue
			}
			// declared bound of the destination, when it is a field or the receiver
			declText, declPos, declPkg := "", token.NoPos, (*types.Package)(nil)
			fld, depth := s.LastField()
			switch {
			case fld != nil && s.DestRoot != nil:
				if owner := hFieldOwnerTag(fld); owner != nil {
					var all []string
					for _, b := range owner {
						all = append(all, strings.Split(b, ",")...)
					}
					if depth < len(all) {
						declText, declPos, declPkg = all[depth], hBodyPos(d.fn), d.pk.Types
					}
				}
			case fld == nil && s.IsRecvDest():
				dirs, ok := dirCache[d.pk]
				if !ok {
					dirs = hAllocDirectives(d.pk)
					dirCache[d.pk] = dirs
				}
				if dd, ok := dirs[d.nt.Obj().Name()]; ok && depth < len(dd.Bounds) {
					declText, declPos, declPkg = dd.Bounds[depth], hBodyPos(d.fn), d.pk.Types
				}
			}
			isMake := s.Kind == "make-slice" || s.Kind == "make-map"
			if declText == "" && isMake {
				// the made value's own named type may carry a //msgp:allocbound directive
				if nt, ok := types.Unalias(s.Instr.(ssa.Value).Type()).(*types.Named); ok && nt.Obj().Pkg() != nil {
					if tp := c.ByPath[nt.Obj().Pkg().Path()]; tp != nil {
						dirs, ok := dirCache[tp]
						if !ok {
							dirs = hAllocDirectives(tp)
							dirCache[tp] = dirs
						}
						if dd, ok := dirs[nt.Obj().Name()]; ok && len(dd.Bounds) > 0 {
							if g := m.ByName[relPkg(tp.PkgPath)+"."+nt.Obj().Name()]; g != nil && g.Unmarshal != nil {
								if gfn := c.SSAOf(g.Unmarshal); gfn != nil {
									declText, declPos, declPkg = dd.Bounds[0], hBodyPos(gfn), tp.Types
								}
							}
						}
					}
				}
			}
			switch {
			case s.Bounded:
				if declText == "" || declText == "-" {
					if declText == "-" {
						c.Bad("R41.1", construct, pos, "declared allocbound is '-' but the generated code tests a bound: generated code is stale with respect to the tag")
					} else {
						c.Ok("R41.1", construct, pos, "allocation is unreachable unless count <= "+describe(s.Bound)+" (no declaration located for this destination)")
					}
					continue
				}
				val, obj, err := hEvalBound(c.Fset, declPkg, declPos, declText)
				if err != nil {
					c.Unk("R41.1", construct, pos, "declared bound "+declText+" cannot be evaluated: "+err.Error())
					continue
				}
				c.Check(hSameBound(s.Bound, val, obj), "R41.1", construct, pos, "the bound tested before the allocation ("+describe(s.Bound)+") must equal the declared allocbound "+declText)
			case isMake:
				key := d.name + ":" + s.Dest
				reason, tabled := hUnboundedSites[key]
				if s.Size == nil {
					c.Unk("R41.1", construct, pos, "size not traced")
					continue
				}
				unboundedTypes[d.nt] = true
				if tabled && declText == "-" {
					seenTable[key] = true
					c.Ok("R41.1", construct, pos, "reviewed unbounded site (allocbound=-): "+reason)
				} else if tabled {
					c.Bad("R41.1", construct, pos, "site is in the unbounded table but its declared bound is "+fmt.Sprintf("%q", declText)+", and no bound test dominates the allocation")
				} else {
					c.Bad("R41.1", construct, pos, "make sized by the decoded header count is reachable without passing any `count <= bound` test (declared allocbound "+fmt.Sprintf("%q", declText)+"); an oversized length prefix allocates unbounded memory. If the type is never decoded from untrusted input it needs review and a table entry")
				}
			default:
				// bytes/string: bounded by the remaining input; a declared bound must be enforced
				if declText != "" && declText != "-" {
					c.Bad("R41.1", construct, pos, "declared allocbound "+declText+" is not enforced: no `len <= bound` test on msgp.ReadBytesBytesHeader dominates the read")
				} else {
					c.Ok("R41.1", construct, pos, "no declared bound; allocation limited by the remaining input length")
				}
			}
		}
	}

	// ---------------- R41.2 who decodes the unbounded types ----------------
	// containment through nested decoder calls
	reach := map[*types.Named]map[*types.Named]bool{}
	for _, d := range decs {
		reach[d.nt] = map[*types.Named]bool{}
		for _, b := range d.fn.Blocks {
			for _, in := range b.Instrs {
				if _, f := isNestedUnmarshal(in); f != nil {
					if nt := hRecvNamed(f); nt != nil {
						reach[d.nt][nt.Origin()] = true
					}
				}
			}
		}
	}
	tainted := map[*types.Named]bool{}
	for nt := range unboundedTypes {
		tainted[nt] = true
	}
	for changed := true; changed; {
		changed = false
		for a, succ := range reach {
			if tainted[a] {
				continue
			}
			for b := range succ {
				if tainted[b] {
					tainted[a] = true
					changed = true
					break
				}
			}
		}
	}
	decodeFns := []*types.Func{c.Func("protocol.Decode"), c.Func("protocol.DecodeMsgp"), c.Func("protocol.MsgpDecoderBytes.Decode")}
	unmarshalMsg := hIfaceMethod(unm, "UnmarshalMsg")
	unmarshalWS := hIfaceMethod(unm, "UnmarshalMsgWithState")
	taintedOwners := map[string]string{
		"agreement.decode":                  "crash-recovery state read back from the node's own crash database",
		"data/account.RestoreParticipation": "participation keys from the node's own key database",
		"data/account.scanRecords":          "participation registry rows from the node's own database",
		"ledger/store/trackerdb/sqlitedriver.accountsV2Reader.LoadTxTail": "tx-tail rows of the node's own tracker database",
		"ledger/store/trackerdb/generickv.accountsReader.LoadTxTail":      "tx-tail rows of the node's own tracker database (KV backend)",
	}
	type hit struct {
		fn   string
		what string
		pos  token.Pos
	}
	var hits, genericSites []hit
	generic := 0
	c.scanFiles(ScanOpts{SkipGenerated: true, SkipPkgs: []string{"test/...", "tools/...", "cmd/..."}}, func(pk *packages.Package, f *ast.File, gen bool) {
		info := pk.TypesInfo
		ast.Inspect(f, func(n ast.Node) bool {
			call, ok := n.(*ast.CallExpr)
			if !ok {
				return true
			}
			var target ast.Expr
			switch fx := ast.Unparen(call.Fun).(type) {
			case *ast.SelectorExpr:
				fo, _ := info.Uses[fx.Sel].(*types.Func)
				if fo == nil {
					return true
				}
				switch {
				case inFuncs(fo, decodeFns) && len(call.Args) >= 1:
					target = call.Args[len(call.Args)-1]
				case fo.Name() == "UnmarshalMsg" || fo.Name() == "UnmarshalMsgWithState":
					if sameFunc(fo, unmarshalMsg) || sameFunc(fo, unmarshalWS) || hImplementsMethod(fo, unm) {
						target = fx.X
					}
				}
			case *ast.Ident:
				fo, _ := info.Uses[fx].(*types.Func)
				if fo != nil && inFuncs(fo, decodeFns) && len(call.Args) >= 1 {
					target = call.Args[len(call.Args)-1]
				}
			}
			if target == nil {
				return true
			}
			tv, ok := info.Types[target]
			if !ok {
				return true
			}
			nt := hNamedOf(tv.Type)
			if nt == nil || types.IsInterface(tv.Type) {
				generic++
				genericSites = append(genericSites, hit{enclosingFuncName(pk, f, call), types.TypeString(tv.Type, func(p *types.Package) string { return p.Name() }), call.Pos()})
				return true
			}
			if tainted[nt.Origin()] {
				hits = append(hits, hit{enclosingFuncName(pk, f, call), nt.Obj().Name(), call.Pos()})
			}
			return true
		})
	})
	sort.Slice(hits, func(i, j int) bool { return hits[i].fn+hits[i].what < hits[j].fn+hits[j].what })
	for _, h := range hits {
		reason, ok := taintedOwners[h.fn]
		if ok {
			c.Ok("R41.2", "decode("+h.what+")@"+h.fn, c.Pos(h.pos), "reviewed reader of an unbounded type: "+reason)
		} else {
			c.Bad("R41.2", "decode("+h.what+")@"+h.fn, c.Pos(h.pos), "type "+h.what+" contains an allocation without a bound test (allocbound=-) and is decoded in "+h.fn+", which is not one of the reviewed local-database readers; if the bytes can come from the network an oversized length prefix exhausts memory. New instance needs review")
		}
	}
	if len(hits) == 0 {
		c.Unk("R41.2", "decode sites", "-", "no decode site of any unbounded type found: the rule no longer sees its sites")
	}
	// decode calls whose target is only known as an interface: the concrete type
	// is chosen by the caller, so each such forwarder is reviewed by name
	genericOwners := map[string]string{
		"protocol.Decode":                  "decode entry point; its callers are the decode sites scanned above",
		"protocol.DecodeMsgp":              "decode entry point; its callers are the decode sites scanned above",
		"protocol.MsgpDecoderBytes.Decode": "decode entry point; its callers are the decode sites scanned above",
		"protocol.EncodingTest":            "round-trip test helper of codec_tester.go, decodes bytes it has just encoded itself",
	}
	sort.Slice(genericSites, func(i, j int) bool { return genericSites[i].fn < genericSites[j].fn })
	for _, h := range genericSites {
		reason, ok := genericOwners[h.fn]
		if ok {
			c.Ok("R41.2", "decode(<"+h.what+">)@"+h.fn, c.Pos(h.pos), "reviewed generic decoder: "+reason)
		} else {
			c.Bad("R41.2", "decode(<"+h.what+">)@"+h.fn, c.Pos(h.pos), "decodes into a target known only as "+h.what+": the rule cannot see which concrete types reach this call; new instance needs review (an unbounded type must not be decoded here from untrusted bytes)")
		}
	}
	var tnames []string
	for nt := range tainted {
		tnames = append(tnames, relPkg(nt.Obj().Pkg().Path())+"."+nt.Obj().Name())
	}
	sort.Strings(tnames)
	c.Ok("R41.2", "unbounded-type closure", "-", fmt.Sprintf("%d types reach a reviewed unbounded site: %s; %d decode calls have interface-typed targets (tabled above)", len(tnames), strings.Join(tnames, " "), generic))

	// ---------------- R41.3 depth limit ----------------
	for _, d := range decs {
		fn := d.fn
		construct := d.name + ".UnmarshalMsgWithState"
		pos := c.Pos(fn.Pos())
		if len(fn.Params) != 3 {
			c.Unk("R41.3", construct, pos, "unexpected signature")
			continue
		}
		stParam := fn.Params[2]
		var nested []*ssa.Call
		var effects []ssa.Instruction
		for _, b := range fn.Blocks {
			for _, in := range b.Instrs {
				if call, _ := isNestedUnmarshal(in); call != nil {
					nested = append(nested, call)
					effects = append(effects, in)
					continue
				}
				if call, ok := in.(*ssa.Call); ok {
					if f := calleeOf(call.Common()); f != nil && f.Pkg() == m.Msgp && strings.HasPrefix(f.Name(), "Read") {
						effects = append(effects, in)
					}
				}
			}
		}
		// pure forwarder: one nested call with the unchanged state, nothing else
		if len(nested) == 1 && len(effects) == 1 {
			args := nested[0].Common().Args
			if len(args) == 3 && args[2] == ssa.Value(stParam) {
				c.Ok("R41.3", construct+":forwards", pos, "forwards to "+funcObjName(calleeOf(nested[0].Common()))+" with the caller's state; the callee enforces the depth limit")
				continue
			}
		}
		if len(effects) == 0 {
			c.Ok("R41.3", construct+":no-input-read", pos, "reads nothing")
			continue
		}
		c.MustGuard(MustGuardSpec{Rule: "R41.3", Fn: fn, Effects: effects, EffName: "read/recursion",
			Guards: []Guard{GCmp("st.AllowableDepth != 0", token.NEQ, M(depthF), IsConstInt(0))}})
		if len(nested) == 0 {
			continue
		}
		// the spilled state and its decrement
		var stAlloc *ssa.Alloc
		for _, r := range *stParam.Referrers() {
			if st, ok := r.(*ssa.Store); ok && st.Val == ssa.Value(stParam) {
				stAlloc, _ = st.Addr.(*ssa.Alloc)
			}
		}
		var decr []ssa.Instruction
		if stAlloc != nil {
			for _, b := range fn.Blocks {
				for _, in := range b.Instrs {
					st, ok := in.(*ssa.Store)
					if !ok {
						continue
					}
					fa, ok := st.Addr.(*ssa.FieldAddr)
					if !ok || fa.X != ssa.Value(stAlloc) || structField(fa.X.Type(), fa.Field) != depthF {
						continue
					}
					bo, ok := st.Val.(*ssa.BinOp)
					if ok && bo.Op == token.SUB && IsConstInt(1)(bo.Y) && Mentions(bo.X, depthF, 3) {
						decr = append(decr, in)
					} else {
						decr = nil
						c.Bad("R41.3", construct+":depth-store", c.Pos(in.Pos()), "st.AllowableDepth is assigned something other than itself minus one")
					}
				}
			}
		}
		ok := len(decr) > 0
		why := ""
		if !ok {
			why = "no `st.AllowableDepth--` found"
		}
		for _, call := range nested {
			args := call.Common().Args
			u, isLoad := args[len(args)-1].(*ssa.UnOp)
			if !isLoad || u.Op != token.MUL || stAlloc == nil || u.X != ssa.Value(stAlloc) {
				ok = false
				why = "nested call at line " + fmt.Sprint(c.Fset.Position(call.Pos()).Line) + " does not pass the function's own (decremented) state"
				break
			}
			dom := false
			for _, dcr := range decr {
				if Dominates(dcr, call) {
					dom = true
				}
			}
			if !dom {
				ok = false
				why = "nested call at line " + fmt.Sprint(c.Fset.Position(call.Pos()).Line) + " is not dominated by the decrement of st.AllowableDepth"
				break
			}
		}
		c.Check(ok, "R41.3", construct+":decrement-before-recursion", pos, fmt.Sprintf("all %d nested UnmarshalMsgWithState calls receive the state after st.AllowableDepth-- %s", len(nested), why))
	}
	{
		// DefaultUnmarshalState.AllowableDepth is set to a positive constant by protocol.init
		dus, _ := m.Msgp.Scope().Lookup("DefaultUnmarshalState").(*types.Var)
		found := false
		for _, fn := range c.funcsOf(Mod + "/protocol") {
			for _, b := range fn.Blocks {
				for _, in := range b.Instrs {
					st, ok := in.(*ssa.Store)
					if !ok {
						continue
					}
					fa, ok := st.Addr.(*ssa.FieldAddr)
					if !ok || structField(fa.X.Type(), fa.Field) != depthF {
						continue
					}
					g, ok := fa.X.(*ssa.Global)
					if !ok || dus == nil || g.Object() != types.Object(dus) {
						continue
					}
					found = true
					k, isK := st.Val.(*ssa.Const)
					pos := isK && k.Value != nil && k.Uint64() > 0 && k.Uint64() <= 10000
					c.Check(pos, "R41.3", "protocol.init:DefaultUnmarshalState.AllowableDepth", c.Pos(st.Pos()), "the default decoding depth is a positive constant (a zero default would reject everything, a huge one defeats the stack bound); found "+describe(st.Val))
				}
			}
		}
		if !found {
			c.Bad("R41.3", "protocol.init:DefaultUnmarshalState.AllowableDepth", "-", "package protocol no longer sets msgp.DefaultUnmarshalState.AllowableDepth")
		}
	}

	// ---------------- R41.4 panic guard and entry points ----------------
	hCheckDecodeEntry(c, m, unm)

	hDebugDump(c)
}

// hBodyPos is a position inside the body of fn (for scope lookups: the
// generated file's imports are what the tag text refers to).
func hBodyPos(fn *ssa.Function) token.Pos {
	if fd, ok := fn.Syntax().(*ast.FuncDecl); ok && fd.Body != nil {
		return fd.Body.Lbrace + 1
	}
	return fn.Pos()
}

// hFieldOwnerTag returns the allocbound parts of the codec tag of a field var.
func hFieldOwnerTag(f *types.Var) []string {
	// find the struct declaring f: search the package scope's named types
	if f.Pkg() == nil {
		return nil
	}
	var tag string
	found := false
	var visit func(t types.Type, depth int)
	seen := map[types.Type]bool{}
	visit = func(t types.Type, depth int) {
		if found || depth > 6 || seen[t] {
			return
		}
		seen[t] = true
		switch u := t.Underlying().(type) {
		case *types.Struct:
			for i := 0; i < u.NumFields(); i++ {
				if u.Field(i) == f {
					tag = u.Tag(i)
					found = true
					return
				}
			}
			for i := 0; i < u.NumFields(); i++ {
				visit(u.Field(i).Type(), depth+1)
			}
		case *types.Pointer:
			visit(u.Elem(), depth+1)
		case *types.Slice:
			visit(u.Elem(), depth+1)
		case *types.Array:
			visit(u.Elem(), depth+1)
		case *types.Map:
			visit(u.Elem(), depth+1)
		}
	}
	sc := f.Pkg().Scope()
	for _, n := range sc.Names() {
		if tn, ok := sc.Lookup(n).(*types.TypeName); ok {
			visit(tn.Type(), 0)
			if found {
				break
			}
		}
	}
	if !found {
		return nil
	}
	parts := strings.Split(hStructTag(tag), ",")
	var out []string
	for _, p := range parts[1:] {
		if strings.HasPrefix(p, "allocbound=") {
			out = append(out, strings.SplitN(p, "=", 2)[1])
		}
	}
	return out
}

func hIfaceMethod(it *types.Interface, name string) *types.Func {
	for i := 0; i < it.NumMethods(); i++ {
		if it.Method(i).Name() == name {
			return it.Method(i)
		}
	}
	return nil
}

// hImplementsMethod: fo is the method of a concrete type that implements it.
func hImplementsMethod(fo *types.Func, it *types.Interface) bool {
	nt := hRecvNamed(fo)
	return nt != nil && types.Implements(types.NewPointer(nt), it)
}

func hCheckDecodeEntry(c *Ctx, m *HMsgp, unm *types.Interface) {
	dm := c.Fn("protocol.DecodeMsgp")
	unmarshalMsg := hIfaceMethod(unm, "UnmarshalMsg")
	canUnmarshal := hIfaceMethod(unm, "CanUnmarshalMsg")
	calls := CallsTo(dm, false, unmarshalMsg)
	if len(calls) == 0 {
		c.Unk("R41.4", "protocol.DecodeMsgp:UnmarshalMsg", c.Pos(dm.Pos()), "no objptr.UnmarshalMsg call found")
	}
	// the deferred recover
	var defers []*ssa.Defer
	for _, b := range dm.Blocks {
		for _, in := range b.Instrs {
			if d, ok := in.(*ssa.Defer); ok {
				defers = append(defers, d)
			}
		}
	}
	var guard *ssa.Defer
	why := "no deferred function"
	for _, d := range defers {
		mc, ok := d.Call.Value.(*ssa.MakeClosure)
		if !ok {
			why = "deferred call is not a function literal"
			continue
		}
		lit := mc.Fn.(*ssa.Function)
		// recover() result tested non-nil and an error stored through a captured variable
		var rec ssa.Value
		for _, b := range lit.Blocks {
			for _, in := range b.Instrs {
				if cc, ok := isBuiltinCall(in, "recover"); ok {
					_ = cc
					rec = in.(ssa.Value)
				}
			}
		}
		if rec == nil {
			why = "deferred function does not call recover()"
			continue
		}
		var stores []ssa.Instruction
		for _, b := range lit.Blocks {
			for _, in := range b.Instrs {
				st, ok := in.(*ssa.Store)
				if !ok {
					continue
				}
				fv, ok := st.Addr.(*ssa.FreeVar)
				if !ok || !isErrorType(fv.Type().(*types.Pointer).Elem()) {
					continue
				}
				if definitelyNonNil(st.Val, b, 0) {
					stores = append(stores, in)
				}
			}
		}
		if len(stores) == 0 {
			why = "deferred function recovers but never stores a non-nil error into the named result"
			continue
		}
		// the captured variable must be DecodeMsgp's error result
		okBind := false
		for i, fv := range lit.FreeVars {
			if isErrorType(fv.Type().(*types.Pointer).Elem()) {
				if a, ok := mc.Bindings[i].(*ssa.Alloc); ok {
					for _, b := range dm.Blocks {
						if ret, ok := b.Instrs[len(b.Instrs)-1].(*ssa.Return); ok {
							for _, rv := range ret.Results {
								if u, ok := rv.(*ssa.UnOp); ok && u.X == ssa.Value(a) {
									okBind = true
								}
							}
						}
					}
					// with a recover, SSA returns through the recover block which loads the named result
					if dm.Recover != nil {
						for _, in := range dm.Recover.Instrs {
							if u, ok := in.(*ssa.UnOp); ok && u.X == ssa.Value(a) {
								okBind = true
							}
						}
					}
				}
			}
		}
		if !okBind {
			why = "the error stored by the deferred function is not DecodeMsgp's result"
			continue
		}
		// the store happens only when recover() != nil: require the guard, not its absence
		g := GCmp("recover() != nil", token.NEQ, IsV(rec), IsNil)
		edges, n := PassEdges(lit, g)
		if n == 0 {
			why = "recover() result is not tested"
			continue
		}
		r := NewReach(lit, edges, nil)
		reach := false
		for _, s := range stores {
			if r.Reaches(s) {
				reach = true
			}
		}
		if reach {
			why = "error is stored even when nothing was recovered"
			continue
		}
		guard = d
	}
	if guard == nil {
		c.Bad("R41.4", "protocol.DecodeMsgp:deferred-recover", c.Pos(dm.Pos()), "DecodeMsgp must convert a panic of generated decoding code into an error: "+why)
	} else {
		ok := true
		for _, call := range calls {
			if !Dominates(guard, call) {
				ok = false
			}
		}
		c.Check(ok && len(calls) > 0, "R41.4", "protocol.DecodeMsgp:deferred-recover", c.Pos(guard.Pos()), "the recover guard is installed before every objptr.UnmarshalMsg call")
	}
	// UnmarshalMsg's error is returned
	{
		ok := len(calls) > 0
		for _, call := range calls {
			errV := func(v ssa.Value) bool {
				e, isE := hResolveLoadsLocal(v).(*ssa.Extract)
				return isE && e.Tuple == call.Value() && e.Index == 1
			}
			edges, n := PassEdges(dm, GErrNil("UnmarshalMsg err == nil", errV))
			if n == 0 {
				ok = false
				continue
			}
			r := NewReach(dm, edges, nil)
			nret := 0
			for _, b := range dm.Blocks {
				ret, isRet := b.Instrs[len(b.Instrs)-1].(*ssa.Return)
				if !isRet || !r.Reaches(ret) || !Dominates(call.(ssa.Instruction), ret) {
					continue
				}
				nret++
				if !errV(ret.Results[0]) {
					ok = false
				}
			}
			if nret == 0 {
				ok = false
			}
		}
		c.Check(ok, "R41.4", "protocol.DecodeMsgp:returns UnmarshalMsg error", c.Pos(dm.Pos()), "when UnmarshalMsg reports an error, DecodeMsgp returns that error")
	}
	// Decode: the generated decoder is entered only via DecodeMsgp
	dec := c.Fn("protocol.Decode")
	direct := CallsTo(dec, false, unmarshalMsg)
	c.Check(len(direct) == 0, "R41.4", "protocol.Decode:no direct UnmarshalMsg", c.Pos(dec.Pos()), "Decode does not call UnmarshalMsg outside the recover guard")
	dmCalls := CallsTo(dec, false, c.Func("protocol.DecodeMsgp"))
	if len(dmCalls) == 0 {
		c.Bad("R41.4", "protocol.Decode:DecodeMsgp", c.Pos(dec.Pos()), "Decode no longer calls DecodeMsgp")
	} else {
		c.MustGuard(MustGuardSpec{Rule: "R41.4", Fn: dec, Effects: asInstrs(CallsTo(dec, false, c.Func("protocol.DecodeReflect"))), EffName: "DecodeReflect(b,objptr)",
			Guards: []Guard{GBool("!objptr.CanUnmarshalMsg(objptr)", ResultOf(0, canUnmarshal), false)}})
	}
	// direct callers of UnmarshalMsg* in hand-written code
	var targets []*types.Func
	targets = append(targets, unmarshalMsg, hIfaceMethod(unm, "UnmarshalMsgWithState"))
	for _, pk := range c.sortedPkgs() {
		sc := pk.Types.Scope()
		for _, n := range sc.Names() {
			tn, ok := sc.Lookup(n).(*types.TypeName)
			if !ok {
				continue
			}
			nt, ok := tn.Type().(*types.Named)
			if !ok || !types.Implements(types.NewPointer(nt), unm) {
				continue
			}
			for i := 0; i < nt.NumMethods(); i++ {
				if mm := nt.Method(i); mm.Name() == "UnmarshalMsg" || mm.Name() == "UnmarshalMsgWithState" {
					targets = append(targets, mm)
				}
			}
		}
	}
	c.OwnerRule("R41.4", "call(UnmarshalMsg*)", c.Uses(targets, ScanOpts{SkipGenerated: true, SkipPkgs: []string{"test/...", "tools/...", "cmd/..."}}), map[string]string{
		"protocol.DecodeMsgp":                 "under the recover guard",
		"protocol.MsgpDecoderBytes.Decode":    "streaming decoder used for transaction groups; generated code returns errors, see R41.1/R41.3",
		"data/basics.MicroAlgos.UnmarshalMsg": "hand-written codec forwarding to its own UnmarshalMsgWithState",
		"network.readPeerMetaHeaders":         "fixed-size peer meta header, peerMetaHeaders has allocbound directives",
	})
}
