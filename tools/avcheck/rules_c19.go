package main

import (
	"fmt"
	"go/token"
	"go/types"
	"sort"

	"golang.org/x/tools/go/ssa"
)

func init() {
	register(&Prop{
		ID:       "C19",
		Patterns: []string{"./ledger/eval"},
		Run:      runC19,
		Explanation: "Decides the copy-on-write shape that makes a transaction group all-or-nothing in BlockEvaluator.TransactionGroup and in the per-application child used by roundCowState.StatefulEval: " +
			"R19.1 in TransactionGroup every persistent effect (a store, map update or delete/clear/copy rooted at the evaluator other than the corruptedState flag, a call of commitToParent, a call of an evaluator method that has such effects) can only be followed by returns of a literal nil error; no function literal of TransactionGroup writes evaluator state other than corruptedState; no evaluator method called before the commit (transaction, applyTransaction, checkMinBalance, … found through static calls) writes evaluator state at all. " +
			"R19.2 commitToParent is called only by TransactionGroup and StatefulEval; in TransactionGroup no effect is reachable from the failing branch of eval.transaction(); in StatefulEval the commit is dominated by EvalApp's err==nil and pass==true and is followed only by nil-error returns. " +
			"R19.3 the group is evaluated on the child: inside TransactionGroup and the evaluator methods it calls, BlockEvaluator.state is read only to call child() (or a pure getter) on it; every *roundCowState argument passed by TransactionGroup is the result of child(); StatefulEval hands only the child (or nil) to EvalParams.Ledger/SigLedger; roundCowState.commitParent is read only by commitToParent and CalculateTotals and child() sets it to its receiver. " +
			"R19.4 a discarded child cannot leak into a later group through the sync.Pool: reset() of roundCowState, StateDelta.Reset and AccountDeltas.reset unconditionally clear every field of their struct (field-set agreement, one obligation per field), recycle() resets before Put, and childPool is used only by child()/recycle(). " +
			"R19.5 the corrupted-state guard: child() and every effect in TransactionGroup, endOfBlock in GenerateBlock and testTransaction in TestTransactionGroup are dominated by corruptedState==false; the deferred recover literal sets corruptedState only under recover()!=nil && committing, is deferred before child(), `committing = true` dominates every effect and is never reset; corruptedState has no other writer. " +
			"Does NOT decide: that the functions handed the child (apply.*, logic.EvalApp, inner transactions) write only through the Balances value they are given; effects of EvalTracer hooks; that commitToParent itself cannot panic half-way (R19.5 only decides that such a panic poisons the evaluator).",
		Assumptions: []string{"*roundCowState values are not aliased through unsafe/reflection", "sync.Pool returns only objects previously Put or made by New"},
		Floor:       map[string]int{"R19.1": 6, "R19.2": 6, "R19.3": 14, "R19.4": 30, "R19.5": 9},
	})
}

// c19Effects summarises, per evaluator method, the instructions that write
// memory rooted at the method's *BlockEvaluator receiver.
type c19Effects struct {
	c          *Ctx
	evalT      *types.Named
	commit     *types.Func
	fCorrupted *types.Var
	memo       map[*ssa.Function][]ssa.Instruction
	busy       map[*ssa.Function]bool
}

func (e *c19Effects) isEvalMethod(sf *ssa.Function) bool {
	if sf == nil || sf.Signature.Recv() == nil {
		return false
	}
	t := sf.Signature.Recv().Type()
	if p, ok := t.(*types.Pointer); ok {
		t = p.Elem()
	}
	nt, ok := types.Unalias(t).(*types.Named)
	return ok && nt.Origin() == e.evalT.Origin()
}

// evalCallsOnRecv lists the static calls in fn (one SSA function) to
// evaluator methods whose receiver is the evaluator of the enclosing method.
func (e *c19Effects) evalCallsOnRecv(fn *ssa.Function) []ssa.CallInstruction {
	recv := dRecv(fn)
	var out []ssa.CallInstruction
	for _, b := range fn.Blocks {
		for _, in := range b.Instrs {
			ci, ok := in.(ssa.CallInstruction)
			if !ok {
				continue
			}
			sf := ci.Common().StaticCallee()
			if !e.isEvalMethod(sf) || len(ci.Common().Args) == 0 {
				continue
			}
			if r, f := dAddrPath(ci.Common().Args[0]); r == ssa.Value(recv) && len(f) == 0 {
				out = append(out, ci)
			}
		}
	}
	return out
}

// own returns the effect instructions of one SSA function body (not nested
// literals): writes rooted at the evaluator (except corruptedState), commits,
// and calls of effectful evaluator methods.
func (e *c19Effects) own(fn *ssa.Function) []ssa.Instruction {
	recv := dRecv(fn)
	var out []ssa.Instruction
	if recv != nil && e.isEvalMethod(topFn(fn)) {
		for _, w := range dWrites(fn) {
			if w.Root != ssa.Value(recv) {
				continue
			}
			if len(w.Fields) == 1 && w.Fields[0] == e.fCorrupted {
				continue
			}
			out = append(out, w.Instr)
		}
		for _, ci := range e.evalCallsOnRecv(fn) {
			if len(e.all(ci.Common().StaticCallee())) > 0 {
				out = append(out, ci)
			}
		}
	}
	out = append(out, asInstrs(CallsTo(fn, false, e.commit))...)
	return out
}

// all returns the effects of a declared method including its literals.
func (e *c19Effects) all(fn *ssa.Function) []ssa.Instruction {
	if fn == nil || fn.Blocks == nil {
		return nil
	}
	if r, ok := e.memo[fn]; ok {
		return r
	}
	if e.busy[fn] {
		return nil
	}
	e.busy[fn] = true
	var out []ssa.Instruction
	for _, f := range withAnon(fn) {
		out = append(out, e.own(f)...)
	}
	e.busy[fn] = false
	e.memo[fn] = out
	return out
}

func (e *c19Effects) describe(in ssa.Instruction) string {
	switch x := in.(type) {
	case *ssa.Store:
		_, f := dAddrPath(x.Addr)
		return "store to eval." + dFieldPathString(f)
	case *ssa.MapUpdate:
		_, f := dAddrPath(x.Map)
		return "map update of eval." + dFieldPathString(f)
	case ssa.CallInstruction:
		if f := calleeOf(x.Common()); f != nil {
			return "call of " + funcObjName(f)
		}
		if b, ok := x.Common().Value.(*ssa.Builtin); ok {
			return b.Name() + "() on evaluator state"
		}
	}
	return in.String()
}

func runC19(c *Ctx) {
	const P = "ledger/eval."
	tg := c.Fn(P + "BlockEvaluator.TransactionGroup")
	se := c.Fn(P + "roundCowState.StatefulEval")
	evalT := c.Named(P + "BlockEvaluator")
	cowT := c.Named(P + "roundCowState")
	fCorrupted := c.Field(P + "BlockEvaluator.corruptedState")
	fState := c.Field(P + "BlockEvaluator.state")
	commit := c.Func(P + "roundCowState.commitToParent")
	child := c.Func(P + "roundCowState.child")
	reset := c.Func(P + "roundCowState.reset")
	transaction := c.Func(P + "BlockEvaluator.transaction")
	evalApp := c.Func("data/transactions/logic.EvalApp")
	pkgFns := c.funcsOf(Mod + "/ledger/eval")

	eff := &c19Effects{c: c, evalT: evalT, commit: commit, fCorrupted: fCorrupted, memo: map[*ssa.Function][]ssa.Instruction{}, busy: map[*ssa.Function]bool{}}

	// ---- R19.1: effects only where no error can follow; nothing before the commit point ----
	tgEffects := eff.own(tg)
	{
		// evaluator methods TransactionGroup (and its literals) call on the same evaluator, transitively
		pre := map[*ssa.Function]bool{}
		var order []*ssa.Function
		var walk func(fn *ssa.Function)
		walk = func(fn *ssa.Function) {
			for _, f := range withAnon(fn) {
				for _, ci := range eff.evalCallsOnRecv(f) {
					sf := ci.Common().StaticCallee()
					if sf == nil || sf.Blocks == nil || pre[sf] || sf == tg {
						continue
					}
					pre[sf] = true
					order = append(order, sf)
					walk(sf)
				}
			}
		}
		walk(tg)
		sort.Slice(order, func(i, j int) bool { return fnName(order[i]) < fnName(order[j]) })
		direct := map[*ssa.Function]bool{}
		for _, ci := range eff.evalCallsOnRecv(tg) {
			direct[ci.Common().StaticCallee()] = true
		}
		for _, m := range order {
			construct := fnName(m) + ":no evaluator write before the group commits"
			es := eff.all(m)
			switch {
			case len(es) == 0:
				c.Ok("R19.1", construct, c.Pos(m.Pos()), "called by TransactionGroup on the same evaluator; writes nothing rooted at the evaluator and never commits")
			case direct[m] && errResultIndex(m) < 0:
				c.Ok("R19.1", construct, c.Pos(m.Pos()), "commit helper without error result: its call sites in TransactionGroup are treated as effects")
			default:
				c.Bad("R19.1", construct, c.Pos(es[0].Pos()), fmt.Sprintf("%s is called while a group is still being tried, but performs %s (%s): if a later member fails the evaluator keeps that change", fnName(m), eff.describe(es[0]), c.Pos(es[0].Pos())))
			}
		}
		// function literals of TransactionGroup (deferred hooks) may only set corruptedState
		litOK := true
		for _, lit := range withAnon(tg)[1:] {
			for _, in := range eff.own(lit) {
				litOK = false
				c.Bad("R19.1", fnName(tg)+":literals write only corruptedState", c.Pos(in.Pos()), fmt.Sprintf("function literal %s performs %s; deferred code runs on the error paths too", fnName(lit), eff.describe(in)))
				break
			}
			if !litOK {
				break
			}
		}
		if litOK {
			c.Ok("R19.1", fnName(tg)+":literals write only corruptedState", c.Pos(tg.Pos()), itoa(len(withAnon(tg))-1)+" function literal(s) inspected")
		}
		c.dNoErrorAfter("R19.1", fnName(tg)+":no error return after a persistent effect", tg, tgEffects, "persistent effect (evaluator store / commitToParent)")
	}

	// ---- R19.2: who commits, and only on success ----
	{
		owners := map[string]string{
			"ledger/eval.BlockEvaluator.TransactionGroup": "group commit, last statement",
			"ledger/eval.roundCowState.StatefulEval":      "application child, after approval",
		}
		sites := c.Uses([]*types.Func{commit}, ScanOpts{SkipGenerated: true})
		// a commit helper: an evaluator method without error result that only TransactionGroup calls
		// (its call sites are effects of TransactionGroup for R19.1/R19.5)
		for _, s := range sites {
			if _, ok := owners[s.Func]; ok || s.Kind != "call" {
				continue
			}
			hf, _ := c.TryObj(s.Func).(*types.Func)
			h := c.SSAOf(hf)
			if h == nil || !eff.isEvalMethod(h) || errResultIndex(h) >= 0 {
				continue
			}
			onlyTG := true
			n := 0
			for _, u := range c.Uses([]*types.Func{hf}, ScanOpts{SkipGenerated: true}) {
				n++
				if u.Kind != "call" || u.Func != "ledger/eval.BlockEvaluator.TransactionGroup" {
					onlyTG = false
				}
			}
			if onlyTG && n > 0 {
				owners[s.Func] = "commit helper without error result, called only by TransactionGroup"
			}
		}
		c.OwnerRule("R19.2", "call(roundCowState.commitToParent)", sites, owners)
	}
	c.dAfterFailNever("R19.2", tg, GErrNil("eval.transaction() err==nil", dResultVia(0, transaction)), tgEffects, "persistent effect")
	{
		commits := asInstrs(CallsTo(se, false, commit))
		c.dMustGuard(dGuardSpec{Rule: "R19.2", Fn: se, Effects: commits, EffName: "calf.commitToParent()", Guards: []Guard{
			GErrNil("logic.EvalApp err==nil", dResultVia(1, evalApp)),
			GBool("pass", dResultVia(0, evalApp), true),
		}})
		c.dNoErrorAfter("R19.2", fnName(se)+":no error return after commitToParent", se, commits, "calf.commitToParent()")
	}

	// ---- R19.3: the group runs on the child ----
	{
		pure := map[string]bool{}
		for _, s := range []string{"Round", "Counter", "PrevTimestamp", "rewardsLevel", "ConsensusParams"} {
			pure[funcObjName(c.Func(P+"roundCowState."+s))] = true
		}
		var scope []*ssa.Function
		scope = append(scope, tg)
		seen := map[*ssa.Function]bool{tg: true}
		for i := 0; i < len(scope); i++ {
			for _, f := range withAnon(scope[i]) {
				for _, ci := range eff.evalCallsOnRecv(f) {
					sf := ci.Common().StaticCallee()
					if sf != nil && sf.Blocks != nil && !seen[sf] {
						seen[sf] = true
						scope = append(scope, sf)
					}
				}
			}
		}
		sort.Slice(scope, func(i, j int) bool { return fnName(scope[i]) < fnName(scope[j]) })
		for _, m := range scope {
			construct := fnName(m) + ":eval.state used only for child()"
			reads, writes := dFieldUses(withAnon(m), fState)
			bad := ""
			var badPos token.Pos
			n := 0
			for _, ins := range writes {
				for _, in := range ins {
					bad, badPos = "assigns eval.state", in.Pos()
				}
			}
			for _, ins := range reads {
				for _, in := range ins {
					n++
					v, _ := in.(ssa.Value)
					for _, u := range dUsers(v) {
						ld, ok := u.(*ssa.UnOp)
						if !ok || ld.Op != token.MUL {
							bad, badPos = "takes the address of eval.state ("+u.String()+")", u.Pos()
							continue
						}
						for _, uu := range dUsers(ld) {
							ci, ok := uu.(ssa.CallInstruction)
							f := (*types.Func)(nil)
							if ok {
								f = calleeOf(ci.Common())
							}
							if ok && f != nil && len(callArgs(ci.Common())) > 0 && callArgs(ci.Common())[0] == ssa.Value(ld) && (sameFunc(f, child) || pure[funcObjName(f)]) {
								// the parent is only asked for a child / a read-only scalar
								onlyRecv := true
								for _, a := range callArgs(ci.Common())[1:] {
									if a == ssa.Value(ld) {
										onlyRecv = false
									}
								}
								if onlyRecv {
									continue
								}
							}
							what := uu.String()
							if f != nil {
								what = "call of " + funcObjName(f)
							}
							bad, badPos = "uses the parent state eval.state directly ("+what+") instead of the group's child", uu.Pos()
						}
					}
				}
			}
			if bad != "" {
				c.Bad("R19.3", construct, c.Pos(badPos), fnName(m)+" "+bad+": changes made there survive a failing group")
			} else {
				c.Ok("R19.3", construct, c.Pos(m.Pos()), itoa(n)+" read(s) of eval.state, each only the receiver of child() or of a pure getter")
			}
		}
		// every *roundCowState argument in TransactionGroup is the child
		okArgs, nArgs := true, 0
		for _, b := range tg.Blocks {
			for _, in := range b.Instrs {
				ci, ok := in.(ssa.CallInstruction)
				if !ok {
					continue
				}
				f := calleeOf(ci.Common())
				for i, a := range callArgs(ci.Common()) {
					pt, ok := a.Type().(*types.Pointer)
					if !ok {
						continue
					}
					nt, ok := types.Unalias(pt.Elem()).(*types.Named)
					if !ok || nt.Origin() != cowT.Origin() {
						continue
					}
					if i == 0 && (sameFunc(f, child) || (f != nil && pure[funcObjName(f)])) {
						continue
					}
					nArgs++
					if !dResultVia(0, child)(a) {
						okArgs = false
						c.Bad("R19.3", fnName(tg)+":*roundCowState arguments are the child", c.Pos(in.Pos()), fmt.Sprintf("argument %d of %s is %s, not the result of eval.state.child(): the callee would write into the parent state", i, in.String(), describe(a)))
					}
				}
			}
		}
		if okArgs {
			if nArgs == 0 {
				c.Unk("R19.3", fnName(tg)+":*roundCowState arguments are the child", c.Pos(tg.Pos()), "no *roundCowState argument found")
			} else {
				c.Ok("R19.3", fnName(tg)+":*roundCowState arguments are the child", c.Pos(tg.Pos()), itoa(nArgs)+" argument(s), all the result of child()")
			}
		}
		// StatefulEval hands only the calf to the AVM
		for _, fs := range []string{"data/transactions/logic.EvalParams.Ledger", "data/transactions/logic.EvalParams.SigLedger"} {
			fld := c.Field(fs)
			stores := StoresToField(se, true, map[*types.Var]bool{fld: true})
			ok := len(stores) > 0
			sawChild := false
			var badPos token.Pos
			var badVal ssa.Value
			for _, s := range stores {
				v := s.(*ssa.Store).Val
				if IsNil(v) {
					continue
				}
				inner := v
				if mi, isMI := v.(*ssa.MakeInterface); isMI {
					inner = mi.X
				}
				if dResultVia(0, child)(inner) {
					sawChild = true
					continue
				}
				ok, badPos, badVal = false, s.Pos(), v
			}
			construct := fnName(se) + ":" + fld.Name() + " is the child"
			switch {
			case !ok && badVal != nil:
				c.Bad("R19.3", construct, c.Pos(badPos), "EvalParams."+fld.Name()+" is set to "+describe(badVal)+", not to the result of cb.child(): a rejected program's writes would stay in the parent")
			case !ok || !sawChild:
				c.Unk("R19.3", construct, c.Pos(se.Pos()), "no store of the child into EvalParams."+fld.Name()+" found")
			default:
				c.Ok("R19.3", construct, c.Pos(stores[0].Pos()), itoa(len(stores))+" store(s): the child or nil")
			}
		}
		// commitParent: who reads / writes it
		fCP := c.Field(P + "roundCowState.commitParent")
		reads, writes := dFieldUses(pkgFns, fCP)
		readers := map[string]string{
			P + "roundCowState.commitToParent":  "merges the child into its parent",
			P + "roundCowState.CalculateTotals": "nil test: top-level state only",
		}
		writers := map[string]string{
			P + "roundCowState.child":  "links the child to its receiver",
			P + "roundCowState.reset":  "clears",
			P + "makeRoundCowState":    "top level: nil",
		}
		report := func(m map[*ssa.Function][]ssa.Instruction, allowed map[string]string, kind string) {
			var fns []*ssa.Function
			for f := range m {
				fns = append(fns, f)
			}
			sort.Slice(fns, func(i, j int) bool { return fnName(fns[i]) < fnName(fns[j]) })
			for _, f := range fns {
				name := fnName(topFn(f))
				construct := kind + "(roundCowState.commitParent)@" + fnName(f)
				if why, ok := allowed[name]; ok && f.Parent() == nil {
					c.Ok("R19.3", construct, c.Pos(m[f][0].Pos()), "allowed ("+why+"), "+itoa(len(m[f]))+" site(s)")
				} else {
					c.Bad("R19.3", construct, c.Pos(m[f][0].Pos()), fnName(f)+" "+kind+"s roundCowState.commitParent outside the reviewed set: the parent of a child must be reached only by commitToParent; new instance needs review")
				}
			}
		}
		report(reads, readers, "read")
		report(writes, writers, "write")
		chFn := c.Fn(P + "roundCowState.child")
		st := StoresToField(chFn, false, map[*types.Var]bool{fCP: true})
		okCP := len(st) > 0
		for _, s := range st {
			if r, f := dAddrPath(s.(*ssa.Store).Val); r != ssa.Value(dRecv(chFn)) || len(f) != 0 {
				okCP = false
			}
		}
		c.dCheck(okCP, "R19.3", fnName(chFn)+":commitParent=receiver", c.Pos(chFn.Pos()), "child() links the new state to the state it was called on")
	}

	// ---- R19.4: nothing of a discarded child survives in the pool ----
	{
		sdReset := c.Func("ledger/ledgercore.StateDelta.Reset")
		adReset := c.Func("ledger/ledgercore.AccountDeltas.reset")
		c.dResetCovers("R19.4", c.Fn(P+"roundCowState.reset"), cowT, []*types.Func{sdReset}, nil)
		c.dResetCovers("R19.4", c.Fn("ledger/ledgercore.StateDelta.Reset"), c.Named("ledger/ledgercore.StateDelta"), []*types.Func{adReset},
			map[string]string{"initialHint": "allocation hint kept with the retained AccountDeltas capacity (source comment); not ledger state"})
		c.dResetCovers("R19.4", c.Fn("ledger/ledgercore.AccountDeltas.reset"), c.Named("ledger/ledgercore.AccountDeltas"), nil, nil)

		rc := c.Fn(P + "roundCowState.recycle")
		isPool := func(f *types.Func, name string) bool {
			return f != nil && f.Pkg() != nil && f.Pkg().Path() == "sync" && f.Name() == name
		}
		var puts, resets []ssa.Instruction
		for _, b := range rc.Blocks {
			for _, in := range b.Instrs {
				if ci, ok := in.(*ssa.Call); ok {
					f := calleeOf(ci.Common())
					if isPool(f, "Put") {
						puts = append(puts, in)
					}
					if sameFunc(f, reset) && len(ci.Common().Args) > 0 && dIsParam(dRecv(rc))(ci.Common().Args[0]) {
						resets = append(resets, in)
					}
				}
			}
		}
		okR := len(puts) > 0 && len(resets) > 0
		for _, p := range puts {
			dom := false
			for _, r := range resets {
				if Dominates(r, p) {
					dom = true
				}
			}
			okR = okR && dom
		}
		c.dCheck(okR, "R19.4", fnName(rc)+":reset() dominates childPool.Put", c.Pos(rc.Pos()), "the state is cleared before it is returned to the pool")

		// users of the pool
		var pool *ssa.Global
		if sp := c.SSAPkg[Mod+"/ledger/eval"]; sp != nil {
			pool, _ = sp.Members["childPool"].(*ssa.Global)
		}
		if pool == nil {
			c.Unk("R19.4", "childPool:users", "-", "global ledger/eval.childPool not found")
		} else {
			allowed := map[string]string{P + "roundCowState.child": "Get", P + "roundCowState.recycle": "Put after reset"}
			users := map[string]token.Pos{}
			for _, f := range pkgFns {
				for _, b := range f.Blocks {
					for _, in := range b.Instrs {
						for _, op := range in.Operands(nil) {
							if *op == ssa.Value(pool) {
								if _, ok := users[fnName(f)]; !ok {
									users[fnName(f)] = in.Pos()
								}
							}
						}
					}
				}
			}
			var names []string
			for n := range users {
				names = append(names, n)
			}
			sort.Strings(names)
			for _, n := range names {
				if why, ok := allowed[n]; ok {
					c.Ok("R19.4", "use(childPool)@"+n, c.Pos(users[n]), "allowed ("+why+")")
				} else if n == "ledger/eval.init" {
					c.Ok("R19.4", "use(childPool)@"+n, c.Pos(users[n]), "package initialiser")
				} else {
					c.Bad("R19.4", "use(childPool)@"+n, c.Pos(users[n]), n+" uses the child pool outside child()/recycle(): an object could be pooled without reset; new instance needs review")
				}
			}
		}
	}

	// ---- R19.5: the corrupted-state guard ----
	{
		notCorrupt := GBool("!eval.corruptedState", M(fCorrupted), false)
		effects := append(asInstrs(CallsTo(tg, false, child)), tgEffects...)
		c.dMustGuard(dGuardSpec{Rule: "R19.5", Fn: tg, Effects: effects, EffName: "child()/commit effects", Guards: []Guard{notCorrupt}})
		gb := c.Fn(P + "BlockEvaluator.GenerateBlock")
		c.dMustGuard(dGuardSpec{Rule: "R19.5", Fn: gb, Effects: asInstrs(CallsTo(gb, false, c.Func(P+"BlockEvaluator.endOfBlock"))), EffName: "endOfBlock()", Guards: []Guard{notCorrupt}})
		tt := c.Fn(P + "BlockEvaluator.TestTransactionGroup")
		c.dMustGuard(dGuardSpec{Rule: "R19.5", Fn: tt, Effects: asInstrs(CallsTo(tt, false, c.Func(P+"BlockEvaluator.testTransaction"))), EffName: "testTransaction()", Guards: []Guard{notCorrupt}})

		c.OwnerRule("R19.5", "write(BlockEvaluator.corruptedState)", c.FieldWrites(map[*types.Var]bool{fCorrupted: true}, ScanOpts{SkipGenerated: true}), map[string]string{
			"ledger/eval.BlockEvaluator.TransactionGroup": "deferred recover literal",
		})

		// the recover literal
		var lits []*ssa.Function
		for _, lit := range withAnon(tg)[1:] {
			if len(StoresToField(lit, false, map[*types.Var]bool{fCorrupted: true})) > 0 {
				lits = append(lits, lit)
			}
		}
		if len(lits) != 1 {
			c.Bad("R19.5", fnName(tg)+":recover literal", c.Pos(tg.Pos()), "expected exactly one function literal of TransactionGroup setting corruptedState, found "+itoa(len(lits)))
		} else {
			lit := lits[0]
			stores := StoresToField(lit, false, map[*types.Var]bool{fCorrupted: true})
			allTrue := true
			for _, s := range stores {
				if !IsConstBool(true)(s.(*ssa.Store).Val) {
					allTrue = false
				}
			}
			c.dCheck(allTrue, "R19.5", fnName(lit)+":corruptedState=true", c.Pos(stores[0].Pos()), "the literal only ever sets the flag")
			var commAlloc *ssa.Alloc
			isRecover := func(v ssa.Value) bool {
				call, ok := v.(*ssa.Call)
				if !ok {
					return false
				}
				_, isR := isBuiltinCall(call, "recover")
				return isR
			}
			committing := func(v ssa.Value) bool {
				u, ok := v.(*ssa.UnOp)
				if !ok || u.Op != token.MUL {
					return false
				}
				fv, ok := u.X.(*ssa.FreeVar)
				if !ok {
					return false
				}
				a, ok := dFreeVarBinding(fv).(*ssa.Alloc)
				if !ok {
					return false
				}
				if bt, ok := a.Type().(*types.Pointer); !ok || !types.Identical(bt.Elem(), types.Typ[types.Bool]) {
					return false
				}
				commAlloc = a
				return true
			}
			c.dMustGuard(dGuardSpec{Rule: "R19.5", Fn: lit, Effects: stores, EffName: "corruptedState=true", Guards: []Guard{
				GCmp("recover()!=nil", token.NEQ, isRecover, IsNil),
				GBool("committing", committing, true),
			}})
			// deferred before the child is made
			var deferIn ssa.Instruction
			for _, b := range tg.Blocks {
				for _, in := range b.Instrs {
					if d, ok := in.(*ssa.Defer); ok {
						if mc, ok := d.Call.Value.(*ssa.MakeClosure); ok && mc.Fn == ssa.Value(lit) {
							deferIn = in
						}
					}
				}
			}
			okDefer := deferIn != nil
			for _, e := range effects {
				if deferIn == nil || !Dominates(deferIn, e) {
					okDefer = false
				}
			}
			c.dCheck(okDefer, "R19.5", fnName(tg)+":recover literal deferred before child()", c.Pos(tg.Pos()), "the literal that poisons the evaluator is deferred on every path to child() and to the commit effects")
			// committing = true dominates every effect and is never cleared afterwards
			okComm := commAlloc != nil
			detail := "`committing = true` dominates every persistent effect and no later store clears it"
			if commAlloc != nil {
				var trues, falses []ssa.Instruction
				for _, r := range dUsers(commAlloc) {
					if st, ok := r.(*ssa.Store); ok && st.Addr == ssa.Value(commAlloc) {
						if IsConstBool(true)(st.Val) {
							trues = append(trues, st)
						} else {
							falses = append(falses, st)
						}
					}
				}
				for _, e := range tgEffects {
					dom := false
					for _, t := range trues {
						if Dominates(t, e) {
							dom = true
						}
					}
					if !dom {
						okComm = false
						detail = "persistent effect at " + c.Pos(e.Pos()) + " (" + eff.describe(e) + ") is not dominated by `committing = true`: a panic there would be reported as a clean rejection although state was already changed"
					}
				}
				for _, t := range trues {
					fw := dReachableFrom(t)
					for _, f := range falses {
						if fw.Reaches(f) {
							okComm = false
							detail = "`committing` is cleared at " + c.Pos(f.Pos()) + " after it was set"
						}
					}
				}
				if len(trues) == 0 {
					okComm = false
					detail = "no `committing = true` store found"
				}
			} else {
				detail = "the flag tested by the recover literal is not a captured bool local of TransactionGroup"
			}
			c.Check(okComm, "R19.5", fnName(tg)+":committing=true dominates effects", c.Pos(tg.Pos()), detail)
		}
	}
	dDumpObs(c)
}
