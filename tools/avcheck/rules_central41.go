package main

import (
	"go/token"
	"go/types"
	"sort"

	"golang.org/x/tools/go/ssa"
)

// R21.5: an account is closed only when every counter its minimum balance is
// computed from is zero.
//
// Found by an independent audit of C21 on the pinned tree (a genuine defect,
// recorded as a KNOWN FINDING: the repair changes which close-out transactions
// are valid under the current consensus version, see DESIGN §7). Since
// AppSizeUpdates (v42) the sender of an approved UpdateApplication that resizes
// an app becomes its size sponsor: the cost moves into THAT account's
// TotalAppSchema / TotalExtraAppPages although it created no app and opted into
// none. The close-out path of apply.Payment tests TotalAssets,
// TotalAssetParams, TotalAppLocalStates, TotalBoxes, TotalBoxBytes and
// TotalAppParams — all zero for a pure sponsor — and CloseAccount zeroes the
// record. The sponsored app lives on, the account (re-funded in the same group)
// is live below the minimum balance its obligations imply, and deleting the app
// later subtracts the schema from a record that no longer holds it, eating into
// the requirement of the account's own apps.
func init() {
	extend("C21", Extension{
		Run:         ruleCloseRequiresEveryMBRCounterZero,
		Explanation: "R21.5 (closing an account drops no minimum-balance obligation): every field of ledgercore.AccountData that AccountData.MinBalance reads (TotalAssets, TotalAppSchema, TotalAppParams, TotalAppLocalStates, TotalExtraAppPages, TotalBoxes, TotalBoxBytes — taken from the SSA of MinBalance, not from a list) is tested against zero on every path of apply.Payment that reaches Balances.CloseAccount, the non-zero side being unable to reach it. KNOWN FINDING on the pinned tree: TotalAppSchema and TotalExtraAppPages are not tested, and since v42 a size sponsor of someone else's app has them non-zero with nothing else to stop the close.",
		Floor:       map[string]int{"R21.5": 7},
		Patterns:    []string{"./ledger/apply", "./ledger/ledgercore"},
	})
}

func ruleCloseRequiresEveryMBRCounterZero(c *Ctx) {
	const rule = "R21.5"
	mb := c.Fn("ledger/ledgercore.AccountData.MinBalance")
	pay := c.Fn("ledger/apply.Payment")
	closeAcct := c.Func("ledger/apply.Balances.CloseAccount")
	acctT := c.Named("ledger/ledgercore.AccountData")
	st, ok := derefStruct(acctT)
	if !ok {
		c.Unk(rule, "ledger/ledgercore.AccountData", "-", "not a struct")
		return
	}
	isAcctField := func(f *types.Var) bool {
		for i := 0; i < st.NumFields(); i++ {
			if st.Field(i) == f {
				return true
			}
			// embedded AccountBaseData
			if es, ok := derefStruct(st.Field(i).Type()); ok && st.Field(i).Embedded() {
				for j := 0; j < es.NumFields(); j++ {
					if es.Field(j) == f {
						return true
					}
				}
			}
		}
		return false
	}
	// the counters MinBalance reads
	fields := map[*types.Var]bool{}
	for _, b := range mb.Blocks {
		for _, in := range b.Instrs {
			var f *types.Var
			switch x := in.(type) {
			case *ssa.Field:
				f = structField(x.X.Type(), x.Field)
			case *ssa.FieldAddr:
				f = structField(x.X.Type(), x.Field)
			}
			if f != nil && !f.Embedded() && isAcctField(f) {
				fields[f] = true
			}
		}
	}
	if len(fields) < 5 {
		c.Unk(rule, "ledger/ledgercore.AccountData.MinBalance:fields", c.Pos(mb.Pos()), "fewer than 5 account counters feed MinBalance: the extraction no longer sees them")
		return
	}
	var eff []ssa.Instruction
	for _, call := range CallsTo(pay, false, closeAcct) {
		eff = append(eff, call)
	}
	var names []*types.Var
	for f := range fields {
		names = append(names, f)
	}
	sort.Slice(names, func(i, j int) bool { return names[i].Name() < names[j].Name() })
	for _, f := range names {
		ff := f
		g := Guard{Name: "rec." + f.Name() + " == 0", Match: func(cond ssa.Value) (bool, bool) {
			switch x := cond.(type) {
			case *ssa.BinOp:
				var other ssa.Value
				op := x.Op
				switch {
				case Mentions(x.X, ff, 5):
					other = x.Y
				case Mentions(x.Y, ff, 5):
					other = x.X
					op = mirrorOp(op)
				default:
					return false, false
				}
				if !IsConstInt(0)(other) {
					return false, false
				}
				switch op {
				case token.GTR, token.NEQ:
					return true, false
				case token.EQL, token.LEQ:
					return true, true
				}
			case *ssa.Call:
				// rec.TotalAppSchema.Empty()
				if cal := calleeOf(x.Common()); cal != nil && cal.Name() == "Empty" {
					a := callArgs(x.Common())
					if len(a) == 1 && Mentions(a[0], ff, 5) {
						return true, true
					}
				}
			}
			return false, false
		}}
		// without AppSizeUpdates a non-zero schema or page count implies a created or opted-in app, which is tested
		bypass := []Guard{GBool("!proto.AppSizeUpdates", M(c.Field("config.ConsensusParams.AppSizeUpdates")), false)}
		c.fMustGuard(fGuardSpec{Rule: rule, Fn: pay, Effects: eff, EffName: "balances.CloseAccount(sender)", Guard: g, Bypass: bypass})
	}
}
