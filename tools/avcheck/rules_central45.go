package main

import (
	"go/types"

	"golang.org/x/tools/go/ssa"
)

// R31.9: the simulation "explain" hooks make no assumption step() has not yet
// established.
//
// Found by an independent audit of C31 on the pinned tree (a genuine defect,
// repaired by a "fix:" commit, see known_findings.json and DESIGN §7). eval()
// calls Tracer.BeforeOpcode BEFORE step() has checked the instruction, and the
// simulation tracer then runs the opcode's StackExplain / AppStateExplain hook
// (opcodeExplain.go). The hooks were written as if the opcode were going to
// succeed: they index cx.Stack[len-k], cx.callstack[len-1] and
// cx.program[pc+1] unguarded, so a program that passes check() but fails
// dynamically (retsub at top level, frame_bury with an empty call stack,
// box_del / app_global_put on an empty stack) panics inside the hook and the
// evaluation ends in a recovered Go panic instead of an ordinary error.
func init() {
	extend("C31", Extension{
		Run:         ruleExplainHooksTotal,
		Explanation: "R31.9 (tracer hooks that run before step()'s checks are total): in every package-level function of package logic whose signature is that of a StackExplain or AppStateExplain hook (func(*EvalContext) (int, int) / func(*EvalContext) (AppStateEnum, AppStateOpEnum, AppIndex, Address, string)), each direct element access or re-slice of cx.Stack, cx.callstack or cx.program is dominated by a comparison involving len() of that same slice — the hooks are invoked from Tracer.BeforeOpcode, before step() has established stack depth, call-stack depth or the presence of immediates, so an unguarded access turns a dynamically failing program into a recovered panic under the simulation tracer. Accesses made through helper functions are not followed.",
		Floor:       map[string]int{"R31.9": 1},
		Patterns:    []string{"./data/transactions/logic"},
	})
}

func ruleExplainHooksTotal(c *Ctx) {
	const rule = "R31.9"
	const lg = "data/transactions/logic."
	sigs := []*types.Signature{}
	for _, n := range []string{"debugStackExplain", "stateChangeExplain"} {
		if s, ok := c.Named(lg + n).Underlying().(*types.Signature); ok {
			sigs = append(sigs, s)
		}
	}
	fields := map[*types.Var]string{
		c.Field(lg + "EvalContext.Stack"):     "cx.Stack",
		c.Field(lg + "EvalContext.callstack"): "cx.callstack",
		c.Field(lg + "EvalContext.program"):   "cx.program",
	}
	fieldOf := func(v ssa.Value) *types.Var {
		ld, ok := strip(v).(*ssa.UnOp)
		if !ok {
			return nil
		}
		fa, ok := ld.X.(*ssa.FieldAddr)
		if !ok {
			return nil
		}
		f := structField(fa.X.Type(), fa.Field)
		if _, in := fields[f]; in {
			return f
		}
		return nil
	}
	n := 0
	for _, fn := range c.funcsOf(Mod + "/data/transactions/logic") {
		if fn.Signature.Recv() != nil || fn.Parent() != nil {
			continue
		}
		isHook := false
		for _, s := range sigs {
			if types.Identical(fn.Signature, s) {
				isHook = true
			}
		}
		if !isHook {
			continue
		}
		perField := map[*types.Var]bool{}
		bad := map[*types.Var]string{}
		for _, b := range fn.Blocks {
			for _, in := range b.Instrs {
				var base ssa.Value
				switch x := in.(type) {
				case *ssa.IndexAddr:
					base = x.X
				case *ssa.Slice:
					if x.Low == nil && x.High == nil {
						continue
					}
					base = x.X
				default:
					continue
				}
				f := fieldOf(base)
				if f == nil {
					continue
				}
				perField[f] = true
				guarded := false
				for _, g := range fn.Blocks {
					iff, ok := g.Instrs[len(g.Instrs)-1].(*ssa.If)
					if !ok || !g.Dominates(b) || g == b {
						continue
					}
					if bo, isBo := iff.Cond.(*ssa.BinOp); isBo {
						for _, side := range []ssa.Value{bo.X, bo.Y} {
							walkDef(side, 4, func(y ssa.Value) bool {
								if l, isLen := lenOf(strip(y)); isLen && fieldOf(l) == f {
									guarded = true
								}
								return !guarded
							})
						}
					}
				}
				if !guarded {
					bad[f] = c.Pos(in.Pos())
				}
			}
		}
		for f := range perField {
			n++
			c.Check(bad[f] == "", rule, fnName(fn)+":"+fields[f]+" accessed only behind a length test", c.Pos(fn.Pos()),
				"the hook runs before step() has checked the instruction"+func() string {
					if bad[f] != "" {
						return "; " + fields[f] + " is indexed at " + bad[f] + " with no dominating test of its length"
					}
					return ""
				}())
		}
	}
	c.Ok(rule, lg+"explain hooks examined", "-", itoa(n)+" (hook, slice) pair(s) with direct accesses examined")
}
