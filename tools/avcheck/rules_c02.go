package main

import (
	"go/token"
	"go/types"

	"golang.org/x/tools/go/ssa"
)

func init() {
	register(&Prop{
		ID:       "C02",
		Patterns: []string{"./agreement"},
		Run:      runC02,
		Explanation: "Decides the ordering/ownership chain that makes 'a vote is released only after the state that led to it is durably persisted' true in the code's shape: " +
			"R02.1 every send of a vote on the pseudonode task's output channel is reachable only through the select case that received from persistStateDone, and not on its error edge (the len(S)>0 / range S correlation on one SSA value is the only bypass); " +
			"R02.2 in pseudonodeAction.do the channel given to MakeVotes for an attest action is the one given to persistState, is closed only on MakeVotes' error edges and has no other use; " +
			"R02.3 the persistence-done channel is sent on / closed only by checkpointAction.do, which sends the error before closing, and checkpointEvent/checkpointAction carry the error of persist(); " +
			"R02.4 persist returns crash.Atomic's error unchanged and the closure returns tx.Exec's error; " +
			"R02.5 pseudonodeAction.persistent() is T==attest, Service.mainLoop snapshots router/player/actions from the same submitTop call under persistent(a), persistState encodes exactly those; " +
			"R02.6 the only signer call (OneTimeSigner.Sign) in agreement is in makeVote, reachable only through the pseudonode task. " +
			"Does NOT decide: that the restored state produces the same vote value (see C07) or SQLite durability.",
		Assumptions: []string{"util/db Accessor.Atomic commits durably before returning nil", "channels are not aliased through unsafe or reflection"},
		Floor:       map[string]int{"R02.1": 2, "R02.2": 4, "R02.3": 5, "R02.4": 2, "R02.5": 6, "R02.6": 4},
	})
}

// chanSends returns instructions that send on a channel satisfying ch: Send
// instructions and Select instructions having a send state on it.
func chanSends(fn *ssa.Function, ch VM) []ssa.Instruction {
	return Instrs(fn, func(in ssa.Instruction) bool {
		switch x := in.(type) {
		case *ssa.Send:
			return ch(x.Chan)
		case *ssa.Select:
			for _, st := range x.States {
				if st.Dir == types.SendOnly && ch(st.Chan) {
					return true
				}
			}
		}
		return false
	})
}

// selectRecv finds Select instructions with a receive state on a channel
// satisfying ch; returns the select and the state index.
func selectRecv(fn *ssa.Function, ch VM) (sels []*ssa.Select, idx []int) {
	for _, b := range fn.Blocks {
		for _, in := range b.Instrs {
			if s, ok := in.(*ssa.Select); ok {
				for i, st := range s.States {
					if st.Dir == types.RecvOnly && ch(st.Chan) {
						sels = append(sels, s)
						idx = append(idx, i)
					}
				}
			}
		}
	}
	return
}

// selectExtractIndex returns the tuple index of the value received by recv
// state i of a select: (index, recvOk, r0, r1, …) with one r per recv state.
func selectExtractIndex(s *ssa.Select, state int) int {
	n := 2
	for i, st := range s.States {
		if st.Dir == types.RecvOnly {
			if i == state {
				return n
			}
			n++
		}
	}
	return -1
}

func isExtract(v ssa.Value, tuple ssa.Value, idx int) bool {
	e, ok := v.(*ssa.Extract)
	return ok && e.Tuple == tuple && e.Index == idx
}

// GAnyOf matches when any alternative matches.
func GAnyOf(name string, gs ...Guard) Guard {
	return Guard{Name: name, Match: func(cond ssa.Value) (bool, bool) {
		for _, g := range gs {
			if m, p := g.Match(cond); m {
				return m, p
			}
		}
		return false, false
	}}
}

func isBuiltinCall(in ssa.Instruction, name string) (*ssa.CallCommon, bool) {
	ci, ok := in.(ssa.CallInstruction)
	if !ok {
		return nil, false
	}
	b, ok := ci.Common().Value.(*ssa.Builtin)
	if !ok || b.Name() != name {
		return nil, false
	}
	return ci.Common(), true
}

func lenOf(v ssa.Value) (ssa.Value, bool) {
	c, ok := v.(*ssa.Call)
	if !ok {
		return nil, false
	}
	cc, ok := isBuiltinCall(c, "len")
	if !ok {
		return nil, false
	}
	return cc.Args[0], true
}

func runC02(c *Ctx) {
	// ---- R02.1: votes leave the task only after the persist-done receive ----
	exec := c.Fn("agreement.pseudonodeVotesTask.execute")
	fOut := c.Field("agreement.pseudonodeBaseTask.out")
	fDone := c.Field("agreement.pseudonodeVotesTask.persistStateDone")
	sends := chanSends(exec, M(fOut))
	sels, idxs := selectRecv(exec, M(fDone))
	if len(sels) != 1 {
		c.Bad("R02.1", "agreement.pseudonodeVotesTask.execute:recv(persistStateDone)", c.Pos(exec.Pos()), "expected exactly one select receiving from t.persistStateDone, found "+itoa(len(sels)))
	} else {
		sel, si := sels[0], idxs[0]
		// the only bypass: `if len(S) > 0 { wait }` with every send inside `range S` on the same S
		var corrS ssa.Value
		bypass := Guard{Name: "len(S)==0", Match: func(cond ssa.Value) (bool, bool) {
			bo, ok := cond.(*ssa.BinOp)
			if !ok {
				return false, false
			}
			if s, ok := lenOf(bo.X); ok && IsConstInt(0)(bo.Y) && bo.Op == token.GTR {
				// the wait must be on the true side: the select is dominated by the true edge
				if bo.Block().Succs[0].Dominates(sel.Block()) {
					corrS = s
					return true, false
				}
			}
			return false, false
		}}
		var bypassG []Guard
		if e, n := PassEdges(exec, bypass); n == 1 && len(e) == 1 && corrS != nil {
			// every send must sit inside a loop `i < len(S)` over the same S
			all := true
			for _, snd := range sends {
				ok := false
				for _, b := range exec.Blocks {
					iff, isIf := b.Instrs[len(b.Instrs)-1].(*ssa.If)
					if !isIf {
						continue
					}
					bo, isBo := iff.Cond.(*ssa.BinOp)
					if !isBo || bo.Op != token.LSS {
						continue
					}
					if s, isLen := lenOf(bo.Y); isLen && s == corrS && len(b.Succs[0].Preds) == 1 && b.Succs[0].Dominates(snd.Block()) {
						ok = true
					}
				}
				if !ok {
					all = false
				}
			}
			if all {
				bypassG = append(bypassG, bypass)
			}
		}
		recvIdx := selectExtractIndex(sel, si)
		chose := Guard{Name: "select chose <-persistStateDone", Match: func(cond ssa.Value) (bool, bool) {
			bo, ok := cond.(*ssa.BinOp)
			if !ok || bo.Op != token.EQL || !isExtract(bo.X, sel, 0) {
				return false, false
			}
			return IsConstInt(int64(si))(bo.Y), true
		}}
		noErr := GAnyOf("persist error is nil or channel closed",
			GErrNil("err==nil", func(v ssa.Value) bool { return isExtract(v, sel, recvIdx) }),
			GBool("!ok", func(v ssa.Value) bool { return isExtract(v, sel, 1) }, false))
		c.MustGuard(MustGuardSpec{Rule: "R02.1", Fn: exec, Effects: sends, EffName: "send(t.out)", Guards: []Guard{chose, noErr}, Bypass: bypassG})
	}

	// ---- R02.2: the channel handed to MakeVotes is the one persistState completes ----
	do := c.Fn("agreement.pseudonodeAction.do")
	makeVotes := c.Func("agreement.pseudonode.MakeVotes")
	persistState := c.Func("agreement.Service.persistState")
	kPropose := c.Const("agreement.propose")
	mvCalls := CallsTo(do, false, makeVotes)
	if len(mvCalls) == 0 {
		c.Unk("R02.2", "agreement.pseudonodeAction.do:MakeVotes", c.Pos(do.Pos()), "no MakeVotes call found")
	}
	for _, mv := range mvCalls {
		args := mv.Common().Args // ctx, r, p, s, prop, persistStateDone
		if len(args) != 6 {
			c.Unk("R02.2", "agreement.pseudonodeAction.do:MakeVotes", c.Pos(mv.Pos()), "unexpected MakeVotes arity")
			continue
		}
		if valueIs(strip(args[3]), kPropose) {
			c.Ok("R02.2", "agreement.pseudonodeAction.do:MakeVotes(step=propose)", c.Pos(mv.Pos()), "exempt: proposal-step votes (repropose) are not equivocation sensitive; persistent() is false for them")
			continue
		}
		site := "agreement.pseudonodeAction.do:MakeVotes(step=a.Step)"
		ch, ok := args[5].(*ssa.MakeChan)
		if !ok {
			c.Unk("R02.2", site, c.Pos(mv.Pos()), "persistStateDone argument is not a fresh make(chan error): "+describe(args[5]))
			continue
		}
		mvErr := func(v ssa.Value) bool { e, ok := v.(*ssa.Extract); return ok && e.Tuple == mv.Value() && e.Index == 1 }
		var psCalls, closes, others []ssa.Instruction
		for _, r := range *ch.Referrers() {
			switch {
			case r == ssa.Instruction(mv.(*ssa.Call)):
			case func() bool { ci, ok := r.(*ssa.Call); return ok && sameFunc(calleeOf(ci.Common()), persistState) }():
				psCalls = append(psCalls, r)
			case func() bool { _, ok := isBuiltinCall(r, "close"); return ok }():
				closes = append(closes, r)
			case func() bool { _, ok := r.(*ssa.DebugRef); return ok }():
			default:
				others = append(others, r)
			}
		}
		c.Check(len(others) == 0, "R02.2", site+":no-other-use", c.Pos(mv.Pos()), "the persist-done channel is used only by MakeVotes, persistState and close")
		if len(psCalls) != 1 {
			c.Bad("R02.2", site+":persistState", c.Pos(mv.Pos()), "expected exactly one s.persistState(persistStateDone) on the same channel value, found "+itoa(len(psCalls)))
		} else {
			c.MustGuard(MustGuardSpec{Rule: "R02.2", Fn: do, Effects: psCalls, EffName: "persistState(ch)", Guards: []Guard{GErrNil("MakeVotes err==nil", mvErr)}})
		}
		if len(closes) > 0 {
			c.MustGuard(MustGuardSpec{Rule: "R02.2", Fn: do, Effects: closes, EffName: "close(ch)", Guards: []Guard{GCmp("MakeVotes err!=nil", token.NEQ, mvErr, IsNil)}})
		}
	}

	// ---- R02.3: who completes the persistence-done channel ----
	doneFields := c.Fields("agreement.persistentRequest.done", "agreement.checkpointEvent.done", "agreement.checkpointAction.done")
	cpDo := c.Fn("agreement.checkpointAction.do")
	isDone := func(v ssa.Value) bool {
		for f := range doneFields {
			if Mentions(v, f, 4) {
				return true
			}
		}
		return false
	}
	for _, fn := range c.funcsOf(Mod + "/agreement") {
		var hits []ssa.Instruction
		hits = append(hits, chanSends(fn, isDone)...)
		hits = append(hits, Instrs(fn, func(in ssa.Instruction) bool {
			cc, ok := isBuiltinCall(in, "close")
			return ok && isDone(cc.Args[0])
		})...)
		if len(hits) == 0 {
			continue
		}
		c.Check(fn == cpDo, "R02.3", "send/close(done)@"+fnName(fn), c.Pos(hits[0].Pos()), "the persistence-done channel is completed only by checkpointAction.do")
	}
	{
		fErr := c.Field("agreement.checkpointAction.Err")
		fCDone := c.Field("agreement.checkpointAction.done")
		closes := Instrs(cpDo, func(in ssa.Instruction) bool {
			cc, ok := isBuiltinCall(in, "close")
			return ok && Mentions(cc.Args[0], fCDone, 4)
		})
		errSends := map[ssa.Instruction]bool{}
		for _, s := range chanSends(cpDo, M(fCDone)) {
			if snd, ok := s.(*ssa.Send); ok && Mentions(snd.X, fErr, 4) {
				errSends[s] = true
			}
		}
		cut, n1 := PassEdges(cpDo, GCmp("c.Err==nil", token.EQL, M(fErr), IsNil))
		cut2, _ := PassEdges(cpDo, GCmp("c.done==nil", token.EQL, M(fCDone), IsNil))
		r := NewReach(cpDo, append(cut, cut2...), func(in ssa.Instruction) bool { return errSends[in] })
		ok := n1 > 0 && len(closes) > 0
		for _, cl := range closes {
			if r.Reaches(cl) {
				ok = false
			}
		}
		c.Check(ok, "R02.3", "agreement.checkpointAction.do:error-sent-before-close", c.Pos(cpDo.Pos()), "when c.Err != nil (and done != nil) close(c.done) is reachable only after `c.done <- c.Err`")
	}
	{
		// checkpointEvent is built only in the persistence loop, from persist()'s result
		loop := c.Fn("agreement.asyncPersistenceLoop.loop")
		persistFn := c.Func("agreement.persist")
		cpe := c.Named("agreement.checkpointEvent")
		own := map[string]string{"agreement.asyncPersistenceLoop.loop": "built after persist() from its result"}
		c.OwnerRule("R02.3", "literal(checkpointEvent)", c.Literals(cpe, true, ScanOpts{SkipGenerated: true}), own)
		fEvErr := c.Fields("agreement.checkpointEvent.Err")
		fEvDone := c.Fields("agreement.checkpointEvent.done")
		fReqDone := c.Field("agreement.persistentRequest.done")
		errStores := StoresToField(loop, false, fEvErr)
		okErr := len(errStores) > 0
		for _, s := range errStores {
			if !Mentions(s.(*ssa.Store).Val, persistFn, 6) {
				okErr = false
			}
		}
		c.Check(okErr, "R02.3", "agreement.asyncPersistenceLoop.loop:checkpointEvent.Err<-persist()", c.Pos(loop.Pos()), "the Err field of the checkpoint event derives from the result of persist()")
		doneStores := StoresToField(loop, false, fEvDone)
		okDone := len(doneStores) > 0
		for _, s := range doneStores {
			if !Mentions(s.(*ssa.Store).Val, fReqDone, 6) {
				okDone = false
			}
		}
		c.Check(okDone, "R02.3", "agreement.asyncPersistenceLoop.loop:checkpointEvent.done<-request.done", c.Pos(loop.Pos()), "the done channel of the checkpoint event is the request's channel")
		// player turns the event into the action carrying the same Err and done
		hce := c.Fn("agreement.player.handleCheckpointEvent")
		for _, pair := range [][2]string{{"agreement.checkpointAction.Err", "agreement.checkpointEvent.Err"}, {"agreement.checkpointAction.done", "agreement.checkpointEvent.done"}} {
			st := StoresToField(hce, false, c.Fields(pair[0]))
			ok := len(st) > 0
			for _, s := range st {
				if !Mentions(s.(*ssa.Store).Val, c.Field(pair[1]), 6) {
					ok = false
				}
			}
			c.Check(ok, "R02.3", "agreement.player.handleCheckpointEvent:"+pair[0]+"<-event", c.Pos(hce.Pos()), "checkpointAction copies "+pair[1])
		}
		cpa := c.Named("agreement.checkpointAction")
		c.OwnerRule("R02.3", "literal(checkpointAction)", c.Literals(cpa, true, ScanOpts{SkipGenerated: true}),
			map[string]string{"agreement.player.handleCheckpointEvent": "copies the event"})
	}

	// ---- R02.4: persist propagates the database error ----
	{
		persist := c.Fn("agreement.persist")
		atomic := c.Func("util/db.Accessor.Atomic")
		idx := errResultIndex(persist)
		n, ok := 0, true
		for _, b := range persist.Blocks {
			if ret, isRet := b.Instrs[len(b.Instrs)-1].(*ssa.Return); isRet {
				n++
				if _, isRes := asResultOf(ret.Results[idx], -1, atomic); !isRes {
					ok = false
				}
			}
		}
		c.Check(ok && n > 0, "R02.4", "agreement.persist:returns(crash.Atomic error)", c.Pos(persist.Pos()), "every return of persist yields the error value produced by crash.Atomic (no path replaces it)")
		okc := false
		for _, an := range persist.AnonFuncs {
			if errResultIndex(an) < 0 || len(an.Params) != 2 {
				continue
			}
			okc = true
			for _, b := range an.Blocks {
				if ret, isRet := b.Instrs[len(b.Instrs)-1].(*ssa.Return); isRet {
					e, isExt := resolveLocal(ret.Results[0], ret).(*ssa.Extract)
					if !isExt {
						okc = false
						continue
					}
					call, isCall := e.Tuple.(*ssa.Call)
					if !isCall || calleeOf(call.Common()) == nil || calleeOf(call.Common()).Name() != "Exec" {
						okc = false
					}
				}
			}
		}
		c.Check(okc, "R02.4", "agreement.persist$1:returns(tx.Exec error)", c.Pos(persist.Pos()), "the transaction closure returns the error of tx.Exec")
	}

	// ---- R02.5: what is persisted and when ----
	{
		pers := c.Fn("agreement.pseudonodeAction.persistent")
		fT := c.Field("agreement.pseudonodeAction.T")
		kAttest := c.Const("agreement.attest")
		ok := true
		n := 0
		for _, b := range pers.Blocks {
			if ret, isRet := b.Instrs[len(b.Instrs)-1].(*ssa.Return); isRet {
				n++
				bo, isBo := ret.Results[0].(*ssa.BinOp)
				if !isBo || bo.Op != token.EQL || !(Mentions(bo.X, fT, 3) && valueIs(bo.Y, kAttest) || Mentions(bo.Y, fT, 3) && valueIs(bo.X, kAttest)) {
					ok = false
				}
			}
		}
		c.Check(ok && n == 1, "R02.5", "agreement.pseudonodeAction.persistent:T==attest", c.Pos(pers.Pos()), "attest actions are persistent")

		anyP := c.Fn("agreement.persistent")
		actPersistent := c.Func("agreement.action.persistent")
		trueRets := ReturnsWhere(anyP, 0, IsConstBool(true))
		falseRets := ReturnsWhere(anyP, 0, IsConstBool(false))
		okAny := len(trueRets) > 0 && len(trueRets)+len(falseRets) == len(ReturnsWhere(anyP, 0, AnyV))
		if okAny {
			// `return false` is reachable only when no action reported persistent()
			edges, m := PassEdges(anyP, GBool("a.persistent()", ResultOf(0, actPersistent), false))
			_ = edges
			okAny = m > 0
			r := NewReach(anyP, func() []Edge { e, _ := PassEdges(anyP, GBool("a.persistent()", ResultOf(0, actPersistent), true)); return e }(), nil)
			for _, t := range trueRets {
				if r.Reaches(t) {
					okAny = false
				}
			}
		}
		c.Check(okAny, "R02.5", "agreement.persistent:any(a.persistent())", c.Pos(anyP.Pos()), "persistent(as) is true iff some action's persistent() is true")

		ml := c.Fn("agreement.Service.mainLoop")
		submitTop := c.Func("agreement.rootRouter.submitTop")
		pf := c.Fields("agreement.Service.persistRouter", "agreement.Service.persistStatus", "agreement.Service.persistActions")
		st := CallsTo(ml, false, submitTop)
		// the snapshot taken in the event loop (after submitTop); the one-off seeding of the
		// snapshot from the restored crash state before the loop is R02.7's subject
		var stores []ssa.Instruction
		for _, s := range StoresToField(ml, false, pf) {
			if len(st) == 1 && !Dominates(st[0], s) {
				continue
			}
			stores = append(stores, s)
		}
		if len(stores) > 0 && len(st) == 1 {
			// guard relative to the loop body: from the submitTop call on, the stores need persistent(a)
			edges, matched := PassEdges(ml, GBool("persistent(a)", ResultOf(0, c.Func("agreement.persistent")), true))
			okG := matched > 0
			if okG {
				r := NewReachFromBlock(st[0].Block(), edges, nil)
				for _, s := range stores {
					if r.Reaches(s) {
						okG = false
					}
				}
			}
			c.Check(okG, "R02.5", "agreement.Service.mainLoop:store(persist*)<=persistent(a)", c.Pos(stores[0].Pos()), "after submitTop the snapshot fields are stored only past persistent(a)")
		} else {
			c.Unk("R02.5", "agreement.Service.mainLoop:store(persist*)<=persistent(a)", c.Pos(ml.Pos()), "no snapshot store after submitTop found")
		}
		if len(st) != 1 {
			c.Unk("R02.5", "agreement.Service.mainLoop:submitTop", c.Pos(ml.Pos()), "expected one submitTop call, found "+itoa(len(st)))
		} else {
			call := st[0].(*ssa.Call)
			seen := map[string]bool{}
			ok := true
			for _, s := range stores {
				store := s.(*ssa.Store)
				f := structField(store.Addr.(*ssa.FieldAddr).X.Type(), store.Addr.(*ssa.FieldAddr).Field)
				seen[f.Name()] = true
				switch f.Name() {
				case "persistStatus":
					ok = ok && isExtractOf(store.Val, call, 0)
				case "persistActions":
					ok = ok && isExtractOf(store.Val, call, 1)
				case "persistRouter":
					// the router value the call was made on: load of the receiver's alloc
					u, isLoad := store.Val.(*ssa.UnOp)
					ok = ok && isLoad && u.X == call.Common().Args[0]
				}
			}
			c.Check(ok && len(seen) == 3, "R02.5", "agreement.Service.mainLoop:snapshot=(router,status,actions) of one submitTop", c.Pos(call.Pos()), "the three persisted fields are the receiver and both results of the same submitTop call")
			// the guard inspects the same action list
			okArg := false
			for _, pc := range CallsTo(ml, false, c.Func("agreement.persistent")) {
				if isExtractOf(pc.Common().Args[0], call, 1) {
					okArg = true
				}
			}
			c.Check(okArg, "R02.5", "agreement.Service.mainLoop:persistent(actions of submitTop)", c.Pos(call.Pos()), "persistent() is asked about the actions just produced")
		}
		c.OwnerRule("R02.5", "write(Service.persist*)", c.FieldWrites(pf, ScanOpts{SkipGenerated: true}), map[string]string{"agreement.Service.mainLoop": "snapshot under persistent(a)"})

		ps := c.Fn("agreement.Service.persistState")
		enc := CallsTo(ps, false, c.Func("agreement.encode"))
		okEnc := len(enc) == 1
		if okEnc {
			a := enc[0].Common().Args
			okEnc = len(a) == 5 && Mentions(a[1], c.Field("agreement.Service.persistRouter"), 4) && Mentions(a[2], c.Field("agreement.Service.persistStatus"), 4) && Mentions(a[3], c.Field("agreement.Service.persistActions"), 4)
		}
		c.Check(okEnc, "R02.5", "agreement.Service.persistState:encode(persistRouter,persistStatus,persistActions)", c.Pos(ps.Pos()), "persistState serialises exactly the snapshot fields")
	}

	// ---- R02.6: one signing path ----
	{
		sign := c.Func("crypto.OneTimeSigner.Sign")
		mk := c.Func("agreement.makeVote")
		only := []string{"agreement/..."}
		if c.Thorough {
			only = nil
		}
		c.OwnerRule("R02.6", "call(OneTimeSigner.Sign)", c.Uses([]*types.Func{sign}, ScanOpts{SkipGenerated: true, OnlyPkgs: only, SkipPkgs: []string{"test/...", "tools/...", "cmd/..."}}), map[string]string{
			"agreement.makeVote":          "the vote signer",
			"heartbeat.Service.prepareHeartbeat": "heartbeat proof, not a vote (thorough tier)",
			"node.AlgorandFullNode.MakePrioResponse": "network priority challenge, not a vote (thorough tier)",
		})
		c.OwnerRule("R02.6", "call(makeVote)", c.Uses([]*types.Func{mk}, ScanOpts{SkipGenerated: true}), map[string]string{
			"agreement.asyncPseudonode.makeVotes":     "vote task",
			"agreement.asyncPseudonode.makeProposals": "proposal task (propose step)",
		})
		c.OwnerRule("R02.6", "call(asyncPseudonode.makeVotes)", c.Uses([]*types.Func{c.Func("agreement.asyncPseudonode.makeVotes")}, ScanOpts{SkipGenerated: true}), map[string]string{
			"agreement.pseudonodeVotesTask.execute": "the task that waits for persistence",
		})
		c.OwnerRule("R02.6", "call(pseudonode.MakeVotes)", c.Uses([]*types.Func{makeVotes, c.Func("agreement.asyncPseudonode.MakeVotes")}, ScanOpts{SkipGenerated: true}), map[string]string{
			"agreement.pseudonodeAction.do": "action execution",
		})
	}
}

func isExtractOf(v ssa.Value, call *ssa.Call, idx int) bool {
	v = resolveLocalAny(resolveLocal(v, nil))
	e, ok := v.(*ssa.Extract)
	return ok && e.Tuple == ssa.Value(call) && e.Index == idx
}

// resolveLocalAny follows a load of a local whose every store holds the same
// value, or a phi whose non-self edges agree.
func resolveLocalAny(v ssa.Value) ssa.Value {
	for i := 0; i < 4; i++ {
		switch x := v.(type) {
		case *ssa.UnOp:
			if a, ok := x.X.(*ssa.Alloc); ok && x.Op == token.MUL {
				st := localStores(a)
				if len(st) == 1 {
					v = st[0]
					continue
				}
			}
		case *ssa.Phi:
			var uniq ssa.Value
			multi := false
			for _, e := range x.Edges {
				if e == ssa.Value(x) {
					continue
				}
				if uniq == nil {
					uniq = e
				} else if uniq != e {
					multi = true
				}
			}
			if uniq != nil && !multi {
				v = uniq
				continue
			}
		}
		return v
	}
	return v
}
