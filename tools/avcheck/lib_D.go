package main

// Helpers of contributor D (block evaluator properties C18–C21, C24).
// Every name is prefixed with d/D to avoid collisions with other rule files.

import (
	"fmt"
	"go/ast"
	"go/constant"
	"go/token"
	"go/types"
	"os"
	"sort"
	"strings"

	"golang.org/x/tools/go/packages"
	"golang.org/x/tools/go/ssa"
)

// ---------- address paths ----------

// dFreeVarBinding returns the value bound to a free variable of a function
// literal at its (unique) MakeClosure site in the parent, or nil.
func dFreeVarBinding(fv *ssa.FreeVar) ssa.Value {
	fn := fv.Parent()
	if fn == nil || fn.Parent() == nil {
		return nil
	}
	idx := -1
	for i, x := range fn.FreeVars {
		if x == fv {
			idx = i
		}
	}
	if idx < 0 {
		return nil
	}
	var found ssa.Value
	n := 0
	for _, b := range fn.Parent().Blocks {
		for _, in := range b.Instrs {
			if mc, ok := in.(*ssa.MakeClosure); ok && mc.Fn == ssa.Value(fn) && idx < len(mc.Bindings) {
				found = mc.Bindings[idx]
				n++
			}
		}
	}
	if n != 1 {
		return nil
	}
	return found
}

// dAddrPath walks an address or value back through field/index selections,
// loads of pointers, conversions, slices, locals holding a single stored
// pointer and closure free variables. It returns the root (a Parameter, an
// Alloc that is a real local, a Global, a call result, a phi, …) and the struct
// fields crossed on the way, outermost first.
func dAddrPath(v ssa.Value) (root ssa.Value, fields []*types.Var) {
	var rev []*types.Var
	for hops := 0; hops < 64; hops++ {
		switch x := v.(type) {
		case *ssa.FieldAddr:
			rev = append(rev, structField(x.X.Type(), x.Field))
			v = x.X
			continue
		case *ssa.Field:
			rev = append(rev, structField(x.X.Type(), x.Field))
			v = x.X
			continue
		case *ssa.IndexAddr:
			v = x.X
			continue
		case *ssa.Index:
			v = x.X
			continue
		case *ssa.Lookup:
			v = x.X
			continue
		case *ssa.Slice:
			v = x.X
			continue
		case *ssa.ChangeType:
			v = x.X
			continue
		case *ssa.Convert:
			v = x.X
			continue
		case *ssa.UnOp:
			if x.Op != token.MUL {
				break
			}
			src := x.X
			if fv, ok := src.(*ssa.FreeVar); ok {
				if b := dFreeVarBinding(fv); b != nil {
					src = b
				}
			}
			if a, ok := src.(*ssa.Alloc); ok {
				// a local holding a value: follow it when it is assigned exactly once
				st := localStores(a)
				if len(st) == 1 {
					v = st[0]
					continue
				}
				v = a
				break
			}
			v = src
			continue
		case *ssa.FreeVar:
			if b := dFreeVarBinding(x); b != nil {
				v = b
				continue
			}
		}
		break
	}
	for i := len(rev) - 1; i >= 0; i-- {
		fields = append(fields, rev[i])
	}
	return v, fields
}

func dFieldPathString(fields []*types.Var) string {
	var s []string
	for _, f := range fields {
		if f == nil {
			s = append(s, "?")
		} else {
			s = append(s, f.Name())
		}
	}
	return strings.Join(s, ".")
}

// dWrite is an instruction that mutates memory reachable from some root.
type dWrite struct {
	Instr  ssa.Instruction
	Root   ssa.Value
	Fields []*types.Var
	Kind   string // store | mapupdate | delete | clear | copy
}

// dWrites lists the memory writes of one SSA function (not its literals):
// stores through an address, map updates and the mutating builtins, each with
// the root and field path of the written location. Stores whose address is a
// bare local Alloc (assignment to a local variable) are omitted.
func dWrites(fn *ssa.Function) []dWrite {
	var out []dWrite
	for _, b := range fn.Blocks {
		for _, in := range b.Instrs {
			switch x := in.(type) {
			case *ssa.Store:
				if _, isLocal := x.Addr.(*ssa.Alloc); isLocal {
					continue
				}
				if _, isFV := x.Addr.(*ssa.FreeVar); isFV {
					continue // assignment to a captured local of the parent
				}
				r, f := dAddrPath(x.Addr)
				out = append(out, dWrite{in, r, f, "store"})
			case *ssa.MapUpdate:
				r, f := dAddrPath(x.Map)
				out = append(out, dWrite{in, r, f, "mapupdate"})
			default:
				for _, name := range []string{"delete", "clear", "copy"} {
					if cc, ok := isBuiltinCall(in, name); ok && len(cc.Args) > 0 {
						r, f := dAddrPath(cc.Args[0])
						out = append(out, dWrite{in, r, f, name})
					}
				}
			}
		}
	}
	return out
}

// dRecv returns the receiver parameter of a method's SSA function (of the
// outermost declared function for literals), or nil.
func dRecv(fn *ssa.Function) *ssa.Parameter {
	fn = topFn(fn)
	if fn.Signature.Recv() == nil || len(fn.Params) == 0 {
		return nil
	}
	return fn.Params[0]
}

// ---------- return classification that understands named results in Allocs ----------

const (
	dNil     = "nil"
	dNonNil  = "nonnil"
	dUnknown = "unknown"
)

func dIsLoadOf(v ssa.Value, a *ssa.Alloc) bool {
	u, ok := v.(*ssa.UnOp)
	return ok && u.Op == token.MUL && u.X == ssa.Value(a)
}

// dAllocGuardedNonNil: block at is dominated by the non-nil edge of a test of a
// load of alloc a against nil, and every store to a below that edge merely
// stores a value loaded from a itself.
func dAllocGuardedNonNil(a *ssa.Alloc, at *ssa.BasicBlock) bool {
	fn := at.Parent()
	for _, b := range fn.Blocks {
		if len(b.Instrs) == 0 {
			continue
		}
		iff, ok := b.Instrs[len(b.Instrs)-1].(*ssa.If)
		if !ok {
			continue
		}
		cond, neg := condOf(iff.Cond)
		bo, ok := cond.(*ssa.BinOp)
		if !ok || (bo.Op != token.NEQ && bo.Op != token.EQL) {
			continue
		}
		var other ssa.Value
		switch {
		case dIsLoadOf(bo.X, a):
			other = bo.Y
		case dIsLoadOf(bo.Y, a):
			other = bo.X
		default:
			continue
		}
		if !IsNil(other) {
			continue
		}
		nonNilOnTrue := (bo.Op == token.NEQ) != neg
		succ := b.Succs[1]
		if nonNilOnTrue {
			succ = b.Succs[0]
		}
		if len(succ.Preds) != 1 || !succ.Dominates(at) {
			continue
		}
		clean := true
		for _, r := range *a.Referrers() {
			st, ok := r.(*ssa.Store)
			if !ok || st.Addr != ssa.Value(a) {
				continue
			}
			if succ.Dominates(st.Block()) && !dIsLoadOf(st.Val, a) {
				clean = false
			}
		}
		if clean {
			return true
		}
	}
	return false
}

// dRegGuardedNonNil: block at is dominated by the non-nil edge of a test of
// this very SSA value against nil (the shared definitelyNonNil gives up on
// results of single-result module functions before trying this).
func dRegGuardedNonNil(v ssa.Value, at *ssa.BasicBlock) bool {
	if at == nil {
		return false
	}
	for _, b := range at.Parent().Blocks {
		if len(b.Instrs) == 0 {
			continue
		}
		iff, ok := b.Instrs[len(b.Instrs)-1].(*ssa.If)
		if !ok {
			continue
		}
		cond, neg := condOf(iff.Cond)
		bo, ok := cond.(*ssa.BinOp)
		if !ok || (bo.Op != token.NEQ && bo.Op != token.EQL) {
			continue
		}
		var other ssa.Value
		switch {
		case bo.X == v:
			other = bo.Y
		case bo.Y == v:
			other = bo.X
		default:
			continue
		}
		if !IsNil(other) {
			continue
		}
		succ := b.Succs[1]
		if (bo.Op == token.NEQ) != neg {
			succ = b.Succs[0]
		}
		if len(succ.Preds) == 1 && succ.Dominates(at) {
			return true
		}
	}
	return false
}

// dNilness classifies an error value used at the end of block at.
func dNilness(v ssa.Value, at *ssa.BasicBlock, depth int) string {
	if v == nil || depth > 6 {
		return dUnknown
	}
	if k, ok := v.(*ssa.Const); ok {
		if k.IsNil() {
			return dNil
		}
		return dNonNil
	}
	if definitelyNonNil(v, at, 0) || dRegGuardedNonNil(v, at) {
		return dNonNil
	}
	if u, ok := v.(*ssa.UnOp); ok && u.Op == token.MUL {
		if a, ok := u.X.(*ssa.Alloc); ok {
			s := resolveLocal(u, nil)
			if s != ssa.Value(u) {
				if dIsLoadOf(s, a) {
					return dNilness(s, at, depth+1)
				}
				if r := dNilness(s, at, depth+1); r != dUnknown {
					return r
				}
			}
			if dAllocGuardedNonNil(a, at) {
				return dNonNil
			}
		}
	}
	return dUnknown
}

// dRetClass classifies a Return of fn by its error result.
func dRetClass(fn *ssa.Function, ret *ssa.Return) string {
	idx := errResultIndex(fn)
	if idx < 0 || idx >= len(ret.Results) {
		return dNil
	}
	return dNilness(ret.Results[idx], ret.Block(), 0)
}

// dReturns lists the Return instructions of fn.
func dReturns(fn *ssa.Function) []*ssa.Return {
	var out []*ssa.Return
	for _, b := range fn.Blocks {
		if len(b.Instrs) == 0 {
			continue
		}
		if r, ok := b.Instrs[len(b.Instrs)-1].(*ssa.Return); ok {
			// the synthetic recover block returns the named results after a recovered panic
			if fn.Recover == b {
				continue
			}
			out = append(out, r)
		}
	}
	return out
}

// dSuccessReturns: returns that are not certainly error returns (the synthetic
// recover block excluded).
func dSuccessReturns(fn *ssa.Function) []ssa.Instruction {
	var out []ssa.Instruction
	for _, r := range dReturns(fn) {
		if dRetClass(fn, r) != dNonNil {
			out = append(out, r)
		}
	}
	return out
}

// dReturnsAfter lists the returns reachable (forward, in the CFG) from instr.
func dReturnsAfter(in ssa.Instruction) []*ssa.Return {
	b := in.Block()
	var out []*ssa.Return
	seen := map[*ssa.BasicBlock]bool{}
	var work []*ssa.BasicBlock
	// remainder of the own block
	after := false
	stopped := false
	for _, x := range b.Instrs {
		if x == in {
			after = true
			continue
		}
		if !after {
			continue
		}
		if noReturnCall(x) {
			stopped = true
			break
		}
		if r, ok := x.(*ssa.Return); ok {
			out = append(out, r)
		}
	}
	if !stopped {
		work = append(work, b.Succs...)
	}
	for len(work) > 0 {
		n := work[0]
		work = work[1:]
		if seen[n] {
			continue
		}
		seen[n] = true
		stop := false
		for _, x := range n.Instrs {
			if noReturnCall(x) {
				stop = true
				break
			}
			if r, ok := x.(*ssa.Return); ok {
				out = append(out, r)
			}
		}
		if !stop {
			work = append(work, n.Succs...)
		}
	}
	return out
}

// dNoErrorAfter decides the T5 obligation "no error return is reachable after
// effect e" and records it.
func (c *Ctx) dNoErrorAfter(rule, construct string, fn *ssa.Function, effects []ssa.Instruction, what string) {
	if len(effects) == 0 {
		c.Unk(rule, construct, c.Pos(fn.Pos()), "no "+what+" found in "+fnName(fn)+": the rule no longer sees its site")
		return
	}
	for _, e := range effects {
		for _, r := range dReturnsAfter(e) {
			if fn.Recover == r.Block() {
				continue
			}
			switch dRetClass(fn, r) {
			case dNil:
			case dNonNil:
				c.Bad(rule, construct, c.Pos(e.Pos()), fmt.Sprintf("%s at %s can be followed by the error return at %s: the effect is not undone, so a failing call leaves it behind", what, c.Pos(e.Pos()), c.Pos(r.Pos())))
				return
			default:
				c.Unk(rule, construct, c.Pos(e.Pos()), fmt.Sprintf("%s at %s is followed by a return at %s whose error value is not a literal nil (%s): cannot show that no error is reported after the effect", what, c.Pos(e.Pos()), c.Pos(r.Pos()), describe(r.Results[errResultIndex(fn)])))
				return
			}
		}
	}
	c.Ok(rule, construct, c.Pos(effects[0].Pos()), fmt.Sprintf("%d %s site(s); every return reachable afterwards returns a nil error", len(effects), what))
	c.NoteSites(len(effects))
}

// ---------- must-guard with explicit bypass edges and edge effects ----------

type dGuardSpec struct {
	Rule        string
	Fn          *ssa.Function
	Effects     []ssa.Instruction
	EffEdges    []Edge // effects that are CFG edges (e.g. loop back edges)
	EffName     string
	Guards      []Guard
	Bypass      []Guard
	BypassEdges []Edge
	Stop        func(ssa.Instruction) bool
}

func (c *Ctx) dMustGuard(s dGuardSpec) {
	name := fnName(s.Fn)
	c.NoteFn(name)
	if len(s.Effects) == 0 && len(s.EffEdges) == 0 {
		c.Unk(s.Rule, name+":"+s.EffName, c.Pos(s.Fn.Pos()), "effect "+s.EffName+" not found in function: the rule no longer sees its site")
		return
	}
	bypass := append([]Edge{}, s.BypassEdges...)
	for _, bg := range s.Bypass {
		e, _ := PassEdges(s.Fn, bg)
		bypass = append(bypass, e...)
	}
	for _, g := range s.Guards {
		edges, matched := PassEdges(s.Fn, g)
		construct := name + ":" + s.EffName + "<=" + g.Name
		if matched == 0 {
			c.Bad(s.Rule, construct, c.Pos(s.Fn.Pos()), fmt.Sprintf("guard %q not found in %s (no branch tests it)", g.Name, name))
			continue
		}
		cut := append(append([]Edge{}, edges...), bypass...)
		cutSet := map[Edge]bool{}
		for _, e := range cut {
			cutSet[e] = true
		}
		r := NewReach(s.Fn, cut, s.Stop)
		ok := true
		for _, e := range s.Effects {
			if r.Reaches(e) {
				ok = false
				c.Bad(s.Rule, construct, c.Pos(e.Pos()), fmt.Sprintf("%s is reachable without passing guard %q; path (lines): %s", s.EffName, g.Name, r.PathTo(c.Program, e)))
				break
			}
		}
		if ok {
			for _, e := range s.EffEdges {
				if cutSet[e] || len(e.From.Instrs) == 0 {
					continue
				}
				term := e.From.Instrs[len(e.From.Instrs)-1]
				if r.Reaches(term) {
					ok = false
					pos := s.Fn.Pos()
					for _, x := range e.From.Instrs {
						if x.Pos().IsValid() {
							pos = x.Pos()
							break
						}
					}
					c.Bad(s.Rule, construct, c.Pos(pos), fmt.Sprintf("%s is reachable (from the block at %s) without passing guard %q; path (lines): %s", s.EffName, c.Pos(pos), g.Name, r.PathTo(c.Program, term)))
					break
				}
			}
		}
		if ok {
			pos := s.Fn.Pos()
			if len(s.Effects) > 0 {
				pos = s.Effects[0].Pos()
			}
			c.Ok(s.Rule, construct, c.Pos(pos), fmt.Sprintf("%d effect site(s) unreachable when the %d passing edge(s) of %q (and %d bypass edge(s)) are cut", len(s.Effects)+len(s.EffEdges), len(edges), g.Name, len(bypass)))
		}
	}
	c.NoteSites(len(s.Effects) + len(s.EffEdges))
}

// dConjEdges returns the edges on which BOTH guards are known to hold: passing
// edges of one guard whose source block is dominated by the (single-entry)
// target of a passing edge of the other. Used for bypasses of the form
// "!(a || b)".
func dConjEdges(fn *ssa.Function, g1, g2 Guard) []Edge {
	e1, _ := PassEdges(fn, g1)
	e2, _ := PassEdges(fn, g2)
	var out []Edge
	add := func(xs, ys []Edge) {
		for _, y := range ys {
			for _, x := range xs {
				tgt := x.From.Succs[x.Idx]
				if len(tgt.Preds) == 1 && tgt.Dominates(y.From) {
					out = append(out, y)
				}
			}
		}
	}
	add(e1, e2)
	add(e2, e1)
	return out
}

// dBackEdges returns the natural-loop back edges of fn (edges whose target
// dominates their source), grouped by loop header.
func dBackEdges(fn *ssa.Function) map[*ssa.BasicBlock][]Edge {
	out := map[*ssa.BasicBlock][]Edge{}
	for _, b := range fn.Blocks {
		for i, s := range b.Succs {
			if s.Dominates(b) {
				out[s] = append(out[s], Edge{b, i})
			}
		}
	}
	return out
}

// ---------- structural equality of SSA expressions ----------

// dSameExpr reports whether two SSA values are the same expression over the
// same inputs: identical values, equal constants, or the same operator applied
// to pairwise-same operands (loads of the same local are considered the same).
func dSameExpr(a, b ssa.Value, depth int) bool {
	if a == b {
		return true
	}
	if a == nil || b == nil || depth > 10 {
		return false
	}
	switch x := a.(type) {
	case *ssa.Const:
		y, ok := b.(*ssa.Const)
		if !ok || !types.Identical(x.Type(), y.Type()) {
			return false
		}
		if x.Value == nil || y.Value == nil {
			return x.Value == nil && y.Value == nil
		}
		return constant.Compare(x.Value, token.EQL, y.Value)
	case *ssa.FieldAddr:
		y, ok := b.(*ssa.FieldAddr)
		return ok && structField(x.X.Type(), x.Field) == structField(y.X.Type(), y.Field) && dSameExpr(x.X, y.X, depth+1)
	case *ssa.Field:
		y, ok := b.(*ssa.Field)
		return ok && structField(x.X.Type(), x.Field) == structField(y.X.Type(), y.Field) && dSameExpr(x.X, y.X, depth+1)
	case *ssa.UnOp:
		y, ok := b.(*ssa.UnOp)
		return ok && x.Op == y.Op && dSameExpr(x.X, y.X, depth+1)
	case *ssa.BinOp:
		y, ok := b.(*ssa.BinOp)
		return ok && x.Op == y.Op && dSameExpr(x.X, y.X, depth+1) && dSameExpr(x.Y, y.Y, depth+1)
	case *ssa.Convert:
		y, ok := b.(*ssa.Convert)
		return ok && types.Identical(x.Type(), y.Type()) && dSameExpr(x.X, y.X, depth+1)
	case *ssa.ChangeType:
		y, ok := b.(*ssa.ChangeType)
		return ok && types.Identical(x.Type(), y.Type()) && dSameExpr(x.X, y.X, depth+1)
	case *ssa.MakeInterface:
		y, ok := b.(*ssa.MakeInterface)
		return ok && dSameExpr(x.X, y.X, depth+1)
	case *ssa.Extract:
		y, ok := b.(*ssa.Extract)
		return ok && x.Index == y.Index && dSameExpr(x.Tuple, y.Tuple, depth+1)
	case *ssa.IndexAddr:
		y, ok := b.(*ssa.IndexAddr)
		return ok && dSameExpr(x.X, y.X, depth+1) && dSameExpr(x.Index, y.Index, depth+1)
	case *ssa.Call:
		y, ok := b.(*ssa.Call)
		if !ok {
			return false
		}
		fx, fy := calleeOf(x.Common()), calleeOf(y.Common())
		if fx == nil || !sameFunc(fx, fy) {
			return false
		}
		ax, ay := callArgs(x.Common()), callArgs(y.Common())
		if len(ax) != len(ay) {
			return false
		}
		for i := range ax {
			if !dSameExpr(ax[i], ay[i], depth+1) {
				return false
			}
		}
		return true
	}
	return false
}

// dSameArgs compares the argument lists of two calls.
func dSameArgs(a, b ssa.CallInstruction) (bool, int) {
	ax, ay := callArgs(a.Common()), callArgs(b.Common())
	if len(ax) != len(ay) {
		return false, -1
	}
	for i := range ax {
		if !dSameExpr(ax[i], ay[i], 0) {
			return false, i
		}
	}
	return true, -1
}

// ---------- small SSA utilities ----------

// dCallOn matches a call value to fn whose receiver/first argument satisfies recv.
func dCallOn(fn *types.Func, recv VM) VM {
	return func(v ssa.Value) bool {
		call, ok := strip(v).(*ssa.Call)
		if !ok || !sameFunc(calleeOf(call.Common()), fn) {
			return false
		}
		args := callArgs(call.Common())
		return len(args) > 0 && (recv == nil || recv(args[0]))
	}
}

// dIsParam matches a value that is (a load of a spill of) the given parameter.
func dIsParam(p *ssa.Parameter) VM {
	return func(v ssa.Value) bool {
		if p == nil || v == nil {
			return false
		}
		if v == ssa.Value(p) {
			return true
		}
		// a load of the local the parameter is spilled into (assigned only once: the parameter)
		u, ok := v.(*ssa.UnOp)
		if !ok || u.Op != token.MUL {
			return false
		}
		src := u.X
		if fv, ok := src.(*ssa.FreeVar); ok {
			if b := dFreeVarBinding(fv); b != nil {
				src = b
			}
		}
		a, ok := src.(*ssa.Alloc)
		if !ok {
			return false
		}
		st := localStores(a)
		return len(st) == 1 && st[0] == ssa.Value(p)
	}
}

// dParamNamed returns the parameter of fn bound to the types.Var named name.
func dParamNamed(fn *ssa.Function, name string) *ssa.Parameter {
	for _, p := range fn.Params {
		if p.Name() == name {
			return p
		}
	}
	return nil
}

// dParamAt returns parameter i of the signature (not counting the receiver).
func dParamAt(fn *ssa.Function, i int) *ssa.Parameter {
	if fn.Signature.Recv() != nil {
		i++
	}
	if i < len(fn.Params) {
		return fn.Params[i]
	}
	return nil
}

// dFieldUses returns, per function of the package, the instructions that
// select field f (FieldAddr / Field), split into pure writes (the address is
// only stored to) and reads (anything else).
func dFieldUses(fns []*ssa.Function, f *types.Var) (reads, writes map[*ssa.Function][]ssa.Instruction) {
	reads, writes = map[*ssa.Function][]ssa.Instruction{}, map[*ssa.Function][]ssa.Instruction{}
	for _, fn := range fns {
		for _, b := range fn.Blocks {
			for _, in := range b.Instrs {
				switch x := in.(type) {
				case *ssa.FieldAddr:
					if structField(x.X.Type(), x.Field) != f {
						continue
					}
					onlyStores := true
					n := 0
					for _, r := range *x.Referrers() {
						if _, dbg := r.(*ssa.DebugRef); dbg {
							continue
						}
						n++
						if st, ok := r.(*ssa.Store); !ok || st.Addr != ssa.Value(x) {
							onlyStores = false
						}
					}
					if onlyStores && n > 0 {
						writes[fn] = append(writes[fn], in)
					} else {
						reads[fn] = append(reads[fn], in)
					}
				case *ssa.Field:
					if structField(x.X.Type(), x.Field) == f {
						reads[fn] = append(reads[fn], in)
					}
				}
			}
		}
	}
	return
}

// dUsers returns the non-debug referrers of a value.
func dUsers(v ssa.Value) []ssa.Instruction {
	refs := v.Referrers()
	if refs == nil {
		return nil
	}
	var out []ssa.Instruction
	for _, r := range *refs {
		if _, dbg := r.(*ssa.DebugRef); dbg {
			continue
		}
		out = append(out, r)
	}
	return out
}

// dFeedsBranch reports whether v (a boolean) is used, possibly through
// negation, phi or boolean operators, as the condition of an If, or is
// returned / stored (propagated to the caller).
func dFeedsBranch(v ssa.Value, depth int) bool {
	if depth > 5 {
		return false
	}
	for _, r := range dUsers(v) {
		switch x := r.(type) {
		case *ssa.If:
			return true
		case *ssa.Return:
			return true
		case *ssa.Store:
			if x.Val == v {
				// stored into a local or a result: accept when that location is read by a branch or returned
				if a, ok := x.Addr.(*ssa.Alloc); ok {
					for _, rr := range dUsers(a) {
						if u, ok := rr.(*ssa.UnOp); ok && u.Op == token.MUL && dFeedsBranch(u, depth+1) {
							return true
						}
					}
					continue
				}
				return true
			}
		case *ssa.UnOp:
			if dFeedsBranch(x, depth+1) {
				return true
			}
		case *ssa.BinOp:
			if dFeedsBranch(x, depth+1) {
				return true
			}
		case *ssa.Phi:
			if dFeedsBranch(x, depth+1) {
				return true
			}
		}
	}
	return false
}

// ---------- AST: writes to sub-fields of a field ----------

// dSubFieldWrites finds assignments / inc-dec statements whose left side
// selects THROUGH one of fields (x.F.g = …, x.F.g++, x.F[i].h = …), which
// Ctx.FieldWrites does not report.
func (c *Ctx) dSubFieldWrites(fields map[*types.Var]bool, o ScanOpts) []Site {
	var out []Site
	c.scanFiles(o, func(pk *packages.Package, f *ast.File, gen bool) {
		info := pk.TypesInfo
		lhs := func(e ast.Expr, n ast.Node) {
			e = ast.Unparen(e)
			first := true
			for {
				switch x := e.(type) {
				case *ast.SelectorExpr:
					if !first {
						if v := selField(info, x); v != nil && fields[v] {
							out = append(out, Site{Pkg: pk, File: f, Node: n, Func: enclosingFuncName(pk, f, n), Kind: "subfield", Obj: v, Gen: gen})
							return
						}
					}
					first = false
					e = ast.Unparen(x.X)
					continue
				case *ast.IndexExpr:
					first = false
					e = ast.Unparen(x.X)
					continue
				case *ast.StarExpr:
					first = false
					e = ast.Unparen(x.X)
					continue
				}
				return
			}
		}
		ast.Inspect(f, func(n ast.Node) bool {
			switch x := n.(type) {
			case *ast.AssignStmt:
				for _, l := range x.Lhs {
					lhs(l, x)
				}
			case *ast.IncDecStmt:
				lhs(x.X, x)
			}
			return true
		})
	})
	return out
}

// ---------- "reset clears every field" (T7 field-set agreement) ----------

// dResetCovers decides, for method reset of struct type T, that every field of
// T is unconditionally cleared: assigned a zero value / an empty re-slice of
// itself, passed to the builtin clear, or reset through one of resetMethods
// called on the field's address. exempt maps field name -> reason.
func (c *Ctx) dResetCovers(rule string, reset *ssa.Function, T *types.Named, resetMethods []*types.Func, exempt map[string]string) {
	st, ok := T.Underlying().(*types.Struct)
	recv := dRecv(reset)
	if !ok || recv == nil {
		c.Unk(rule, fnName(reset)+":clears-all-fields", c.Pos(reset.Pos()), "not a method of a struct type")
		return
	}
	c.NoteFn(fnName(reset))
	rets := dReturns(reset)
	uncond := func(in ssa.Instruction) bool {
		for _, r := range rets {
			if in.Block() != r.Block() && !in.Block().Dominates(r.Block()) {
				return false
			}
		}
		return true
	}
	cleared := map[*types.Var]string{}
	bad := map[*types.Var]string{}
	onRecvField := func(v ssa.Value) *types.Var {
		r, f := dAddrPath(v)
		if r == ssa.Value(recv) && len(f) == 1 {
			return f[0]
		}
		return nil
	}
	for _, b := range reset.Blocks {
		for _, in := range b.Instrs {
			switch x := in.(type) {
			case *ssa.Store:
				f := onRecvField(x.Addr)
				if f == nil {
					continue
				}
				if _, isFA := x.Addr.(*ssa.FieldAddr); !isFA {
					continue
				}
				zero := false
				switch v := x.Val.(type) {
				case *ssa.Const:
					zero = v.Value == nil || dZeroConst(v)
				case *ssa.Slice:
					// x.f = x.f[:0]
					zero = v.High != nil && IsConstInt(0)(v.High) && v.Low == nil && onRecvField(v.X) == f
				}
				if !zero {
					bad[f] = "assigned a value that is not the zero value: " + describe(x.Val)
					continue
				}
				if uncond(in) {
					cleared[f] = "zero store"
				} else {
					bad[f] = "cleared only conditionally"
				}
			default:
				if cc, ok := isBuiltinCall(in, "clear"); ok {
					if f := onRecvField(cc.Args[0]); f != nil {
						if uncond(in) {
							cleared[f] = "clear()"
						} else {
							bad[f] = "cleared only conditionally"
						}
					}
					continue
				}
				if ci, ok := in.(*ssa.Call); ok {
					if inFuncs(calleeOf(ci.Common()), resetMethods) {
						args := callArgs(ci.Common())
						if len(args) > 0 {
							if f := onRecvField(args[0]); f != nil {
								if uncond(in) {
									cleared[f] = funcObjName(calleeOf(ci.Common())) + "()"
								} else {
									bad[f] = "reset only conditionally"
								}
							}
						}
					}
				}
			}
		}
	}
	for i := 0; i < st.NumFields(); i++ {
		f := st.Field(i)
		if f.Name() == "_struct" || f.Name() == "_" {
			continue
		}
		construct := fnName(reset) + ":clears(" + f.Name() + ")"
		if how, ok := cleared[f]; ok {
			c.Ok(rule, construct, c.Pos(reset.Pos()), "field "+f.Name()+" is unconditionally cleared ("+how+")")
			continue
		}
		if why, ok := exempt[f.Name()]; ok {
			c.Ok(rule, construct, c.Pos(reset.Pos()), "field "+f.Name()+" exempt: "+why)
			continue
		}
		why := bad[f]
		if why == "" {
			why = "no store, clear() or nested reset of it in the function"
		}
		c.Bad(rule, construct, c.Pos(f.Pos()), fmt.Sprintf("%s does not clear field %s.%s (%s): a pooled object reused for the next group would carry the state of a discarded group", fnName(reset), T.Obj().Name(), f.Name(), why))
	}
}

func dZeroConst(k *ssa.Const) bool {
	if k.Value == nil {
		return true
	}
	switch k.Value.Kind() {
	case constant.Bool:
		return !constant.BoolVal(k.Value)
	case constant.String:
		return constant.StringVal(k.Value) == ""
	case constant.Int, constant.Float, constant.Complex:
		return constant.Sign(k.Value) == 0
	}
	return false
}

// ---------- static call closure ----------

// dClosure returns the functions reachable from roots through static calls
// (and function literals), staying inside packages accepted by inScope.
func (c *Ctx) dClosure(roots []*ssa.Function, inScope func(pkgRel string) bool) []*ssa.Function {
	seen := map[*ssa.Function]bool{}
	var order []*ssa.Function
	var visit func(fn *ssa.Function)
	visit = func(fn *ssa.Function) {
		if fn == nil || seen[fn] || fn.Blocks == nil {
			return
		}
		top := topFn(fn)
		if top.Pkg == nil || !inScope(relPkg(top.Pkg.Pkg.Path())) {
			return
		}
		seen[fn] = true
		order = append(order, fn)
		for _, a := range fn.AnonFuncs {
			visit(a)
		}
		for _, b := range fn.Blocks {
			for _, in := range b.Instrs {
				ci, ok := in.(ssa.CallInstruction)
				if !ok {
					continue
				}
				if sf := ci.Common().StaticCallee(); sf != nil {
					if sf.Blocks == nil && sf.Origin() != nil {
						sf = sf.Origin()
					}
					visit(sf)
				}
			}
		}
	}
	for _, r := range roots {
		visit(r)
	}
	sort.SliceStable(order, func(i, j int) bool { return fnName(order[i]) < fnName(order[j]) })
	return order
}

// ---------- reaching stores of a local ----------

// dReaching returns the values whose stores to the Alloc loaded by u reach u
// (backward CFG walk, stopping at the nearest store on each path), and
// whether the entry is reachable without any store (zero value).
func dReaching(u *ssa.UnOp) (vals []ssa.Value, zero bool) {
	a, ok := u.X.(*ssa.Alloc)
	if !ok || u.Op != token.MUL {
		return nil, false
	}
	type pos struct {
		b   *ssa.BasicBlock
		idx int // scan instructions [0, idx)
	}
	start := -1
	for i, in := range u.Block().Instrs {
		if in == ssa.Instruction(u) {
			start = i
		}
	}
	seen := map[*ssa.BasicBlock]bool{}
	seenVal := map[ssa.Value]bool{}
	work := []pos{{u.Block(), start}}
	first := true
	for len(work) > 0 {
		p := work[0]
		work = work[1:]
		if !first {
			if seen[p.b] {
				continue
			}
			seen[p.b] = true
		}
		first = false
		found := false
		for i := p.idx - 1; i >= 0; i-- {
			if st, ok := p.b.Instrs[i].(*ssa.Store); ok && st.Addr == ssa.Value(a) {
				if !seenVal[st.Val] {
					seenVal[st.Val] = true
					vals = append(vals, st.Val)
				}
				found = true
				break
			}
		}
		if found {
			continue
		}
		if len(p.b.Preds) == 0 {
			zero = true
			continue
		}
		for _, pr := range p.b.Preds {
			work = append(work, pos{pr, len(pr.Instrs)})
		}
	}
	return
}

// dVia lifts a value matcher through loads of locals: the value itself
// satisfies vm, or it is a load of a local every reaching store of which
// satisfies vm (loads of the same local stored back are followed).
func dVia(vm VM) VM {
	var rec func(v ssa.Value, depth int) bool
	rec = func(v ssa.Value, depth int) bool {
		if depth > 4 {
			return false
		}
		if vm(v) {
			return true
		}
		v = strip(v)
		u, ok := v.(*ssa.UnOp)
		if !ok || u.Op != token.MUL {
			return false
		}
		if _, isAlloc := u.X.(*ssa.Alloc); !isAlloc {
			return false
		}
		vals, zero := dReaching(u)
		if zero || len(vals) == 0 {
			return false
		}
		for _, s := range vals {
			if !rec(s, depth+1) {
				return false
			}
		}
		return true
	}
	return func(v ssa.Value) bool { return rec(v, 0) }
}

// dResultVia: result idx of a call to fns, possibly through a local.
func dResultVia(idx int, fns ...*types.Func) VM { return dVia(dResultOf(idx, fns...)) }

// dReachableFrom returns the set of blocks reachable from the instruction
// (its own block is included only if reachable again through a cycle) and
// reports instructions later in the same block through after().
type dFwd struct {
	in     ssa.Instruction
	blocks map[*ssa.BasicBlock]bool
}

func dReachableFrom(in ssa.Instruction) *dFwd {
	f := &dFwd{in: in, blocks: map[*ssa.BasicBlock]bool{}}
	work := append([]*ssa.BasicBlock{}, in.Block().Succs...)
	for len(work) > 0 {
		b := work[0]
		work = work[1:]
		if f.blocks[b] {
			continue
		}
		f.blocks[b] = true
		work = append(work, b.Succs...)
	}
	return f
}

func (f *dFwd) Reaches(x ssa.Instruction) bool {
	if f.blocks[x.Block()] {
		return true
	}
	if x.Block() == f.in.Block() {
		seen := false
		for _, y := range f.in.Block().Instrs {
			if y == f.in {
				seen = true
				continue
			}
			if y == x {
				return seen
			}
		}
	}
	return false
}

// dAfterFailNever decides: from the FAILING edge of guard g (the branch taken
// when the guarded condition does not hold) none of the effects is reachable.
func (c *Ctx) dAfterFailNever(rule string, fn *ssa.Function, g Guard, effects []ssa.Instruction, effName string) {
	construct := fnName(fn) + ":" + effName + " unreachable after failing " + g.Name
	c.NoteFn(fnName(fn))
	pass, matched := PassEdges(fn, g)
	if matched == 0 {
		c.Bad(rule, construct, c.Pos(fn.Pos()), fmt.Sprintf("guard %q not found in %s (no branch tests it)", g.Name, fnName(fn)))
		return
	}
	if len(effects) == 0 {
		c.Unk(rule, construct, c.Pos(fn.Pos()), "effect "+effName+" not found")
		return
	}
	for _, e := range pass {
		fail := e.From.Succs[1-e.Idx]
		seen := map[*ssa.BasicBlock]bool{}
		work := []*ssa.BasicBlock{fail}
		for len(work) > 0 {
			b := work[0]
			work = work[1:]
			if seen[b] {
				continue
			}
			seen[b] = true
			stop := false
			for _, in := range b.Instrs {
				if noReturnCall(in) {
					stop = true
					break
				}
			}
			if !stop {
				work = append(work, b.Succs...)
			}
		}
		for _, eff := range effects {
			if seen[eff.Block()] {
				c.Bad(rule, construct, c.Pos(eff.Pos()), fmt.Sprintf("%s at %s is reachable from the failing branch of %q at %s: a failed step does not prevent the effect", effName, c.Pos(eff.Pos()), g.Name, c.Pos(e.From.Instrs[len(e.From.Instrs)-1].Pos())))
				return
			}
		}
	}
	c.Ok(rule, construct, c.Pos(effects[0].Pos()), fmt.Sprintf("%d failing edge(s) of %q lead only away from the %d effect site(s)", len(pass), g.Name, len(effects)))
}

// dResultOf is ResultOf without the walk through local Allocs (the shared
// asResultOf recurses forever on `err = err` self-stores of a named result);
// use dVia / dResultVia to cross locals by reaching stores.
func dResultOf(idx int, fns ...*types.Func) VM {
	var rec func(v ssa.Value, depth int) bool
	rec = func(v ssa.Value, depth int) bool {
		if depth > 6 {
			return false
		}
		v = strip(v)
		switch x := v.(type) {
		case *ssa.Extract:
			call, ok := x.Tuple.(*ssa.Call)
			return ok && inFuncs(calleeOf(call.Common()), fns) && (idx < 0 || x.Index == idx)
		case *ssa.Call:
			return inFuncs(calleeOf(x.Common()), fns)
		case *ssa.Phi:
			if len(x.Edges) == 0 {
				return false
			}
			for _, e := range x.Edges {
				if !rec(e, depth+1) {
					return false
				}
			}
			return true
		}
		return false
	}
	return func(v ssa.Value) bool { return rec(v, 0) }
}

// dDumpObs prints every obligation recorded so far when AVCHECK_DUMP_OBS is
// set (debugging aid for rule authors; no effect on verdicts).
func dDumpObs(c *Ctx) {
	if os.Getenv("AVCHECK_DUMP_OBS") == "" {
		return
	}
	for _, o := range c.obs {
		fmt.Printf("OBS %-10s %s@%s [%s] %s\n", o.Verdict, o.Rule, o.Construct, o.Pos, o.Detail)
	}
}

// ---------- definition-tree search that also crosses locals reached through field addresses ----------

// dDerives reports whether the definition tree of v contains a value
// satisfying pred. Unlike walkDef it follows every Alloc it meets (also below
// a FieldAddr) to the values stored into it.
func dDerives(v ssa.Value, pred VM, depth int) bool {
	seen := map[ssa.Value]bool{}
	var rec func(v ssa.Value, d int) bool
	rec = func(v ssa.Value, d int) bool {
		if v == nil || seen[v] || d < 0 {
			return false
		}
		seen[v] = true
		if pred(v) {
			return true
		}
		switch x := v.(type) {
		case *ssa.Alloc:
			for _, s := range localStores(x) {
				if rec(s, d-1) {
					return true
				}
			}
			// stores into parts of the local (x.f = …, x[i] = …)
			for _, r := range dUsers(x) {
				var part ssa.Value
				switch y := r.(type) {
				case *ssa.FieldAddr:
					part = y
				case *ssa.IndexAddr:
					part = y
				}
				if part == nil {
					continue
				}
				for _, rr := range dUsers(part) {
					if st, ok := rr.(*ssa.Store); ok && st.Addr == part && rec(st.Val, d-1) {
						return true
					}
				}
			}
			return false
		case *ssa.Call:
			for _, a := range callArgs(x.Common()) {
				if rec(a, d-1) {
					return true
				}
			}
			return false
		}
		if in, ok := v.(ssa.Instruction); ok {
			for _, op := range in.Operands(nil) {
				if *op != nil && rec(*op, d-1) {
					return true
				}
			}
		}
		return false
	}
	return rec(v, depth)
}

// dFrom builds a matcher: the value derives from something satisfying pred.
func dFrom(pred VM) VM { return func(v ssa.Value) bool { return dDerives(v, pred, 10) } }

// dCallTo matches a call (or an extract of it) to one of fns.
func dCallTo(fns ...*types.Func) VM { return dResultOf(-1, fns...) }

// dPath matches a value or address whose dAddrPath is exactly the given fields.
func dPath(fields ...*types.Var) VM {
	return func(v ssa.Value) bool {
		_, p := dAddrPath(strip(v))
		if len(p) != len(fields) {
			return false
		}
		for i := range p {
			if p[i] != fields[i] {
				return false
			}
		}
		return true
	}
}

// dPathHasPrefixSuffix matches a value/address whose field path starts with
// prefix and ends with suffix.
func dPathPS(prefix, suffix []*types.Var) VM {
	return func(v ssa.Value) bool {
		_, p := dAddrPath(strip(v))
		if len(p) < len(prefix)+len(suffix) {
			return false
		}
		for i := range prefix {
			if p[i] != prefix[i] {
				return false
			}
		}
		for i := range suffix {
			if p[len(p)-len(suffix)+i] != suffix[i] {
				return false
			}
		}
		return true
	}
}

// dSamePaths compares two argument lists by field path and root type only
// (for calls in different functions on "the same" receiver-rooted data).
func dSamePaths(a, b ssa.CallInstruction) (bool, int) {
	ax, ay := callArgs(a.Common()), callArgs(b.Common())
	if len(ax) != len(ay) {
		return false, -1
	}
	for i := range ax {
		ra, pa := dAddrPath(strip(ax[i]))
		rb, pb := dAddrPath(strip(ay[i]))
		if len(pa) != len(pb) || !types.Identical(ra.Type(), rb.Type()) {
			return false, i
		}
		for j := range pa {
			if pa[j] != pb[j] {
				return false, i
			}
		}
	}
	return true, -1
}

// dRootIsParam: root is the parameter itself or the local it is spilled into.
func dRootIsParam(root ssa.Value, p *ssa.Parameter) bool {
	if p == nil {
		return false
	}
	if root == ssa.Value(p) {
		return true
	}
	if a, ok := root.(*ssa.Alloc); ok {
		st := localStores(a)
		return len(st) == 1 && st[0] == ssa.Value(p)
	}
	return false
}

// dFlows reports whether v IS (a copy of) a value satisfying pred: pred holds
// for v or for a value it is copied from through loads, field selections,
// conversions, phis and local variables (stores into the local or its parts).
// Arithmetic and call arguments are NOT crossed, so `x+1` does not flow from x.
func dFlows(v ssa.Value, pred VM, depth int) bool {
	seen := map[ssa.Value]bool{}
	var rec func(v ssa.Value, d int) bool
	rec = func(v ssa.Value, d int) bool {
		if v == nil || seen[v] || d < 0 {
			return false
		}
		seen[v] = true
		if pred(v) {
			return true
		}
		switch x := v.(type) {
		case *ssa.UnOp:
			if x.Op == token.MUL {
				return rec(x.X, d-1)
			}
		case *ssa.FieldAddr:
			return rec(x.X, d-1)
		case *ssa.Field:
			return rec(x.X, d-1)
		case *ssa.ChangeType:
			return rec(x.X, d-1)
		case *ssa.Convert:
			return rec(x.X, d-1)
		case *ssa.MakeInterface:
			return rec(x.X, d-1)
		case *ssa.ChangeInterface:
			return rec(x.X, d-1)
		case *ssa.Phi:
			for _, e := range x.Edges {
				if rec(e, d-1) {
					return true
				}
			}
		case *ssa.Alloc:
			for _, s := range localStores(x) {
				if rec(s, d-1) {
					return true
				}
			}
			for _, r := range dUsers(x) {
				fa, ok := r.(*ssa.FieldAddr)
				if !ok {
					continue
				}
				for _, rr := range dUsers(fa) {
					if st, ok := rr.(*ssa.Store); ok && st.Addr == ssa.Value(fa) && rec(st.Val, d-1) {
						return true
					}
				}
			}
		}
		return false
	}
	return rec(v, depth)
}

// dIs builds a matcher from dFlows.
func dIs(pred VM) VM { return func(v ssa.Value) bool { return dFlows(v, pred, 10) } }

// dCheck is Ctx.Check for obligations whose detail states the expected fact:
// on failure the diagnostic says that this fact could not be established.
func (c *Ctx) dCheck(ok bool, rule, construct, pos, expected string) bool {
	if ok {
		c.Ok(rule, construct, pos, expected)
	} else {
		c.Bad(rule, construct, pos, "the code no longer establishes: "+expected)
	}
	return ok
}
