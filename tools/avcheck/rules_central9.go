package main

import (
	"go/types"

	"golang.org/x/tools/go/ssa"
)

// R17.4: found by an investigation started from a side note of the agent that
// seeded C17-1; confirmed as a genuine defect on the pinned tree (small page /
// cache configurations) and repaired by a "fix:" commit.
//
// After a commit nextNodeID usually stands in the middle of a page. evict()
// could drop that partially filled, already stored tip page from memory; only
// initialize() scheduled such a page for loading (deferedPageLoad), so the next
// allocation re-created the page empty and the next commit stored a page that
// held only the new nodes: the older, still referenced nodes were lost from
// storage (later Add/Delete of members fail with ErrLoadedPageMissingNode, a
// reopened trie cannot be walked).
func init() {
	extend("C17", Extension{
		Run:         ruleEvictKeepsTipPageLoadable,
		Explanation: "R17.4 (eviction never loses stored nodes): merkleTrieCache.evict, the one place that drops a non-empty stored page from memory, schedules the page for deferred loading (stores it into deferedPageLoad, as initialize does) under a test on the trie's nextNodeID whenever the evicted page is the partially filled page that nextNodeID points into — otherwise the next allocation re-creates that page empty and the next commit overwrites the stored page with only the new nodes; and commit() loads a deferred page before it writes pages.",
		Floor:       map[string]int{"R17.4": 3},
	})
}

func ruleEvictKeepsTipPageLoadable(c *Ctx) {
	const rule = "R17.4"
	evict := c.Fn("crypto/merkletrie.merkleTrieCache.evict")
	fPages := c.Field("crypto/merkletrie.merkleTrieCache.pageToNIDsPtr")
	fDeferred := c.Field("crypto/merkletrie.merkleTrieCache.deferedPageLoad")
	fNext := c.Field("crypto/merkletrie.Trie.nextNodeID")
	name := "crypto/merkletrie.merkleTrieCache.evict"

	// the page dropped from memory
	var drops []*ssa.CallCommon
	var dropInstr []ssa.Instruction
	for _, b := range evict.Blocks {
		for _, in := range b.Instrs {
			if cc, ok := isBuiltinCall(in, "delete"); ok && len(cc.Args) == 2 && Mentions(cc.Args[0], fPages, 4) {
				// dropping a whole page: the map argument is the field itself, not one of its elements
				if _, isLookup := strip(cc.Args[0]).(*ssa.Lookup); isLookup {
					continue
				}
				drops = append(drops, cc)
				dropInstr = append(dropInstr, in)
			}
		}
	}
	if len(drops) == 0 {
		c.Unk(rule, name+":delete(pageToNIDsPtr, page)", c.Pos(evict.Pos()), "evict no longer drops pages from pageToNIDsPtr: idiom not recognised")
		return
	}
	c.Ok(rule, name+":drops stored pages from memory", c.Pos(dropInstr[0].Pos()), itoa(len(drops))+" site(s)")
	stores := StoresToField(evict, false, map[*types.Var]bool{fDeferred: true})
	if len(stores) == 0 {
		c.Bad(rule, name+":evicted tip page=>deferedPageLoad", c.Pos(dropInstr[0].Pos()),
			"evict drops pages from memory but never schedules a deferred load: when the evicted page is the partially filled page nextNodeID points into, the next allocation re-creates it empty and the next commit stores a page holding only the new nodes — the older stored nodes of that page are lost (members can no longer be found or deleted, a reopened trie cannot be walked)")
	} else {
		ok := true
		for _, s := range stores {
			st := s.(*ssa.Store)
			// the page scheduled is the page dropped
			same := false
			for _, d := range drops {
				if strip(st.Val) == strip(d.Args[1]) || MentionsValue(st.Val, d.Args[1], 3) {
					same = true
				}
			}
			// and the decision looks at nextNodeID
			guarded := false
			for _, b := range evict.Blocks {
				iff, isIf := b.Instrs[len(b.Instrs)-1].(*ssa.If)
				if !isIf || !Mentions(iff.Cond, fNext, 8) {
					continue
				}
				if b.Succs[0].Dominates(st.Block()) || b.Succs[1].Dominates(st.Block()) {
					guarded = true
				}
			}
			if !same || !guarded {
				ok = false
			}
		}
		c.Check(ok, rule, name+":evicted tip page=>deferedPageLoad", c.Pos(stores[0].Pos()), "the page scheduled for deferred loading is the page being evicted, under a test on nextNodeID")
	}
	// commit loads a deferred page before writing
	commit := c.Fn("crypto/merkletrie.merkleTrieCache.commit")
	loadPage := c.Func("crypto/merkletrie.merkleTrieCache.loadPage")
	storePage := c.Func("crypto/merkletrie.Committer.StorePage")
	loads := CallsTo(commit, false, loadPage)
	okLoad := false
	for _, l := range loads {
		if len(l.Common().Args) >= 2 && Mentions(l.Common().Args[1], fDeferred, 5) {
			okLoad = true
			for _, sp := range CallsTo(commit, true, storePage) {
				if sp.Parent() == commit && !Dominates(l, sp) {
					// the load sits in the `deferedPageLoad != null` branch: require only that no store precedes it
					if Dominates(sp, l) {
						okLoad = false
					}
				}
			}
		}
	}
	c.Check(okLoad, rule, "crypto/merkletrie.merkleTrieCache.commit:loadPage(deferedPageLoad) before any StorePage", c.Pos(commit.Pos()), "a deferred page is loaded before commit writes pages")
}
