package main

import (
	"go/constant"
	"regexp"
	"sort"

	"golang.org/x/tools/go/ssa"
)

// R47.9: a write that SQLite makes conditional on the stored value is
// conditional in the key-value backend too.
//
// One of the backend differences demonstrated by the C47 audit, repaired by a
// "fix:" commit (see known_findings.json and DESIGN §7 item 18). SQLite's
// UpdateAccountsRound executes `UPDATE acctrounds SET rnd=? WHERE id='acctbase'
// AND rnd<?` — the round only moves forward, a smaller round is an error, the
// same round a no-op. generickv wrote the round unconditionally: the sequence
// 5, 5, 3 left the tracker round at 3 on Pebble, at 5 (with an error for 3) on
// SQLite.
func init() {
	extend("C47", Extension{
		Run:         ruleConditionalUpdatesReadFirst,
		Explanation: "R47.9 (conditional updates stay conditional): for every method implemented by sqlitedriver and generickv whose SQLite body executes an UPDATE statement with an inequality between a column and a placeholder in its WHERE clause (the statement text is a string constant of the function, e.g. `… AND rnd<?`), the key-value implementation reads the store (KvRead.Get or NewIter) before it writes (KvWrite.Set) — an unconditional Set cannot honour a condition on the stored value.",
		Floor:       map[string]int{"R47.9": 1},
	})
}

var condUpdateRE = regexp.MustCompile(`(?is)^\s*UPDATE\b.*\bWHERE\b.*\b\w+\s*(<=|>=|<|>)\s*\?`)

func ruleConditionalUpdatesReadFirst(c *Ctx) {
	const rule = "R47.9"
	get := c.Func("ledger/store/trackerdb/generickv.KvRead.Get")
	iter := c.Func("ledger/store/trackerdb/generickv.KvRead.NewIter")
	set := c.Func("ledger/store/trackerdb/generickv.KvWrite.Set")
	// sqlite methods with a conditional UPDATE, by method name
	cond := map[string]string{}
	for _, fn := range c.funcsOf(r47SQLite) {
		if fn.Signature.Recv() == nil {
			continue
		}
		for _, f := range withAnon(fn) {
			for _, b := range f.Blocks {
				for _, in := range b.Instrs {
					for _, op := range in.Operands(nil) {
						if k, ok := (*op).(*ssa.Const); ok && k.Value != nil && k.Value.Kind() == constant.String {
							if s := constant.StringVal(k.Value); condUpdateRE.MatchString(s) {
								cond[fn.Name()] = s
							}
						}
					}
				}
			}
		}
	}
	var names []string
	for n := range cond {
		names = append(names, n)
	}
	sort.Strings(names)
	n := 0
	for _, name := range names {
		for _, kf := range c.funcsOf(r47KV) {
			if kf.Signature.Recv() == nil || kf.Name() != name {
				continue
			}
			sets := CallsTo(kf, true, set)
			if len(sets) == 0 {
				continue
			}
			n++
			reads := CallsTo(kf, true, get, iter)
			readFirst := false
			for _, r := range reads {
				for _, s := range sets {
					if Dominates(r, s) {
						readFirst = true
					}
				}
			}
			c.Check(readFirst, rule, fnName(kf)+":reads the stored value before the conditional write", c.Pos(kf.Pos()),
				"SQLite executes `"+cond[name]+"`; the key-value implementation consults the stored value before KvWrite.Set")
		}
	}
	if n == 0 {
		c.Unk(rule, "sqlitedriver:conditional UPDATE statements", "-", "no method with a conditional UPDATE and a key-value sibling was found")
	}
}
