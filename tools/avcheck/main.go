// avcheck decides structural necessary conditions of the properties in
// /verif/properties.jsonl from go-algorand's source, without running it.
package main

import (
	"encoding/json"
	"flag"
	"fmt"
	"os"
	"path/filepath"
	"sort"
	"strconv"
	"strings"
	"syscall"
	"time"
)

// Verdicts of an obligation.
const (
	Discharged = "discharged"
	Violated   = "violated"
	Undecided  = "undecided"
)

// Obligation is one rule instance, keyed by rule + construct (never by line).
type Obligation struct {
	Rule      string `json:"rule"`
	Construct string `json:"construct"`
	Verdict   string `json:"verdict"`
	Pos       string `json:"pos,omitempty"`
	Detail    string `json:"detail,omitempty"`
	Known     bool   `json:"known_finding,omitempty"`
}

// Prop is the static description of one property's check.
type Prop struct {
	ID          string
	Patterns    []string // packages loaded in the quick tier (thorough loads ./...)
	Run         func(c *Ctx)
	Explanation string   // what the rules decide and what they do not
	Assumptions []string // trusted base specific to the property
	Floor       map[string]int // rule -> minimum number of obligations confirmed by hand on the pinned tree
}

var registry = map[string]*Prop{}

func register(p *Prop) { registry[p.ID] = p }

// Extension adds centrally maintained rules (lockset, determinism, aliasing,
// generated-code agreement) to a property registered elsewhere.
type Extension struct {
	Run         func(c *Ctx)
	Explanation string
	Floor       map[string]int
	Patterns    []string
}

var extensions = map[string][]Extension{}

func extend(id string, e Extension) { extensions[id] = append(extensions[id], e) }

// applyExtensions folds the extensions into the registered properties; called
// once at the start of main, after every init has run.
func applyExtensions() {
	for id, exts := range extensions {
		p := registry[id]
		if p == nil {
			continue
		}
		base := p.Run
		runs := []func(*Ctx){}
		for _, e := range exts {
			runs = append(runs, e.Run)
			p.Explanation += " " + e.Explanation
			if p.Floor == nil {
				p.Floor = map[string]int{}
			}
			for k, v := range e.Floor {
				p.Floor[k] = v
			}
			for _, pat := range e.Patterns {
				have := false
				for _, q := range p.Patterns {
					if q == pat {
						have = true
					}
				}
				if !have {
					p.Patterns = append(p.Patterns, pat)
				}
			}
		}
		p.Run = func(c *Ctx) {
			base(c)
			for _, r := range runs {
				r(c)
			}
		}
	}
}

// Ctx is handed to every rule.
type Ctx struct {
	*Program
	Prop     *Prop
	Thorough bool
	obs      []Obligation
	seenKey  map[string]bool
	fnSeen   map[string]bool
	sites    int
}

func (c *Ctx) add(rule, construct, verdict, pos, detail string) {
	key := rule + "@" + construct
	if c.seenKey[key] {
		// keep keys unique: number repeated constructs deterministically
		for i := 2; ; i++ {
			k2 := key + "#" + strconv.Itoa(i)
			if !c.seenKey[k2] {
				construct = construct + "#" + strconv.Itoa(i)
				key = k2
				break
			}
		}
	}
	c.seenKey[key] = true
	c.obs = append(c.obs, Obligation{Rule: rule, Construct: construct, Verdict: verdict, Pos: pos, Detail: detail})
}

// Ok records a discharged obligation.
func (c *Ctx) Ok(rule, construct, pos, detail string) { c.add(rule, construct, Discharged, pos, detail) }

// Bad records a violated obligation.
func (c *Ctx) Bad(rule, construct, pos, detail string) { c.add(rule, construct, Violated, pos, detail) }

// Unk records an obligation the rule could not decide; it fails the check.
func (c *Ctx) Unk(rule, construct, pos, detail string) { c.add(rule, construct, Undecided, pos, detail) }

// Check records discharged or violated depending on ok.
func (c *Ctx) Check(ok bool, rule, construct, pos, detail string) bool {
	if ok {
		c.Ok(rule, construct, pos, detail)
	} else {
		c.Bad(rule, construct, pos, detail)
	}
	return ok
}

// NoteFn records that a function was analysed (for the evidence counts).
func (c *Ctx) NoteFn(name string) { c.fnSeen[name] = true }

// NoteSites adds to the number of call sites / instructions examined.
func (c *Ctx) NoteSites(n int) { c.sites += n }

type knownFinding struct {
	Property  string `json:"property"`
	Rule      string `json:"rule"`
	Construct string `json:"construct"`
	What      string `json:"what"`
}

type knownFile struct {
	Findings []knownFinding `json:"findings"`
	Fixed    []string       `json:"fixed"`
}

func loadKnown(vd string) knownFile {
	var k knownFile
	b, err := os.ReadFile(filepath.Join(vd, "known_findings.json"))
	if err != nil {
		return k
	}
	if err := json.Unmarshal(b, &k); err != nil {
		infraFail("known_findings.json: %v", err)
	}
	return k
}

func acquireSlot(vd string) func() {
	// bound concurrent loads: 6 slots
	for {
		for i := 0; i < 6; i++ {
			f, err := os.OpenFile(filepath.Join(vd, fmt.Sprintf(".avcheck.lock.%d", i)), os.O_CREATE|os.O_RDWR, 0o644)
			if err != nil {
				return func() {}
			}
			if syscall.Flock(int(f.Fd()), syscall.LOCK_EX|syscall.LOCK_NB) == nil {
				return func() { syscall.Flock(int(f.Fd()), syscall.LOCK_UN); f.Close() }
			}
			f.Close()
		}
		time.Sleep(500 * time.Millisecond)
	}
}

func main() {
	propID := flag.String("prop", "", "property id (C01…)")
	tier := flag.String("tier", "", "quick|thorough (default $VERIF_TIER or quick)")
	root := flag.String("root", "/repo", "repository root to analyse")
	list := flag.Bool("list", false, "list registered properties")
	noEvidence := flag.Bool("no-evidence", false, "do not write the evidence file (selftest on scratch copies)")
	explain := flag.String("explain", "", "print the obligations recorded in a violations file")
	describe := flag.Bool("describe", false, "print the registered properties with their explanations as JSON")
	dump := flag.String("dump", "", "debug: load -pkgs and dump the SSA of the function spec")
	dumpPkgs := flag.String("pkgs", "", "debug: package patterns for -dump (space separated)")
	flag.Parse()
	applyExtensions()
	if *dump != "" {
		prog := Load(*root, strings.Fields(*dumpPkgs))
		c := &Ctx{Program: prog, seenKey: map[string]bool{}, fnSeen: map[string]bool{}}
		for _, f := range withAnon(c.Fn(*dump)) {
			f.WriteTo(os.Stdout)
		}
		return
	}

	if *describe {
		type d struct {
			ID          string   `json:"id"`
			Explanation string   `json:"explanation"`
			Assumptions []string `json:"assumptions"`
			Patterns    []string `json:"patterns"`
		}
		var out []d
		for _, p := range registry {
			out = append(out, d{p.ID, p.Explanation, p.Assumptions, p.Patterns})
		}
		sort.Slice(out, func(i, j int) bool { return out[i].ID < out[j].ID })
		b, _ := json.MarshalIndent(out, "", " ")
		os.Stdout.Write(append(b, '\n'))
		return
	}
	if *list {
		ids := []string{}
		for id := range registry {
			ids = append(ids, id)
		}
		sort.Strings(ids)
		for _, id := range ids {
			fmt.Println(id, strings.Join(registry[id].Patterns, " "))
		}
		return
	}
	if *explain != "" {
		b, err := os.ReadFile(*explain)
		if err != nil {
			infraFail("%v", err)
		}
		os.Stdout.Write(b)
		return
	}
	if *tier == "" {
		*tier = os.Getenv("VERIF_TIER")
	}
	if *tier != "thorough" {
		*tier = "quick"
	}
	seed, _ := strconv.Atoi(os.Getenv("VERIF_SEED"))
	prop := registry[*propID]
	if prop == nil {
		infraFail("unknown property %q", *propID)
	}
	vd := verifDir()
	start := time.Now()
	release := acquireSlot(vd)
	patterns := prop.Patterns
	if *tier == "thorough" {
		patterns = []string{"./..."}
	}
	prog := Load(*root, patterns)
	c := &Ctx{Program: prog, Prop: prop, Thorough: *tier == "thorough", seenKey: map[string]bool{}, fnSeen: map[string]bool{}}
	func() {
		defer func() {
			if r := recover(); r != nil {
				if ab, ok := r.(abortRule); ok {
					c.Unk("internal", "abort", "-", string(ab))
					return
				}
				panic(r)
			}
		}()
		prop.Run(c)
	}()
	release()

	// instance floors: a rule that matches fewer sites than confirmed by hand fails
	count := map[string]int{}
	for _, o := range c.obs {
		count[o.Rule]++
	}
	rules := []string{}
	for r := range prop.Floor {
		rules = append(rules, r)
	}
	sort.Strings(rules)
	for _, r := range rules {
		if count[r] < prop.Floor[r] {
			c.Unk("floor", r, "-", fmt.Sprintf("rule %s matched %d instances, fewer than the %d confirmed on the pinned tree: the rule no longer sees its sites", r, count[r], prop.Floor[r]))
		}
	}
	if len(c.obs) == 0 {
		c.Unk("floor", "none", "-", "no obligations generated")
	}

	known := loadKnown(vd)
	nViol, nUnd, nDis, nKnown := 0, 0, 0, 0
	var bad []Obligation
	constructs := map[string]bool{}
	for i := range c.obs {
		o := &c.obs[i]
		constructs[o.Rule+"@"+o.Construct] = true
		switch o.Verdict {
		case Discharged:
			nDis++
		case Violated:
			isKnown := false
			for _, k := range known.Findings {
				if k.Property == prop.ID && k.Rule == o.Rule && k.Construct == o.Construct {
					isKnown = true
					fmt.Printf("KNOWN-FINDING: property=%s %s@%s: %s\n", prop.ID, o.Rule, o.Construct, k.What)
				}
			}
			if isKnown {
				o.Known = true
				nKnown++
			} else {
				nViol++
				bad = append(bad, *o)
			}
		default:
			nUnd++
			bad = append(bad, *o)
		}
	}
	wall := time.Since(start).Seconds()

	// summary lines per rule
	perRule := map[string][3]int{}
	for _, o := range c.obs {
		v := perRule[o.Rule]
		switch o.Verdict {
		case Discharged:
			v[0]++
		case Violated:
			v[1]++
		default:
			v[2]++
		}
		perRule[o.Rule] = v
	}
	rn := []string{}
	for r := range perRule {
		rn = append(rn, r)
	}
	sort.Strings(rn)
	for _, r := range rn {
		v := perRule[r]
		fmt.Printf("%s %s: %d discharged, %d violated, %d undecided\n", prop.ID, r, v[0], v[1], v[2])
	}
	fmt.Printf("%s: %d obligations over %d packages / %d functions loaded (%d inspected by rules), %.1fs\n",
		prop.ID, len(c.obs), len(prog.ByPath), prog.NFuncs, len(c.fnSeen), wall)

	evDir := filepath.Join(vd, "evidence")
	if !*noEvidence {
		os.MkdirAll(evDir, 0o755)
		samples := []Obligation{}
		// samples: violations first, then one obligation per rule, then up to 40
		samples = append(samples, bad...)
		seenRule := map[string]bool{}
		for _, o := range c.obs {
			if !seenRule[o.Rule] && len(samples) < 60 {
				seenRule[o.Rule] = true
				samples = append(samples, o)
			}
		}
		for _, o := range c.obs {
			if len(samples) >= 40 {
				break
			}
			samples = append(samples, o)
		}
		pk := []string{}
		for _, r := range prog.Roots {
			pk = append(pk, r.PkgPath)
		}
		sort.Strings(pk)
		if len(pk) > 12 {
			pk = append(pk[:12], fmt.Sprintf("… (%d root packages)", len(prog.Roots)))
		}
		ev := map[string]any{
			"property_id": prop.ID,
			"tier":        *tier,
			"seed":        seed,
			"level":       "other",
			"coverage": map[string]any{
				"explanation":         prop.Explanation,
				"obligations":         len(c.obs),
				"discharged":          nDis,
				"known_findings":      nKnown,
				"undecided":           nUnd,
				"evaluations":         len(c.obs),
				"distinct_nontrivial": len(constructs),
				"rule":                "one obligation per (rule, construct) instance found in the resolved program; distinct = distinct rule@construct keys; every instance is non-trivial (it names a real function, call site, field or table entry of /repo)",
				"samples":             samples,
				"per_rule":            perRule,
				"functions_loaded":    prog.NFuncs,
				"functions_inspected": len(c.fnSeen),
				"sites_examined":      c.sites,
				"packages_loaded":     len(prog.ByPath),
				"root_packages":       pk,
				"checker_cmd":         "bin/avcheck -prop " + prop.ID + " -tier " + *tier,
				"trusted_base":        []string{"go/types type checker", "golang.org/x/tools v0.50.0 go/ssa construction and dominator tree", "the frozen owner/exception tables in tools/avcheck/rules_" + strings.ToLower(prop.ID) + ".go", "cgo type information from the in-repo libsodium fork headers"},
				"exhaustive":          true,
			},
			"assumptions": append([]string{"static analysis only: decides the structural necessary conditions named in coverage.explanation, not the behavioural property itself"}, prop.Assumptions...),
			"wall_s":      wall,
			"violations":  nViol + nUnd,
		}
		b, _ := json.MarshalIndent(ev, "", " ")
		if err := os.WriteFile(filepath.Join(evDir, prop.ID+".json"), append(b, '\n'), 0o644); err != nil {
			infraFail("write evidence: %v", err)
		}
	}
	if len(bad) > 0 {
		for _, o := range bad {
			fmt.Printf("  %s %s@%s at %s: %s\n", strings.ToUpper(o.Verdict), o.Rule, o.Construct, o.Pos, o.Detail)
		}
		replay := filepath.Join(evDir, prop.ID+".violations.json")
		if *noEvidence {
			replay = filepath.Join(os.TempDir(), fmt.Sprintf("avcheck-%s-%d.violations.json", prop.ID, os.Getpid()))
		}
		b, _ := json.MarshalIndent(bad, "", " ")
		os.WriteFile(replay, append(b, '\n'), 0o644)
		fmt.Printf("VIOLATION property=%s replay=%s\n", prop.ID, replay)
		os.Exit(1)
	}
	os.Remove(filepath.Join(evDir, prop.ID+".violations.json"))
}

// abortRule is panicked by helpers when an anchor cannot be resolved and the
// rule cannot continue; it becomes an undecided obligation.
type abortRule string
