package main

import (
	"go/token"

	"golang.org/x/tools/go/ssa"
)

// R13.8: the online-accounts history cache is filled only on the strength of a
// comparison made under the lock.
//
// Found by an independent audit of C13 on the pinned tree (a genuine defect,
// repaired by a "fix:" commit, see known_findings.json and DESIGN §7).
// lookupOnlineAccountData reads an account's whole history from the DB without
// holding accountsMu, then takes accountsMu.Lock() and installs the history in
// onlineAccountsCache. postCommit adds a flushed round's rows only to accounts
// that are already cached, and later lookups are cache hits, so an installed
// history that predates a completed flush stays wrong for good (wrong stake,
// or an offline account still online, until restart — the DB is right). The
// decision to install was `validThrough == currentDbRound || …` with both
// operands sampled BEFORE the DB reads, so a flush that completed in between
// went unnoticed.
//
// Rule: from every accountsMu.Lock() in a function that calls
// onlineAccountsCache.writeFront, the install is reachable only through a
// comparison between the validThrough result of LookupOnlineHistory and a read
// of ao.cachedDBRoundOnline performed after that Lock().
func init() {
	extend("C13", Extension{
		Run:         ruleOnlineCacheInstallFresh,
		Explanation: "R13.8 (the online-account history cache is never filled with a history older than a completed flush): in every function of package ledger that calls onlineAccountsCache.writeFront (lookupOnlineAccountData), each such call is reachable from the accountsMu.Lock() before it only through the passing edge of a comparison validThrough ==/>= cachedDBRoundOnline (or the failing edge of validThrough < cachedDBRoundOnline) in which validThrough is result #1 of AccountsReader.LookupOnlineHistory and cachedDBRoundOnline is loaded after that Lock(); a decision taken on values sampled before the unlocked DB reads lets a flush (commitRound+postCommit) that completed in between go unnoticed, and postCommit never repairs it because it only appends to accounts already cached. Does NOT decide the rest of the protocol between lookups and flushes (C08's lock rules cover who writes the fields).",
		Floor:       map[string]int{"R13.8": 1},
	})
}

func ruleOnlineCacheInstallFresh(c *Ctx) {
	const rule = "R13.8"
	writeFront := c.Func("ledger.onlineAccountsCache.writeFront")
	lookupHist := c.Func("ledger/store/trackerdb.OnlineAccountsReader.LookupOnlineHistory")
	fMu := c.Field("ledger.onlineAccounts.accountsMu")
	fDbRound := c.Field("ledger.onlineAccounts.cachedDBRoundOnline")
	n := 0
	for _, fn := range c.funcsOf(Mod + "/ledger") {
		installs := CallsTo(fn, false, writeFront)
		// only installs of a history the function itself read from the DB (the
		// start-up fill in onlineAccountsCache.init runs before any flush can)
		if len(installs) == 0 || len(CallsTo(fn, false, lookupHist)) == 0 {
			continue
		}
		n++
		name := fnName(fn)
		// the write-lock acquisitions
		var locks []*ssa.Call
		for _, b := range fn.Blocks {
			for _, in := range b.Instrs {
				call, ok := in.(*ssa.Call)
				if !ok {
					continue
				}
				callee := calleeOf(call.Common())
				if callee == nil || callee.Name() != "Lock" {
					continue
				}
				a := callArgs(call.Common())
				if len(a) == 1 && Mentions(a[0], fMu, 3) {
					locks = append(locks, call)
				}
			}
		}
		if len(locks) == 0 {
			c.Bad(rule, name+":writeFront under accountsMu.Lock()", c.Pos(installs[0].Pos()), "the history is installed in a function that never takes accountsMu.Lock()")
			continue
		}
		after := func(v ssa.Value, lock *ssa.Call) bool {
			ld, ok := strip(v).(*ssa.UnOp)
			if !ok || ld.Op != token.MUL {
				return false
			}
			fa, ok := ld.X.(*ssa.FieldAddr)
			if !ok || structField(fa.X.Type(), fa.Field) != fDbRound {
				return false
			}
			if ld.Block() == lock.Block() {
				for _, in := range ld.Block().Instrs {
					if in == ssa.Instruction(lock) {
						return true
					}
					if in == ssa.Instruction(ld) {
						return false
					}
				}
			}
			return lock.Block().Dominates(ld.Block())
		}
		isVT := ResultOf(1, lookupHist)
		for _, lock := range locks {
			lk := lock
			g := Guard{Name: "validThrough >= ao.cachedDBRoundOnline (read under the lock)", Match: func(cond ssa.Value) (bool, bool) {
				bo, ok := cond.(*ssa.BinOp)
				if !ok {
					return false, false
				}
				op := bo.Op
				switch {
				case isVT(strip(bo.X)) && after(bo.Y, lk):
				case isVT(strip(bo.Y)) && after(bo.X, lk):
					op = mirrorOp(op)
				default:
					return false, false
				}
				switch op {
				case token.EQL, token.GEQ:
					return true, true
				case token.LSS:
					return true, false
				}
				return false, false
			}}
			var eff []ssa.Instruction
			for _, i := range installs {
				eff = append(eff, i)
			}
			c.fMustGuard(fGuardSpec{Rule: rule, Fn: fn, From: lk, FromName: "accountsMu.Lock()", Effects: eff, EffName: "onlineAccountsCache.writeFront(history)", Guard: g})
		}
	}
	if n == 0 {
		c.Unk(rule, "ledger.onlineAccountsCache.writeFront:callers", "-", "no function installs a history into the online accounts cache: the rule no longer sees its site")
	}
}
