package main

import (
	"fmt"
	"go/constant"
	"go/token"
	"go/types"
	"sort"
	"strings"

	"golang.org/x/tools/go/ssa"
)

func init() {
	register(&Prop{
		ID:       "C15",
		Patterns: []string{"./ledger"},
		Run:      runC15,
		Explanation: "Decides encoding-level necessary conditions for 'different ledger states never give the same catchpoint label except through a hash collision': " +
			"R15.1 (injective pre-image) for every function of ledger/store/trackerdb that hands a buffer to finishV6 (today AccountHashBuilderV6, ResourcesHashBuilderV6, KvHashBuilderV6) and for the buffer() method of every implementation of ledgercore.CatchpointLabelMaker (V6, V7, Current), the hashed byte string is reconstructed from the SSA (make + copy/PutUintN/append, callee buffers inlined) as a gap-free, overlap-free concatenation of components, each classified fixed-width (array slice, integer put) or variable-width (slice/string), and the concatenation must be uniquely decodable: at most one variable-width component lacks a preceding length field and everything after it is fixed-width; also finishV6 hashes exactly its pre-image parameter and copies the whole remaining digest behind the kind byte, and MakeLabel hashes exactly l.buffer() and prints l.round() next to it. " +
			"R15.2 (domain separation) the HashKind constants are pairwise distinct, hashBufV6 stores its kind parameter at HashKindEncodingIndex on every path, finishV6 writes only behind that index, the sets of kinds that reach hashBufV6 from the different builders are pairwise disjoint, and ResourcesHashBuilderV6 uses the kind of rdGetCreatableHashKind only on that call's nil-error edge. " +
			"R15.3 (nothing left out) every parameter of a trie-leaf builder is a component of the pre-image; only a pointer to the record (whose content is the encoded bytes) or a plain uint64 affinity number may instead feed hashBufV6 alone, so addresses, creatable indexes, keys, values and encodings must be hashed; every field of a label-maker struct is read by its buffer() (Round-typed fields by round()); every parameter of a MakeCatchpointLabelMaker* constructor is stored into the maker. " +
			"KNOWN FINDING reproduced by R15.1: trackerdb.KvHashBuilderV6 hashes key‖value with no length or separator although box names are variable length, so two different box sets have the same leaf, root and label. " +
			"Does NOT decide: collision resistance of SHA-512/256 or of the 31-byte truncation; that msgpack encodings handed to the builders are canonical; the merkle-trie node pre-image (node.calculateHash builds it in a loop); that the trie root is canonical for the leaf set (C17); that callers pass the encoding of the same record they pass as data (see C14 R14.4); VerifyCatchpoint's control flow (C16).",
		Assumptions: []string{"crypto.Hash is collision resistant", "protocol.Encode/EncodeReflect are deterministic and injective on the encoded records", "encoding/binary PutUintN writes exactly N/8 bytes"},
		Floor:       map[string]int{"R15.1": 9, "R15.2": 7, "R15.3": 35},
	})
}

// ---------- linear forms over len(x) ----------

type c15Lin struct {
	k     int64
	terms map[ssa.Value]int64
}

func c15Const(n int64) c15Lin { return c15Lin{k: n, terms: map[ssa.Value]int64{}} }

func (a c15Lin) add(b c15Lin, sign int64) c15Lin {
	r := c15Lin{k: a.k + sign*b.k, terms: map[ssa.Value]int64{}}
	for v, n := range a.terms {
		r.terms[v] += n
	}
	for v, n := range b.terms {
		r.terms[v] += sign * n
	}
	for v, n := range r.terms {
		if n == 0 {
			delete(r.terms, v)
		}
	}
	return r
}

func (a c15Lin) scale(n int64) c15Lin {
	r := c15Lin{k: a.k * n, terms: map[ssa.Value]int64{}}
	for v, m := range a.terms {
		if m*n != 0 {
			r.terms[v] = m * n
		}
	}
	return r
}

func (a c15Lin) eq(b c15Lin) bool {
	d := a.add(b, -1)
	return d.k == 0 && len(d.terms) == 0
}

func (a c15Lin) isConst() bool { return len(a.terms) == 0 }

func (a c15Lin) String() string {
	var parts []string
	for v, n := range a.terms {
		s := "len(" + c15Src(v) + ")"
		if n != 1 {
			s = fmt.Sprintf("%d*%s", n, s)
		}
		parts = append(parts, s)
	}
	sort.Strings(parts)
	if a.k != 0 || len(parts) == 0 {
		parts = append([]string{fmt.Sprint(a.k)}, parts...)
	}
	return strings.Join(parts, "+")
}

// c15Canon removes conversions and full re-slicings x[:] of slices/strings so
// that len() of the result is len() of the argument.
func c15Canon(v ssa.Value) ssa.Value {
	for i := 0; i < 8; i++ {
		v = strip(v)
		s, ok := v.(*ssa.Slice)
		if !ok || s.Low != nil || s.High != nil || s.Max != nil {
			return v
		}
		switch s.X.Type().Underlying().(type) {
		case *types.Slice, *types.Basic:
			v = s.X
			continue
		}
		return v
	}
	return v
}

func c15LinOf(v ssa.Value) (c15Lin, bool) {
	v = strip(v)
	switch x := v.(type) {
	case *ssa.Const:
		if x.Value != nil && x.Value.Kind() == constant.Int {
			if n, ok := constant.Int64Val(x.Value); ok {
				return c15Const(n), true
			}
		}
	case *ssa.BinOp:
		a, ok1 := c15LinOf(x.X)
		b, ok2 := c15LinOf(x.Y)
		if !ok1 || !ok2 {
			return c15Lin{}, false
		}
		switch x.Op {
		case token.ADD:
			return a.add(b, 1), true
		case token.SUB:
			return a.add(b, -1), true
		case token.MUL:
			if a.isConst() {
				return b.scale(a.k), true
			}
			if b.isConst() {
				return a.scale(b.k), true
			}
		}
	case *ssa.Call:
		if cc, ok := isBuiltinCall(x, "len"); ok {
			arg := c15Canon(cc.Args[0])
			if w, fixed := c15FixedWidth(arg); fixed {
				return c15Const(w), true
			}
			r := c15Const(0)
			r.terms[arg] = 1
			return r, true
		}
	}
	return c15Lin{}, false
}

// c15FixedWidth: the byte length of v is a compile-time constant.
func c15FixedWidth(v ssa.Value) (int64, bool) {
	s, ok := v.(*ssa.Slice)
	if !ok {
		return 0, false
	}
	pt, ok := s.X.Type().Underlying().(*types.Pointer)
	if !ok {
		return 0, false
	}
	at, ok := pt.Elem().Underlying().(*types.Array)
	if !ok {
		return 0, false
	}
	lo, hi := int64(0), at.Len()
	if s.Low != nil {
		n, ok := libCConstVal(s.Low)
		if !ok {
			return 0, false
		}
		lo = n
	}
	if s.High != nil {
		n, ok := libCConstVal(s.High)
		if !ok {
			return 0, false
		}
		hi = n
	}
	return hi - lo, true
}

// c15WidthOf returns the length of a byte-string valued source as a linear form.
func c15WidthOf(src ssa.Value) (c15Lin, bool) {
	src = c15Canon(src)
	if w, ok := c15FixedWidth(src); ok {
		return c15Const(w), true
	}
	if s, ok := src.(*ssa.Slice); ok {
		// partial re-slice of a slice: high - low when both are known
		if _, isSl := s.X.Type().Underlying().(*types.Slice); isSl {
			lo := c15Const(0)
			if s.Low != nil {
				l, ok := c15LinOf(s.Low)
				if !ok {
					return c15Lin{}, false
				}
				lo = l
			}
			var hi c15Lin
			if s.High != nil {
				h, ok := c15LinOf(s.High)
				if !ok {
					return c15Lin{}, false
				}
				hi = h
			} else {
				hi = c15Const(0)
				hi.terms[c15Canon(s.X)] = 1
			}
			return hi.add(lo, -1), true
		}
		return c15Lin{}, false
	}
	switch t := src.Type().Underlying().(type) {
	case *types.Slice:
		r := c15Const(0)
		r.terms[src] = 1
		return r, true
	case *types.Basic:
		if t.Info()&types.IsString != 0 {
			r := c15Const(0)
			r.terms[src] = 1
			return r, true
		}
	}
	return c15Lin{}, false
}

// c15Src names a source value by the program entity it denotes.
func c15Src(v ssa.Value) string {
	v = c15Canon(v)
	switch x := v.(type) {
	case *ssa.Parameter:
		return "param " + x.Name()
	case *ssa.Slice:
		return c15Src(x.X)
	case *ssa.FieldAddr:
		if f := structField(x.X.Type(), x.Field); f != nil {
			return "field " + f.Name()
		}
	case *ssa.Alloc:
		// spilled parameter: the single stored value
		for _, s := range localStores(x) {
			if p, ok := s.(*ssa.Parameter); ok {
				return "param " + p.Name()
			}
		}
		return "local " + x.Comment
	case *ssa.Call:
		if f := calleeOf(x.Common()); f != nil {
			return "result of " + funcObjName(f)
		}
		if b, ok := x.Common().Value.(*ssa.Builtin); ok {
			return b.Name() + "(…)"
		}
	case *ssa.Extract:
		return c15Src(x.Tuple)
	case *ssa.Const:
		return "const " + x.String()
	}
	return describe(v)
}

// ---------- pre-image reconstruction ----------

type c15Comp struct {
	off   c15Lin
	width c15Lin
	src   ssa.Value // the bytes (nil for integer puts)
	val   ssa.Value // the integer for PutUintN
	lenOf ssa.Value // for an integer component holding len(X): canonical X
	what  string
	at    ssa.Instruction
}

func (k c15Comp) fixed() bool { return k.width.isConst() }

func (k c15Comp) String() string {
	if k.fixed() {
		return fmt.Sprintf("%s[%d]", k.what, k.width.k)
	}
	return fmt.Sprintf("%s[var:%s]", k.what, k.width)
}

type c15Image struct {
	comps []c15Comp // in buffer order
	total c15Lin
}

// c15PutWidth recognises encoding/binary ByteOrder PutUintN / AppendUintN.
func c15PutWidth(cc *ssa.CallCommon) (bytes int64, ok bool) {
	pkg, name := libCCalleePkgName(cc)
	if pkg != "encoding/binary" {
		return 0, false
	}
	switch name {
	case "PutUint16":
		return 2, true
	case "PutUint32":
		return 4, true
	case "PutUint64":
		return 8, true
	}
	return 0, false
}

func c15LenArg(v ssa.Value) ssa.Value {
	v = strip(v)
	if call, ok := v.(*ssa.Call); ok {
		if cc, ok := isBuiltinCall(call, "len"); ok {
			return c15Canon(cc.Args[0])
		}
	}
	return nil
}

// c15ImageOf reconstructs the byte string denoted by v at instruction sink.
// Supported shapes: make([]byte, n) (or a constant-size array slice) filled by
// copy / PutUintN / single-byte stores that dominate sink; append(base, x...);
// the result of a statically called function with a body (inlined).
func c15ImageOf(v ssa.Value, sink ssa.Instruction, depth int) (*c15Image, string) {
	if depth > 4 {
		return nil, "callee nesting too deep"
	}
	v = strip(v)
	switch x := v.(type) {
	case *ssa.MakeSlice:
		total, ok := c15LinOf(x.Len)
		if !ok {
			return nil, "length of make([]byte, …) is not a sum of constants and len() terms: " + describe(x.Len)
		}
		return c15Filled(x, total, sink)
	case *ssa.Slice:
		// constant-size make: new [N]byte + slice
		if a, ok := x.X.(*ssa.Alloc); ok {
			if n, fixed := c15FixedWidth(x); fixed && x.Low == nil {
				if len(localStores(a)) == 0 {
					return c15Filled(x, c15Const(n), sink)
				}
			}
		}
		if x.Low == nil && x.High == nil && x.Max == nil {
			return c15ImageOf(x.X, sink, depth)
		}
		return nil, "unsupported re-slicing of the buffer: " + describe(x)
	case *ssa.Call:
		if cc, ok := isBuiltinCall(x, "append"); ok {
			if len(cc.Args) != 2 {
				return nil, "append with unexpected arity"
			}
			base, why := c15ImageOf(cc.Args[0], x, depth)
			if base == nil {
				return nil, why
			}
			w, ok := c15WidthOf(cc.Args[1])
			if !ok {
				return nil, "width of appended operand unknown: " + describe(cc.Args[1])
			}
			comp := c15Comp{off: base.total, width: w, src: cc.Args[1], what: c15Src(cc.Args[1]), at: x}
			return &c15Image{comps: append(append([]c15Comp{}, base.comps...), comp), total: base.total.add(w, 1)}, ""
		}
		sf := x.Common().StaticCallee()
		if sf == nil || sf.Blocks == nil {
			return nil, "buffer comes from a call that cannot be inlined: " + describe(x)
		}
		rets := libCReturns(sf)
		if len(rets) != 1 || len(rets[0].Results) != 1 {
			return nil, "inlined callee " + fnName(sf) + " does not have a single return of one value"
		}
		return c15ImageOf(rets[0].Results[0], rets[0], depth+1)
	}
	return nil, "buffer is not a make/append/callee result: " + describe(v)
}

// c15Filled collects the writes into buffer buf (a MakeSlice, or the full
// slice of a fresh array) and tiles them.
func c15Filled(buf ssa.Value, total c15Lin, sink ssa.Instruction) (*c15Image, string) {
	var comps []c15Comp
	refs := buf.Referrers()
	if refs == nil {
		return nil, "buffer has no uses"
	}
	for _, r := range *refs {
		if r == sink {
			continue
		}
		switch x := r.(type) {
		case *ssa.DebugRef:
		case *ssa.Return:
			// another exit returning the buffer
		case *ssa.Slice:
			if x.X != buf {
				return nil, "buffer used as slice bound"
			}
			off := c15Const(0)
			if x.Low != nil {
				l, ok := c15LinOf(x.Low)
				if !ok {
					return nil, "offset is not a sum of constants and len() terms: " + describe(x.Low)
				}
				off = l
			}
			if x.High != nil || x.Max != nil {
				return nil, "bounded destination window: " + describe(x)
			}
			wr := x.Referrers()
			for _, u := range *wr {
				if u == sink {
					continue
				}
				switch y := u.(type) {
				case *ssa.DebugRef:
				case *ssa.Return:
				case *ssa.Call:
					if cc, ok := isBuiltinCall(y, "copy"); ok && cc.Args[0] == ssa.Value(x) {
						w, ok := c15WidthOf(cc.Args[1])
						if !ok {
							return nil, "width of copied operand unknown: " + describe(cc.Args[1])
						}
						comps = append(comps, c15Comp{off: off, width: w, src: cc.Args[1], what: c15Src(cc.Args[1]), at: y})
						continue
					}
					if n, ok := c15PutWidth(y.Common()); ok {
						args := y.Common().Args
						if len(args) == 3 && args[1] == ssa.Value(x) {
							comps = append(comps, c15Comp{off: off, width: c15Const(n), val: args[2], lenOf: c15LenArg(args[2]), what: "uint(" + c15Src(strip(args[2])) + ")", at: y})
							continue
						}
					}
					return nil, "buffer window passed to an unmodelled call: " + describe(y)
				default:
					return nil, "unmodelled use of a buffer window: " + u.String()
				}
			}
		case *ssa.IndexAddr:
			if x.X != buf {
				return nil, "buffer used as index"
			}
			off, ok := c15LinOf(x.Index)
			if !ok || !off.isConst() {
				return nil, "byte store at a non-constant index"
			}
			for _, u := range *x.Referrers() {
				if st, ok := u.(*ssa.Store); ok && st.Addr == ssa.Value(x) {
					comps = append(comps, c15Comp{off: off, width: c15Const(1), val: st.Val, what: "byte(" + c15Src(strip(st.Val)) + ")", at: st})
				}
			}
		case *ssa.Call:
			if cc, ok := isBuiltinCall(x, "copy"); ok && cc.Args[0] == buf && cc.Args[1] != buf {
				w, ok := c15WidthOf(cc.Args[1])
				if !ok {
					return nil, "width of copied operand unknown: " + describe(cc.Args[1])
				}
				comps = append(comps, c15Comp{off: c15Const(0), width: w, src: cc.Args[1], what: c15Src(cc.Args[1]), at: x})
				continue
			}
			if n, ok := c15PutWidth(x.Common()); ok {
				args := x.Common().Args
				if len(args) == 3 && args[1] == buf {
					comps = append(comps, c15Comp{off: c15Const(0), width: c15Const(n), val: args[2], lenOf: c15LenArg(args[2]), what: "uint(" + c15Src(strip(args[2])) + ")", at: x})
					continue
				}
			}
			if _, ok := isBuiltinCall(x, "len"); ok {
				continue
			}
			return nil, "whole buffer passed to another call before the hash: " + describe(x)
		default:
			return nil, "unmodelled use of the buffer: " + r.String()
		}
	}
	for _, k := range comps {
		if !Dominates(k.at, sink) {
			return nil, "component " + k.what + " is written only on some paths to the hash"
		}
	}
	// tile: walk from offset 0
	var ordered []c15Comp
	used := make([]bool, len(comps))
	cur := c15Const(0)
	for range comps {
		found := -1
		for i, k := range comps {
			if !used[i] && k.off.eq(cur) {
				if found >= 0 {
					return nil, fmt.Sprintf("OVERLAP: components %s and %s are both written at offset %s", comps[found].what, k.what, cur)
				}
				found = i
			}
		}
		if found < 0 {
			var rest []string
			for i, k := range comps {
				if !used[i] {
					rest = append(rest, fmt.Sprintf("%s@%s", k.what, k.off))
				}
			}
			return nil, fmt.Sprintf("LAYOUT: no component starts at offset %s (remaining: %s): the writes overlap or leave a gap", cur, strings.Join(rest, ", "))
		}
		used[found] = true
		ordered = append(ordered, comps[found])
		cur = cur.add(comps[found].width, 1)
	}
	if !cur.eq(total) {
		return nil, fmt.Sprintf("LAYOUT: components cover %s bytes but the buffer has %s", cur, total)
	}
	return &c15Image{comps: ordered, total: total}, ""
}

// c15Injective decides unique decodability of the concatenation.
func c15Injective(img *c15Image) (bool, string) {
	var layout []string
	for _, k := range img.comps {
		layout = append(layout, k.String())
	}
	desc := strings.Join(layout, " ‖ ")
	known := map[ssa.Value]bool{} // lengths announced by a preceding integer field
	frontOK := true               // everything so far can be parsed from the front
	var loose []int
	for i, k := range img.comps {
		if k.fixed() {
			if k.lenOf != nil && frontOK {
				known[k.lenOf] = true
			}
			continue
		}
		delimited := len(k.width.terms) > 0
		for v := range k.width.terms {
			if !known[v] {
				delimited = false
			}
		}
		if delimited && frontOK {
			continue
		}
		loose = append(loose, i)
		frontOK = false
	}
	if len(loose) == 0 {
		return true, desc
	}
	if len(loose) == 1 {
		for _, k := range img.comps[loose[0]+1:] {
			if !k.fixed() {
				return false, desc + ": a variable-width component follows the undelimited one"
			}
		}
		return true, desc
	}
	a, b := img.comps[loose[0]], img.comps[loose[1]]
	return false, fmt.Sprintf("%s: %d variable-width components (%s, %s) are concatenated with no length field or separator, so moving bytes across the boundary gives the same pre-image for different inputs", desc, len(loose), a.what, b.what)
}

// ---------- the rules ----------

func runC15(c *Ctx) {
	tdb := "ledger/store/trackerdb"
	finish := c.Func(tdb + ".finishV6")
	finishFn := c.Fn(tdb + ".finishV6")
	hashBuf := c.Func(tdb + ".hashBufV6")
	hashBufFn := c.Fn(tdb + ".hashBufV6")
	cryptoHash := c.Func("crypto.Hash")
	kindIdxConst := c.Const(tdb + ".HashKindEncodingIndex")
	kindIdx, _ := constInt64(kindIdxConst)
	hashKindT := c.Named(tdb + ".HashKind")

	// the trie-leaf builders: every function that calls finishV6
	var builders []*ssa.Function
	seenB := map[*ssa.Function]bool{}
	for _, s := range c.Uses([]*types.Func{finish}, ScanOpts{SkipGenerated: true}) {
		if s.Kind != "call" {
			c.Bad("R15.1", "finishV6:used-as-value@"+s.Func, c.Pos(s.Node.Pos()), "finishV6 is referenced as a function value; the builders can no longer be enumerated")
			continue
		}
		o := c.TryObj(s.Func)
		f, _ := o.(*types.Func)
		fn := c.SSAOf(f)
		if fn == nil {
			c.Unk("R15.1", "finishV6:caller@"+s.Func, c.Pos(s.Node.Pos()), "caller of finishV6 has no SSA body")
			continue
		}
		if !seenB[fn] {
			seenB[fn] = true
			builders = append(builders, fn)
		}
	}
	sort.Slice(builders, func(i, j int) bool { return fnName(builders[i]) < fnName(builders[j]) })

	// ---- R15.1 / R15.3 on trie-leaf builders ----
	type kindSet map[int64]bool
	kindsOf := map[*ssa.Function]kindSet{}
	for _, b := range builders {
		name := fnName(b)
		c.NoteFn(name)
		calls := CallsTo(b, true, finish)
		if len(calls) != 1 {
			c.Unk("R15.1", name, c.Pos(b.Pos()), "expected exactly one finishV6 call, found "+itoa(len(calls)))
			continue
		}
		call := libCCall(calls[0])
		if call.Parent() != b {
			c.Unk("R15.1", name, c.Pos(call.Pos()), "finishV6 is called from a function literal")
			continue
		}
		img, why := c15ImageOf(call.Common().Args[1], call, 0)
		if img == nil {
			if strings.HasPrefix(why, "OVERLAP") {
				c.Bad("R15.1", name, c.Pos(call.Pos()), "pre-image handed to finishV6: "+why)
			} else {
				c.Unk("R15.1", name, c.Pos(call.Pos()), "cannot reconstruct the pre-image handed to finishV6: "+why)
			}
			continue
		}
		ok, desc := c15Injective(img)
		c.Check(ok, "R15.1", name, c.Pos(call.Pos()), "trie-leaf pre-image = "+desc)

		// R15.3: every parameter is hashed or feeds hashBufV6
		hb := CallsTo(b, false, hashBuf)
		for _, p := range b.Params {
			inImage := false
			for _, k := range img.comps {
				if k.src != nil && libCMentionsValue(k.src, p) {
					inImage = true
				}
				if k.val != nil && libCMentionsValue(k.val, p) {
					inImage = true
				}
			}
			inPrefix := false
			for _, h := range hb {
				for _, a := range h.Common().Args {
					if libCMentionsValue(a, p) {
						inPrefix = true
					}
				}
			}
			// only record pointers (their content is the encoded bytes) and plain
			// uint64 affinity numbers may steer the prefix without being hashed;
			// identities and byte strings (addresses, indices, keys, values,
			// encodings) must be in the pre-image itself.
			prefixOnlyAllowed := false
			switch t := p.Type().(type) {
			case *types.Pointer:
				_, prefixOnlyAllowed = t.Elem().Underlying().(*types.Struct)
			case *types.Basic:
				prefixOnlyAllowed = t.Kind() == types.Uint64
			}
			role := "pre-image component"
			if !inImage {
				role = "hashBufV6 argument (affinity/kind) only"
			}
			c.Check(inImage || (inPrefix && prefixOnlyAllowed), "R15.3", name+":param("+p.Name()+")", c.Pos(p.Pos()), "parameter "+p.Name()+" ("+p.Type().String()+") must be part of the leaf; found as: "+role+" (only record pointers and plain uint64 affinity values may be prefix-only)")
		}

		// R15.2: kinds reaching hashBufV6 from this builder
		ks := kindSet{}
		okKinds := len(hb) > 0
		for _, h := range hb {
			roots, rok := libCRoots(h.Common().Args[1])
			if !rok {
				okKinds = false
			}
			for _, r := range roots {
				if n, isK := libCConstVal(r); isK {
					ks[n] = true
					continue
				}
				// result of a kind-selecting helper: its constant results on success returns
				if ex, isEx := r.(*ssa.Extract); isEx {
					if hc, isCall := ex.Tuple.(*ssa.Call); isCall {
						if sf := hc.Common().StaticCallee(); sf != nil && sf.Blocks != nil {
							c.NoteFn(fnName(sf))
							for _, ret := range SuccessReturns(sf) {
								rv := ret.(*ssa.Return).Results[ex.Index]
								if n, isK := libCConstVal(rv); isK {
									ks[n] = true
								} else {
									okKinds = false
								}
							}
							// the helper's result may be used only when its error is nil
							ei := errResultIndex(sf)
							if ei >= 0 {
								errV := func(v ssa.Value) bool { e, ok := v.(*ssa.Extract); return ok && e.Tuple == ssa.Value(hc) && e.Index == ei }
								c.MustGuard(MustGuardSpec{Rule: "R15.2", Fn: b, Effects: []ssa.Instruction{h}, EffName: "hashBufV6(kind of " + fnName(sf) + ")", Guards: []Guard{GErrNil(fnName(sf)+" err==nil", errV)}})
							}
							continue
						}
					}
				}
				okKinds = false
			}
		}
		if !okKinds || len(ks) == 0 {
			c.Unk("R15.2", name+":kinds", c.Pos(b.Pos()), "cannot enumerate the HashKind values this builder passes to hashBufV6")
			continue
		}
		kindsOf[b] = ks
	}
	// pairwise disjoint kinds
	for i, a := range builders {
		if kindsOf[a] == nil {
			continue
		}
		clash := ""
		for j, b := range builders {
			if i == j || kindsOf[b] == nil {
				continue
			}
			for k := range kindsOf[a] {
				if kindsOf[b][k] {
					clash = fmt.Sprintf("kind %d is also used by %s", k, fnName(b))
				}
			}
		}
		var ks []string
		for k := range kindsOf[a] {
			ks = append(ks, fmt.Sprint(k))
		}
		sort.Strings(ks)
		c.Check(clash == "", "R15.2", fnName(a)+":kinds-disjoint", c.Pos(a.Pos()), "HashKind values {"+strings.Join(ks, ",")+"} passed to hashBufV6 are used by no other builder "+clash)
	}
	// HashKind constants pairwise distinct
	{
		pk := c.Pkg(tdb)
		vals := map[int64]string{}
		dup := ""
		n := 0
		for _, nm := range pk.Types.Scope().Names() {
			k, ok := pk.Types.Scope().Lookup(nm).(*types.Const)
			if !ok || !types.Identical(k.Type(), hashKindT) {
				continue
			}
			v, _ := constInt64(k)
			if other, seen := vals[v]; seen {
				dup = nm + " == " + other
			}
			vals[v] = nm
			n++
		}
		c.Check(dup == "" && n >= 2, "R15.2", tdb+".HashKind:constants-distinct", c.Pos(hashKindT.Obj().Pos()), fmt.Sprintf("%d HashKind constants have pairwise distinct values %s", n, dup))
	}
	// hashBufV6 stores kind at HashKindEncodingIndex on every path to its return
	{
		name := fnName(hashBufFn)
		var kindParam *ssa.Parameter
		for _, p := range hashBufFn.Params {
			if types.Identical(p.Type(), hashKindT) {
				kindParam = p
			}
		}
		var kindStores []ssa.Instruction
		for _, in := range Instrs(hashBufFn, func(in ssa.Instruction) bool {
			st, ok := in.(*ssa.Store)
			if !ok {
				return false
			}
			ia, ok := st.Addr.(*ssa.IndexAddr)
			if !ok {
				return false
			}
			n, isK := libCConstVal(ia.Index)
			return isK && n == kindIdx
		}) {
			kindStores = append(kindStores, in)
		}
		ok := kindParam != nil && len(kindStores) == 1
		detail := "hash[HashKindEncodingIndex] = byte(kind) is the only store at that index and every return passes it"
		if ok {
			st := kindStores[0].(*ssa.Store)
			if strip(st.Val) != ssa.Value(kindParam) {
				ok = false
				detail = "the byte stored at HashKindEncodingIndex is not the kind parameter: " + describe(st.Val)
			}
			r := NewReach(hashBufFn, nil, func(in ssa.Instruction) bool { return in == kindStores[0] })
			for _, ret := range libCReturns(hashBufFn) {
				if r.Reaches(ret) {
					ok = false
					detail = "a return of hashBufV6 is reachable without storing the kind byte"
				}
				// the returned buffer is the one stored into
				ia := st.Addr.(*ssa.IndexAddr)
				if c15Canon(ret.Results[0]) != c15Canon(ia.X) {
					ok = false
					detail = "hashBufV6 returns a different buffer than the one holding the kind byte"
				}
			}
		} else {
			detail = fmt.Sprintf("expected one store at constant index %d in hashBufV6, found %d", kindIdx, len(kindStores))
		}
		c.Check(ok, "R15.2", name+":kind-at-HashKindEncodingIndex", c.Pos(hashBufFn.Pos()), detail)
	}
	// finishV6: hashes exactly its pre-image parameter; copies the rest of the digest behind the kind byte
	{
		name := fnName(finishFn)
		hc := CallsTo(finishFn, false, cryptoHash)
		ok := len(hc) == 1 && len(finishFn.Params) == 2 && strip(hc[0].Common().Args[0]) == ssa.Value(finishFn.Params[1])
		c.Check(ok, "R15.1", name+":hashes-prehash", c.Pos(finishFn.Pos()), "finishV6 hashes exactly its pre-image parameter with crypto.Hash (one call)")
		okCopy, okBehind := false, false
		detail := "no copy of the digest into the leaf buffer found"
		if ok {
			// total leaf length from hashBufV6's buffer
			leafLen := int64(-1)
			for _, ret := range libCReturns(hashBufFn) {
				if s, isS := c15Canon(ret.Results[0]).(*ssa.Slice); isS {
					if n, fixed := c15FixedWidth(s); fixed {
						leafLen = n
					}
				}
			}
			for _, in := range Instrs(finishFn, func(in ssa.Instruction) bool { _, ok := isBuiltinCall(in, "copy"); return ok }) {
				cc, _ := isBuiltinCall(in, "copy")
				dst, isS := cc.Args[0].(*ssa.Slice)
				if !isS || dst.X != ssa.Value(finishFn.Params[0]) || dst.High != nil {
					continue
				}
				lo := int64(0)
				if dst.Low != nil {
					n, isK := libCConstVal(dst.Low)
					if !isK {
						continue
					}
					lo = n
				}
				w, fixed := c15FixedWidth(c15Canon(cc.Args[1]))
				if !fixed {
					continue
				}
				// the source is the digest computed above
				srcS := c15Canon(cc.Args[1]).(*ssa.Slice)
				isDigest := false
				if a, isA := srcS.X.(*ssa.Alloc); isA {
					for _, sv := range localStores(a) {
						if sv == hc[0].Value() {
							isDigest = true
						}
					}
				}
				if !isDigest {
					continue
				}
				okBehind = lo > kindIdx
				okCopy = leafLen > 0 && lo+w == leafLen
				detail = fmt.Sprintf("copy(v6hash[%d:], digest[%d bytes]) into a %d-byte leaf; kind byte at %d", lo, w, leafLen, kindIdx)
			}
		}
		c.Check(okCopy, "R15.1", name+":digest-fills-leaf", c.Pos(finishFn.Pos()), "the digest fills the leaf buffer to its end: "+detail)
		c.Check(okBehind, "R15.2", name+":writes-behind-kind-byte", c.Pos(finishFn.Pos()), "finishV6 writes only behind HashKindEncodingIndex: "+detail)
	}

	// ---- label makers ----
	lc := "ledger/ledgercore"
	ifaceNamed := c.Named(lc + ".CatchpointLabelMaker")
	iface, _ := ifaceNamed.Underlying().(*types.Interface)
	if iface == nil {
		c.Unk("R15.1", lc+".CatchpointLabelMaker", "-", "not an interface")
		return
	}
	roundT := c.Named("data/basics.Round")
	makers := c.libCImplementors(lc, iface)
	if len(makers) == 0 {
		c.Unk("R15.1", lc+".CatchpointLabelMaker:implementations", "-", "no implementation found")
	}
	makerSet := map[*types.Named]bool{}
	for _, m := range makers {
		makerSet[m] = true
	}
	for _, nt := range makers {
		tname := lc + "." + nt.Obj().Name()
		bufM, rndM := libCMethod(nt, "buffer"), libCMethod(nt, "round")
		bufFn, rndFn := c.SSAOf(bufM), c.SSAOf(rndM)
		if bufFn == nil || rndFn == nil {
			c.Unk("R15.1", tname+".buffer", c.Pos(nt.Obj().Pos()), "buffer()/round() has no body")
			continue
		}
		c.NoteFn(fnName(bufFn))
		rets := libCReturns(bufFn)
		if len(rets) != 1 {
			c.Unk("R15.1", tname+".buffer", c.Pos(bufFn.Pos()), "expected a single return")
			continue
		}
		img, why := c15ImageOf(rets[0].Results[0], rets[0], 0)
		if img == nil {
			if strings.HasPrefix(why, "OVERLAP") {
				c.Bad("R15.1", tname+".buffer", c.Pos(bufFn.Pos()), "label pre-image: "+why)
			} else {
				c.Unk("R15.1", tname+".buffer", c.Pos(bufFn.Pos()), "cannot reconstruct the label pre-image: "+why)
			}
		} else {
			ok, desc := c15Injective(img)
			c.Check(ok, "R15.1", tname+".buffer", c.Pos(bufFn.Pos()), "label pre-image = "+desc)
		}
		// R15.3: every field is read by buffer() (Round fields by round()), nested makers through their own methods
		st, _ := nt.Underlying().(*types.Struct)
		for i := 0; st != nil && i < st.NumFields(); i++ {
			f := st.Field(i)
			fn, via := bufFn, "buffer()"
			if types.Identical(f.Type(), roundT) {
				fn, via = rndFn, "round()"
			}
			used := false
			for _, b := range fn.Blocks {
				for _, in := range b.Instrs {
					if v, ok := in.(ssa.Value); ok && valueIs(v, f) {
						used = true
					}
				}
			}
			c.Check(used, "R15.3", tname+"."+f.Name()+":in-"+via, c.Pos(f.Pos()), "field "+f.Name()+" of the label maker is read by "+via+", i.e. is committed to by the label")
		}
	}
	// constructors: every parameter is stored into the maker
	{
		pk := c.Pkg(lc)
		names := pk.Types.Scope().Names()
		sort.Strings(names)
		for _, nm := range names {
			f, ok := pk.Types.Scope().Lookup(nm).(*types.Func)
			if !ok {
				continue
			}
			sig := f.Type().(*types.Signature)
			if sig.Results().Len() != 1 {
				continue
			}
			rt := sig.Results().At(0).Type()
			if p, isP := rt.(*types.Pointer); isP {
				rt = p.Elem()
			}
			rnt, isN := rt.(*types.Named)
			if !isN || !makerSet[rnt] {
				continue
			}
			fn := c.SSAOf(f)
			if fn == nil {
				continue
			}
			c.NoteFn(fnName(fn))
			rets := libCReturns(fn)
			for _, p := range fn.Params {
				stored := false
				for _, r := range rets {
					// the returned composite: stores into its fields mention p
					base := strip(r.Results[0])
					if refs := base.Referrers(); refs != nil {
						for _, u := range *refs {
							if fa, ok := u.(*ssa.FieldAddr); ok && fa.X == base {
								for _, w := range *fa.Referrers() {
									if stv, ok := w.(*ssa.Store); ok && stv.Addr == ssa.Value(fa) && libCMentionsValue(stv.Val, p) {
										stored = true
									}
								}
							}
						}
					}
				}
				c.Check(stored, "R15.3", lc+"."+nm+":param("+p.Name()+")", c.Pos(p.Pos()), "constructor parameter "+p.Name()+" is stored into the label maker")
			}
		}
	}
	// MakeLabel hashes l.buffer() and prints l.round()
	{
		ml := c.Fn(lc + ".MakeLabel")
		bufI := c.Func(lc + ".CatchpointLabelMaker.buffer")
		rndI := c.Func(lc + ".CatchpointLabelMaker.round")
		hc := CallsTo(ml, false, cryptoHash)
		ok := len(hc) == 1 && len(ml.Params) == 1
		detail := "label = Sprintf(round(), base32(Hash(l.buffer())))"
		if ok {
			arg, isCall := strip(hc[0].Common().Args[0]).(*ssa.Call)
			if !isCall || !sameFunc(calleeOf(arg.Common()), bufI) || arg.Common().Value != ssa.Value(ml.Params[0]) {
				ok = false
				detail = "crypto.Hash is not applied directly to l.buffer()"
			}
		} else {
			detail = "expected exactly one crypto.Hash call"
		}
		if ok {
			for _, r := range libCReturns(ml) {
				if !libCMentionsValue(r.Results[0], hc[0].Value()) {
					ok = false
					detail = "the returned label does not derive from the hash"
				}
				rc := libCMentionsCall(r.Results[0], rndI)
				if rc == nil || rc.Common().Value != ssa.Value(ml.Params[0]) {
					ok = false
					detail = "the returned label does not include l.round()"
				}
			}
		}
		c.Check(ok, "R15.1", lc+".MakeLabel:hash(l.buffer())+round", c.Pos(ml.Pos()), detail)
	}
}
