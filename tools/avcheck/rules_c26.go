package main

import (
	"go/token"
	"go/types"

	"golang.org/x/tools/go/ssa"
)

func init() {
	register(&Prop{
		ID:       "C26",
		Patterns: []string{"./data/bookkeeping", "./ledger/eval"},
		Run:      runC26,
		Explanation: "Decides the guarded-store shape of the upgrade state machine and its enforcement on headers: " +
			"R26.1 in UpgradeState.applyUpgradeVote every assignment to a field of the state is one of the tabled transitions, each reachable only under its guards — SWITCH: CurrentProtocol=s.NextProtocol only when r==s.NextProtocolSwitchOn; PROPOSE: NextProtocol=vote.UpgradePropose only when s.NextProtocol==\"\" (at most one pending), len(propose)<=params.MaxVersionStringLen and MinUpgradeWaitRounds<=delay<=MaxUpgradeWaitRounds, with NextProtocolVoteBefore=r+UpgradeVoteRounds and NextProtocolSwitchOn=(r+UpgradeVoteRounds)+delay (so the switch round is never before the deadline); APPROVE: NextProtocolApprovals+1 only when vote.UpgradeApprove, s.NextProtocol!=\"\" and r<s.NextProtocolVoteBefore; RESET (\"\"/0) of the four proposal fields only under (r==VoteBefore && approvals<UpgradeThreshold) or under r==SwitchOn; a proposal that misses the threshold is certainly reset (every path from that branch to the return clears NextProtocol and NextProtocolSwitchOn), and the deadline test executes before the switch test reads NextProtocolSwitchOn; params are config.Consensus[s.CurrentProtocol] and a nil error is returned only with the updated state. " +
			"R26.2 the five UpgradeState fields are written (assignments, non-zero literals) in data/bookkeeping, ledger/eval/… and ledger/apply only by applyUpgradeVote and the genesis constructor; BlockHeader.UpgradeState as a whole only by MakeBlock (from ProcessUpgradeParams→applyUpgradeVote) and genesis. " +
			"R26.3 BlockHeader.PreCheck returns nil only if prev.UpgradeState.applyUpgradeVote(prev.Round+1, bh.UpgradeVote) returned no error and equals bh.UpgradeState, and round==bh.Round; ProcessUpgradeParams returns the state of applyUpgradeVote(prev.Round+1, its own vote); StartEvaluator in validate mode returns an evaluator only if block.BlockHeader.PreCheck(prevHeader)==nil. " +
			"Does NOT decide: round arithmetic overflow, that guards tested on s.* still hold at the store when other assignments intervene (only the deadline/switch order is decided), which protocol a node votes for, nor callers that add blocks without the evaluator (catchup, C30).",
		Assumptions: []string{"config.Consensus is populated consistently on all nodes", "round counters do not overflow"},
		Floor:       map[string]int{"R26.1": 28, "R26.2": 4, "R26.3": 9},
	})
}

func runC26(c *Ctx) {
	defer eGuardRun(c, "C26")
	const bk = "data/bookkeeping."
	fn := c.Fn(bk + "UpgradeState.applyUpgradeVote")
	name := bk + "UpgradeState.applyUpgradeVote"
	fCur := c.Field(bk + "UpgradeState.CurrentProtocol")
	fNext := c.Field(bk + "UpgradeState.NextProtocol")
	fAppr := c.Field(bk + "UpgradeState.NextProtocolApprovals")
	fVB := c.Field(bk + "UpgradeState.NextProtocolVoteBefore")
	fSO := c.Field(bk + "UpgradeState.NextProtocolSwitchOn")
	fPropose := c.Field(bk + "UpgradeVote.UpgradePropose")
	fDelay := c.Field(bk + "UpgradeVote.UpgradeDelay")
	fApprove := c.Field(bk + "UpgradeVote.UpgradeApprove")
	fMaxLen := c.Field("config.ConsensusParams.MaxVersionStringLen")
	fMaxWait := c.Field("config.ConsensusParams.MaxUpgradeWaitRounds")
	fMinWait := c.Field("config.ConsensusParams.MinUpgradeWaitRounds")
	fDefWait := c.Field("config.ConsensusParams.DefaultUpgradeWaitRounds")
	fVoteRounds := c.Field("config.ConsensusParams.UpgradeVoteRounds")
	fThreshold := c.Field("config.ConsensusParams.UpgradeThreshold")
	gConsensus := c.Obj("config.Consensus")

	pS, pR, pVote := fn.Params[0], eParamN(fn, 0), eParamN(fn, 1)
	// S: the local the receiver is spilled to
	var S *ssa.Alloc
	for _, r := range *pS.Referrers() {
		if st, ok := r.(*ssa.Store); ok && st.Val == ssa.Value(pS) {
			if al, isA := st.Addr.(*ssa.Alloc); isA {
				S = al
			}
		}
	}
	if S == nil {
		c.Unk("R26.1", name+":state local", c.Pos(fn.Pos()), "the receiver is not copied into a local state that is updated")
		return
	}
	if ws := eWholeStores(S); len(ws) != 1 {
		c.Bad("R26.1", name+":state local", c.Pos(fn.Pos()), "the working state is overwritten as a whole "+itoa(len(ws))+" times; expected only the initial copy of the receiver")
	}
	sf := func(f *types.Var) VM { return eLoadOf(S, f) }
	vf := func(f *types.Var) VM { return eParamFieldLoad(pVote, f) }
	isR := func(v ssa.Value) bool { return eIsParamVal(v, pR) }
	// P: params local, from config.Consensus[s.CurrentProtocol]
	var P *ssa.Alloc
	okParams := false
	for _, b := range fn.Blocks {
		for _, in := range b.Instrs {
			lk, ok := in.(*ssa.Lookup)
			if !ok || !lk.CommaOk {
				continue
			}
			if !Mentions(lk.X, gConsensus, 2) || !sf(fCur)(lk.Index) {
				continue
			}
			for _, r := range *lk.Referrers() {
				if e, isE := r.(*ssa.Extract); isE && e.Index == 0 {
					for _, r2 := range *e.Referrers() {
						if st, isSt := r2.(*ssa.Store); isSt {
							if al, isA := st.Addr.(*ssa.Alloc); isA {
								P = al
							}
						}
					}
				}
				if e, isE := r.(*ssa.Extract); isE && e.Index == 1 && P != nil {
					// nil-error returns only when the protocol is known
					okE := true
					for _, ret := range eSuccessReturns(fn) {
						if !eInstrGuarded(ret, GBool("protocol known", IsV(e), true)) {
							okE = false
						}
					}
					okParams = okE
				}
			}
		}
	}
	if P == nil {
		c.Unk("R26.1", name+":params=config.Consensus[s.CurrentProtocol]", c.Pos(fn.Pos()), "params lookup not found")
		return
	}
	if ws, esc := eAllocWriters(P); esc || len(ws) != 1 {
		okParams = false
	}
	c.Check(okParams, "R26.1", name+":params=config.Consensus[s.CurrentProtocol]", c.Pos(fn.Pos()), "thresholds and windows are those of the current protocol; unknown protocol is an error")
	pf := func(f *types.Var) VM { return eConvOf(eLoadOf(P, f)) }

	// value descriptors
	delayRaw := eConvOf(vf(fDelay))
	isVoteWindowEnd := func(v ssa.Value) bool { // r + Round(params.UpgradeVoteRounds)
		bo, ok := v.(*ssa.BinOp)
		return ok && bo.Op == token.ADD && ((isR(bo.X) && pf(fVoteRounds)(bo.Y)) || (isR(bo.Y) && pf(fVoteRounds)(bo.X)))
	}
	var isDelay func(v ssa.Value, d int) bool
	isDelay = func(v ssa.Value, d int) bool {
		v = strip(v)
		if p, ok := v.(*ssa.Phi); ok && d < 3 {
			for _, e := range p.Edges {
				if !isDelay(e, d+1) {
					return false
				}
			}
			return true
		}
		return delayRaw(v) || pf(fDefWait)(v)
	}

	// guards
	gSwitch := GCmp("r==s.NextProtocolSwitchOn", token.EQL, isR, sf(fSO))
	gDeadline := GCmp("r==s.NextProtocolVoteBefore", token.EQL, isR, sf(fVB))
	gBelow := GCmp("s.NextProtocolApprovals<params.UpgradeThreshold", token.LSS, sf(fAppr), pf(fThreshold))
	gNoPending := GCmp("s.NextProtocol==\"\"", token.EQL, sf(fNext), eIsConstString(""))
	gPending := GCmp("s.NextProtocol!=\"\"", token.NEQ, sf(fNext), eIsConstString(""))
	gProposing := GCmp("vote.UpgradePropose!=\"\"", token.NEQ, vf(fPropose), eIsConstString(""))
	lenOfPropose := func(v ssa.Value) bool { s, ok := lenOf(v); return ok && vf(fPropose)(s) }
	gLen := GCmp("len(vote.UpgradePropose)<=params.MaxVersionStringLen", token.LEQ, lenOfPropose, pf(fMaxLen))
	gMax := GCmp("delay<=params.MaxUpgradeWaitRounds", token.LEQ, delayRaw, pf(fMaxWait))
	gMin := GCmp("delay>=params.MinUpgradeWaitRounds", token.GEQ, delayRaw, pf(fMinWait))
	gApprove := GBool("vote.UpgradeApprove", vf(fApprove), true)
	gBefore := GCmp("r<s.NextProtocolVoteBefore", token.LSS, isR, sf(fVB))
	proposeGuards := []Guard{gProposing, gNoPending, gLen, gMax, gMin}

	resetOK := func(st *ssa.Store) (bool, string) {
		if eInstrGuarded(st, gSwitch) {
			return true, "reset after the switch (r==SwitchOn)"
		}
		if eInstrGuarded(st, gDeadline) && eInstrGuarded(st, gBelow) {
			return true, "reset of a proposal that missed the threshold at its deadline"
		}
		return false, "a proposal field is cleared on a path that is neither the switch (r==s.NextProtocolSwitchOn) nor the failed deadline (r==s.NextProtocolVoteBefore && approvals<threshold)"
	}
	isZero := func(v ssa.Value) bool { return IsConstInt(0)(v) }
	var switchStores, clearNext, clearSO []*ssa.Store
	counts := map[string]int{}
	for _, ls := range eLeafStores(S) {
		if len(ls.Path) != 1 {
			continue
		}
		f, st := ls.Path[0], ls.St
		site := name + ":s." + f.Name()
		switch {
		case f == fCur:
			if !sf(fNext)(st.Val) {
				c.Bad("R26.1", site+"=s.NextProtocol", c.Pos(st.Pos()), "CurrentProtocol is assigned "+describe(st.Val)+", not the pending s.NextProtocol")
				continue
			}
			counts["switch"]++
			switchStores = append(switchStores, st)
			c.MustGuard(MustGuardSpec{Rule: "R26.1", Fn: fn, Effects: []ssa.Instruction{st}, EffName: "SWITCH s.CurrentProtocol=s.NextProtocol", Guards: []Guard{gSwitch}})
		case f == fNext && vf(fPropose)(st.Val):
			counts["propose"]++
			c.MustGuard(MustGuardSpec{Rule: "R26.1", Fn: fn, Effects: []ssa.Instruction{st}, EffName: "PROPOSE s.NextProtocol=vote.UpgradePropose", Guards: proposeGuards})
		case f == fNext && eIsConstString("")(st.Val):
			ok, d := resetOK(st)
			if eInstrGuarded(st, gDeadline) {
				clearNext = append(clearNext, st)
			}
			c.Check(ok, "R26.1", site+"=\"\" (RESET)", c.Pos(st.Pos()), d)
		case f == fAppr:
			if bo, ok := st.Val.(*ssa.BinOp); ok && bo.Op == token.ADD && sf(fAppr)(bo.X) && IsConstInt(1)(bo.Y) {
				counts["approve"]++
				c.MustGuard(MustGuardSpec{Rule: "R26.1", Fn: fn, Effects: []ssa.Instruction{st}, EffName: "APPROVE s.NextProtocolApprovals++", Guards: []Guard{gApprove, gPending, gBefore}})
			} else if isZero(st.Val) {
				if eInstrGuarded(st, gProposing) && eInstrGuarded(st, gNoPending) {
					c.Ok("R26.1", site+"=0 (PROPOSE)", c.Pos(st.Pos()), "a new proposal starts with zero approvals")
				} else {
					ok, d := resetOK(st)
					c.Check(ok, "R26.1", site+"=0 (RESET)", c.Pos(st.Pos()), d)
				}
			} else {
				c.Bad("R26.1", site, c.Pos(st.Pos()), "approvals are assigned "+describe(st.Val)+": neither +1, nor 0")
			}
		case f == fVB:
			if isZero(st.Val) {
				ok, d := resetOK(st)
				c.Check(ok, "R26.1", site+"=0 (RESET)", c.Pos(st.Pos()), d)
			} else if isVoteWindowEnd(st.Val) {
				counts["deadline"]++
				c.MustGuard(MustGuardSpec{Rule: "R26.1", Fn: fn, Effects: []ssa.Instruction{st}, EffName: "PROPOSE s.NextProtocolVoteBefore=r+UpgradeVoteRounds", Guards: []Guard{gProposing, gNoPending}})
			} else {
				c.Bad("R26.1", site, c.Pos(st.Pos()), "the vote deadline is assigned "+describe(st.Val)+", not r+params.UpgradeVoteRounds")
			}
		case f == fSO:
			if isZero(st.Val) {
				ok, d := resetOK(st)
				if eInstrGuarded(st, gDeadline) {
					clearSO = append(clearSO, st)
				}
				c.Check(ok, "R26.1", site+"=0 (RESET)", c.Pos(st.Pos()), d)
			} else if bo, ok := st.Val.(*ssa.BinOp); ok && bo.Op == token.ADD && ((isVoteWindowEnd(bo.X) && isDelay(bo.Y, 0)) || (isVoteWindowEnd(bo.Y) && isDelay(bo.X, 0))) {
				counts["switchon"]++
				c.MustGuard(MustGuardSpec{Rule: "R26.1", Fn: fn, Effects: []ssa.Instruction{st}, EffName: "PROPOSE s.NextProtocolSwitchOn=(r+UpgradeVoteRounds)+delay", Guards: []Guard{gProposing, gNoPending, gMax, gMin}})
			} else {
				c.Bad("R26.1", site, c.Pos(st.Pos()), "the switch round is assigned "+describe(st.Val)+", not (r+params.UpgradeVoteRounds)+delay")
			}
		default:
			c.Bad("R26.1", site, c.Pos(st.Pos()), "assignment "+describe(st.Val)+" to s."+f.Name()+" matches no tabled transition of the upgrade state machine")
		}
	}
	for _, k := range []string{"switch", "propose", "approve", "deadline", "switchon"} {
		if counts[k] == 0 {
			c.Bad("R26.1", name+":transition "+k+" present", c.Pos(fn.Pos()), "the "+k+" transition of the upgrade state machine was not found")
		}
	}
	// a failed proposal is certainly reset, before the switch test
	{
		edgesD, nD := PassEdges(fn, gDeadline)
		edgesB, nB := PassEdges(fn, gBelow)
		ok := nD == 1 && nB == 1 && len(clearNext) > 0 && len(clearSO) > 0
		detail := "when r==VoteBefore and approvals<threshold every path to the return clears NextProtocol and NextProtocolSwitchOn"
		if ok {
			eB := edgesB[0]
			eD := edgesD[0]
			// the threshold test is evaluated under the deadline test
			if !eD.From.Succs[eD.Idx].Dominates(eB.From) || len(eD.From.Succs[eD.Idx].Preds) != 1 {
				ok, detail = false, "the threshold comparison is not evaluated under r==s.NextProtocolVoteBefore"
			} else {
				start := eB.From.Succs[eB.Idx]
				for _, set := range [][]*ssa.Store{clearNext, clearSO} {
					via := map[ssa.Instruction]bool{}
					for _, s := range set {
						via[s] = true
					}
					r := eReachFromBlock(start, func(in ssa.Instruction) bool { return via[in] })
					for _, ret := range eReturnsOf(fn) {
						if r.Has(ret) {
							ok, detail = false, "a return is reachable from the failed-deadline branch without clearing the proposal"
						}
					}
				}
			}
		} else {
			detail = "failed-deadline reset not found (deadline guard matched " + itoa(nD) + " branches, threshold guard " + itoa(nB) + ")"
		}
		c.Check(ok, "R26.1", name+":failed proposal is reset", c.Pos(fn.Pos()), detail)
		// order: the switch test reads SwitchOn after the deadline branch
		okOrd := nD == 1 && len(switchStores) > 0
		if okOrd {
			swEdges, nS := PassEdges(fn, gSwitch)
			okOrd = nS >= 1
			for _, e := range swEdges {
				iff := eBlockEnd(e.From)
				if !Dominates(eBlockEnd(edgesD[0].From), iff) {
					okOrd = false
				}
				fwd := eReachFrom(iff, nil, nil)
				for _, s := range append(append([]*ssa.Store{}, clearNext...), clearSO...) {
					if fwd.Has(s) {
						okOrd = false
					}
				}
				// the SwitchOn value compared is loaded after the reset could have happened
				cond, _ := condOf(iff.(*ssa.If).Cond)
				if bo, isBo := cond.(*ssa.BinOp); isBo {
					for _, op := range []ssa.Value{bo.X, bo.Y} {
						if sf(fSO)(op) {
							ld := strip(op).(ssa.Instruction)
							for _, s := range clearSO {
								if eReachFrom(ld, nil, nil).Has(s) {
									okOrd = false
								}
							}
						}
					}
				}
			}
		}
		c.Check(okOrd, "R26.1", name+":deadline reset precedes switch test", c.Pos(fn.Pos()), "the switch test reads NextProtocolSwitchOn only after a failed proposal has been cleared (matters when the switch round equals the deadline)")
	}
	// nil error only with the updated state
	{
		ok := true
		rets := eSuccessReturns(fn)
		for _, r := range rets {
			v := r.(*ssa.Return).Results[0]
			al, isL := eLoadedLocal(v)
			if isL && al == S {
				continue
			}
			// named result copied from S
			if isL {
				ws := eWholeStores(al)
				good := len(ws) > 0
				for _, w := range ws {
					src, isSrc := eLoadedLocal(w.Val)
					if !isSrc || src != S {
						good = false
					}
				}
				if good {
					continue
				}
			}
			ok = false
		}
		c.Check(ok && len(rets) > 0, "R26.1", name+":returns updated state", c.Pos(fn.Pos()), "a nil error is returned together with the working state")
	}

	// ---- R26.2 ownership ----
	scope := ScanOpts{SkipGenerated: true, OnlyPkgs: []string{"data/bookkeeping", "ledger/eval/...", "ledger/apply"}}
	c.OwnerRule("R26.2", "write(UpgradeState.*)", c.FieldWrites(map[*types.Var]bool{fCur: true, fNext: true, fAppr: true, fVB: true, fSO: true}, scope), map[string]string{
		name:                    "the state machine",
		bk + "MakeGenesisBlock": "genesis: CurrentProtocol only",
	})
	c.OwnerRule("R26.2", "write(BlockHeader.UpgradeState)", c.FieldWrites(map[*types.Var]bool{c.Field(bk + "BlockHeader.UpgradeState"): true}, scope), map[string]string{
		bk + "MakeBlock":        "result of ProcessUpgradeParams",
		bk + "MakeGenesisBlock": "genesis",
	})

	// ---- R26.3 enforcement ----
	fApply := c.Func(bk + "UpgradeState.applyUpgradeVote")
	fHdrUS := c.Field(bk + "BlockHeader.UpgradeState")
	fHdrUV := c.Field(bk + "BlockHeader.UpgradeVote")
	fHdrRound := c.Field(bk + "BlockHeader.Round")
	{
		pc := c.Fn(bk + "BlockHeader.PreCheck")
		pname := bk + "BlockHeader.PreCheck"
		pBh, pPrev := pc.Params[0], pc.Params[1]
		calls := eCallsToIn(pc, false, fApply)
		if len(calls) != 1 {
			c.Unk("R26.3", pname+":applyUpgradeVote", c.Pos(pc.Pos()), "expected exactly one applyUpgradeVote call")
		} else {
			call := calls[0]
			a := call.Common().Args // recv, round, vote
			isNextRound := func(v ssa.Value) bool {
				bo, ok := v.(*ssa.BinOp)
				return ok && bo.Op == token.ADD && eParamFieldLoad(pPrev, fHdrRound)(bo.X) && IsConstInt(1)(bo.Y)
			}
			okArgs := eParamFieldLoad(pPrev, fHdrUS)(a[0]) && isNextRound(a[1]) && eParamFieldLoad(pBh, fHdrUV)(a[2])
			c.Check(okArgs, "R26.3", pname+":prev.UpgradeState.applyUpgradeVote(prev.Round+1, bh.UpgradeVote)", c.Pos(call.Pos()), "the expected state is computed from the previous header's state and this header's vote")
			c.MustGuard(MustGuardSpec{Rule: "R26.3", Fn: pc, Effects: eSuccessReturns(pc), EffName: "return nil", Guards: []Guard{
				GErrNil("applyUpgradeVote err==nil", func(v ssa.Value) bool { return eExtractOf(v, call, 1) }),
				GCmp("nextUpgradeState==bh.UpgradeState", token.EQL, func(v ssa.Value) bool { return eExtractOf(v, call, 0) }, eParamFieldLoad(pBh, fHdrUS)),
				GCmp("prev.Round+1==bh.Round", token.EQL, isNextRound, eParamFieldLoad(pBh, fHdrRound)),
			}})
		}
	}
	{
		pu := c.Fn(bk + "ProcessUpgradeParams")
		pname := bk + "ProcessUpgradeParams"
		pPrev := pu.Params[0]
		calls := eCallsToIn(pu, false, fApply)
		if len(calls) != 1 {
			c.Unk("R26.3", pname+":applyUpgradeVote", c.Pos(pu.Pos()), "expected exactly one applyUpgradeVote call")
		} else {
			call := calls[0]
			a := call.Common().Args
			okArgs := eParamFieldLoad(pPrev, fHdrUS)(a[0])
			if bo, ok := a[1].(*ssa.BinOp); !ok || bo.Op != token.ADD || !eParamFieldLoad(pPrev, fHdrRound)(bo.X) || !IsConstInt(1)(bo.Y) {
				okArgs = false
			}
			// returned vote is the vote applied; returned state is the call's result
			okRet := true
			rets := eSuccessReturns(pu)
			for _, r := range rets {
				res := r.(*ssa.Return).Results
				if !eExtractOf(res[1], call, 0) || !eSameVal(res[0], a[2]) {
					okRet = false
				}
			}
			c.Check(okArgs && okRet && len(rets) > 0, "R26.3", pname+":returns (vote, prev.UpgradeState.applyUpgradeVote(prev.Round+1, vote))", c.Pos(call.Pos()), "a proposer's header carries the vote it applied and the resulting state")
			c.MustGuard(MustGuardSpec{Rule: "R26.3", Fn: pu, Effects: rets, EffName: "return state", Guards: []Guard{GErrNil("applyUpgradeVote err==nil", func(v ssa.Value) bool { return eExtractOf(v, call, 1) })}})
		}
		mb := c.Fn(bk + "MakeBlock")
		okMB := false
		for _, st := range eStoresThroughField([]*ssa.Function{mb}, fHdrUS)[mb] {
			v := st.Val
			if al, isL := eLoadedLocal(v); isL {
				if ws := eWholeStores(al); len(ws) == 1 && len(eLeafStores(al)) == 0 {
					v = ws[0].Val
				}
			}
			if cl, ok := eCallOfExtract(v, 1); ok && sameFunc(calleeOf(cl.Common()), c.Func(bk+"ProcessUpgradeParams")) {
				okMB = true
			} else {
				okMB = false
				break
			}
		}
		c.Check(okMB, "R26.3", bk+"MakeBlock:UpgradeState=ProcessUpgradeParams(prev)", c.Pos(mb.Pos()), "a new block's upgrade state is the state machine's output")
	}
	{
		const ev = "ledger/eval."
		se := c.Fn(ev + "StartEvaluator")
		preCheck := c.Func(bk + "BlockHeader.PreCheck")
		fValidate := c.Field(ev + "EvaluatorOptions.Validate")
		fBlock := c.Field(ev + "BlockEvaluator.block")
		fPrevHdr := c.Field(ev + "BlockEvaluator.prevHeader")
		calls := eCallsToIn(se, false, preCheck)
		if len(calls) != 1 {
			c.Unk("R26.3", ev+"StartEvaluator:PreCheck", c.Pos(se.Pos()), "expected exactly one PreCheck call")
		} else {
			call := calls[0]
			a := call.Common().Args
			c.Check(Mentions(a[0], fBlock, 4) && Mentions(a[1], fPrevHdr, 4), "R26.3", ev+"StartEvaluator:block.BlockHeader.PreCheck(prevHeader)", c.Pos(call.Pos()), "the header under validation is checked against the previous header")
			c.MustGuard(MustGuardSpec{Rule: "R26.3", Fn: se, Effects: eSuccessReturns(se), EffName: "return evaluator",
				Guards: []Guard{GErrNil("PreCheck err==nil", IsV(call))},
				Bypass: []Guard{GBool("!evalOpts.Validate", M(fValidate), false)}})
		}
	}
	eDump(c)
}
