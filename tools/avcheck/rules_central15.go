package main

import (
	"go/types"

	"golang.org/x/tools/go/ssa"
)

// R41.5: msgp.Raw fields are decoded by msgp.Skip, which recurses once per
// nested array/map level with no depth budget (Raw.UnmarshalMsgWithState checks
// AllowableDepth only on entry). A chunk whose Raw field holds ~11 M nested
// one-element arrays (11 MB, far below the 3 GB per-chunk limit, ~11 KB
// gzipped) overflows the goroutine stack — a fatal runtime error that no
// recover() catches: the process dies. Found from a side note of the agent that
// seeded C41-1, confirmed on the pinned tree (findings/C41) and repaired by a
// "fix:" commit that scans the nesting depth iteratively before decoding.
func init() {
	extend("C41", Extension{
		Run:         ruleRawDecodedOnlyAfterDepthScan,
		Explanation: "R41.5 (msgp.Raw needs a depth pre-scan): every protocol.Decode/DecodeMsgp call in node packages whose target type contains, transitively through encoded fields, a field of type msgp.Raw (today the catchpoint chunk types) is dominated by the success edge of protocol.CheckMsgpDepth on the very bytes being decoded — msgp.Skip, which consumes Raw fields, recurses per nesting level without a budget, so without the scan a deeply nested chunk from an untrusted catchup peer kills the process with a stack overflow that recover() cannot catch. Operator tools under cmd/ and tools/ are out of scope.",
		Floor:       map[string]int{"R41.5": 2},
	})
}

func containsRaw(t types.Type, seen map[types.Type]bool) bool {
	t = types.Unalias(t)
	if seen[t] {
		return false
	}
	seen[t] = true
	switch x := t.(type) {
	case *types.Named:
		if x.Obj().Name() == "Raw" && x.Obj().Pkg() != nil && x.Obj().Pkg().Path() == "github.com/algorand/msgp/msgp" {
			return true
		}
		return containsRaw(x.Underlying(), seen)
	case *types.Pointer:
		return containsRaw(x.Elem(), seen)
	case *types.Slice:
		return containsRaw(x.Elem(), seen)
	case *types.Array:
		return containsRaw(x.Elem(), seen)
	case *types.Map:
		return containsRaw(x.Key(), seen) || containsRaw(x.Elem(), seen)
	case *types.Struct:
		for i := 0; i < x.NumFields(); i++ {
			if containsRaw(x.Field(i).Type(), seen) {
				return true
			}
		}
	}
	return false
}

func ruleRawDecodedOnlyAfterDepthScan(c *Ctx) {
	const rule = "R41.5"
	decoders := c.Funcs("protocol.Decode", "protocol.DecodeMsgp")
	var check *types.Func
	if o, ok := c.TryObj("protocol.CheckMsgpDepth").(*types.Func); ok {
		check = o
	}
	n := 0
	for _, fn := range c.AllFuncs() {
		if fn.Pkg == nil {
			continue
		}
		rel := relPkg(fn.Pkg.Pkg.Path())
		if matchPkg(rel, []string{"cmd/...", "tools/...", "test/...", "protocol"}) {
			continue
		}
		for _, ci := range CallsTo(fn, false, decoders...) {
			args := ci.Common().Args
			if len(args) != 2 {
				continue
			}
			// the static type of the decode target
			target := strip(args[1]).Type()
			if !containsRaw(target, map[types.Type]bool{}) {
				continue
			}
			n++
			construct := fnName(fn) + ":Decode(" + types.TypeString(target, func(p *types.Package) string { return relPkg(p.Path()) }) + ")<=CheckMsgpDepth(bytes)"
			if check == nil {
				c.Bad(rule, construct, c.Pos(ci.Pos()), "a type with msgp.Raw fields is decoded from received bytes and no depth pre-scan exists (protocol.CheckMsgpDepth is absent): msgp.Skip recurses once per nesting level of the Raw field without a budget, so ~11 MB of nested one-element arrays overflows the goroutine stack and kills the process (recover() cannot catch it)")
				continue
			}
			bytesArg := args[0]
			g := GErrNil("CheckMsgpDepth(bytes)==nil", func(v ssa.Value) bool {
				call, ok := asResultOf(v, -1, check)
				return ok && len(call.Common().Args) >= 1 && strip(call.Common().Args[0]) == strip(bytesArg)
			})
			c.MustGuard(MustGuardSpec{Rule: rule, Fn: fn, Effects: []ssa.Instruction{ci}, EffName: "Decode(" + types.TypeString(target, func(p *types.Package) string { return relPkg(p.Path()) }) + ")", Guards: []Guard{g}})
		}
	}
	if n == 0 {
		c.Unk(rule, "decodes of types with msgp.Raw fields", "-", "no decode of a type containing msgp.Raw found in the loaded node packages: the rule no longer sees its sites")
	}
}
