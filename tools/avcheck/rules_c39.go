package main

import (
	"fmt"
	"go/token"
	"go/types"

	"golang.org/x/tools/go/ssa"
)

func init() {
	register(&Prop{
		ID:       "C39",
		Patterns: []string{"./crypto/stateproof", "./crypto/merklesignature", "./crypto/merklearray", "./stateproof/verify", "./ledger/apply"},
		Run:      runC39,
		Explanation: "Decides the soundness half ('any proof with a tampered message, round, signature, reveal, participant or weight fails') as must-pass guards of the verifier's success paths; every guard is a comparison/error test on resolved callees and fields, every argument is checked by SSA identity: " +
			"R39.1 stateproof.Verifier.Verify returns nil only after verifyStateProofTreesDepth (both proof depths <= MaxTreeDepth), verifyWeights(s.SignedWeight, v.lnProvenWeight, len(s.PositionsToReveal), v.strengthTarget) [which itself rejects too many reveals, zero signed weight and lhs<rhs], VerifyVectorCommitment(s.SigCommit, sigs, &s.SigProofs) and VerifyVectorCommitment(v.participantsCommitment, parts, &s.PartProofs) all succeeded; " +
			"R39.2 every reveal (each iteration of the loops over s.Reveals) passes ValidateSaltVersion(s.MerkleSignatureSaltVersion), buildCommittableSignature(r.SigSlot) and r.Part.PK.VerifyBytes(round, data, &r.SigSlot.Sig) before the loop can continue or Verify can succeed, and exactly these reveals — keyed by their position — are what the two commitment checks receive (sigs[pos]=committable signature of r.SigSlot, parts[pos]=r.Part); " +
			"R39.3 every coin (each iteration of the loop j < len(PositionsToReveal), the same count verifyWeights judged) requires a reveal at PositionsToReveal[j] and L <= coin < L+Weight for that reveal, the coin coming from one getNextCoin call of the generator seeded below; " +
			"R39.4 the coin seed is built from v.participantsCommitment, v.lnProvenWeight, s.SigCommit, s.SignedWeight and the message hash; coinChoiceSeed.ToBeHashed serialises all six fields; makeCoinGenerator absorbs HashRep(seed); " +
			"R39.5 merklesignature.Verifier.VerifyBytes returns nil only if the ephemeral key {sig.VerifyingKey, FirstRoundInKeyLifetime(round)} is proven at sig.VectorCommitmentIndex under v.Commitment by sig.Proof and sig.VerifyingKey.VerifyBytes(msg, sig.Signature) succeeded; " +
			"R39.6 verify.ValidateStateProof returns nil only under the interval/weight tests and verifier.Verify(ctx.LastAttestedRound, msg.Hash(), stateProof) with the verifier made from ctx.VotersCommitment, Muldiv(ctx.OnlineTotalWeight, StateProofWeightThreshold, 1<<32) and StateProofStrengthTarget; apply.StateProof advances the next state-proof round only after ValidateStateProof(ctx for tx.Message.LastAttestedRound, &tx.StateProof, atRound, &tx.Message) succeeded unless validate is false, and only for the expected round and type. " +
			"Does NOT decide: completeness (that honest proofs verify; prover/verifier arithmetic agreement is C38), the numeric inequality of verifyWeights, Falcon and Merkle primitives (C37), nor that an addition such as L+Weight cannot wrap.",
		Assumptions: []string{"merklearray.VerifyVectorCommitment and FalconVerifier.VerifyBytes are sound (C37 / library)"},
		Floor:       map[string]int{"R39.1": 13, "R39.2": 8, "R39.3": 5, "R39.4": 13, "R39.5": 8, "R39.6": 16},
	})
}

// hResultErr matches the error result of any call to f whose arguments satisfy argOK.
func hResultErr(f *types.Func, argOK func(call *ssa.Call) bool) VM {
	return func(v ssa.Value) bool {
		call, ok := asResultOf(hResolveLoadsLocal(v), -1, f)
		if !ok {
			return false
		}
		if e, isE := strip(hResolveLoadsLocal(v)).(*ssa.Extract); isE && !isErrorType(e.Type()) {
			return false
		}
		return argOK == nil || argOK(call)
	}
}

func hOneCall(c *Ctx, rule string, fn *ssa.Function, f *types.Func, filter func(ssa.CallInstruction) bool) ssa.CallInstruction {
	var out []ssa.CallInstruction
	for _, ci := range CallsTo(fn, false, f) {
		if filter == nil || filter(ci) {
			out = append(out, ci)
		}
	}
	if len(out) != 1 {
		if len(out) == 0 {
			c.Bad(rule, fnName(fn)+":call("+funcObjName(f)+")", c.Pos(fn.Pos()), fmt.Sprintf("%s no longer calls %s", fnName(fn), funcObjName(f)))
		} else {
			c.Unk(rule, fnName(fn)+":call("+funcObjName(f)+")", c.Pos(fn.Pos()), fmt.Sprintf("expected exactly one call to %s in %s, found %d: the rule cannot tell which one is checked", funcObjName(f), fnName(fn), len(out)))
		}
		return nil
	}
	return out[0]
}

func runC39(c *Ctx) {
	hC39Verifier(c)
	hC39Seed(c)
	hC39MerkleSig(c)
	hC39Ledger(c)
	hDebugDump(c)
}

func hC39Verifier(c *Ctx) {
	fn := c.Fn("crypto/stateproof.Verifier.Verify")
	name := "crypto/stateproof.Verifier.Verify"
	if len(fn.Params) != 4 {
		c.Unk("R39.1", name, c.Pos(fn.Pos()), "unexpected signature")
		return
	}
	pV, pRound, pData, pS := fn.Params[0], fn.Params[1], fn.Params[2], fn.Params[3]
	_ = pV
	fSignedWeight := c.Field("crypto/stateproof.StateProof.SignedWeight")
	fSigCommit := c.Field("crypto/stateproof.StateProof.SigCommit")
	fSigProofs := c.Field("crypto/stateproof.StateProof.SigProofs")
	fPartProofs := c.Field("crypto/stateproof.StateProof.PartProofs")
	fSalt := c.Field("crypto/stateproof.StateProof.MerkleSignatureSaltVersion")
	fReveals := c.Field("crypto/stateproof.StateProof.Reveals")
	fPositions := c.Field("crypto/stateproof.StateProof.PositionsToReveal")
	fLn := c.Field("crypto/stateproof.Verifier.lnProvenWeight")
	fStrength := c.Field("crypto/stateproof.Verifier.strengthTarget")
	fPartCom := c.Field("crypto/stateproof.Verifier.participantsCommitment")
	fSigSlot := c.Field("crypto/stateproof.Reveal.SigSlot")
	fPart := c.Field("crypto/stateproof.Reveal.Part")
	fSlotSig := c.Field("crypto/stateproof.sigslotCommit.Sig")
	fSlotL := c.Field("crypto/stateproof.sigslotCommit.L")
	fPK := c.Field("data/basics.Participant.PK")
	fWeight := c.Field("data/basics.Participant.Weight")
	fTreeDepth := c.Field("crypto/merklearray.Proof.TreeDepth")

	depthFn := c.Func("crypto/stateproof.verifyStateProofTreesDepth")
	weightsFn := c.Func("crypto/stateproof.verifyWeights")
	vvc := c.Func("crypto/merklearray.VerifyVectorCommitment")
	saltFn := c.Func("crypto/merklesignature.Signature.ValidateSaltVersion")
	buildFn := c.Func("crypto/stateproof.buildCommittableSignature")
	verifyBytes := c.Func("crypto/merklesignature.Verifier.VerifyBytes")
	nextCoin := c.Func("crypto/stateproof.coinGenerator.getNextCoin")
	mkCoin := c.Func("crypto/stateproof.makeCoinGenerator")

	succ := hSuccessReturns(fn)

	// ---- R39.1 ----
	isSigVVC := func(call *ssa.Call) bool { return Mentions(call.Common().Args[0], fSigCommit, 6) }
	isPartVVC := func(call *ssa.Call) bool { return Mentions(call.Common().Args[0], fPartCom, 6) }
	c.MustGuard(MustGuardSpec{Rule: "R39.1", Fn: fn, Effects: succ, EffName: "return nil", Guards: []Guard{
		GErrNil("verifyStateProofTreesDepth(s)==nil", hResultErr(depthFn, func(call *ssa.Call) bool { return call.Common().Args[0] == ssa.Value(pS) })),
		GErrNil("verifyWeights(...)==nil", hResultErr(weightsFn, nil)),
		GErrNil("VerifyVectorCommitment(s.SigCommit,sigs,&s.SigProofs)==nil", hResultErr(vvc, isSigVVC)),
		GErrNil("VerifyVectorCommitment(v.participantsCommitment,parts,&s.PartProofs)==nil", hResultErr(vvc, isPartVVC)),
	}})
	var nr ssa.Value
	if wc := hOneCall(c, "R39.1", fn, weightsFn, nil); wc != nil {
		a := wc.Common().Args
		ok := len(a) == 4 && hIsPath(a[0], pS, fSignedWeight) && hIsPath(a[1], fn.Params[0], fLn) && hIsPath(a[3], fn.Params[0], fStrength)
		c.Check(ok, "R39.1", name+":verifyWeights(s.SignedWeight,v.lnProvenWeight,·,v.strengthTarget)", c.Pos(wc.Pos()), "verifyWeights judges the proof's signed weight against the verifier's trusted ln(provenWeight) and strength target")
		okN := false
		if len(a) == 4 {
			if l, isLen := lenOf(hStripConv(a[2])); isLen && hIsPath(l, pS, fPositions) {
				okN = true
				nr = a[2]
			}
		}
		c.Check(okN, "R39.1", name+":verifyWeights(numReveals=len(s.PositionsToReveal))", c.Pos(wc.Pos()), "the number of reveals judged by verifyWeights is len(s.PositionsToReveal)")
	}
	var sigsMap, partsMap ssa.Value
	for _, ci := range CallsTo(fn, false, vvc) {
		call := ci.(*ssa.Call)
		a := call.Common().Args
		switch {
		case isSigVVC(call):
			sigsMap = a[1]
			c.Check(hIsPath(a[0], pS, fSigCommit) && hIsPath(a[2], pS, fSigProofs), "R39.1", name+":VerifyVectorCommitment(s.SigCommit,·,&s.SigProofs)", c.Pos(call.Pos()), "signature reveals are checked against the proof's signature commitment with the proof's signature paths")
		case isPartVVC(call):
			partsMap = a[1]
			c.Check(hIsPath(a[0], fn.Params[0], fPartCom) && hIsPath(a[2], pS, fPartProofs), "R39.1", name+":VerifyVectorCommitment(v.participantsCommitment,·,&s.PartProofs)", c.Pos(call.Pos()), "participant reveals are checked against the verifier's trusted participants commitment")
		default:
			c.Unk("R39.1", name+":VerifyVectorCommitment(?)", c.Pos(call.Pos()), "a VerifyVectorCommitment call with an unrecognised root")
		}
	}
	{
		dfn := c.Fn("crypto/stateproof.verifyStateProofTreesDepth")
		c.MustGuard(MustGuardSpec{Rule: "R39.1", Fn: dfn, Effects: hSuccessReturns(dfn), EffName: "return nil", Guards: []Guard{
			GCmp("s.SigProofs.TreeDepth<=MaxTreeDepth", token.LEQ, M(fSigProofs, fTreeDepth), hIsStaticBound),
			GCmp("s.PartProofs.TreeDepth<=MaxTreeDepth", token.LEQ, M(fPartProofs, fTreeDepth), hIsStaticBound),
		}})
		wfn := c.Fn("crypto/stateproof.verifyWeights")
		kMax := c.Const("crypto/stateproof.MaxReveals")
		c.MustGuard(MustGuardSpec{Rule: "R39.1", Fn: wfn, Effects: hSuccessReturns(wfn), EffName: "return nil", Guards: []Guard{
			GCmp("numOfReveals<=MaxReveals", token.LEQ, IsV(wfn.Params[2]), hConstEq(kMax)),
			GCmp("signedWeight!=0", token.NEQ, IsV(wfn.Params[0]), IsConstInt(0)),
			GCmp("lhs.Cmp(rhs)>=0", token.GEQ, ResultOf(0, hExtMethod(c, "math/big", "Int", "Cmp")), IsConstInt(0)),
		}})
	}

	// ---- R39.2 per reveal ----
	loops := hRangeLoops(fn, func(v ssa.Value) bool { return hIsPath(v, pS, fReveals) })
	if len(loops) == 0 {
		c.Bad("R39.2", name+":range s.Reveals", c.Pos(fn.Pos()), "no loop over s.Reveals found")
	}
	// the loop variable of a range loop: the alloc holding extract #2 (or the extract itself)
	loopVal := func(l HLoop) (ssa.Value, ssa.Value) {
		var key, val ssa.Value
		for _, r := range *l.Next.Referrers() {
			if e, ok := r.(*ssa.Extract); ok {
				switch e.Index {
				case 1:
					key = e
				case 2:
					val = e
					for _, r2 := range *e.Referrers() {
						if st, ok := r2.(*ssa.Store); ok && st.Val == ssa.Value(e) {
							if a, ok := st.Addr.(*ssa.Alloc); ok {
								val = a
							}
						}
					}
				}
			}
		}
		return key, val
	}
	inLoop := func(l HLoop, in ssa.Instruction) bool {
		return hReachFrom(l.Body, []Edge{{l.Header, 1}, {l.Header, 0}})[in.Block()] && l.Body.Dominates(in.Block())
	}
	type perReveal struct {
		what  string
		f     *types.Func
		argOK func(l HLoop, call *ssa.Call) bool
	}
	reqs := []perReveal{
		{"ValidateSaltVersion(s.MerkleSignatureSaltVersion)", saltFn, func(l HLoop, call *ssa.Call) bool {
			_, v := loopVal(l)
			a := call.Common().Args
			return len(a) == 2 && v != nil && hIsPath(a[0], v, fSigSlot, fSlotSig) && hIsPath(a[1], pS, fSalt)
		}},
		{"buildCommittableSignature(r.SigSlot)", buildFn, func(l HLoop, call *ssa.Call) bool {
			_, v := loopVal(l)
			a := call.Common().Args
			return len(a) == 1 && v != nil && hIsPath(a[0], v, fSigSlot)
		}},
		{"r.Part.PK.VerifyBytes(round,data,&r.SigSlot.Sig)", verifyBytes, func(l HLoop, call *ssa.Call) bool {
			_, v := loopVal(l)
			a := call.Common().Args
			return len(a) == 4 && v != nil && hIsPath(a[0], v, fPart, fPK) && hFromParam(a[1], pRound) && hFromParam(a[2], pData) && hIsPath(a[3], v, fSigSlot, fSlotSig)
		}},
	}
	var mainLoop *HLoop
	for _, rq := range reqs {
		found := false
		for i := range loops {
			l := loops[i]
			for _, ci := range CallsTo(fn, false, rq.f) {
				call := ci.(*ssa.Call)
				if !inLoop(l, call) {
					continue
				}
				found = true
				construct := name + ":each reveal<=" + rq.what
				if !rq.argOK(l, call) {
					c.Bad("R39.2", construct+":args", c.Pos(call.Pos()), "the call does not check the current reveal with the verifier's inputs: expected "+rq.what)
					continue
				}
				c.Ok("R39.2", construct+":args", c.Pos(call.Pos()), "arguments are the current reveal's fields and Verify's own inputs")
				hIterGuard(c, "R39.2", construct, fn, l, GErrNil(rq.what+"==nil", hErrOf(call)))
				if rq.f == verifyBytes {
					mainLoop = &loops[i]
				}
			}
		}
		if !found {
			c.Bad("R39.2", name+":each reveal<="+rq.what, c.Pos(fn.Pos()), "no call to "+funcObjName(rq.f)+" inside a loop over s.Reveals")
		}
	}
	// what the commitment checks receive
	if mainLoop != nil && sigsMap != nil && partsMap != nil {
		key, v := loopVal(*mainLoop)
		okSig, okPart := false, false
		nSig, nPart := 0, 0
		for _, b := range fn.Blocks {
			for _, in := range b.Instrs {
				mu, ok := in.(*ssa.MapUpdate)
				if !ok {
					continue
				}
				switch mu.Map {
				case sigsMap:
					nSig++
					val := strip(mu.Value)
					if call, ok := asResultOf(val, 0, buildFn); ok && inLoop(*mainLoop, mu) && mu.Key == key && hIsPath(call.Common().Args[0], v, fSigSlot) {
						okSig = true
					}
				case partsMap:
					nPart++
					if inLoop(*mainLoop, mu) && mu.Key == key && hIsPath(strip(mu.Value), v, fPart) {
						okPart = true
					}
				}
			}
		}
		_, isMk1 := sigsMap.(*ssa.MakeMap)
		_, isMk2 := partsMap.(*ssa.MakeMap)
		c.Check(okSig && nSig == 1 && isMk1, "R39.2", name+":sigs[pos]=committable(r.SigSlot)", c.Pos(fn.Pos()), "the map given to the signature-commitment check is a fresh map filled, per reveal position, with the committable form of that reveal's signature slot and nothing else")
		c.Check(okPart && nPart == 1 && isMk2, "R39.2", name+":parts[pos]=r.Part", c.Pos(fn.Pos()), "the map given to the participants-commitment check is a fresh map filled, per reveal position, with that reveal's participant record and nothing else")
	} else {
		c.Bad("R39.2", name+":reveal maps", c.Pos(fn.Pos()), "could not relate the maps passed to VerifyVectorCommitment to the loop that verifies the reveals")
	}

	// ---- R39.3 per coin ----
	var coinLoops []HLoop
	if nr != nil {
		coinLoops = hCondLoops(fn, func(cond ssa.Value) bool {
			bo, ok := cond.(*ssa.BinOp)
			if !ok {
				return false
			}
			if bo.Op == token.LSS && bo.Y == nr {
				_, isPhi := bo.X.(*ssa.Phi)
				return isPhi
			}
			return false
		})
	}
	if len(coinLoops) != 1 {
		c.Bad("R39.3", name+":for j<len(PositionsToReveal)", c.Pos(fn.Pos()), fmt.Sprintf("expected one loop `j < nr` over the number of reveals given to verifyWeights, found %d", len(coinLoops)))
	} else {
		l := coinLoops[0]
		j := l.Header.Instrs[len(l.Header.Instrs)-1].(*ssa.If).Cond.(*ssa.BinOp).X
		var lookup *ssa.Lookup
		var coin *ssa.Call
		for _, b := range fn.Blocks {
			for _, in := range b.Instrs {
				if !inLoop(l, in) {
					continue
				}
				if lk, ok := in.(*ssa.Lookup); ok && lk.CommaOk && hIsPath(lk.X, pS, fReveals) {
					// key must be s.PositionsToReveal[j]
					if u, ok := lk.Index.(*ssa.UnOp); ok && u.Op == token.MUL {
						if ia, ok := u.X.(*ssa.IndexAddr); ok && ia.Index == j && hIsPath(ia.X, pS, fPositions) {
							lookup = lk
						}
					}
				}
				if call, ok := in.(*ssa.Call); ok && sameFunc(calleeOf(call.Common()), nextCoin) {
					if coin != nil {
						c.Bad("R39.3", name+":one coin per position", c.Pos(call.Pos()), "getNextCoin is called more than once per reveal position")
					}
					coin = call
				}
			}
		}
		if lookup == nil || coin == nil {
			c.Bad("R39.3", name+":coin loop body", c.Pos(fn.Pos()), "the coin loop must look up s.Reveals[s.PositionsToReveal[j]] and draw one coin with getNextCoin")
		} else {
			c.Ok("R39.3", name+":coin loop body", c.Pos(coin.Pos()), "each iteration looks up the reveal at s.PositionsToReveal[j] and draws exactly one coin")
			var revealAlloc ssa.Value
			var okV ssa.Value
			for _, r := range *lookup.Referrers() {
				if e, ok := r.(*ssa.Extract); ok {
					if e.Index == 1 {
						okV = e
					} else {
						revealAlloc = e
						for _, r2 := range *e.Referrers() {
							if st, ok := r2.(*ssa.Store); ok && st.Val == ssa.Value(e) {
								revealAlloc = st.Addr
							}
						}
					}
				}
			}
			isL := func(v ssa.Value) bool { return revealAlloc != nil && hIsPath(v, revealAlloc, fSigSlot, fSlotL) }
			isCoin := func(v ssa.Value) bool { return v == ssa.Value(coin) }
			isUpper := func(v ssa.Value) bool {
				bo, ok := v.(*ssa.BinOp)
				if !ok || bo.Op != token.ADD || revealAlloc == nil {
					return false
				}
				isW := func(x ssa.Value) bool { return hIsPath(x, revealAlloc, fPart, fWeight) }
				return (isL(bo.X) && isW(bo.Y)) || (isL(bo.Y) && isW(bo.X))
			}
			hIterGuard(c, "R39.3", name+":each coin<=reveal exists at PositionsToReveal[j]", fn, l, GBool("reveal exists", func(v ssa.Value) bool { return okV != nil && v == okV }, true))
			hIterGuard(c, "R39.3", name+":each coin<=SigSlot.L<=coin", fn, l, GCmp("reveal.SigSlot.L<=coin", token.LEQ, isL, isCoin))
			hIterGuard(c, "R39.3", name+":each coin<=coin<SigSlot.L+Part.Weight", fn, l, GCmp("coin<reveal.SigSlot.L+reveal.Part.Weight", token.LSS, isCoin, isUpper))
			// the generator is the one seeded from the verifier's inputs
			okGen := false
			if a, ok := coin.Common().Args[0].(*ssa.Alloc); ok {
				for _, s := range localStores(a) {
					if _, isMk := asResultOf(s, 0, mkCoin); isMk {
						okGen = true
					}
				}
			}
			c.Check(okGen, "R39.3", name+":coins from makeCoinGenerator(&choice)", c.Pos(coin.Pos()), "the coins come from the generator built by makeCoinGenerator in this call")
		}
	}

	// ---- R39.4 seed literal ----
	if mk := hOneCall(c, "R39.4", fn, mkCoin, nil); mk != nil {
		seed, _ := mk.Common().Args[0].(*ssa.Alloc)
		if seed == nil {
			c.Unk("R39.4", name+":coinChoiceSeed literal", c.Pos(mk.Pos()), "makeCoinGenerator argument is not a local seed: "+describe(mk.Common().Args[0]))
		} else {
			lf := hLitFields(seed)
			want := []struct {
				field string
				ok    func(v ssa.Value) bool
				src   string
			}{
				{"partCommitment", func(v ssa.Value) bool { return hIsPath(v, fn.Params[0], fPartCom) }, "v.participantsCommitment"},
				{"lnProvenWeight", func(v ssa.Value) bool { return hIsPath(v, fn.Params[0], fLn) }, "v.lnProvenWeight"},
				{"sigCommitment", func(v ssa.Value) bool { return hIsPath(v, pS, fSigCommit) }, "s.SigCommit"},
				{"signedWeight", func(v ssa.Value) bool { return hIsPath(v, pS, fSignedWeight) }, "s.SignedWeight"},
				{"data", func(v ssa.Value) bool { return hFromParam(v, pData) }, "data"},
			}
			for _, w := range want {
				f := c.Field("crypto/stateproof.coinChoiceSeed." + w.field)
				vals := lf[f]
				ok := len(vals) > 0
				for _, v := range vals {
					if !w.ok(v) {
						ok = false
					}
				}
				c.Check(ok, "R39.4", name+":seed."+w.field+"<-"+w.src, c.Pos(mk.Pos()), "the coin seed binds "+w.src+": a proof with a different value draws different coins")
			}
		}
	}
}

// hExtMethod resolves a method of a named type of a non-module package.
func hExtMethod(c *Ctx, pkg, typ, method string) *types.Func {
	p := hExtPkg(c, pkg)
	if p == nil {
		panic(abortRule("package " + pkg + " is not imported by any loaded package"))
	}
	tn, ok := p.Scope().Lookup(typ).(*types.TypeName)
	if !ok {
		panic(abortRule("anchor " + pkg + "." + typ + " does not resolve"))
	}
	obj, _, _ := types.LookupFieldOrMethod(types.NewPointer(tn.Type()), true, p, method)
	f, ok := obj.(*types.Func)
	if !ok {
		panic(abortRule("anchor " + pkg + "." + typ + "." + method + " does not resolve"))
	}
	return f
}

func hC39Seed(c *Ctx) {
	// ToBeHashed serialises every field of the seed
	tb := c.Fn("crypto/stateproof.coinChoiceSeed.ToBeHashed")
	name := "crypto/stateproof.coinChoiceSeed.ToBeHashed"
	seedT := c.Named("crypto/stateproof.coinChoiceSeed")
	st := seedT.Underlying().(*types.Struct)
	rets := ReturnsWhere(tb, 1, AnyV)
	if len(rets) != 1 {
		c.Unk("R39.4", name, c.Pos(tb.Pos()), "expected a single return")
		return
	}
	out := rets[0].(*ssa.Return).Results[1]
	// values that flow into the returned byte slice: append operands, and the
	// contents of local buffers filled by PutUintNN(buf[:], x)
	flows := map[*types.Var]bool{}
	var visit func(v ssa.Value, d int)
	seen := map[ssa.Value]bool{}
	visit = func(v ssa.Value, d int) {
		if v == nil || seen[v] || d > 40 {
			return
		}
		seen[v] = true
		switch x := v.(type) {
		case *ssa.Call:
			if _, ok := isBuiltinCall(x, "append"); ok {
				for _, a := range x.Common().Args {
					visit(a, d+1)
				}
			}
		case *ssa.Slice:
			visit(x.X, d+1)
		case *ssa.UnOp:
			visit(x.X, d+1)
		case *ssa.FieldAddr:
			if x.X == ssa.Value(tb.Params[0]) {
				flows[structField(x.X.Type(), x.Field)] = true
			}
		case *ssa.Field:
			flows[structField(x.X.Type(), x.Field)] = true
		case *ssa.IndexAddr:
			visit(x.X, d+1)
		case *ssa.Alloc:
			// a local buffer: what is written into it
			for _, r := range *x.Referrers() {
				switch y := r.(type) {
				case *ssa.Store:
					if y.Addr == ssa.Value(x) {
						visit(y.Val, d+1)
					}
				case *ssa.Slice:
					for _, r2 := range *y.Referrers() {
						if call, ok := r2.(*ssa.Call); ok {
							if f := calleeOf(call.Common()); f != nil && f.Pkg() != nil && f.Pkg().Path() == "encoding/binary" {
								for _, a := range callArgs(call.Common()) {
									if a != ssa.Value(y) {
										visit(a, d+1)
									}
								}
							}
						}
					}
				case *ssa.IndexAddr:
					for _, r2 := range *y.Referrers() {
						if s, ok := r2.(*ssa.Store); ok && s.Addr == ssa.Value(y) {
							visit(s.Val, d+1)
						}
					}
				}
			}
		case *ssa.MakeSlice, *ssa.Const:
		case *ssa.Phi:
			for _, e := range x.Edges {
				visit(e, d+1)
			}
		case *ssa.Convert:
			visit(x.X, d+1)
		case *ssa.ChangeType:
			visit(x.X, d+1)
		}
	}
	visit(out, 0)
	for i := 0; i < st.NumFields(); i++ {
		f := st.Field(i)
		c.Check(flows[f], "R39.4", name+":includes "+f.Name(), c.Pos(tb.Pos()), "the serialised coin seed contains field "+f.Name()+" (a field left out could be altered without changing the coins)")
	}
	// makeCoinGenerator absorbs HashRep(choice)
	mk := c.Fn("crypto/stateproof.makeCoinGenerator")
	hashRep := c.Func("crypto.HashRep")
	ok := false
	var hr ssa.CallInstruction
	for _, ci := range CallsTo(mk, false, hashRep) {
		if strip(ci.Common().Args[0]) == ssa.Value(mk.Params[0]) {
			hr = ci
		}
	}
	if hr != nil {
		for _, b := range mk.Blocks {
			for _, in := range b.Instrs {
				call, isCall := in.(*ssa.Call)
				if !isCall || !call.Common().IsInvoke() || call.Common().Method.Name() != "Write" {
					continue
				}
				if len(call.Common().Args) == 1 && call.Common().Args[0] == hr.Value() {
					ok = true
				}
			}
		}
	}
	c.Check(ok, "R39.4", "crypto/stateproof.makeCoinGenerator:shake.Write(HashRep(choice))", c.Pos(mk.Pos()), "the coin generator absorbs the domain-separated serialisation of the whole seed")
	fSW := c.Field("crypto/stateproof.coinChoiceSeed.signedWeight")
	okT := false
	for _, ci := range CallsTo(mk, false, c.Func("crypto/stateproof.prepareRejectionSamplingThreshold")) {
		if hIsPath(ci.Common().Args[0], mk.Params[0], fSW) {
			okT = true
		}
	}
	c.Check(okT, "R39.4", "crypto/stateproof.makeCoinGenerator:threshold(choice.signedWeight)", c.Pos(mk.Pos()), "coins are sampled in [0, signedWeight) of the same seed")
}

func hC39MerkleSig(c *Ctx) {
	fn := c.Fn("crypto/merklesignature.Verifier.VerifyBytes")
	name := "crypto/merklesignature.Verifier.VerifyBytes"
	if len(fn.Params) != 4 {
		c.Unk("R39.5", name, c.Pos(fn.Pos()), "unexpected signature")
		return
	}
	pV, pRound, pMsg, pSig := fn.Params[0], fn.Params[1], fn.Params[2], fn.Params[3]
	first := c.Func("crypto/merklesignature.Verifier.FirstRoundInKeyLifetime")
	vvc := c.Func("crypto/merklearray.VerifyVectorCommitment")
	falconVerify := c.Func("crypto.FalconVerifier.VerifyBytes")
	fCommitment := c.Field("crypto/merklesignature.Verifier.Commitment")
	fVK := c.Field("crypto/merklesignature.Signature.VerifyingKey")
	fIdx := c.Field("crypto/merklesignature.Signature.VectorCommitmentIndex")
	fProof := c.Field("crypto/merklesignature.Signature.Proof")
	fSigBytes := c.Field("crypto/merklesignature.Signature.Signature")
	fCVK := c.Field("crypto/merklesignature.CommittablePublicKey.VerifyingKey")
	fCRound := c.Field("crypto/merklesignature.CommittablePublicKey.Round")

	c.MustGuard(MustGuardSpec{Rule: "R39.5", Fn: fn, Effects: hSuccessReturns(fn), EffName: "return nil", Guards: []Guard{
		GErrNil("FirstRoundInKeyLifetime(round)==nil", hResultErr(first, nil)),
		GErrNil("VerifyVectorCommitment(v.Commitment,{idx:ephkey},proof)==nil", hResultErr(vvc, nil)),
		GErrNil("sig.VerifyingKey.VerifyBytes(msg,sig.Signature)==nil", hResultErr(falconVerify, nil)),
	}})
	fc := hOneCall(c, "R39.5", fn, first, nil)
	vc := hOneCall(c, "R39.5", fn, vvc, nil)
	sc := hOneCall(c, "R39.5", fn, falconVerify, nil)
	if fc == nil || vc == nil || sc == nil {
		return
	}
	c.Check(fc.Common().Args[0] == ssa.Value(pV) && hFromParam(fc.Common().Args[1], pRound), "R39.5", name+":FirstRoundInKeyLifetime(round)", c.Pos(fc.Pos()), "the key round is derived from the round being verified")
	a := vc.Common().Args
	c.Check(hIsPath(hStripSlice(a[0]), pV, fCommitment), "R39.5", name+":root=v.Commitment", c.Pos(vc.Pos()), "the ephemeral key is proven against the participant's committed key tree")
	okProof := false
	if call, ok := a[2].(*ssa.Call); ok && len(call.Common().Args) == 1 && hIsPath(call.Common().Args[0], pSig, fProof) {
		okProof = true
	} else if hIsPath(a[2], pSig, fProof) {
		okProof = true
	}
	c.Check(okProof, "R39.5", name+":proof=sig.Proof", c.Pos(vc.Pos()), "the proof checked is the one carried by the signature")
	// elems = {sig.VectorCommitmentIndex: &ephkey}, ephkey = {sig.VerifyingKey, validKeyRound}
	okElems := false
	why := "elements argument is not a fresh map"
	if mm, ok := a[1].(*ssa.MakeMap); ok {
		var ups []*ssa.MapUpdate
		for _, r := range *mm.Referrers() {
			if mu, ok := r.(*ssa.MapUpdate); ok {
				ups = append(ups, mu)
			}
		}
		why = "expected exactly one element keyed by sig.VectorCommitmentIndex"
		if len(ups) == 1 && hIsPath(ups[0].Key, pSig, fIdx) {
			why = "the element is not a CommittablePublicKey built in this call"
			if al, ok := strip(ups[0].Value).(*ssa.Alloc); ok {
				lf := hLitFields(al)
				vk, rd := lf[fCVK], lf[fCRound]
				why = "ephemeral key must be {VerifyingKey: sig.VerifyingKey, Round: FirstRoundInKeyLifetime(round)}"
				if len(vk) == 1 && len(rd) == 1 && hIsPath(vk[0], pSig, fVK) {
					if e, ok := rd[0].(*ssa.Extract); ok && e.Tuple == fc.Value() && e.Index == 0 {
						okElems = true
					}
				}
			}
		}
	}
	c.Check(okElems, "R39.5", name+":elems={sig.VectorCommitmentIndex:{sig.VerifyingKey,keyRound}}", c.Pos(vc.Pos()), "the proven leaf binds the signature's verifying key to the key-lifetime round of the verified round: "+why)
	sa := sc.Common().Args
	c.Check(len(sa) == 3 && hIsPath(sa[0], pSig, fVK) && hFromParam(sa[1], pMsg) && hIsPath(sa[2], pSig, fSigBytes), "R39.5", name+":sig.VerifyingKey.VerifyBytes(msg,sig.Signature)", c.Pos(sc.Pos()), "the message is verified under the very key that was proven in the tree")
}

func hStripSlice(v ssa.Value) ssa.Value {
	for {
		switch x := v.(type) {
		case *ssa.ChangeType:
			v = x.X
		case *ssa.Slice:
			v = x.X
		default:
			return v
		}
	}
}

func hC39Ledger(c *Ctx) {
	// ---- ValidateStateProof ----
	fn := c.Fn("stateproof/verify.ValidateStateProof")
	name := "stateproof/verify.ValidateStateProof"
	if len(fn.Params) != 4 {
		c.Unk("R39.6", name, c.Pos(fn.Pos()), "unexpected signature")
		return
	}
	pCtx, pSP, pAt, pMsg := fn.Params[0], fn.Params[1], fn.Params[2], fn.Params[3]
	mkVerifier := c.Func("crypto/stateproof.MkVerifier")
	verify := c.Func("crypto/stateproof.Verifier.Verify")
	accept := c.Func("stateproof/verify.calculateAcceptableStateProofWeight")
	muldiv := c.Func("data/basics.Muldiv")
	msgHash := c.Func("data/stateproofmsg.Message.Hash")
	fLast := c.Field("ledger/ledgercore.StateProofVerificationContext.LastAttestedRound")
	fVoters := c.Field("ledger/ledgercore.StateProofVerificationContext.VotersCommitment")
	fTotal := c.Field("ledger/ledgercore.StateProofVerificationContext.OnlineTotalWeight")
	fSW := c.Field("crypto/stateproof.StateProof.SignedWeight")
	fInterval := c.Field("config.ConsensusParams.StateProofInterval")
	fThreshold := c.Field("config.ConsensusParams.StateProofWeightThreshold")
	fStrength := c.Field("config.ConsensusParams.StateProofStrengthTarget")

	ac := hOneCall(c, "R39.6", fn, accept, nil)
	md := hOneCall(c, "R39.6", fn, muldiv, nil)
	mk := hOneCall(c, "R39.6", fn, mkVerifier, nil)
	vc := hOneCall(c, "R39.6", fn, verify, nil)
	if ac == nil || md == nil || mk == nil || vc == nil {
		return
	}
	isRes := func(call ssa.CallInstruction, idx int) VM {
		return func(v ssa.Value) bool {
			v = hResolveLoadsLocal(v)
			if idx < 0 {
				return v == call.Value()
			}
			e, ok := v.(*ssa.Extract)
			return ok && e.Tuple == call.Value() && e.Index == idx
		}
	}
	c.MustGuard(MustGuardSpec{Rule: "R39.6", Fn: fn, Effects: hSuccessReturns(fn), EffName: "return nil", Guards: []Guard{
		GCmp("proto.StateProofInterval!=0", token.NEQ, func(v ssa.Value) bool {
			_, fs, ok := hFieldPath(hStripConv(v))
			return ok && len(fs) > 0 && fs[len(fs)-1] == fInterval
		}, IsConstInt(0)),
		GCmp("ctx.LastAttestedRound%interval==0", token.EQL, func(v ssa.Value) bool {
			bo, ok := v.(*ssa.BinOp)
			return ok && bo.Op == token.REM && hIsPath(bo.X, pCtx, fLast) && Mentions(bo.Y, fInterval, 5)
		}, IsConstInt(0)),
		GCmp("stateProof.SignedWeight>=acceptableWeight", token.GEQ, func(v ssa.Value) bool { return hIsPath(v, pSP, fSW) }, isRes(ac, -1)),
		GBool("!overflowed(provenWeight)", isRes(md, 1), false),
		GErrNil("MkVerifier(...)==nil", isRes(mk, 1)),
		GErrNil("verifier.Verify(...)==nil", isRes(vc, -1)),
	}})
	aa := ac.Common().Args
	c.Check(len(aa) == 5 && hIsPath(aa[0], pCtx, fTotal) && hIsPath(aa[2], pCtx, fLast) && aa[3] == ssa.Value(pAt), "R39.6", name+":acceptableWeight(ctx.OnlineTotalWeight,·,ctx.LastAttestedRound,atRound)", c.Pos(ac.Pos()), "the acceptable weight is computed for the attested interval and the round the transaction is evaluated at")
	ma := md.Common().Args
	c.Check(len(ma) == 3 && Mentions(ma[0], fTotal, 6) && Mentions(ma[1], fThreshold, 6), "R39.6", name+":provenWeight=Muldiv(ctx.OnlineTotalWeight,StateProofWeightThreshold,·)", c.Pos(md.Pos()), "the proven weight is the protocol's fraction of the voters' total online weight")
	ka := mk.Common().Args
	c.Check(len(ka) == 3 && hIsPath(ka[0], pCtx, fVoters) && isRes(md, 0)(ka[1]) && Mentions(ka[2], fStrength, 6), "R39.6", name+":MkVerifier(ctx.VotersCommitment,provenWeight,StateProofStrengthTarget)", c.Pos(mk.Pos()), "the verifier trusts the tracked voters commitment, the proven weight just computed and the protocol's strength target")
	va := vc.Common().Args
	okV := len(va) == 4 && isRes(mk, 0)(va[0]) && hIsPath(va[1], pCtx, fLast) && va[3] == ssa.Value(pSP)
	if okV {
		hc, isCall := asResultOf(va[2], -1, msgHash)
		okV = isCall && hc.Common().Args[0] == ssa.Value(pMsg)
	}
	c.Check(okV, "R39.6", name+":verifier.Verify(ctx.LastAttestedRound,msg.Hash(),stateProof)", c.Pos(vc.Pos()), "the proof is verified for the hash of the claimed message and the attested round")

	// ---- apply.StateProof ----
	ap := c.Fn("ledger/apply.StateProof")
	aname := "ledger/apply.StateProof"
	if len(ap.Params) != 4 {
		c.Unk("R39.6", aname, c.Pos(ap.Pos()), "unexpected signature")
		return
	}
	pTx, pAtR, pApplier, pValidate := ap.Params[0], ap.Params[1], ap.Params[2], ap.Params[3]
	_ = pApplier
	validateFn := c.Func("stateproof/verify.ValidateStateProof")
	setNext := c.Func("ledger/apply.StateProofsApplier.SetStateProofNextRound")
	getNext := c.Func("ledger/apply.StateProofsApplier.GetStateProofNextRound")
	getCtx := c.Func("ledger/apply.StateProofsApplier.GetStateProofVerificationContext")
	gather := c.Func("ledger/apply.gatherVerificationContextUsingBlockHeaders")
	fType := c.Field("data/transactions.StateProofTxnFields.StateProofType")
	fSP := c.Field("data/transactions.StateProofTxnFields.StateProof")
	fMsg := c.Field("data/transactions.StateProofTxnFields.Message")
	fMsgLast := c.Field("data/stateproofmsg.Message.LastAttestedRound")
	kBasic := c.Const("protocol.StateProofBasic")

	sets := CallsTo(ap, false, setNext)
	vcall := hOneCall(c, "R39.6", ap, validateFn, nil)
	if vcall == nil {
		return
	}
	// tx is passed by value: its spill slot
	txRoot := ssa.Value(pTx)
	for _, r := range *pTx.Referrers() {
		if st, ok := r.(*ssa.Store); ok && st.Val == ssa.Value(pTx) {
			txRoot = st.Addr
		}
	}
	isLastRound := func(v ssa.Value) bool { return hIsPath(hStripConv(hResolveLoadsLocal(v)), txRoot, fMsg, fMsgLast) }
	c.MustGuard(MustGuardSpec{Rule: "R39.6", Fn: ap, Effects: asInstrs(sets), EffName: "SetStateProofNextRound",
		Guards: []Guard{GErrNil("ValidateStateProof(...)==nil", hErrOf(vcall))},
		Bypass: []Guard{GBool("validate==false", IsV(pValidate), false)}})
	c.MustGuard(MustGuardSpec{Rule: "R39.6", Fn: ap, Effects: append(asInstrs(sets), vcall), EffName: "validate/advance",
		Guards: []Guard{
			GCmp("tx.StateProofType==StateProofBasic", token.EQL, func(v ssa.Value) bool { return hIsPath(hResolveLoadsLocal(v), txRoot, fType) }, hConstEq(kBasic)),
			GCmp("GetStateProofNextRound()!=0", token.NEQ, ResultOf(0, getNext), IsConstInt(0)),
			GCmp("GetStateProofNextRound()==tx.Message.LastAttestedRound", token.EQL, ResultOf(0, getNext), isLastRound),
		}})
	va2 := vcall.Common().Args
	okArgs := len(va2) == 4 && hIsPath(va2[1], txRoot, fSP) && va2[2] == ssa.Value(pAtR) && hIsPath(va2[3], txRoot, fMsg)
	c.Check(okArgs, "R39.6", aname+":ValidateStateProof(·,&tx.StateProof,atRound,&tx.Message)", c.Pos(vcall.Pos()), "the proof and the message validated are the ones carried by the transaction being applied")
	okCtx := len(va2) == 4
	if okCtx {
		// the context comes (on every path) from one of the two providers asked about tx.Message.LastAttestedRound
		var srcs []ssa.Value
		var collect func(v ssa.Value, d int)
		collect = func(v ssa.Value, d int) {
			if d > 6 {
				srcs = append(srcs, v)
				return
			}
			switch x := v.(type) {
			case *ssa.Phi:
				for _, e := range x.Edges {
					collect(e, d+1)
				}
			case *ssa.UnOp:
				if a, ok := x.X.(*ssa.Alloc); ok && x.Op == token.MUL {
					for _, s := range localStores(a) {
						if k, isK := s.(*ssa.Const); isK && k.IsNil() {
							continue
						}
						collect(s, d+1)
					}
					return
				}
				srcs = append(srcs, v)
			default:
				srcs = append(srcs, v)
			}
		}
		collect(va2[0], 0)
		okCtx = len(srcs) > 0
		for _, s := range srcs {
			call, ok := asResultOf(s, 0, getCtx, gather)
			if !ok {
				okCtx = false
				continue
			}
			args := call.Common().Args
			if !isLastRound(args[len(args)-1]) {
				okCtx = false
			}
		}
	}
	c.Check(okCtx, "R39.6", aname+":verification context for tx.Message.LastAttestedRound", c.Pos(vcall.Pos()), "the voters commitment and weights used for validation are those tracked for the interval the message claims to attest")
}
