package main

import (
	"go/constant"
	"regexp"
	"sort"

	"golang.org/x/tools/go/ssa"
)

// R47.10: one range constructor, one kind of bound.
//
// The last of the backend differences demonstrated by the C47 audits, repaired
// by a "fix:" commit (see known_findings.json and DESIGN §7 item 18). SQLite's
// readers select online-account rows with `updround <= ?` and its
// OnlineAccountsDelete prunes with `updRound < ?`. generickv used the SAME range
// constructor, onlineAccountBalanceForRoundRangePrefix(rnd) — upper bound
// inclusive, built for the `<=` readers — for the delete: the row at round
// forgetBefore itself was taken for the newest candidate, so the online row just
// before it was deleted (and everything, if that row was an offline marker).
// With A online at rounds 1 and 2 and B online at 1, offline at 2,
// OnlineAccountsDelete(2) keeps all four rows on SQLite and only A@2 on Pebble.
func init() {
	extend("C47", Extension{
		Run:         ruleRangeConstructorsOneBoundKind,
		Explanation: "R47.10 (a key-range constructor is used for strict or for inclusive round bounds, never both): each generickv method that hands one of its round parameters to a range constructor of the package is classified by the SQL of its SQLite sibling — `updround < ?` strict, `updround <= ?` inclusive (string constants of the sibling and of the statements it prepares) — and no constructor may end up with users of both kinds; the constructor's upper bound is one or the other, so the minority user deletes or reads one round too many.",
		Floor:       map[string]int{"R47.10": 2},
	})
}

var (
	strictRE    = regexp.MustCompile(`(?i)updround\s*<\s*\?`)
	inclusiveRE = regexp.MustCompile(`(?i)updround\s*<=\s*\?`)
)

func ruleRangeConstructorsOneBoundKind(c *Ctx) {
	const rule = "R47.10"
	// SQL kind per sqlite method name; prepared statements are attributed to the methods that mention the stmt field
	kindOf := map[string]string{}
	// 1. direct string constants in methods
	stmtKind := map[string]string{} // statement field name -> kind (from the Prepare call that fills it)
	for _, fn := range c.funcsOf(r47SQLite) {
		for _, f := range withAnon(fn) {
			for _, b := range f.Blocks {
				for _, in := range b.Instrs {
					for _, op := range in.Operands(nil) {
						k, ok := (*op).(*ssa.Const)
						if !ok || k.Value == nil || k.Value.Kind() != constant.String {
							continue
						}
						s := constant.StringVal(k.Value)
						kind := ""
						switch {
						case inclusiveRE.MatchString(s):
							kind = "inclusive"
						case strictRE.MatchString(s):
							kind = "strict"
						}
						if kind == "" {
							continue
						}
						if fn.Signature.Recv() != nil {
							kindOf[fn.Name()] = kind
						}
						// a Prepare call whose result is stored into a statement field
						if call, isCall := in.(*ssa.Call); isCall {
							for _, r := range *call.Referrers() {
								if ex, isEx := r.(*ssa.Extract); isEx && ex.Index == 0 {
									for _, r2 := range *ex.Referrers() {
										if st, isSt := r2.(*ssa.Store); isSt {
											if fa, isFA := st.Addr.(*ssa.FieldAddr); isFA {
												if fld := structField(fa.X.Type(), fa.Field); fld != nil {
													stmtKind[fld.Name()] = kind
												}
											}
										}
									}
								}
							}
						}
					}
				}
			}
		}
	}
	// 2. methods using a prepared statement field
	for _, fn := range c.funcsOf(r47SQLite) {
		if fn.Signature.Recv() == nil {
			continue
		}
		for _, f := range withAnon(fn) {
			for _, b := range f.Blocks {
				for _, in := range b.Instrs {
					if fa, ok := in.(*ssa.FieldAddr); ok {
						if fld := structField(fa.X.Type(), fa.Field); fld != nil && stmtKind[fld.Name()] != "" {
							if _, have := kindOf[fn.Name()]; !have {
								kindOf[fn.Name()] = stmtKind[fld.Name()]
							}
						}
					}
				}
			}
		}
	}
	// 3. methods that delegate to a package-local helper carrying the statement (OnlineAccountsDelete -> onlineAccountsDelete)
	for _, fn := range c.funcsOf(r47SQLite) {
		if fn.Signature.Recv() == nil || kindOf[fn.Name()] != "" {
			continue
		}
		for _, b := range fn.Blocks {
			for _, in := range b.Instrs {
				if call, ok := in.(*ssa.Call); ok {
					if sf := call.Common().StaticCallee(); sf != nil && sf.Pkg == fn.Pkg && kindOf[sf.Name()] != "" {
						kindOf[fn.Name()] = kindOf[sf.Name()]
					}
				}
			}
		}
	}
	// users of each KV range constructor
	type user struct {
		fn   *ssa.Function
		kind string
		pos  string
	}
	users := map[string][]user{}
	for _, kf := range c.funcsOf(r47KV) {
		if kf.Signature.Recv() == nil || kindOf[kf.Name()] == "" {
			continue
		}
		for _, b := range kf.Blocks {
			for _, in := range b.Instrs {
				call, ok := in.(*ssa.Call)
				if !ok {
					continue
				}
				sf := call.Common().StaticCallee()
				if sf == nil || sf.Pkg != kf.Pkg || sf.Signature.Recv() != nil || sf.Signature.Results().Len() != 2 {
					continue
				}
				// one of the arguments is a round parameter of the method
				hit := false
				for _, a := range call.Call.Args {
					if p, isP := strip(a).(*ssa.Parameter); isP && p.Parent() == kf {
						hit = true
					}
				}
				if hit {
					users[sf.Name()] = append(users[sf.Name()], user{kf, kindOf[kf.Name()], c.Pos(call.Pos())})
				}
			}
		}
	}
	var ctors []string
	for k := range users {
		ctors = append(ctors, k)
	}
	sort.Strings(ctors)
	n := 0
	for _, ctor := range ctors {
		us := users[ctor]
		kinds := map[string]int{}
		for _, u := range us {
			kinds[u.kind]++
		}
		n++
		detail := ""
		for _, u := range us {
			detail += " " + u.fn.Name() + "(" + u.kind + ")"
		}
		c.Check(len(kinds) <= 1, rule, "ledger/store/trackerdb/generickv."+ctor+":users agree on strict or inclusive bound", us[0].pos,
			"the SQL of the SQLite siblings classifies the users of this range constructor as:"+detail)
	}
	if n == 0 {
		c.Unk(rule, "generickv range constructors", "-", "no range constructor with a classified user found")
	}
}
