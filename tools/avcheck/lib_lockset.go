package main

import (
	"fmt"
	"go/token"
	"go/types"
	"sort"
	"strings"

	"golang.org/x/tools/go/ssa"
)

// T8 lockset: flow-sensitive must-hold analysis for "field F of struct S is
// only touched with S.mu held". Per function (and per constant value of a
// boolean parameter that selects locking, e.g. `synchronized bool`) a forward
// dataflow computes the lock level certainly held before each instruction.
// A function that touches a guarded field without holding the lock gets the
// summary requires-lock; every caller must then hold it; a root (exported,
// interface-reachable or otherwise uncalled function) that requires the lock
// is a violation unless it is in the reviewed exempt table.

// LockSpec describes one mutex and the fields it guards.
type LockSpec struct {
	Rule    string
	Struct  *types.Named
	Mu      *types.Var
	Guarded map[*types.Var]bool
	// Pkgs are the module-relative package paths whose functions are analysed.
	Pkgs []string
	// Exempt maps function names (fnName form, variants as name[param=true])
	// that may touch guarded state without the lock, with the reason.
	Exempt map[string]string
	// WritesNeedExclusive: a store to a guarded field under RLock is a violation.
	WritesNeedExclusive bool
	// CondFields are sync.Cond fields whose Wait keeps the lock (no state change).
}

const (
	lkNone = 0
	lkR    = 1
	lkW    = 2
)

type lockVariant struct {
	fn    *ssa.Function
	param int // index in fn.Params of the pruned bool param, -1 if none
	val   bool
}

func (v lockVariant) name() string {
	n := fnName(v.fn)
	if v.param >= 0 {
		n += fmt.Sprintf("[%s=%v]", v.fn.Params[v.param].Name(), v.val)
	}
	return n
}

type lockAccess struct {
	in    ssa.Instruction
	need  int
	what  string
	state int // with entry=none
	stateHeld int // with entry=W
}

type lockAnalysis struct {
	c        *Ctx
	spec     *LockSpec
	fns      map[*ssa.Function]bool
	requires map[string]int // variant name -> level required from caller
	lockFns  map[*types.Func]int // methods on the mutex type: +level acquire, -1 release
}

func (la *lockAnalysis) muOp(in ssa.Instruction) (acquire int, release bool, ok bool) {
	call, isCall := in.(*ssa.Call)
	if !isCall {
		return 0, false, false
	}
	f := calleeOf(call.Common())
	if f == nil {
		return 0, false, false
	}
	args := callArgs(call.Common())
	if len(args) == 0 {
		return 0, false, false
	}
	// receiver must be (the address of) the spec's mutex field
	fa, isFA := args[0].(*ssa.FieldAddr)
	if !isFA || structField(fa.X.Type(), fa.Field) != la.spec.Mu {
		return 0, false, false
	}
	switch f.Name() {
	case "Lock":
		return lkW, false, true
	case "RLock":
		return lkR, false, true
	case "Unlock", "RUnlock":
		return 0, true, true
	}
	return 0, false, false
}

// guardedAccess classifies an instruction as a read/write of a guarded field.
func (la *lockAnalysis) guardedAccess(in ssa.Instruction) (need int, what string) {
	var fld *types.Var
	var addr ssa.Value
	switch x := in.(type) {
	case *ssa.FieldAddr:
		fld = structField(x.X.Type(), x.Field)
		addr = x
		if !la.isSpecStruct(x.X.Type()) {
			return 0, ""
		}
	case *ssa.Field:
		fld = structField(x.X.Type(), x.Field)
		if !la.isSpecStruct(x.X.Type()) {
			return 0, ""
		}
	default:
		return 0, ""
	}
	if fld == nil || !la.spec.Guarded[fld] {
		return 0, ""
	}
	need = lkR
	if addr != nil && la.spec.WritesNeedExclusive {
		for _, r := range *addr.Referrers() {
			switch y := r.(type) {
			case *ssa.Store:
				if y.Addr == addr {
					need = lkW
				}
			case *ssa.UnOp:
				// loaded map/slice header then mutated in place
				for _, r2 := range *y.Referrers() {
					switch z := r2.(type) {
					case *ssa.MapUpdate:
						if z.Map == ssa.Value(y) {
							need = lkW
						}
					case *ssa.Call:
						if b, ok := z.Common().Value.(*ssa.Builtin); ok && (b.Name() == "delete" || b.Name() == "clear") && len(z.Common().Args) > 0 && z.Common().Args[0] == ssa.Value(y) {
							need = lkW
						}
					}
				}
			}
		}
	}
	kind := "read"
	if need == lkW {
		kind = "write"
	}
	return need, kind + " of " + la.spec.Struct.Obj().Name() + "." + fld.Name()
}

func (la *lockAnalysis) isSpecStruct(t types.Type) bool {
	if p, ok := t.Underlying().(*types.Pointer); ok {
		t = p.Elem()
	}
	nt, ok := types.Unalias(t).(*types.Named)
	return ok && nt.Origin() == la.spec.Struct.Origin()
}

// variantsOf returns the analysis variants of fn: one per constant value of a
// bool parameter that is branched on in a function containing lock operations
// or calls to such functions; otherwise the single unpruned variant.
func (la *lockAnalysis) variantsOf(fn *ssa.Function) []lockVariant {
	for i, p := range fn.Params {
		if b, ok := p.Type().Underlying().(*types.Basic); !ok || b.Kind() != types.Bool {
			continue
		}
		if p.Name() != "synchronized" && p.Name() != "sync" && p.Name() != "locked" && p.Name() != "needLock" && p.Name() != "lock" {
			// any bool param that directly controls a lock operation
			controls := false
			for _, b := range fn.Blocks {
				iff, ok := b.Instrs[len(b.Instrs)-1].(*ssa.If)
				if !ok {
					continue
				}
				c, _ := condOf(iff.Cond)
				if c != ssa.Value(p) {
					continue
				}
				for _, s := range b.Succs {
					for _, in := range s.Instrs {
						if _, _, ok := la.muOp(in); ok {
							controls = true
						}
					}
				}
			}
			if !controls {
				continue
			}
		}
		return []lockVariant{{fn, i, true}, {fn, i, false}}
	}
	return []lockVariant{{fn, -1, false}}
}

// variantForCall picks the callee variant name for a call instruction.
func (la *lockAnalysis) variantForCall(caller lockVariant, call ssa.CallInstruction, callee *ssa.Function) []string {
	vs := la.variantsOf(callee)
	if len(vs) == 1 {
		return []string{vs[0].name()}
	}
	pi := vs[0].param
	args := call.Common().Args
	if pi < len(args) {
		a := args[pi]
		if k, ok := a.(*ssa.Const); ok && k.Value != nil {
			if IsConstBool(true)(k) {
				return []string{vs[0].name()}
			}
			return []string{vs[1].name()}
		}
		if caller.param >= 0 && a == ssa.Value(caller.fn.Params[caller.param]) {
			if caller.val {
				return []string{vs[0].name()}
			}
			return []string{vs[1].name()}
		}
	}
	return []string{vs[0].name(), vs[1].name()}
}

// flow runs the must-hold dataflow for a variant with the given entry level
// and returns the level held before every instruction.
func (la *lockAnalysis) flow(v lockVariant, entry int) map[ssa.Instruction]int {
	fn := v.fn
	in := map[*ssa.BasicBlock]int{}
	seen := map[*ssa.BasicBlock]bool{}
	before := map[ssa.Instruction]int{}
	if len(fn.Blocks) == 0 {
		return before
	}
	in[fn.Blocks[0]] = entry
	seen[fn.Blocks[0]] = true
	work := []*ssa.BasicBlock{fn.Blocks[0]}
	for len(work) > 0 {
		b := work[0]
		work = work[1:]
		st := in[b]
		dead := false
		for _, ins := range b.Instrs {
			before[ins] = st
			if noReturnCall(ins) {
				dead = true
				break
			}
			if acq, rel, ok := la.muOp(ins); ok {
				if rel {
					st = lkNone
				} else {
					st = acq
				}
			}
		}
		if dead {
			continue
		}
		succs := b.Succs
		if iff, ok := b.Instrs[len(b.Instrs)-1].(*ssa.If); ok && v.param >= 0 {
			c, neg := condOf(iff.Cond)
			if c == ssa.Value(fn.Params[v.param]) {
				if v.val != neg {
					succs = b.Succs[:1]
				} else {
					succs = b.Succs[1:]
				}
			}
		}
		for _, s := range succs {
			if !seen[s] {
				seen[s] = true
				in[s] = st
				work = append(work, s)
			} else if st < in[s] {
				in[s] = st
				work = append(work, s)
			}
		}
	}
	// instructions in unvisited (pruned) blocks are absent from the map
	return before
}

// RunLockset analyses spec and records obligations.
func (c *Ctx) RunLockset(spec *LockSpec) {
	la := &lockAnalysis{c: c, spec: spec, fns: map[*ssa.Function]bool{}, requires: map[string]int{}}
	var all []*ssa.Function
	for _, rel := range spec.Pkgs {
		all = append(all, c.funcsOf(Mod+"/"+rel)...)
	}
	for _, f := range all {
		la.fns[f] = true
	}
	type reqSite struct {
		v     lockVariant
		in    ssa.Instruction
		need  int
		what  string
		cause string // callee variant if the need comes from a call
	}
	variants := []lockVariant{}
	for _, f := range all {
		variants = append(variants, la.variantsOf(f)...)
	}
	byName := map[string]lockVariant{}
	for _, v := range variants {
		byName[v.name()] = v
		la.requires[v.name()] = 0
	}
	exempt := func(n string) (string, bool) {
		if r, ok := spec.Exempt[n]; ok {
			return r, true
		}
		// "pkg.Type.*" exempts every method of a type
		if i := strings.LastIndex(n, "."); i > 0 {
			if r, ok := spec.Exempt[n[:i]+".*"]; ok {
				return r, true
			}
		}
		return "", false
	}
	// fixpoint over requires summaries
	var unprotected map[string][]reqSite // variant -> sites needing the lock from the caller
	var broken []reqSite                 // sites unprotected even when entered with the lock held
	for iter := 0; iter < 12; iter++ {
		changed := false
		unprotected = map[string][]reqSite{}
		broken = nil
		for _, v := range variants {
			none := la.flow(v, lkNone)
			held := la.flow(v, lkW)
			consider := func(ins ssa.Instruction, need int, what, cause string) {
				st, visited := none[ins]
				if !visited {
					return
				}
				if st >= need {
					return
				}
				if held[ins] < need {
					broken = append(broken, reqSite{v, ins, need, what, cause})
					return
				}
				unprotected[v.name()] = append(unprotected[v.name()], reqSite{v, ins, need, what, cause})
			}
			for _, b := range v.fn.Blocks {
				for _, ins := range b.Instrs {
					if need, what := la.guardedAccess(ins); need > 0 {
						consider(ins, need, what, "")
					}
					switch x := ins.(type) {
					case *ssa.Call:
						if cal := x.Common().StaticCallee(); cal != nil && la.fns[cal] {
							for _, vn := range la.variantForCall(v, x, cal) {
								if lvl := la.requires[vn]; lvl > 0 {
									consider(ins, lvl, "call to "+vn+" which requires the lock", vn)
								}
							}
						}
					case *ssa.MakeClosure:
						if cal, ok := x.Fn.(*ssa.Function); ok && la.fns[cal] {
							if lvl := la.requires[fnName(cal)]; lvl > 0 {
								consider(ins, lvl, "closure "+fnName(cal)+" touches guarded state", fnName(cal))
							}
						}
					case *ssa.Go:
						if cal := x.Common().StaticCallee(); cal != nil && la.fns[cal] {
							if lvl := la.requires[fnName(cal)]; lvl > 0 {
								broken = append(broken, reqSite{v, ins, lvl, "goroutine " + fnName(cal) + " touches guarded state without taking the lock", ""})
							}
						}
					}
				}
			}
			lvl := 0
			for _, s := range unprotected[v.name()] {
				if s.need > lvl {
					lvl = s.need
				}
			}
			if lvl != la.requires[v.name()] {
				la.requires[v.name()] = lvl
				changed = true
			}
		}
		if !changed {
			break
		}
	}
	sname := relPkg(spec.Struct.Obj().Pkg().Path()) + "." + spec.Struct.Obj().Name() + "." + spec.Mu.Name()
	// 1. accesses not protected even under a held entry
	seenB := map[string]bool{}
	for _, s := range broken {
		key := s.v.name() + ":" + s.what
		if seenB[key] {
			continue
		}
		seenB[key] = true
		if reason, ok := exempt(s.v.name()); ok {
			c.Ok(spec.Rule, sname+"@"+key, c.Pos(s.in.Pos()), "exempt: "+reason)
			continue
		}
		c.Bad(spec.Rule, sname+"@"+key, c.Pos(s.in.Pos()), fmt.Sprintf("%s in %s is not covered by %s even when the function is entered with the lock held: the lock was released before it, is only held shared for a write, or the access runs in a goroutine (needed level %s)", s.what, s.v.name(), spec.Mu.Name(), map[int]string{lkR: "shared", lkW: "exclusive"}[s.need]))
	}
	// 2. roots that require the lock
	called := map[string]bool{}
	for _, v := range variants {
		for _, b := range v.fn.Blocks {
			for _, ins := range b.Instrs {
				switch x := ins.(type) {
				case ssa.CallInstruction:
					if cal := x.Common().StaticCallee(); cal != nil && la.fns[cal] {
						for _, vn := range la.variantForCall(v, x, cal) {
							called[vn] = true
						}
					}
				}
				if mc, ok := ins.(*ssa.MakeClosure); ok {
					if cal, ok := mc.Fn.(*ssa.Function); ok {
						called[fnName(cal)] = true
					}
				}
			}
		}
	}
	names := []string{}
	for n := range la.requires {
		names = append(names, n)
	}
	sort.Strings(names)
	nProtected := 0
	for _, n := range names {
		v := byName[n]
		lvl := la.requires[n]
		if lvl == 0 {
			// fully self-protected or untouched
			touches := false
			for _, b := range v.fn.Blocks {
				for _, ins := range b.Instrs {
					if need, _ := la.guardedAccess(ins); need > 0 {
						touches = true
					}
				}
			}
			if touches {
				nProtected++
				c.Ok(spec.Rule, sname+"@"+n, c.Pos(v.fn.Pos()), "every access to guarded fields happens with the lock held")
			}
			continue
		}
		isRoot := !called[n] || isExportedEntry(v.fn)
		if v.param >= 0 && !called[n] && !isExportedEntry(v.fn) {
			// no call site can pass this constant: dead variant
			continue
		}
		site := unprotected[n][0]
		if !isRoot {
			c.Ok(spec.Rule, sname+"@"+n, c.Pos(v.fn.Pos()), fmt.Sprintf("requires the lock from its callers (level %d, e.g. %s); every caller holds it", lvl, site.what))
			continue
		}
		if reason, ok := exempt(n); ok {
			c.Ok(spec.Rule, sname+"@"+n, c.Pos(v.fn.Pos()), "exempt entry point: "+reason)
			continue
		}
		c.Bad(spec.Rule, sname+"@"+n, c.Pos(site.in.Pos()), fmt.Sprintf("entry point %s performs %s without holding %s (and is not in the reviewed exempt table)", n, site.what, spec.Mu.Name()))
	}
	c.NoteSites(len(variants))
	_ = strings.Join
	_ = token.NoPos
}

// isExportedEntry reports whether fn can be called from outside the analysed
// packages: exported method/function.
func isExportedEntry(fn *ssa.Function) bool {
	if fn.Parent() != nil {
		return false
	}
	o, ok := fn.Object().(*types.Func)
	return ok && o.Exported()
}
