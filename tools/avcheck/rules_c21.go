package main

import (
	"fmt"
	"go/token"
	"go/types"

	"golang.org/x/tools/go/ssa"
)

func init() {
	register(&Prop{
		ID:       "C21",
		Patterns: []string{"./ledger/eval"},
		Run:      runC21,
		Explanation: "Decides that the minimum-balance post-condition is checked, on the group's own state, for every account record the group touched. " +
			"R21.1 in BlockEvaluator.transaction, recording the transaction (cow.addTx) and every nil-error return are dominated by checkMinBalance(cow)==nil, called with the very cow the transaction was applied to; the only bypass is the edge on which BOTH eval.validate and eval.generate are false (`validate || generate` rewritten to `&&` is caught). " +
			"R21.2 in checkMinBalance: there is one loop, over cow.modifiedAccounts() of the parameter; an iteration can be left towards the next account only through address == FeeSink, == RewardsPool, == StateProofSender, data.IsZero(), or the passing edge of dataNew.MicroAlgos.Raw >= dataNew.MinBalance(&eval.proto).Raw, where dataNew is WithUpdatedRewards(...) of cow.lookup(thatAddress) and MinBalance is taken of the same dataNew; nil is returned only after the loop has run out. " +
			"R21.3 modifiedAccounts() enumerates every touched record: it returns cb.mods.Accts.ModifiedAccounts(), which returns one address per element of AccountDeltas.Accts; Accts is written only by Upsert/reset/MakeAccountDeltas/Dehydrate; Upsert is called only by roundCowState.putAccount (on cs.mods.Accts) and MergeAccounts (child commit). " +
			"Does NOT decide: the minimum-balance formula (basics.MinBalance) or that every resource change that raises it also rewrites the base record (TotalAssets, TotalAppSchema, TotalBoxes … live in the base record, so a Put is needed to change them at all); modes with validate==generate==false (indexer) are exempt by design.",
		Assumptions: []string{"apply.* functions change AccountBaseData only through Balances.Put/Move (C18 R18.1 covers MicroAlgos)"},
		Floor:       map[string]int{"R21.1": 5, "R21.2": 7, "R21.3": 12},
	})
}

func runC21(c *Ctx) {
	const P = "ledger/eval."
	const L = "ledger/ledgercore."
	txn := c.Fn(P + "BlockEvaluator.transaction")
	cmb := c.Fn(P + "BlockEvaluator.checkMinBalance")
	fCMB := c.Func(P + "BlockEvaluator.checkMinBalance")
	addTx := c.Func(P + "roundCowState.addTx")
	fValidate := c.Field(P + "BlockEvaluator.validate")
	fGenerate := c.Field(P + "BlockEvaluator.generate")

	// ---- R21.1 ----
	{
		var cowP *ssa.Parameter
		for _, p := range txn.Params {
			if pt, ok := p.Type().(*types.Pointer); ok {
				if nt, ok := types.Unalias(pt.Elem()).(*types.Named); ok && nt.Obj().Name() == "roundCowState" {
					cowP = p
				}
			}
		}
		adds := asInstrs(CallsTo(txn, false, addTx))
		effects := append(append([]ssa.Instruction{}, adds...), dSuccessReturns(txn)...)
		bothOff := dConjEdges(txn, GBool("!eval.validate", dPath(fValidate), false), GBool("!eval.generate", dPath(fGenerate), false))
		c.dMustGuard(dGuardSpec{Rule: "R21.1", Fn: txn, Effects: effects, EffName: "addTx / return nil", BypassEdges: bothOff,
			Guards: []Guard{GErrNil("checkMinBalance(cow)==nil", dResultOf(0, fCMB))}})
		c.Ok("R21.1", fnName(txn)+":bypass only when !validate && !generate", c.Pos(txn.Pos()), itoa(len(bothOff))+" bypass edge(s) admitted, each with both flags known false (single-flag edges are not bypasses)")
		okArg := cowP != nil
		n := 0
		for _, ci := range CallsTo(txn, false, fCMB) {
			n++
			a := ci.Common().Args
			if len(a) < 2 || !dIsParam(cowP)(a[1]) {
				okArg = false
			}
		}
		c.dCheck(okArg && n > 0, "R21.1", fnName(txn)+":checkMinBalance(the group's cow)", c.Pos(txn.Pos()), "checkMinBalance is given the cow parameter the transaction was applied to")
		okAdd := cowP != nil && len(adds) > 0
		for _, a := range adds {
			if !dIsParam(cowP)(a.(ssa.CallInstruction).Common().Args[0]) {
				okAdd = false
			}
		}
		c.dCheck(okAdd, "R21.1", fnName(txn)+":addTx on the same cow", c.Pos(txn.Pos()), "the transaction is recorded in the state that was checked")
		// the apply step precedes the check: applyTransaction(…, cow, …) dominates checkMinBalance
		apply := CallsTo(txn, false, c.Func(P+"BlockEvaluator.applyTransaction"))
		okOrder := len(apply) == 1
		if okOrder {
			for _, ci := range CallsTo(txn, false, fCMB) {
				if !Dominates(apply[0], ci) {
					okOrder = false
				}
			}
			has := false
			for _, a := range apply[0].Common().Args {
				if dIsParam(cowP)(a) {
					has = true
				}
			}
			okOrder = okOrder && has
		}
		c.dCheck(okOrder, "R21.1", fnName(txn)+":applyTransaction(cow) dominates checkMinBalance(cow)", c.Pos(txn.Pos()), "the balances are checked after the transaction's effects were applied to the same cow")
	}

	// ---- R21.2 ----
	{
		cowP := dParamAt(cmb, 0)
		modAccts := c.Func(P + "roundCowState.modifiedAccounts")
		lookup := c.Func(P + "roundCowState.lookup")
		wur := c.Func(L + "AccountData.WithUpdatedRewards")
		minBal := c.Func(L + "AccountData.MinBalance")
		isZero := c.Func(L + "AccountData.IsZero")
		fBlock := c.Field(P + "BlockEvaluator.block")
		fFeeSink := c.Field("data/bookkeeping.RewardsState.FeeSink")
		fPool := c.Field("data/bookkeeping.RewardsState.RewardsPool")
		fMicro := c.Field(L + "AccountBaseData.MicroAlgos")
		fRaw := c.Field("data/basics.MicroAlgos.Raw")
		spSender := c.Obj("data/transactions.StateProofSender")

		loops := dBackEdges(cmb)
		var hdrBlk *ssa.BasicBlock
		for h := range loops {
			hdrBlk = h
		}
		if len(loops) != 1 {
			c.Unk("R21.2", fnName(cmb)+":loop", c.Pos(cmb.Pos()), "expected exactly one loop in checkMinBalance, found "+itoa(len(loops)))
		} else {
			// the range operand
			var rangeCall *ssa.Call
			if iff, ok := hdrBlk.Instrs[len(hdrBlk.Instrs)-1].(*ssa.If); ok {
				if bo, ok := iff.Cond.(*ssa.BinOp); ok && bo.Op == token.LSS {
					if s, ok := lenOf(bo.Y); ok {
						if call, ok := s.(*ssa.Call); ok && sameFunc(calleeOf(call.Common()), modAccts) && dIsParam(cowP)(call.Common().Args[0]) {
							rangeCall = call
						}
					}
				}
			}
			c.dCheck(rangeCall != nil, "R21.2", fnName(cmb)+":range cow.modifiedAccounts()", c.Pos(cmb.Pos()), "the loop runs over modifiedAccounts() of the cow parameter (index < len of that slice)")
			if rangeCall != nil {
				elem := func(v ssa.Value) bool {
					r, f := dAddrPath(strip(v))
					return r == ssa.Value(rangeCall) && len(f) == 0
				}
				lookupOfElem := func(v ssa.Value) bool {
					e, ok := v.(*ssa.Extract)
					if !ok || e.Index != 0 {
						return false
					}
					call, ok := e.Tuple.(*ssa.Call)
					if !ok || !sameFunc(calleeOf(call.Common()), lookup) {
						return false
					}
					a := call.Common().Args
					return len(a) == 2 && dIsParam(cowP)(a[0]) && elem(a[1])
				}
				var wurCall *ssa.Call
				dataNew := func(v ssa.Value) bool {
					call, ok := v.(*ssa.Call)
					if !ok || !sameFunc(calleeOf(call.Common()), wur) {
						return false
					}
					if !dFlows(call.Common().Args[0], lookupOfElem, 6) {
						return false
					}
					wurCall = call
					return true
				}
				balance := func(v ssa.Value) bool {
					_, f := dAddrPath(strip(v))
					n := len(f)
					return n >= 2 && f[n-1] == fRaw && f[n-2] == fMicro && dFlows(v, dataNew, 8)
				}
				minimum := func(v ssa.Value) bool {
					_, f := dAddrPath(strip(v))
					if len(f) == 0 || f[len(f)-1] != fRaw {
						return false
					}
					return dFlows(v, func(x ssa.Value) bool {
						call, ok := x.(*ssa.Call)
						if !ok || !sameFunc(calleeOf(call.Common()), minBal) {
							return false
						}
						// MinBalance depends on the record's resource totals only, so the record with or without pending rewards will do
						return dFlows(call.Common().Args[0], dataNew, 8) || dFlows(call.Common().Args[0], lookupOfElem, 8)
					}, 8)
				}
				guard := GCmp("dataNew.MicroAlgos.Raw>=dataNew.MinBalance(proto).Raw", token.GEQ, balance, minimum)
				special := func(name string, b VM) Guard { return GCmp("addr=="+name, token.EQL, elem, b) }
				bypass := []Guard{
					special("FeeSink", dPathPS([]*types.Var{fBlock}, []*types.Var{fFeeSink})),
					special("RewardsPool", dPathPS([]*types.Var{fBlock}, []*types.Var{fPool})),
					special("StateProofSender", func(v ssa.Value) bool {
						u, ok := v.(*ssa.UnOp)
						return ok && u.Op == token.MUL && valueIs(u.X, spSender)
					}),
					GBool("data.IsZero()", dCallOn(isZero, lookupOfElem), true),
				}
				c.dMustGuard(dGuardSpec{Rule: "R21.2", Fn: cmb, EffEdges: loops[hdrBlk], EffName: "advance to the next account", Guards: []Guard{guard}, Bypass: bypass})
				// each of the four exemptions still exists as written (a bypass that silently widened would be a different guard)
				for _, bg := range bypass {
					_, n := PassEdges(cmb, bg)
					c.Check(n <= 1, "R21.2", fnName(cmb)+":exemption "+bg.Name, c.Pos(cmb.Pos()), fmt.Sprintf("%d branch(es) test %s", n, bg.Name))
				}
				_ = wurCall
				// nil only after the loop ran out
				exit := hdrBlk.Succs[1]
				okExit := len(exit.Preds) == 1
				succ := dSuccessReturns(cmb)
				for _, r := range succ {
					if !exit.Dominates(r.Block()) {
						okExit = false
					}
				}
				c.dCheck(okExit && len(succ) > 0, "R21.2", fnName(cmb)+":nil only after the last account", c.Pos(cmb.Pos()), "every nil return is dominated by the loop's exit edge")
			}
		}
	}

	// ---- R21.3 ----
	{
		scope := []string{"ledger/eval/...", "ledger/ledgercore", "ledger/apply", "data/transactions/logic"}
		upsert := c.Func(L + "AccountDeltas.Upsert")
		c.OwnerRule("R21.3", "call(AccountDeltas.Upsert)", c.Uses([]*types.Func{upsert}, ScanOpts{SkipGenerated: true, OnlyPkgs: scope}), map[string]string{
			P + "roundCowState.putAccount":   "the single account writer of the cow",
			L + "AccountDeltas.MergeAccounts": "child commit",
		})
		fAccts := c.Field(L + "AccountDeltas.Accts")
		c.OwnerRule("R21.3", "write(AccountDeltas.Accts)", c.FieldWrites(map[*types.Var]bool{fAccts: true}, ScanOpts{SkipGenerated: true, OnlyPkgs: scope}), map[string]string{
			L + "AccountDeltas.Upsert":    "insert / overwrite a record",
			L + "AccountDeltas.reset":     "truncate for reuse",
			L + "AccountDeltas.Dehydrate": "nil -> empty normalisation",
			L + "MakeAccountDeltas":       "allocation",
			L + "StateDelta.OptimizeAllocatedMemory": "same-content reallocation after evaluation",
			P + "convertStateDelta":                  "tracer's copy of a finished delta, not a cow",
		})
		fMods := c.Field(P + "roundCowState.mods")
		fSDAccts := c.Field(L + "StateDelta.Accts")
		pa := c.Fn(P + "roundCowState.putAccount")
		okPA := len(CallsTo(pa, false, upsert)) > 0
		for _, ci := range CallsTo(pa, false, upsert) {
			r, f := dAddrPath(ci.Common().Args[0])
			if !(r == ssa.Value(dRecv(pa)) && len(f) == 2 && f[0] == fMods && f[1] == fSDAccts) {
				okPA = false
			}
		}
		c.dCheck(okPA, "R21.3", fnName(pa)+":Upsert on cs.mods.Accts", c.Pos(pa.Pos()), "putAccount records the write in the cow's own account deltas")
		// success of putAccount implies the Upsert happened
		{
			r := NewReach(pa, nil, func(in ssa.Instruction) bool {
				ci, ok := in.(ssa.CallInstruction)
				return ok && sameFunc(calleeOf(ci.Common()), upsert)
			})
			ok := true
			for _, s := range dSuccessReturns(pa) {
				if r.Reaches(s) {
					ok = false
				}
			}
			c.dCheck(ok, "R21.3", fnName(pa)+":every nil return passes Upsert", c.Pos(pa.Pos()), "no path returns nil without recording the account")
		}
		ma := c.Fn(P + "roundCowState.modifiedAccounts")
		adMA := c.Func(L + "AccountDeltas.ModifiedAccounts")
		okMA := len(dReturns(ma)) > 0
		for _, r := range dReturns(ma) {
			call, ok := r.Results[0].(*ssa.Call)
			if !ok || !sameFunc(calleeOf(call.Common()), adMA) {
				okMA = false
				break
			}
			rt, f := dAddrPath(call.Common().Args[0])
			if !(rt == ssa.Value(dRecv(ma)) && len(f) == 2 && f[0] == fMods && f[1] == fSDAccts) {
				okMA = false
			}
		}
		c.dCheck(okMA, "R21.3", fnName(ma)+":returns cb.mods.Accts.ModifiedAccounts()", c.Pos(ma.Pos()), "the list checked by checkMinBalance is that of the cow's own account deltas")
		// AccountDeltas.ModifiedAccounts: one address per record
		am := c.Fn(L + "AccountDeltas.ModifiedAccounts")
		fAddr := c.Field(L + "BalanceRecord.Addr")
		okLen, okFill := false, false
		var res *ssa.MakeSlice
		rets := dReturns(am)
		for _, r := range rets {
			ms, ok := r.Results[0].(*ssa.MakeSlice)
			if !ok {
				res = nil
				break
			}
			res = ms
		}
		if res != nil {
			if x, ok := lenOf(res.Len); ok {
				_, f := dAddrPath(x)
				okLen = len(f) == 1 && f[0] == fAccts
			}
			for _, u := range dUsers(res) {
				ia, ok := u.(*ssa.IndexAddr)
				if !ok {
					continue
				}
				for _, uu := range dUsers(ia) {
					st, ok := uu.(*ssa.Store)
					if !ok || st.Addr != ssa.Value(ia) {
						continue
					}
					// value = ad.Accts[i].Addr with the same index
					_, f := dAddrPath(strip(st.Val))
					if len(f) == 2 && f[0] == fAccts && f[1] == fAddr && c21FullIndexLoop(ia, fAccts) {
						sameIdx := false
						var walk func(v ssa.Value, d int)
						walk = func(v ssa.Value, d int) {
							if d > 6 || v == nil {
								return
							}
							switch y := v.(type) {
							case *ssa.IndexAddr:
								if y.Index == ia.Index {
									sameIdx = true
								}
								walk(y.X, d+1)
							case *ssa.UnOp:
								walk(y.X, d+1)
							case *ssa.FieldAddr:
								walk(y.X, d+1)
							case *ssa.Field:
								walk(y.X, d+1)
							}
						}
						walk(st.Val, 0)
						okFill = sameIdx
					}
				}
			}
		}
		c.dCheck(okLen && okFill, "R21.3", fnName(am)+":one address per record of Accts", c.Pos(am.Pos()), "the result has len(ad.Accts) elements and element i is ad.Accts[i].Addr, stored unconditionally for i = 0,1,…,len(ad.Accts)-1")
	}
	dDumpObs(c)
}

// c21FullIndexLoop: the store through ia happens unconditionally in the body
// of a loop whose index starts at 0, increases by 1 and runs while
// index < len(x.<fAccts>).
func c21FullIndexLoop(ia *ssa.IndexAddr, fAccts *types.Var) bool {
	phi, ok := ia.Index.(*ssa.Phi)
	if !ok || len(phi.Edges) != 2 {
		return false
	}
	zero, inc := false, false
	for _, e := range phi.Edges {
		if IsConstInt(0)(e) {
			zero = true
		}
		if bo, ok := e.(*ssa.BinOp); ok && bo.Op == token.ADD && bo.X == ssa.Value(phi) && IsConstInt(1)(bo.Y) {
			inc = true
		}
	}
	if !zero || !inc {
		return false
	}
	h := phi.Block()
	iff, ok := h.Instrs[len(h.Instrs)-1].(*ssa.If)
	if !ok {
		return false
	}
	bo, ok := iff.Cond.(*ssa.BinOp)
	if !ok || bo.Op != token.LSS || bo.X != ssa.Value(phi) {
		return false
	}
	x, ok := lenOf(bo.Y)
	if !ok {
		return false
	}
	if _, f := dAddrPath(x); len(f) != 1 || f[0] != fAccts {
		return false
	}
	// the store sits in the first block of the body: executed on every iteration
	return ia.Block() == h.Succs[0]
}
