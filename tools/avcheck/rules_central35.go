package main

import (
	"go/types"

	"golang.org/x/tools/go/ssa"
)

// R11.8: a restart reloads every persisted round of the transaction tail.
//
// Found by an independent audit of C11 on the pinned tree (a genuine defect,
// repaired by a "fix:" commit, see known_findings.json and DESIGN §7). The loop
// of txTail.loadFromDisk that turns the rows returned by LoadTxTail into the
// lastValid / lease maps ran `for old := baseRound; old <= dbRound && dbRound >
// baseRound; old++`. The second conjunct was meant to protect roundData[0] on a
// new database, but it is also false when the table holds exactly one row
// (dbRound == baseRound == 1, the state every node of a new network is in after
// its first flush): a node restarting then forgets every txid and lease of
// block 1, and the same transaction commits again while still valid.
//
// Rule: the loop that consumes the loaded rows (roundData[0]; roundData =
// roundData[1:]) is left only through its counter bound against the dbRound
// parameter or through an emptiness test of the rows; no other — in particular
// no loop-invariant — condition may end it.
func init() {
	extend("C11", Extension{
		Run:         ruleTailReloadVisitsEveryRow,
		Explanation: "R11.8 (a restart reloads every persisted tail round): in txTail.loadFromDisk the loop that consumes the rows returned by AccountsReader.LoadTxTail is exited only by its round counter passing the dbRound parameter or by the row slice being empty (len(roundData) compared with 0); any other exit condition — such as the loop-invariant dbRound > baseRound, false for the single-row table of a node whose tracker DB is at round 1 — skips rows, and the txids and leases of the skipped rounds can be committed again after the restart.",
		Floor:       map[string]int{"R11.8": 2},
	})
}

func ruleTailReloadVisitsEveryRow(c *Ctx) {
	const rule = "R11.8"
	const spec = "ledger.txTail.loadFromDisk"
	fn := c.Fn(spec)
	rowT := c.Named("ledger/store/trackerdb.TxTailRound")
	isRows := func(t types.Type) bool {
		s, ok := t.Underlying().(*types.Slice)
		if !ok {
			return false
		}
		p, ok := s.Elem().(*types.Pointer)
		return ok && types.Identical(p.Elem(), rowT)
	}
	var dbRound *ssa.Parameter
	for _, p := range fn.Params {
		if p.Name() == "dbRound" || (dbRound == nil && p.Type().String() == Mod+"/data/basics.Round") {
			dbRound = p
		}
	}
	// the consuming loop: contains roundData[0]
	var loop *natLoop
	for _, l := range naturalLoops(fn) {
		for b := range l.blocks {
			for _, in := range b.Instrs {
				if ia, ok := in.(*ssa.IndexAddr); ok && isRows(ia.X.Type()) && IsConstInt(0)(ia.Index) {
					if loop == nil || len(l.blocks) < len(loop.blocks) {
						loop = l
					}
				}
			}
		}
	}
	if loop == nil || dbRound == nil {
		c.Unk(rule, spec+":reload loop", c.Pos(fn.Pos()), "the loop consuming the rows of LoadTxTail (roundData[0]) was not found")
		return
	}
	n := 0
	for _, b := range fn.Blocks {
		if !loop.blocks[b] {
			continue
		}
		iff, ok := b.Instrs[len(b.Instrs)-1].(*ssa.If)
		if !ok || (loop.blocks[b.Succs[0]] && loop.blocks[b.Succs[1]]) {
			continue
		}
		n++
		kind := ""
		if bo, isBo := iff.Cond.(*ssa.BinOp); isBo {
			for _, pr := range [][2]ssa.Value{{bo.X, bo.Y}, {bo.Y, bo.X}} {
				if phi, isPhi := strip(pr[0]).(*ssa.Phi); isPhi && phi.Block() == loop.header && MentionsValue(pr[1], dbRound, 3) {
					kind = "round counter against dbRound"
				}
				if x, isLen := lenOf(strip(pr[0])); isLen && isRows(x.Type()) && IsConstInt(0)(pr[1]) {
					kind = "rows exhausted"
				}
			}
		}
		c.Check(kind != "", rule, spec+":reload loop exit #"+itoa(n), c.Pos(iff.Pos()), "the loop over the persisted tail rounds ends on its counter bound or on the rows being exhausted"+func() string {
			if kind == "" {
				return "; here it also ends when " + describe(iff.Cond) + ", which can skip rows that were loaded"
			}
			return " (" + kind + ")"
		}())
	}
	if n == 0 {
		c.Unk(rule, spec+":reload loop exits", c.Pos(fn.Pos()), "the reload loop has no conditional exit")
	}
}
