package main

import (
	"go/types"
	"strings"

	"golang.org/x/tools/go/ssa"
)

// R47.4 (after seed C47-2): inside a Pebble snapshot scope every read — point
// reads and range reads alike — has to come from the pinned snapshot. SQLite
// serves all reads of a snapshot from one read transaction; a scope that holds
// both the database handle and the snapshot and builds its iterators on the
// database returns, after a commit lands while the snapshot is open, new rows
// tagged with the old round.
func init() {
	extend("C47", Extension{
		Run:         ruleSnapshotScopeReadsFromSnapshot,
		Explanation: "R47.4 (a snapshot scope reads only from its snapshot): for every struct type of pebbledbdriver that has a field of type *pebble.Snapshot, each of its methods that calls a read method of the pebble package (Get, NewIter, NewIterWithContext) does so on a value loaded from that snapshot field, never on a *pebble.DB or *pebble.Batch field of the same struct — otherwise range reads (LookupAllResources, LookupOnlineHistory, AccountsOnlineTop, LoadTxTail, …) see rows committed after the snapshot was taken while point reads and the reported round do not, a data/round pair SQLite can never return.",
		Floor:       map[string]int{"R47.4": 2},
	})
}

func ruleSnapshotScopeReadsFromSnapshot(c *Ctx) {
	const rule = "R47.4"
	pkgPath := Mod + "/ledger/store/trackerdb/pebbledbdriver"
	n := 0
	for _, fn := range c.funcsOf(pkgPath) {
		if fn.Signature.Recv() == nil || len(fn.Params) == 0 {
			continue
		}
		rt := fn.Signature.Recv().Type()
		if p, ok := rt.(*types.Pointer); ok {
			rt = p.Elem()
		}
		st, ok := rt.Underlying().(*types.Struct)
		if !ok {
			continue
		}
		var snapField *types.Var
		for i := 0; i < st.NumFields(); i++ {
			if isPebbleType(st.Field(i).Type(), "Snapshot") {
				snapField = st.Field(i)
			}
		}
		if snapField == nil {
			continue
		}
		for _, b := range fn.Blocks {
			for _, in := range b.Instrs {
				call, ok := in.(*ssa.Call)
				if !ok {
					continue
				}
				cal := calleeOf(call.Common())
				if cal == nil || cal.Pkg() == nil || !strings.HasSuffix(cal.Pkg().Path(), "cockroachdb/pebble") {
					continue
				}
				switch cal.Name() {
				case "Get", "NewIter", "NewIterWithContext":
				default:
					continue
				}
				n++
				a := callArgs(call.Common())
				ok2 := len(a) > 0 && Mentions(a[0], snapField, 4)
				c.Check(ok2, rule, fnName(fn)+":pebble."+cal.Name()+" on the snapshot", c.Pos(call.Pos()), "the read is served by the scope's *pebble.Snapshot"+func() string {
					if !ok2 {
						return "; here it is served by " + describe(a[0]) + " (" + a[0].Type().String() + "), the live database"
					}
					return ""
				}())
			}
		}
	}
	if n == 0 {
		c.Unk(rule, "pebbledbdriver:snapshot scopes", "-", "no read through a struct holding a *pebble.Snapshot was found")
	}
}

func isPebbleType(t types.Type, name string) bool {
	if p, ok := t.(*types.Pointer); ok {
		t = p.Elem()
	}
	n, ok := t.(*types.Named)
	return ok && n.Obj().Name() == name && n.Obj().Pkg() != nil && strings.HasSuffix(n.Obj().Pkg().Path(), "cockroachdb/pebble")
}
