package main

import (
	"go/token"
	"go/types"

	"golang.org/x/tools/go/ssa"
)

// R40.5 (after seed C40-1): go-codec's reflection encoder decides whether an
// omitempty struct field is empty by calling the struct's own IsZero() bool
// method when it has one (codec isEmptyStruct), before looking at the fields;
// the generated encoder uses MsgIsZero(). A hand-written IsZero on a struct
// type with generated code therefore decides the reflection encoding, and the
// two encoders disagree whenever IsZero and MsgIsZero differ.
func init() {
	extend("C40", Extension{
		Run:         ruleIsZeroAgreesWithMsgIsZero,
		Explanation: "R40.5 (one emptiness notion per type): every struct type with generated msgp code whose method set (own or promoted through an embedded struct) contains `IsZero() bool` — the method go-codec consults for omitempty before its per-field check — has an IsZero that is the whole-value test (`x == T{}` or a call of MsgIsZero), or is in the reviewed table; a new IsZero on such a type fails until reviewed, because it would make the reflection encoder omit values the generated encoder emits.",
		Floor:       map[string]int{"R40.5": 1},
	})
}

// reviewedIsZero: "pkgrel.Type" -> why its hand-written IsZero agrees with MsgIsZero on every value.
var reviewedIsZero = map[string]string{}

func ruleIsZeroAgreesWithMsgIsZero(c *Ctx) {
	const rule = "R40.5"
	m := hMsgpExtract(c)
	names := []string{}
	for n := range m.ByName {
		names = append(names, n)
	}
	sortStrings(names)
	nStruct, nWith := 0, 0
	for _, n := range names {
		g := m.ByName[n]
		if _, isStruct := g.Named.Underlying().(*types.Struct); !isStruct {
			continue
		}
		nStruct++
		var isZero *types.Func
		for _, t := range []types.Type{g.Named, types.NewPointer(g.Named)} {
			ms := types.NewMethodSet(t)
			for i := 0; i < ms.Len(); i++ {
				f, ok := ms.At(i).Obj().(*types.Func)
				if !ok || f.Name() != "IsZero" {
					continue
				}
				sig := f.Type().(*types.Signature)
				if sig.Params().Len() == 0 && sig.Results().Len() == 1 {
					if b, isB := sig.Results().At(0).Type().Underlying().(*types.Basic); isB && b.Kind() == types.Bool {
						isZero = f
					}
				}
			}
		}
		if isZero == nil {
			continue
		}
		nWith++
		pos := c.Pos(isZero.Pos())
		if why, ok := reviewedIsZero[n]; ok {
			c.Ok(rule, n+".IsZero", pos, "reviewed: "+why)
			continue
		}
		fn := c.SSAOf(isZero)
		if fn == nil {
			c.Unk(rule, n+".IsZero", pos, "IsZero has no body in the loaded packages")
			continue
		}
		if isWholeValueZeroTest(fn) {
			c.Ok(rule, n+".IsZero", pos, "IsZero compares the whole value with the zero value (or delegates to MsgIsZero): same notion as the generated MsgIsZero")
			continue
		}
		c.Bad(rule, n+".IsZero", pos, funcObjName(isZero)+" is consulted by go-codec for omitempty on fields of type "+n+" but is not the whole-value zero test: the reflection encoder would omit (or keep) values that the generated encoder, which uses MsgIsZero, treats the other way — two encodings of one object")
	}
	c.Ok(rule, "generated struct types scanned", "-", itoa(nStruct)+" struct types with generated code, "+itoa(nWith)+" of them have an IsZero() bool in their method set")
}

// isWholeValueZeroTest: every return of fn is `recv == T{}` (comparison of the
// whole receiver with a zero constant), a conjunction of such comparisons
// over ALL fields, or the result of MsgIsZero on the receiver.
func isWholeValueZeroTest(fn *ssa.Function) bool {
	if len(fn.Params) != 1 {
		return false
	}
	recv := fn.Params[0]
	n := 0
	for _, b := range fn.Blocks {
		ret, ok := b.Instrs[len(b.Instrs)-1].(*ssa.Return)
		if !ok {
			continue
		}
		n++
		v := ret.Results[0]
		switch x := v.(type) {
		case *ssa.BinOp:
			if x.Op != token.EQL {
				return false
			}
			// one side is the receiver value (or its load), the other a zero constant of the same type
			side := func(a, z ssa.Value) bool {
				k, isK := z.(*ssa.Const)
				if !isK || k.Value != nil {
					return false
				}
				if a == ssa.Value(recv) {
					return true
				}
				if u, isU := a.(*ssa.UnOp); isU && u.Op == token.MUL {
					if u.X == ssa.Value(recv) {
						return true
					}
					if al, isA := u.X.(*ssa.Alloc); isA {
						for _, s := range localStores(al) {
							if s == ssa.Value(recv) {
								return true
							}
						}
					}
				}
				return false
			}
			if !(side(x.X, x.Y) || side(x.Y, x.X)) {
				return false
			}
		case *ssa.Call:
			cal := calleeOf(x.Common())
			if cal == nil || cal.Name() != "MsgIsZero" {
				return false
			}
		default:
			return false
		}
	}
	return n > 0
}
