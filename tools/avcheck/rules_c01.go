package main

import (
	"go/token"
	"go/types"

	"golang.org/x/tools/go/ssa"
)

func init() {
	register(&Prop{
		ID:       "C01",
		Patterns: []string{"./agreement", "./data/committee"},
		Run:      runC01,
		Explanation: "Decides only the vote/commit gating shape that consensus safety rests on, not safety over schedules, crashes or equivocation patterns. " +
			"R01.1 cert votes: a pseudonodeAction whose Step is the constant cert is stored only in player.issueCertVote, with the Proposal of its committableEvent parameter; issueCertVote is called only from handleThresholdEvent, handleMessageEvent and enterPeriod, each time with X.(committableEvent) where the call is reachable only through X.t()==proposalCommittable, and only when p.Step<=cert (guard, or a dominating store of a constant step <= cert as in enterPeriod); the only non-constant Step of a pseudonodeAction is player.Step in issueNextVote, which is called only from player.handle and only when p.Step is neither soft nor cert or after p.Step=next was stored. " +
			"R01.2 commit: ensureAction.Payload/Certificate are stored only in handleThresholdEvent and handleMessageEvent; each such site takes Certificate(EV.Bundle) of a thresholdEvent EV, is reachable only through EV.t()==certThreshold, and its Payload is either S.Payload of S=stagedValue(.,.,EV.Round,EV.Period) under S.Committable, or a payload X under EV.Proposal==X.value(). " +
			"R01.3 authenticated types: non-zero literals, conversions and field writes (R/Cred/Sig, U/Votes/EquivocationVotes, unauthenticatedProposal/ve, Credential fields) of vote, equivocationVote, bundle, proposal and committee.Credential occur only in their verifiers, in projections of already authenticated values, the voteTracker's equivocation record and the proposal makers (generated decoders excluded: disk restore). " +
			"R01.4 counting input: voteAcceptedEvent is built only in voteAggregator.handle and only past the e.Err==nil and !e.Cancelled tests of the verified message; non-zero thresholdEvent literals are built only in voteTracker.handle. " +
			"R01.5 position: player.Round/Period/Step are written only in player.handle, enterPeriod, enterRound, the fresh-start literal of Service.mainLoop (and generated decode). " +
			"R01.6 soft vote value: every Proposal stored into the soft-vote action in issueSoftVote is the Proposal of the proposalFrozenEvent or of the nextThresholdStatusEvent answer. " +
			"Does NOT decide: that these gates suffice under every interleaving, crash point and equivocation pattern; the contents of the proposal machine's answers; writes through whole-struct assignment or sub-field paths (v.R.Proposal=…).",
		Assumptions: []string{"events are not mutated through aliases between the tested guard and the use (SSA value identity, no pointer analysis)"},
		Floor:       map[string]int{"R01.1": 16, "R01.2": 7, "R01.3": 10, "R01.4": 4, "R01.5": 4, "R01.6": 2},
	})
}

// aLastField matches a value whose access path ends in field f (e.g. a read of player.Step).
func aLastField(f *types.Var) VM {
	return func(v ssa.Value) bool { return aRootPath(v).last() == f }
}

// aEnsureSite is one place where an ensureAction receives its certificate.
type aEnsureSite struct {
	Fn        *ssa.Function
	CertStore *ssa.Store
	PayStore  *ssa.Store // store to Payload of the same literal/local, may be nil
	Cert      aPath      // access path of the certificate source (through Certificate(...))
	EV        aPath      // the threshold event the bundle is taken from (Cert minus .Bundle), Root nil if not of that form
}

// aEnsureSites finds every store to ensureAction.Certificate in package
// agreement and pairs it with the Payload store into the same local.
func aEnsureSites(c *Ctx) []aEnsureSite {
	fCert := c.Field("agreement.ensureAction.Certificate")
	fPay := c.Field("agreement.ensureAction.Payload")
	fBundle := c.Field("agreement.thresholdEvent.Bundle")
	var out []aEnsureSite
	for _, fs := range aStoresIn(c, map[*types.Var]bool{fCert: true}, "agreement") {
		s := aEnsureSite{Fn: fs.Fn, CertStore: fs.Store}
		s.Cert = aRootPath(fs.Store.Val)
		if s.Cert.last() == fBundle {
			s.EV = s.Cert.parent(1)
		}
		base := fs.Store.Addr.(*ssa.FieldAddr).X
		for _, in := range StoresToField(fs.Fn, false, map[*types.Var]bool{fPay: true}) {
			if in.(*ssa.Store).Addr.(*ssa.FieldAddr).X == base {
				s.PayStore = in.(*ssa.Store)
			}
		}
		out = append(out, s)
	}
	return out
}

// aCertThresholdGuard is the guard "the threshold event at access path ev is a
// cert threshold": ev.t()==certThreshold or the equivalent ev.T==certThreshold.
func aCertThresholdGuard(c *Ctx, ev aPath) Guard {
	evT := c.Func("agreement.thresholdEvent.t")
	kCert := c.Const("agreement.certThreshold")
	return GAnyOf("EV.t()==certThreshold",
		GCmp("EV.t()==certThreshold", token.EQL, aCallOn(aIsPath(ev), evT, c.Func("agreement.event.t")), aConst(kCert)),
		GCmp("EV.T==certThreshold", token.EQL, aIsPath(ev.with(c.Field("agreement.thresholdEvent.T"))), aConst(kCert)))
}

// aEnsureGating checks R01.2's guards for one site under the given rule id.
func aEnsureGating(c *Ctx, rule string, s aEnsureSite) {
	name := fnName(s.Fn)
	pos := c.Pos(s.CertStore.Pos())
	if s.EV.Root == nil {
		c.Bad(rule, name+":ensureAction.Certificate<=Certificate(EV.Bundle)", pos, "the certificate of the ensureAction is not the Bundle of a thresholdEvent: "+s.Cert.String())
		return
	}
	g1 := aCertThresholdGuard(c, s.EV)
	c.MustGuard(MustGuardSpec{Rule: rule, Fn: s.Fn, Effects: []ssa.Instruction{s.CertStore}, EffName: "store(ensureAction.Certificate=" + s.Cert.String() + ")", Guards: []Guard{g1}})

	if s.PayStore == nil {
		c.Bad(rule, name+":ensureAction.Payload", pos, "no Payload store next to the Certificate store into the same ensureAction")
		return
	}
	pay := aRootPath(s.PayStore.Val)
	fStagedPayload := c.Field("agreement.stagingValueEvent.Payload")
	fCommittable := c.Field("agreement.stagingValueEvent.Committable")
	stagedValue := c.Func("agreement.stagedValue")
	construct := name + ":ensureAction.Payload=" + pay.String()
	if call, ok := pay.Root.(*ssa.Call); ok && pay.last() == fStagedPayload && len(pay.Fields) == 1 && sameFunc(calleeOf(call.Common()), stagedValue) {
		// (i) the staged payload of the event's round and period, if committable
		args := call.Common().Args
		okArgs := len(args) == 4 &&
			aRootPath(args[2]).eq(s.EV.with(c.Field("agreement.thresholdEvent.Round"))) &&
			aRootPath(args[3]).eq(s.EV.with(c.Field("agreement.thresholdEvent.Period")))
		c.Check(okArgs, rule, construct+":stagedValue(EV.Round,EV.Period)", c.Pos(call.Pos()), "the staged value is looked up for the round and period of the cert-threshold event")
		g2 := GBool("S.Committable", aIsPath(aPath{Root: call, Fields: []*types.Var{fCommittable}}), true)
		c.MustGuard(MustGuardSpec{Rule: rule, Fn: s.Fn, Effects: []ssa.Instruction{s.PayStore, s.CertStore}, EffName: "store(ensureAction.Payload=S.Payload)", Guards: []Guard{g2}})
		return
	}
	// (ii) a payload X whose value() equals the event's proposal value
	fProp := c.Field("agreement.thresholdEvent.Proposal")
	valueFns := []*types.Func{c.Func("agreement.unauthenticatedProposal.value")}
	g2 := GCmp("EV.Proposal==X.value()", token.EQL, aIsPath(s.EV.with(fProp)), aCallOn(aUnderPath(pay), valueFns...))
	c.MustGuard(MustGuardSpec{Rule: rule, Fn: s.Fn, Effects: []ssa.Instruction{s.PayStore, s.CertStore}, EffName: "store(ensureAction.Payload=" + pay.String() + ")", Guards: []Guard{g2}})
}

func runC01(c *Ctx) {
	defer aDebug(c)
	kCertStep, ok := constInt64(c.Const("agreement.cert"))
	if !ok {
		c.Unk("R01.1", "agreement.cert", "-", "constant cert has no integer value")
		return
	}
	fPStep := c.Field("agreement.player.Step")
	issueCert := c.Fn("agreement.player.issueCertVote")
	issueCertF := c.Func("agreement.player.issueCertVote")

	// ---- R01.1a: who stores Step=cert / a non-constant Step into a pseudonodeAction ----
	{
		fStep := c.Field("agreement.pseudonodeAction.Step")
		var certStores, dynStores []aFieldStore
		for _, s := range aStoresIn(c, map[*types.Var]bool{fStep: true}, "agreement") {
			if k, isK := aConstOf(s.Store.Val); isK {
				if k == kCertStep {
					certStores = append(certStores, s)
				}
				continue
			}
			dynStores = append(dynStores, s)
		}
		aOwnerStores(c, "R01.1", "store(pseudonodeAction.Step=cert)", certStores, map[string]string{"agreement.player.issueCertVote": "the cert-vote issuer"})
		// the dynamic one must be player.Step
		for _, s := range dynStores {
			if aRootPath(s.Store.Val).last() != fPStep {
				c.Bad("R01.1", "store(pseudonodeAction.Step=<dynamic>)@"+fnName(s.Fn)+":source", c.Pos(s.Store.Pos()), "a non-constant Step of a pseudonodeAction must be player.Step, found "+describe(s.Store.Val))
			}
		}
		aOwnerStores(c, "R01.1", "store(pseudonodeAction.Step=<dynamic>)", dynStores, map[string]string{"agreement.player.issueNextVote": "Step is player.Step, gated by R01.1 in player.handle"})
		c.OwnerRule("R01.1", "conversion(pseudonodeAction)", c.Conversions(c.Named("agreement.pseudonodeAction"), ScanOpts{SkipGenerated: true}), map[string]string{})
		c.Ok("R01.1", "conversion(pseudonodeAction):none-expected", "-", "scan ran over "+itoa(len(c.ByPath))+" packages")
	}
	// ---- R01.1b: the cert vote's value is the committable event's proposal ----
	{
		fProp := c.Field("agreement.pseudonodeAction.Proposal")
		fEvProp := c.Field("agreement.committableEvent.Proposal")
		st := StoresToField(issueCert, true, map[*types.Var]bool{fProp: true})
		okAll := len(st) > 0
		var evParam *ssa.Parameter
		for _, p := range issueCert.Params {
			if nt, isN := p.Type().(*types.Named); isN && nt.Origin() == c.Named("agreement.committableEvent").Origin() {
				evParam = p
			}
		}
		for _, s := range st {
			p := aRootPath(s.(*ssa.Store).Val)
			if evParam == nil || p.Root != ssa.Value(evParam) || len(p.Fields) != 1 || p.Fields[0] != fEvProp {
				okAll = false
			}
		}
		c.Check(okAll, "R01.1", "agreement.player.issueCertVote:Proposal<=committableEvent.Proposal", c.Pos(issueCert.Pos()), "the cert vote is for the Proposal of the committableEvent argument")
	}
	// ---- R01.1c/d: callers of issueCertVote, their event test and step gate ----
	{
		c.OwnerRule("R01.1", "use(issueCertVote)", c.Uses([]*types.Func{issueCertF}, ScanOpts{SkipGenerated: true}), map[string]string{
			"agreement.player.handleThresholdEvent": "soft threshold with committable staging",
			"agreement.player.handleMessageEvent":   "payload arrival makes the soft-quorum value committable",
			"agreement.player.enterPeriod":          "period entry on a soft threshold whose value is already committable",
		})
		evT := c.Func("agreement.event.t")
		kCommittable := c.Const("agreement.proposalCommittable")
		committable := c.Named("agreement.committableEvent")
		for _, fn := range aPkgFuncs(c, "agreement") {
			for _, call := range CallsTo(fn, false, issueCertF) {
				site := fnName(fn) + ":issueCertVote"
				args := call.Common().Args
				if len(args) != 3 {
					c.Unk("R01.1", site, c.Pos(call.Pos()), "unexpected arity")
					continue
				}
				// two equivalent idioms: X.t()==proposalCommittable then X.(committableEvent),
				// or the comma-ok assertion ce, ok := X.(committableEvent) tested on ok
				var ta *ssa.TypeAssert
				if ex, isEx := args[2].(*ssa.Extract); isEx && ex.Index == 0 {
					ta, _ = ex.Tuple.(*ssa.TypeAssert)
				} else {
					ta, _ = args[2].(*ssa.TypeAssert)
				}
				if ta == nil || !types.Identical(ta.AssertedType, committable) {
					c.Bad("R01.1", site+":arg=X.(committableEvent)", c.Pos(call.Pos()), "the committableEvent handed to issueCertVote is not a type assertion of a dispatched event: "+describe(args[2]))
					continue
				}
				x := ta.X
				g := GCmp("X.t()==proposalCommittable", token.EQL, func(v ssa.Value) bool {
					cl, ok := v.(*ssa.Call)
					return ok && cl.Common().IsInvoke() && sameFunc(cl.Common().Method, evT) && cl.Common().Value == x
				}, aConst(kCommittable))
				if ta.CommaOk {
					g = GBool("X.(committableEvent) ok", func(v ssa.Value) bool {
						e, ok := v.(*ssa.Extract)
						return ok && e.Tuple == ssa.Value(ta) && e.Index == 1
					}, true)
				}
				c.MustGuard(MustGuardSpec{Rule: "R01.1", Fn: fn, Effects: []ssa.Instruction{call}, EffName: "call(issueCertVote)", Guards: []Guard{g}})

				// step gate
				stepStores := StoresToField(fn, false, map[*types.Var]bool{fPStep: true})
				if len(stepStores) > 0 {
					okDom, allLE := false, true
					for _, s := range stepStores {
						k, isK := aConstOf(s.(*ssa.Store).Val)
						if !isK || k > kCertStep {
							allLE = false
						}
						if isK && k <= kCertStep && Dominates(s, call) {
							okDom = true
						}
					}
					c.Check(okDom && allLE, "R01.1", site+"<=p.Step:=const<=cert", c.Pos(call.Pos()), "the call is dominated by a store of a constant step <= cert into player.Step and no other Step store exists in the function")
				} else {
					gs := aAtMost("p.Step<=cert", aLastField(fPStep), kCertStep)
					c.MustGuard(MustGuardSpec{Rule: "R01.1", Fn: fn, Effects: []ssa.Instruction{call}, EffName: "call(issueCertVote)", Guards: []Guard{gs}})
				}
			}
		}
	}
	// ---- R01.1e: the dynamic Step (issueNextVote) is never cert or soft ----
	{
		nextF := c.Func("agreement.player.issueNextVote")
		c.OwnerRule("R01.1", "use(issueNextVote)", c.Uses([]*types.Func{nextF}, ScanOpts{SkipGenerated: true}), map[string]string{"agreement.player.handle": "timeout handling"})
		h := c.Fn("agreement.player.handle")
		calls := asInstrs(CallsTo(h, false, nextF))
		stop := func(in ssa.Instruction) bool {
			st, ok := in.(*ssa.Store)
			if !ok {
				return false
			}
			fa, ok := st.Addr.(*ssa.FieldAddr)
			if !ok || structField(fa.X.Type(), fa.Field) != fPStep {
				return false
			}
			k, isK := aConstOf(st.Val)
			return isK && k > kCertStep
		}
		c.MustGuard(MustGuardSpec{Rule: "R01.1", Fn: h, Effects: calls, EffName: "call(issueNextVote)", Stop: stop, Guards: []Guard{
			GCmp("p.Step!=cert (or p.Step:=const>cert stored)", token.NEQ, aLastField(fPStep), aConst(c.Const("agreement.cert"))),
			GCmp("p.Step!=soft (or p.Step:=const>cert stored)", token.NEQ, aLastField(fPStep), aConst(c.Const("agreement.soft"))),
		}})
	}

	// ---- R01.2: ensureAction ----
	{
		fields := c.Fields("agreement.ensureAction.Payload", "agreement.ensureAction.Certificate")
		aOwnerStores(c, "R01.2", "store(ensureAction.Payload/Certificate)", aStoresIn(c, fields, "agreement"), map[string]string{
			"agreement.player.handleThresholdEvent": "cert threshold with committable staged payload",
			"agreement.player.handleMessageEvent":   "late payload matching the freshest cert threshold",
		})
		c.OwnerRule("R01.2", "conversion(ensureAction)", c.Conversions(c.Named("agreement.ensureAction"), ScanOpts{SkipGenerated: true}), map[string]string{})
		sites := aEnsureSites(c)
		if len(sites) == 0 {
			c.Unk("R01.2", "ensureAction.Certificate", "-", "no store to ensureAction.Certificate found")
		}
		for _, s := range sites {
			aEnsureGating(c, "R01.2", s)
		}
	}

	// ---- R01.3: authenticated types are built only by their verifiers ----
	{
		type auth struct {
			spec    string
			fields  []string
			owners  map[string]string
			convOwn map[string]string
		}
		opts := ScanOpts{SkipGenerated: true}
		for _, a := range []auth{
			{"agreement.vote", []string{"R", "Cred", "Sig"}, map[string]string{
				"agreement.unauthenticatedVote.verify": "the vote verifier",
				"agreement.equivocationVote.v0":        "projection of an authenticated equivocation pair",
				"agreement.equivocationVote.v1":        "projection of an authenticated equivocation pair",
			}, nil},
			{"agreement.equivocationVote", []string{"Sender", "Round", "Period", "Step", "Cred", "Proposals", "Sigs"}, map[string]string{
				"agreement.unauthenticatedEquivocationVote.verify": "the pair verifier",
				"agreement.voteTracker.handle":                     "record built from two authenticated votes of one sender that were both counted",
			}, nil},
			{"agreement.bundle", []string{"U", "Votes", "EquivocationVotes"}, map[string]string{
				"agreement.unauthenticatedBundle.verifyAsync": "the bundle verifier",
			}, nil},
			{"agreement.proposal", []string{"unauthenticatedProposal", "ve"}, map[string]string{
				"agreement.makeProposalFromProposableBlock": "own proposal from an assembled block",
				"agreement.makeProposalFromValidatedBlock":  "proposal from a ledger-validated block",
			}, nil},
			{"data/committee.Credential", []string{"Weight", "VrfOut", "DomainSeparationEnabled", "Hashable", "UnauthenticatedCredential"}, map[string]string{
				"data/committee.UnauthenticatedCredential.Verify": "the credential verifier",
			}, nil},
		} {
			T := c.Named(a.spec)
			c.OwnerRule("R01.3", "literal("+a.spec+")", c.Literals(T, true, opts), a.owners)
			c.OwnerRule("R01.3", "conversion("+a.spec+")", c.Conversions(T, opts), map[string]string{})
			fs := map[*types.Var]bool{}
			for _, f := range a.fields {
				fs[c.Field(a.spec+"."+f)] = true
			}
			c.OwnerRule("R01.3", "write("+a.spec+".*)", c.FieldWrites(fs, opts), a.owners, "lit")
		}
	}

	// ---- R01.4: what reaches the vote tracker, who announces thresholds ----
	{
		vae := c.Named("agreement.voteAcceptedEvent")
		c.OwnerRule("R01.4", "literal(voteAcceptedEvent)", c.Literals(vae, true, ScanOpts{SkipGenerated: true}), map[string]string{"agreement.voteAggregator.handle": "delivers verified votes and the votes of verified bundles"})
		c.OwnerRule("R01.4", "conversion(voteAcceptedEvent)", c.Conversions(vae, ScanOpts{SkipGenerated: true}), map[string]string{})
		h := c.Fn("agreement.voteAggregator.handle")
		fVote := c.Fields("agreement.voteAcceptedEvent.Vote")
		stores := StoresToField(h, true, fVote)
		fErr := c.Field("agreement.messageEvent.Err")
		fCancelled := c.Field("agreement.messageEvent.Cancelled")
		c.MustGuard(MustGuardSpec{Rule: "R01.4", Fn: h, Effects: stores, EffName: "store(voteAcceptedEvent.Vote)", Guards: []Guard{
			GErrNil("e.Err==nil", aLastField(fErr)),
			GBool("!e.Cancelled", aLastField(fCancelled), false),
		}})
		te := c.Named("agreement.thresholdEvent")
		c.OwnerRule("R01.4", "literal(thresholdEvent)", c.Literals(te, true, ScanOpts{SkipGenerated: true}), map[string]string{"agreement.voteTracker.handle": "the quorum counter"})
		c.OwnerRule("R01.4", "write(thresholdEvent.T)", c.FieldWrites(c.Fields("agreement.thresholdEvent.T", "agreement.thresholdEvent.Proposal"), ScanOpts{SkipGenerated: true}), map[string]string{"agreement.voteTracker.handle": "the quorum counter"}, "lit")
	}

	// ---- R01.5: the player's position ----
	{
		pf := c.Fields("agreement.player.Round", "agreement.player.Period", "agreement.player.Step")
		c.OwnerRule("R01.5", "write(player.Round/Period/Step)", c.FieldWrites(pf, ScanOpts{SkipGenerated: true}), map[string]string{
			"agreement.player.handle":      "step advance on timeout",
			"agreement.player.enterPeriod": "period transition",
			"agreement.player.enterRound":  "round transition",
			"agreement.Service.mainLoop":   "fresh start at the ledger's next round when no valid crash state exists",
		})
	}

	// ---- R01.6: the soft vote's value ----
	{
		soft := c.Fn("agreement.player.issueSoftVote")
		fProp := c.Field("agreement.pseudonodeAction.Proposal")
		frozen := c.Named("agreement.proposalFrozenEvent")
		status := c.Named("agreement.nextThresholdStatusEvent")
		fFrozenProp := c.Field("agreement.proposalFrozenEvent.Proposal")
		fStatusProp := c.Field("agreement.nextThresholdStatusEvent.Proposal")
		st := StoresToField(soft, true, map[*types.Var]bool{fProp: true})
		if len(st) == 0 {
			c.Unk("R01.6", "agreement.player.issueSoftVote:Proposal", c.Pos(soft.Pos()), "no store to pseudonodeAction.Proposal found")
		}
		for _, s := range st {
			p := aRootPath(s.(*ssa.Store).Val)
			ta, isTA := p.Root.(*ssa.TypeAssert)
			okSrc := isTA && len(p.Fields) == 1 &&
				(types.Identical(ta.AssertedType, frozen) && p.Fields[0] == fFrozenProp || types.Identical(ta.AssertedType, status) && p.Fields[0] == fStatusProp)
			src := "other"
			if okSrc {
				src = p.Fields[0].Pkg().Name() + "." + ta.AssertedType.(*types.Named).Obj().Name() + ".Proposal"
			}
			c.Check(okSrc, "R01.6", "agreement.player.issueSoftVote:Proposal<="+src, c.Pos(s.Pos()), "the soft vote's value is the frozen proposal or the previous period's next-threshold value, found "+p.String())
		}
	}
}
