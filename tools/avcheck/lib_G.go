package main

// lib_G.go — shared front end for the AVM properties (C31, C33, C34, C35):
//
//   1. gInterp: a tiny *concrete* interpreter over the type-checked AST for the
//      constant-only "builder DSL" of data/transactions/logic (proto("…"),
//      detDefault()/costly()/immediates()/… and .only() .trust() …, the field
//      spec literals and their Version() methods). It never runs repository
//      code: it folds constants with go/constant and follows the bodies of
//      module functions statement by statement. Anything it cannot model
//      becomes an "unknown" value that carries its reason; rules that need
//      such a value turn it into an undecided obligation (GOp.Need).
//   2. gAvmExtract: the OpSpecs table and the field-spec tables as data.
//   3. small SSA helpers (value derivation through spilled locals, CFG
//      reachability from an instruction, static call-graph closure).

import (
	"fmt"
	"go/ast"
	"go/constant"
	"go/token"
	"go/types"
	"sort"
	"strings"

	"golang.org/x/tools/go/packages"
	"golang.org/x/tools/go/ssa"
	"golang.org/x/tools/go/types/typeutil"
)

const gLogic = "data/transactions/logic"

// ---------------------------------------------------------------------------
// values
// ---------------------------------------------------------------------------

type gKind int

const (
	gUnknown gKind = iota // not modelled; Why says why
	gConst                // C
	gFunc                 // F (declared function) or Lit (function literal); never nil
	gNil                  // nil of any nillable type
	gStruct               // S
	gList                 // L (slice or array)
	gAddr                 // &G for a package-level variable G
	gGlobal               // the (unevaluated) value of package-level variable G
	gOpaque               // a value known to exist whose content does not matter (C may tag it)
)

type gVal struct {
	K   gKind
	C   constant.Value
	F   *types.Func
	Lit *ast.FuncLit
	S   *gStructV
	L   []gVal
	G   *types.Var
	Why string
}

type gStructV struct {
	T types.Type
	F map[*types.Var]*gVal
}

func gUnk(format string, a ...any) gVal { return gVal{K: gUnknown, Why: fmt.Sprintf(format, a...)} }

func (v gVal) clone() gVal {
	switch v.K {
	case gStruct:
		n := &gStructV{T: v.S.T, F: map[*types.Var]*gVal{}}
		for k, x := range v.S.F {
			c := x.clone()
			n.F[k] = &c
		}
		v.S = n
	case gList:
		l := make([]gVal, len(v.L))
		for i := range v.L {
			l[i] = v.L[i].clone()
		}
		v.L = l
	}
	return v
}

func (v gVal) int64() (int64, bool) {
	if v.K != gConst || v.C == nil {
		return 0, false
	}
	c := constant.ToInt(v.C)
	if c.Kind() != constant.Int {
		return 0, false
	}
	return constant.Int64Val(c)
}

func (v gVal) str() (string, bool) {
	if v.K != gConst || v.C == nil || v.C.Kind() != constant.String {
		return "", false
	}
	return constant.StringVal(v.C), true
}

func (v gVal) boolean() (bool, bool) {
	if v.K != gConst || v.C == nil || v.C.Kind() != constant.Bool {
		return false, false
	}
	return constant.BoolVal(v.C), true
}

func gZero(t types.Type) gVal {
	if t == nil {
		return gUnk("zero of unknown type")
	}
	switch u := t.Underlying().(type) {
	case *types.Basic:
		switch {
		case u.Info()&types.IsBoolean != 0:
			return gVal{K: gConst, C: constant.MakeBool(false)}
		case u.Info()&types.IsString != 0:
			return gVal{K: gConst, C: constant.MakeString("")}
		case u.Info()&types.IsNumeric != 0:
			return gVal{K: gConst, C: constant.MakeInt64(0)}
		}
	case *types.Struct:
		return gVal{K: gStruct, S: &gStructV{T: t, F: map[*types.Var]*gVal{}}}
	case *types.Pointer, *types.Slice, *types.Map, *types.Signature, *types.Interface, *types.Chan:
		return gVal{K: gNil}
	case *types.Array:
		n := u.Len()
		if n > 4096 {
			return gUnk("large array zero value")
		}
		l := make([]gVal, n)
		for i := range l {
			l[i] = gZero(u.Elem())
		}
		return gVal{K: gList, L: l}
	}
	return gUnk("zero of %s", t)
}

// field returns the value of a struct field (zero value when never set).
func (v gVal) field(f *types.Var) gVal {
	if v.K != gStruct {
		if v.K == gUnknown {
			return v
		}
		return gUnk("field %s of a non-struct value", f.Name())
	}
	if x, ok := v.S.F[f]; ok {
		return *x
	}
	return gZero(f.Type())
}

// ---------------------------------------------------------------------------
// interpreter
// ---------------------------------------------------------------------------

type gCtl int

const (
	gNext gCtl = iota
	gReturn
	gBreak
	gContinue
)

// gAbort is panicked inside the interpreter when evaluation cannot go on
// (unmodelled construct on the executed path, or the interpreted code panics).
type gAbort string

type gFrame struct {
	info *types.Info
	pkg  *packages.Package
	env  map[types.Object]*gVal
	ret  gVal
}

type gIntrinsic func(in *gInterp, fr *gFrame, call *ast.CallExpr, args []gVal) gVal

type gInterp struct {
	c          *Ctx
	steps      int
	depth      int
	intrinsics map[*types.Func]gIntrinsic
}

func newGInterp(c *Ctx) *gInterp {
	return &gInterp{c: c, intrinsics: map[*types.Func]gIntrinsic{}}
}

func (in *gInterp) abort(format string, a ...any) {
	panic(gAbort(fmt.Sprintf(format, a...)))
}

func (in *gInterp) tick(n ast.Node) {
	in.steps++
	if in.steps > 2_000_000 {
		in.abort("evaluation step limit exceeded at %s", in.c.Pos(n.Pos()))
	}
}

// EvalExpr evaluates e (an expression of package pk) in an empty frame; reason
// is non-empty when evaluation aborted.
func (in *gInterp) EvalExpr(pk *packages.Package, e ast.Expr) (v gVal, reason string) {
	defer func() {
		if r := recover(); r != nil {
			if a, ok := r.(gAbort); ok {
				v, reason = gUnk("%s", string(a)), string(a)
				return
			}
			panic(r)
		}
	}()
	fr := &gFrame{info: pk.TypesInfo, pkg: pk, env: map[types.Object]*gVal{}}
	return in.eval(fr, e), ""
}

// CallMethod interprets method/function f with the given receiver (nil for
// functions) and arguments.
func (in *gInterp) CallFunc(f *types.Func, recv *gVal, args []gVal) (v gVal, reason string) {
	defer func() {
		if r := recover(); r != nil {
			if a, ok := r.(gAbort); ok {
				v, reason = gUnk("%s", string(a)), string(a)
				return
			}
			panic(r)
		}
	}()
	return in.call(f, recv, args, nil), ""
}

func (in *gInterp) constOf(fr *gFrame, e ast.Expr) (gVal, bool) {
	if tv, ok := fr.info.Types[e]; ok && tv.Value != nil {
		return gVal{K: gConst, C: tv.Value}, true
	}
	return gVal{}, false
}

func (in *gInterp) eval(fr *gFrame, e ast.Expr) gVal {
	in.tick(e)
	if v, ok := in.constOf(fr, e); ok {
		return v
	}
	switch x := e.(type) {
	case *ast.ParenExpr:
		return in.eval(fr, x.X)
	case *ast.Ident:
		obj := fr.info.Uses[x]
		if obj == nil {
			obj = fr.info.Defs[x]
		}
		switch o := obj.(type) {
		case *types.Nil:
			return gVal{K: gNil}
		case *types.Func:
			return gVal{K: gFunc, F: o.Origin()}
		case *types.Var:
			if p, ok := fr.env[o]; ok {
				return *p
			}
			if o.Pkg() != nil && o.Parent() == o.Pkg().Scope() {
				return gVal{K: gGlobal, G: o}
			}
			return gUnk("variable %s has no modelled value", o.Name())
		}
		return gUnk("identifier %s", x.Name)
	case *ast.FuncLit:
		return gVal{K: gFunc, Lit: x}
	case *ast.CompositeLit:
		return in.evalComposite(fr, x)
	case *ast.UnaryExpr:
		switch x.Op {
		case token.AND:
			v := in.eval(fr, x.X)
			if v.K == gGlobal {
				return gVal{K: gAddr, G: v.G}
			}
			return v // pointer to a fresh value: modelled as the value
		case token.NOT:
			if b, ok := in.eval(fr, x.X).boolean(); ok {
				return gVal{K: gConst, C: constant.MakeBool(!b)}
			}
			return gUnk("! of unmodelled value")
		case token.SUB, token.ADD, token.XOR:
			v := in.eval(fr, x.X)
			if v.K == gConst {
				return gVal{K: gConst, C: constant.UnaryOp(x.Op, v.C, 0)}
			}
		}
		return gUnk("unary %s", x.Op)
	case *ast.StarExpr:
		v := in.eval(fr, x.X)
		if v.K == gAddr {
			return gVal{K: gGlobal, G: v.G}
		}
		return v
	case *ast.SelectorExpr:
		if sel, ok := fr.info.Selections[x]; ok {
			if sel.Kind() != types.FieldVal {
				return gUnk("method value %s", x.Sel.Name)
			}
			v := in.eval(fr, x.X)
			t := sel.Recv()
			for _, idx := range sel.Index() {
				st, ok := derefStruct(t)
				if !ok {
					return gUnk("selector through non-struct")
				}
				f := st.Field(idx)
				if v.K != gStruct {
					if v.K == gUnknown {
						return v
					}
					return gUnk("field %s of unevaluated %s", f.Name(), gKindName(v.K))
				}
				v = v.field(f)
				t = f.Type()
			}
			return v
		}
		// qualified identifier
		switch o := fr.info.Uses[x.Sel].(type) {
		case *types.Func:
			return gVal{K: gFunc, F: o.Origin()}
		case *types.Var:
			return gVal{K: gGlobal, G: o}
		}
		return gUnk("selector %s", x.Sel.Name)
	case *ast.IndexExpr:
		base := in.eval(fr, x.X)
		idx, ok := in.eval(fr, x.Index).int64()
		if base.K == gList && ok && idx >= 0 && int(idx) < len(base.L) {
			return base.L[idx]
		}
		if base.K == gList && ok {
			in.abort("index %d out of range (len %d) at %s", idx, len(base.L), in.c.Pos(x.Pos()))
		}
		return gUnk("index of unmodelled value")
	case *ast.SliceExpr:
		base := in.eval(fr, x.X)
		if base.K == gList && x.Low == nil && x.High == nil {
			return base
		}
		return gUnk("slice expression")
	case *ast.CallExpr:
		return in.evalCall(fr, x)
	case *ast.BinaryExpr:
		return in.evalBinary(fr, x)
	case *ast.BasicLit:
		return gUnk("literal without constant value")
	}
	return gUnk("expression %T", e)
}

func gKindName(k gKind) string {
	return [...]string{"unknown", "const", "func", "nil", "struct", "list", "addr", "global", "opaque"}[k]
}

func (in *gInterp) evalBinary(fr *gFrame, x *ast.BinaryExpr) gVal {
	switch x.Op {
	case token.LAND, token.LOR:
		l, lok := in.eval(fr, x.X).boolean()
		if lok {
			if x.Op == token.LAND && !l {
				return gVal{K: gConst, C: constant.MakeBool(false)}
			}
			if x.Op == token.LOR && l {
				return gVal{K: gConst, C: constant.MakeBool(true)}
			}
			return in.eval(fr, x.Y)
		}
		r, rok := in.eval(fr, x.Y).boolean()
		if rok && ((x.Op == token.LAND && !r) || (x.Op == token.LOR && r)) {
			return gVal{K: gConst, C: constant.MakeBool(r)}
		}
		return gUnk("boolean operator on unmodelled operands")
	}
	l, r := in.eval(fr, x.X), in.eval(fr, x.Y)
	// nil comparisons
	if x.Op == token.EQL || x.Op == token.NEQ {
		isNilL, isNilR := l.K == gNil, r.K == gNil
		known := func(v gVal) bool { return v.K == gFunc || v.K == gAddr || v.K == gNil }
		if (isNilL || isNilR) && known(l) && known(r) {
			eq := isNilL && isNilR
			return gVal{K: gConst, C: constant.MakeBool(eq == (x.Op == token.EQL))}
		}
	}
	if l.K != gConst || r.K != gConst {
		return gUnk("binary %s on unmodelled operands", x.Op)
	}
	switch x.Op {
	case token.EQL, token.NEQ, token.LSS, token.LEQ, token.GTR, token.GEQ:
		if l.C.Kind() != r.C.Kind() && !(gNumeric(l.C) && gNumeric(r.C)) {
			return gUnk("comparison of different kinds")
		}
		return gVal{K: gConst, C: constant.MakeBool(constant.Compare(l.C, x.Op, r.C))}
	case token.SHL, token.SHR:
		s, ok := constant.Uint64Val(constant.ToInt(r.C))
		if !ok || s > 512 {
			return gUnk("shift count")
		}
		return gVal{K: gConst, C: constant.Shift(constant.ToInt(l.C), x.Op, uint(s))}
	case token.QUO:
		if gNumeric(r.C) && constant.Sign(r.C) == 0 {
			in.abort("division by zero at %s", in.c.Pos(x.Pos()))
		}
		if l.C.Kind() == constant.Int && r.C.Kind() == constant.Int {
			return gVal{K: gConst, C: constant.BinaryOp(l.C, token.QUO_ASSIGN, r.C)}
		}
	case token.REM:
		if gNumeric(r.C) && constant.Sign(r.C) == 0 {
			in.abort("division by zero at %s", in.c.Pos(x.Pos()))
		}
	}
	defer func() {
		if r := recover(); r != nil {
			if _, ok := r.(gAbort); ok {
				panic(r)
			}
			in.abort("constant operation %s failed at %s", x.Op, in.c.Pos(x.Pos()))
		}
	}()
	return gVal{K: gConst, C: constant.BinaryOp(l.C, x.Op, r.C)}
}

func gNumeric(c constant.Value) bool {
	return c.Kind() == constant.Int || c.Kind() == constant.Float
}

func (in *gInterp) evalComposite(fr *gFrame, lit *ast.CompositeLit) gVal {
	tv, ok := fr.info.Types[lit]
	if !ok {
		return gUnk("composite literal without type")
	}
	t := tv.Type
	if p, ok := t.Underlying().(*types.Pointer); ok {
		t = p.Elem()
	}
	switch u := t.Underlying().(type) {
	case *types.Struct:
		sv := &gStructV{T: t, F: map[*types.Var]*gVal{}}
		for i, el := range lit.Elts {
			var f *types.Var
			var ve ast.Expr
			if kv, ok := el.(*ast.KeyValueExpr); ok {
				id, ok := kv.Key.(*ast.Ident)
				if !ok {
					return gUnk("struct literal key")
				}
				f, _ = fr.info.Uses[id].(*types.Var)
				ve = kv.Value
			} else if i < u.NumFields() {
				f, ve = u.Field(i), el
			}
			if f == nil {
				return gUnk("struct literal element")
			}
			v := in.eval(fr, ve).clone()
			sv.F[f] = &v
		}
		return gVal{K: gStruct, S: sv}
	case *types.Slice, *types.Array:
		var elem types.Type
		if s, ok := u.(*types.Slice); ok {
			elem = s.Elem()
		} else {
			elem = u.(*types.Array).Elem()
		}
		var out []gVal
		next := 0
		for _, el := range lit.Elts {
			ve := el
			if kv, ok := el.(*ast.KeyValueExpr); ok {
				k, ok := in.eval(fr, kv.Key).int64()
				if !ok || k < 0 || k > 1<<16 {
					return gUnk("non-constant index in slice literal")
				}
				next = int(k)
				ve = kv.Value
			}
			for len(out) <= next {
				out = append(out, gZero(elem))
			}
			out[next] = in.eval(fr, ve).clone()
			next++
		}
		if a, ok := u.(*types.Array); ok && a.Len() >= 0 {
			for int64(len(out)) < a.Len() && len(out) < 1<<16 {
				out = append(out, gZero(elem))
			}
		}
		return gVal{K: gList, L: out}
	}
	return gVal{K: gOpaque}
}

func (in *gInterp) evalCall(fr *gFrame, call *ast.CallExpr) gVal {
	// conversion
	if tv, ok := fr.info.Types[call.Fun]; ok && tv.IsType() {
		if len(call.Args) != 1 {
			return gUnk("conversion arity")
		}
		v := in.eval(fr, call.Args[0])
		if v.K == gConst {
			if b, ok := tv.Type.Underlying().(*types.Basic); ok && b.Info()&types.IsInteger != 0 {
				return gVal{K: gConst, C: constant.ToInt(v.C)}
			}
		}
		return v
	}
	// builtins
	if id, ok := ast.Unparen(call.Fun).(*ast.Ident); ok {
		if b, ok := fr.info.Uses[id].(*types.Builtin); ok {
			return in.evalBuiltin(fr, b.Name(), call)
		}
	}
	callee, _ := typeutil.Callee(fr.info, call).(*types.Func)
	if callee == nil {
		for _, a := range call.Args {
			in.eval(fr, a)
		}
		return gUnk("call through a function value at %s", in.c.Pos(call.Pos()))
	}
	callee = callee.Origin()
	// receiver
	var recv *gVal
	sig := callee.Type().(*types.Signature)
	if sig.Recv() != nil {
		if se, ok := ast.Unparen(call.Fun).(*ast.SelectorExpr); ok {
			rv := in.eval(fr, se.X)
			if sel, ok := fr.info.Selections[se]; ok {
				// walk the embedding path to the real receiver
				idx := sel.Index()
				t := sel.Recv()
				for _, i := range idx[:len(idx)-1] {
					st, ok := derefStruct(t)
					if !ok {
						break
					}
					rv = rv.field(st.Field(i))
					t = st.Field(i).Type()
				}
			}
			rv = rv.clone()
			recv = &rv
		}
	}
	// arguments
	var args []gVal
	np := sig.Params().Len()
	for i, a := range call.Args {
		v := in.eval(fr, a)
		if sig.Variadic() && i >= np-1 {
			if call.Ellipsis.IsValid() {
				args = append(args, v)
			} else {
				if len(args) < np {
					args = append(args, gVal{K: gList})
				}
				args[np-1].L = append(args[np-1].L, v.clone())
			}
			continue
		}
		args = append(args, v.clone())
	}
	if sig.Variadic() && len(args) < np {
		args = append(args, gVal{K: gList})
	}
	if f, ok := in.intrinsics[callee]; ok {
		return f(in, fr, call, args)
	}
	return in.call(callee, recv, args, call)
}

func (in *gInterp) evalBuiltin(fr *gFrame, name string, call *ast.CallExpr) gVal {
	switch name {
	case "len", "cap":
		v := in.eval(fr, call.Args[0])
		switch v.K {
		case gList:
			return gVal{K: gConst, C: constant.MakeInt64(int64(len(v.L)))}
		case gConst:
			if s, ok := v.str(); ok {
				return gVal{K: gConst, C: constant.MakeInt64(int64(len(s)))}
			}
		case gNil:
			return gVal{K: gConst, C: constant.MakeInt64(0)}
		}
		return gUnk("len of unmodelled value")
	case "make":
		tv := fr.info.Types[call.Args[0]]
		if s, ok := tv.Type.Underlying().(*types.Slice); ok && len(call.Args) >= 2 {
			n, ok := in.eval(fr, call.Args[1]).int64()
			if ok && n >= 0 && n <= 1<<16 {
				l := make([]gVal, n)
				for i := range l {
					l[i] = gZero(s.Elem())
				}
				return gVal{K: gList, L: l}
			}
			return gUnk("make with unmodelled length")
		}
		return gVal{K: gOpaque}
	case "append":
		base := in.eval(fr, call.Args[0])
		if base.K == gNil {
			base = gVal{K: gList}
		}
		if base.K != gList {
			return gUnk("append to unmodelled slice")
		}
		out := base.clone()
		for i, a := range call.Args[1:] {
			v := in.eval(fr, a)
			if call.Ellipsis.IsValid() && i == len(call.Args)-2 {
				if v.K != gList {
					return gUnk("append of unmodelled slice")
				}
				out.L = append(out.L, v.clone().L...)
			} else {
				out.L = append(out.L, v.clone())
			}
		}
		return out
	case "panic":
		in.abort("the evaluated code panics at %s", in.c.Pos(call.Pos()))
	case "new":
		return gZero(fr.info.Types[call.Args[0]].Type)
	}
	for _, a := range call.Args {
		in.eval(fr, a)
	}
	return gUnk("builtin %s", name)
}

// call interprets the body of a module function.
func (in *gInterp) call(f *types.Func, recv *gVal, args []gVal, site *ast.CallExpr) gVal {
	pk, _, decl := in.c.funcDecl(f)
	if decl == nil || decl.Body == nil {
		return gUnk("call to %s (no source in the loaded module packages)", funcObjName(f))
	}
	if in.depth > 24 {
		in.abort("call depth limit in %s", funcObjName(f))
	}
	in.depth++
	defer func() { in.depth-- }()
	fr := &gFrame{info: pk.TypesInfo, pkg: pk, env: map[types.Object]*gVal{}}
	if decl.Recv != nil && len(decl.Recv.List) == 1 && len(decl.Recv.List[0].Names) == 1 {
		if obj := pk.TypesInfo.Defs[decl.Recv.List[0].Names[0]]; obj != nil {
			v := gUnk("receiver not supplied")
			if recv != nil {
				v = *recv
			}
			fr.env[obj] = &v
		}
	}
	i := 0
	for _, fld := range decl.Type.Params.List {
		for _, nm := range fld.Names {
			v := gUnk("parameter %s not supplied", nm.Name)
			if i < len(args) {
				v = args[i]
			}
			if obj := pk.TypesInfo.Defs[nm]; obj != nil {
				vv := v
				fr.env[obj] = &vv
			}
			i++
		}
		if len(fld.Names) == 0 {
			i++
		}
	}
	// named results start at their zero value
	if decl.Type.Results != nil {
		for _, fld := range decl.Type.Results.List {
			for _, nm := range fld.Names {
				if obj := pk.TypesInfo.Defs[nm]; obj != nil {
					z := gZero(obj.Type())
					fr.env[obj] = &z
				}
			}
		}
	}
	ctl := in.execBlock(fr, decl.Body.List)
	if ctl == gReturn {
		return fr.ret
	}
	if decl.Type.Results == nil || len(decl.Type.Results.List) == 0 {
		return gVal{K: gOpaque}
	}
	return gUnk("%s fell off its end", funcObjName(f))
}

func (in *gInterp) execBlock(fr *gFrame, list []ast.Stmt) gCtl {
	for _, s := range list {
		if ctl := in.exec(fr, s); ctl != gNext {
			return ctl
		}
	}
	return gNext
}

// ref resolves an lvalue to its storage; nil when the storage is not modelled.
func (in *gInterp) ref(fr *gFrame, e ast.Expr) *gVal {
	switch x := ast.Unparen(e).(type) {
	case *ast.Ident:
		obj := fr.info.Uses[x]
		if obj == nil {
			obj = fr.info.Defs[x]
		}
		if obj == nil {
			return nil
		}
		if p, ok := fr.env[obj]; ok {
			return p
		}
		if v, ok := obj.(*types.Var); ok && !(v.Pkg() != nil && v.Parent() == v.Pkg().Scope()) {
			z := gZero(v.Type())
			fr.env[obj] = &z
			return &z
		}
		return nil
	case *ast.SelectorExpr:
		sel, ok := fr.info.Selections[x]
		if !ok || sel.Kind() != types.FieldVal {
			return nil
		}
		p := in.ref(fr, x.X)
		t := sel.Recv()
		for _, idx := range sel.Index() {
			st, ok := derefStruct(t)
			if !ok || p == nil || p.K != gStruct {
				return nil
			}
			f := st.Field(idx)
			q, ok := p.S.F[f]
			if !ok {
				z := gZero(f.Type())
				q = &z
				p.S.F[f] = q
			}
			p, t = q, f.Type()
		}
		return p
	case *ast.IndexExpr:
		p := in.ref(fr, x.X)
		idx, ok := in.eval(fr, x.Index).int64()
		if p == nil || p.K != gList || !ok {
			return nil
		}
		if idx < 0 || int(idx) >= len(p.L) {
			in.abort("index %d out of range (len %d) at %s", idx, len(p.L), in.c.Pos(x.Pos()))
		}
		return &p.L[idx]
	case *ast.StarExpr:
		return in.ref(fr, x.X)
	}
	return nil
}

// rootVar returns the local variable at the root of an lvalue expression.
func gRootVar(info *types.Info, e ast.Expr) types.Object {
	for {
		switch x := ast.Unparen(e).(type) {
		case *ast.Ident:
			if o := info.Uses[x]; o != nil {
				return o
			}
			return info.Defs[x]
		case *ast.SelectorExpr:
			e = x.X
		case *ast.IndexExpr:
			e = x.X
		case *ast.StarExpr:
			e = x.X
		default:
			return nil
		}
	}
}

func (in *gInterp) assign(fr *gFrame, lhs ast.Expr, v gVal) {
	if id, ok := ast.Unparen(lhs).(*ast.Ident); ok && id.Name == "_" {
		return
	}
	if id, ok := ast.Unparen(lhs).(*ast.Ident); ok {
		obj := fr.info.Defs[id]
		if obj == nil {
			obj = fr.info.Uses[id]
		}
		if obj == nil {
			return
		}
		if gv, ok := obj.(*types.Var); ok && gv.Pkg() != nil && gv.Parent() == gv.Pkg().Scope() {
			in.abort("the evaluated code assigns package variable %s", gv.Name())
		}
		c := v.clone()
		fr.env[obj] = &c
		return
	}
	if p := in.ref(fr, lhs); p != nil {
		*p = v.clone()
		return
	}
	// storage not modelled: the root variable becomes unknown
	if r := gRootVar(fr.info, lhs); r != nil {
		if gv, ok := r.(*types.Var); ok && gv.Pkg() != nil && gv.Parent() == gv.Pkg().Scope() {
			in.abort("the evaluated code assigns package variable %s", gv.Name())
		}
		u := gUnk("assigned through an unmodelled lvalue at %s", in.c.Pos(lhs.Pos()))
		fr.env[r] = &u
	}
}

// clobber makes every local variable assigned inside n unknown; aborts when n
// can leave the function (return) or assigns a package variable.
func (in *gInterp) clobber(fr *gFrame, n ast.Node, why string) {
	ast.Inspect(n, func(m ast.Node) bool {
		switch x := m.(type) {
		case *ast.ReturnStmt:
			in.abort("%s; the skipped code returns at %s", why, in.c.Pos(x.Pos()))
		case *ast.FuncLit:
			return false
		case *ast.AssignStmt:
			for _, l := range x.Lhs {
				in.assign(fr, l, gUnk("%s", why))
			}
		case *ast.IncDecStmt:
			in.assign(fr, x.X, gUnk("%s", why))
		case *ast.RangeStmt:
			if x.Key != nil {
				in.assign(fr, x.Key, gUnk("%s", why))
			}
			if x.Value != nil {
				in.assign(fr, x.Value, gUnk("%s", why))
			}
		}
		return true
	})
}

// panicOnly reports whether a block does nothing but panic.
func gPanicOnly(info *types.Info, b *ast.BlockStmt) bool {
	if b == nil || len(b.List) == 0 {
		return false
	}
	for _, s := range b.List {
		es, ok := s.(*ast.ExprStmt)
		if !ok {
			return false
		}
		call, ok := es.X.(*ast.CallExpr)
		if !ok {
			return false
		}
		id, ok := call.Fun.(*ast.Ident)
		if !ok {
			return false
		}
		if b, ok := info.Uses[id].(*types.Builtin); !ok || b.Name() != "panic" {
			return false
		}
	}
	return true
}

func (in *gInterp) exec(fr *gFrame, s ast.Stmt) gCtl {
	in.tick(s)
	switch x := s.(type) {
	case *ast.EmptyStmt:
		return gNext
	case *ast.ExprStmt:
		in.eval(fr, x.X)
		return gNext
	case *ast.BlockStmt:
		return in.execBlock(fr, x.List)
	case *ast.DeclStmt:
		gd, ok := x.Decl.(*ast.GenDecl)
		if !ok || gd.Tok != token.VAR {
			return gNext
		}
		for _, sp := range gd.Specs {
			vs := sp.(*ast.ValueSpec)
			for i, nm := range vs.Names {
				obj := fr.info.Defs[nm]
				if obj == nil {
					continue
				}
				v := gZero(obj.Type())
				if i < len(vs.Values) && len(vs.Values) == len(vs.Names) {
					v = in.eval(fr, vs.Values[i]).clone()
				} else if len(vs.Values) > 0 {
					v = gUnk("multi-value declaration")
				}
				fr.env[obj] = &v
			}
		}
		return gNext
	case *ast.AssignStmt:
		if x.Tok == token.DEFINE || x.Tok == token.ASSIGN {
			if len(x.Lhs) == len(x.Rhs) {
				vals := make([]gVal, len(x.Rhs))
				for i, r := range x.Rhs {
					vals[i] = in.eval(fr, r)
				}
				for i, l := range x.Lhs {
					in.assign(fr, l, vals[i])
				}
			} else {
				for _, r := range x.Rhs {
					in.eval(fr, r)
				}
				for _, l := range x.Lhs {
					in.assign(fr, l, gUnk("result of a multi-value expression at %s", in.c.Pos(x.Pos())))
				}
			}
			return gNext
		}
		// op-assign
		var op token.Token
		switch x.Tok {
		case token.ADD_ASSIGN:
			op = token.ADD
		case token.SUB_ASSIGN:
			op = token.SUB
		case token.MUL_ASSIGN:
			op = token.MUL
		case token.OR_ASSIGN:
			op = token.OR
		case token.AND_ASSIGN:
			op = token.AND
		default:
			in.assign(fr, x.Lhs[0], gUnk("operator %s", x.Tok))
			return gNext
		}
		l, r := in.eval(fr, x.Lhs[0]), in.eval(fr, x.Rhs[0])
		if l.K == gConst && r.K == gConst {
			in.assign(fr, x.Lhs[0], gVal{K: gConst, C: constant.BinaryOp(l.C, op, r.C)})
		} else {
			in.assign(fr, x.Lhs[0], gUnk("%s on unmodelled operands", x.Tok))
		}
		return gNext
	case *ast.IncDecStmt:
		l := in.eval(fr, x.X)
		if l.K == gConst {
			op := token.ADD
			if x.Tok == token.DEC {
				op = token.SUB
			}
			in.assign(fr, x.X, gVal{K: gConst, C: constant.BinaryOp(l.C, op, constant.MakeInt64(1))})
		} else {
			in.assign(fr, x.X, gUnk("++ on unmodelled operand"))
		}
		return gNext
	case *ast.ReturnStmt:
		switch len(x.Results) {
		case 0:
			fr.ret = gVal{K: gOpaque}
		case 1:
			fr.ret = in.eval(fr, x.Results[0]).clone()
		default:
			l := make([]gVal, len(x.Results))
			for i, r := range x.Results {
				l[i] = in.eval(fr, r).clone()
			}
			fr.ret = gVal{K: gList, L: l}
		}
		return gReturn
	case *ast.IfStmt:
		if x.Init != nil {
			if ctl := in.exec(fr, x.Init); ctl != gNext {
				return ctl
			}
		}
		cond := in.eval(fr, x.Cond)
		if b, ok := cond.boolean(); ok {
			if b {
				return in.execBlock(fr, x.Body.List)
			}
			if x.Else != nil {
				return in.exec(fr, x.Else)
			}
			return gNext
		}
		if x.Else == nil && gPanicOnly(fr.info, x.Body) {
			// a validation whose condition is not modelled: assumed not to fire
			return gNext
		}
		why := fmt.Sprintf("branch on an unmodelled condition at %s (%s)", in.c.Pos(x.Pos()), cond.Why)
		in.clobber(fr, x.Body, why)
		if x.Else != nil {
			in.clobber(fr, x.Else, why)
		}
		return gNext
	case *ast.SwitchStmt:
		if x.Init != nil {
			if ctl := in.exec(fr, x.Init); ctl != gNext {
				return ctl
			}
		}
		var tag gVal
		if x.Tag != nil {
			tag = in.eval(fr, x.Tag)
		} else {
			tag = gVal{K: gConst, C: constant.MakeBool(true)}
		}
		if tag.K != gConst {
			in.clobber(fr, x.Body, fmt.Sprintf("switch on an unmodelled value at %s", in.c.Pos(x.Pos())))
			return gNext
		}
		var def *ast.CaseClause
		for _, cs := range x.Body.List {
			cc := cs.(*ast.CaseClause)
			if cc.List == nil {
				def = cc
				continue
			}
			for _, ce := range cc.List {
				v := in.eval(fr, ce)
				if v.K != gConst {
					in.clobber(fr, x.Body, fmt.Sprintf("switch case with an unmodelled value at %s", in.c.Pos(ce.Pos())))
					return gNext
				}
				if v.C.Kind() == tag.C.Kind() && constant.Compare(tag.C, token.EQL, v.C) {
					ctl := in.execBlock(fr, cc.Body)
					if ctl == gBreak {
						return gNext
					}
					return ctl
				}
			}
		}
		if def != nil {
			ctl := in.execBlock(fr, def.Body)
			if ctl == gBreak {
				return gNext
			}
			return ctl
		}
		return gNext
	case *ast.RangeStmt:
		xs := in.eval(fr, x.X)
		var n int
		switch {
		case xs.K == gList:
			n = len(xs.L)
		case xs.K == gNil:
			n = 0
		case xs.K == gConst:
			k, ok := xs.int64()
			if !ok || k < 0 || k > 1<<16 {
				in.clobber(fr, x, "range over an unmodelled value")
				return gNext
			}
			n = int(k)
		default:
			in.clobber(fr, x, fmt.Sprintf("range over an unmodelled value at %s (%s)", in.c.Pos(x.Pos()), xs.Why))
			return gNext
		}
		for i := 0; i < n; i++ {
			if x.Key != nil {
				in.assign(fr, x.Key, gVal{K: gConst, C: constant.MakeInt64(int64(i))})
			}
			if x.Value != nil && xs.K == gList {
				in.assign(fr, x.Value, xs.L[i])
			}
			switch ctl := in.execBlock(fr, x.Body.List); ctl {
			case gBreak:
				return gNext
			case gReturn:
				return ctl
			}
		}
		return gNext
	case *ast.ForStmt:
		if x.Init != nil {
			if ctl := in.exec(fr, x.Init); ctl != gNext {
				return ctl
			}
		}
		for iter := 0; ; iter++ {
			if iter > 1<<16 {
				in.abort("loop limit at %s", in.c.Pos(x.Pos()))
			}
			if x.Cond != nil {
				b, ok := in.eval(fr, x.Cond).boolean()
				if !ok {
					in.clobber(fr, x, fmt.Sprintf("loop with an unmodelled condition at %s", in.c.Pos(x.Pos())))
					return gNext
				}
				if !b {
					return gNext
				}
			}
			switch ctl := in.execBlock(fr, x.Body.List); ctl {
			case gBreak:
				return gNext
			case gReturn:
				return ctl
			}
			if x.Post != nil {
				in.exec(fr, x.Post)
			}
		}
	case *ast.BranchStmt:
		if x.Label != nil {
			in.abort("labelled branch at %s", in.c.Pos(x.Pos()))
		}
		switch x.Tok {
		case token.BREAK:
			return gBreak
		case token.CONTINUE:
			return gContinue
		}
	}
	in.abort("statement %T at %s is not modelled", s, in.c.Pos(s.Pos()))
	return gNext
}

// ---------------------------------------------------------------------------
// AVM tables
// ---------------------------------------------------------------------------

// GImm is one immediate of an opcode.
type GImm struct {
	Name  string
	Kind  int64      // value of the immKind constant
	Group *types.Var // the FieldGroup variable, nil when none
	OK    bool       // false when any of the above could not be modelled
	Why   string
}

// GOp is one element of the OpSpecs composite literal.
type GOp struct {
	Idx      int
	Pos      token.Pos
	Opcode   int64
	Sub      int64
	Name     string
	Version  int64
	Modes    int64
	Size     int64
	Trusted  bool
	Op       *types.Func // the evaluation function (nil: see OpNil)
	OpNil    bool
	Asm      *types.Func
	AsmNil   bool
	Check    *types.Func
	CheckNil bool
	Args     []string // one stack-type letter per argument
	Rets     []string
	Exits    bool // AlwaysExits(): single return of the none type
	Imms     []GImm
	und      map[string]string // attribute -> why it is not modelled
}

// Key names the entry by program entities: opcode byte(.sub), mnemonic, version.
func (o *GOp) Key() string {
	name := o.Name
	if _, bad := o.und["Name"]; bad {
		name = "?"
	}
	if o.Sub != 0 {
		return fmt.Sprintf("OpSpecs[0x%02x.%02x %s v%d]", o.Opcode, o.Sub, name, o.Version)
	}
	return fmt.Sprintf("OpSpecs[0x%02x %s v%d]", o.Opcode, name, o.Version)
}

// Need reports whether all attrs of the entry were modelled; for each one that
// was not it records an undecided obligation under rule.
func (o *GOp) Need(c *Ctx, rule string, attrs ...string) bool {
	ok := true
	for _, a := range attrs {
		if why, bad := o.und[a]; bad {
			c.Unk(rule, o.Key()+":"+a, c.Pos(o.Pos), "table entry attribute "+a+" could not be evaluated statically: "+why)
			ok = false
		}
	}
	return ok
}

// GFieldEntry is one element of a field-spec table.
type GFieldEntry struct {
	Idx       int
	Pos       token.Pos
	Field     int64
	FieldOK   bool
	Name      string // name of the field constant when the element names one
	Version   int64  // result of the spec type's Version() on this entry
	VersionOK bool
	Why       string
	Val       gVal
}

// GFieldTable describes one xSpecByField lookup function and its table.
type GFieldTable struct {
	Lookup       *types.Func
	Spec         *types.Named
	Table        *types.Var
	VersionField *types.Var   // field returned by Spec.Version(); nil when it returns a constant
	AltFields    []*types.Var // fields returned by Version() of wrapper types embedding Spec ("settable since")
	FieldField   *types.Var   // field returned by Spec.Field()
	Entries      []GFieldEntry
	Und          string
}

// Alt returns entry e's value of an alternative version field.
func (e *GFieldEntry) Alt(f *types.Var) (int64, bool) { return e.Val.field(f).int64() }

// GAvm is the statically extracted AVM description.
type GAvm struct {
	Ops          []*GOp
	LogicVersion int64
	Letters      map[string]bool // stack type letters
	NoneLetters  map[string]bool
	Tables       []*GFieldTable
	ByLookup     map[*types.Func]*GFieldTable
	in           *gInterp
	pk           *packages.Package
}

// valueSpecOf finds the initialiser expression of a package-level variable.
func gVarInit(pk *packages.Package, v *types.Var) ast.Expr {
	for _, f := range pk.Syntax {
		for _, d := range f.Decls {
			gd, ok := d.(*ast.GenDecl)
			if !ok || gd.Tok != token.VAR {
				continue
			}
			for _, sp := range gd.Specs {
				vs := sp.(*ast.ValueSpec)
				for i, nm := range vs.Names {
					if pk.TypesInfo.Defs[nm] == types.Object(v) && len(vs.Values) == len(vs.Names) {
						return vs.Values[i]
					}
				}
			}
		}
	}
	return nil
}

func gAvmExtract(c *Ctx) *GAvm {
	pk := c.Pkg(gLogic)
	in := newGInterp(c)
	a := &GAvm{in: in, pk: pk, Letters: map[string]bool{}, NoneLetters: map[string]bool{}, ByLookup: map[*types.Func]*GFieldTable{}}
	if v, ok := constInt64(c.Const(gLogic + ".LogicVersion")); ok {
		a.LogicVersion = v
	} else {
		panic(abortRule("LogicVersion is not an integer constant"))
	}

	// stack type letters: keys of the AllStackTypes map literal
	allST, _ := c.Obj(gLogic + ".AllStackTypes").(*types.Var)
	stNone := c.Obj(gLogic + ".StackNone")
	if lit, ok := gVarInit(pk, allST).(*ast.CompositeLit); ok {
		for _, el := range lit.Elts {
			kv, ok := el.(*ast.KeyValueExpr)
			if !ok {
				continue
			}
			tv := pk.TypesInfo.Types[kv.Key]
			if tv.Value == nil {
				continue
			}
			k, ok := constant.Int64Val(constant.ToInt(tv.Value))
			if !ok {
				continue
			}
			l := string(rune(k))
			a.Letters[l] = true
			if id, ok := kv.Value.(*ast.Ident); ok && pk.TypesInfo.Uses[id] == stNone {
				a.NoneLetters[l] = true
			}
		}
	}
	if len(a.Letters) == 0 {
		panic(abortRule("AllStackTypes is not a map literal with constant keys: proto signatures cannot be read"))
	}

	// intrinsic: proto(signature, effects...) — parseStackTypes is letter-per-type with an optional {n} suffix
	fArg, fRet := c.Field(gLogic+".Proto.Arg"), c.Field(gLogic+".Proto.Return")
	fTypes := c.Field(gLogic + ".typedList.Types")
	protoT := c.Named(gLogic + ".Proto")
	tlT := c.Named(gLogic + ".typedList")
	in.intrinsics[c.Func(gLogic+".proto")] = func(in *gInterp, fr *gFrame, call *ast.CallExpr, args []gVal) gVal {
		if len(args) == 0 {
			in.abort("proto() without signature")
		}
		sig, ok := args[0].str()
		if !ok {
			in.abort("proto() signature at %s is not a constant string", in.c.Pos(call.Pos()))
		}
		parts := strings.Split(sig, ":")
		if len(parts) != 2 {
			in.abort("proto(%q) panics: signature needs exactly one ':'", sig)
		}
		if len(args) > 1 && args[1].K == gList && len(args[1].L) > 2 {
			in.abort("proto(%q) panics: more than two effect strings", sig)
		}
		parse := func(s string) gVal {
			var l []gVal
			for i := 0; i < len(s); i++ {
				ch := s[i : i+1]
				if ch == "{" {
					end := strings.IndexByte(s[i:], '}')
					if len(l) == 0 || end < 0 {
						in.abort("proto(%q) panics: misplaced '{'", sig)
					}
					i += end
					continue
				}
				if !a.Letters[ch] {
					in.abort("proto(%q) panics: %q is not a key of AllStackTypes", sig, ch)
				}
				l = append(l, gVal{K: gOpaque, C: constant.MakeString(ch)})
			}
			if l == nil {
				return gVal{K: gNil}
			}
			return gVal{K: gList, L: l}
		}
		mk := func(s string) *gVal {
			t := parse(s)
			v := gVal{K: gStruct, S: &gStructV{T: tlT, F: map[*types.Var]*gVal{fTypes: &t}}}
			return &v
		}
		return gVal{K: gStruct, S: &gStructV{T: protoT, F: map[*types.Var]*gVal{fArg: mk(parts[0]), fRet: mk(parts[1])}}}
	}

	a.extractOps(c)
	a.extractTables(c)
	return a
}

func (a *GAvm) extractOps(c *Ctx) {
	pk, in := a.pk, a.in
	opSpecs, _ := c.Obj(gLogic + ".OpSpecs").(*types.Var)
	lit, ok := gVarInit(pk, opSpecs).(*ast.CompositeLit)
	if !ok {
		panic(abortRule("OpSpecs is not initialised by a composite literal: the opcode table cannot be read statically"))
	}
	specT := c.Named(gLogic + ".OpSpec")
	st := specT.Underlying().(*types.Struct)
	fOpcode, fName, fOp := c.Field(gLogic+".OpSpec.Opcode"), c.Field(gLogic+".OpSpec.Name"), c.Field(gLogic+".OpSpec.op")
	fProto, fVersion, fDet := c.Field(gLogic+".OpSpec.Proto"), c.Field(gLogic+".OpSpec.Version"), c.Field(gLogic+".OpSpec.OpDetails")
	fArg, fRet := c.Field(gLogic+".Proto.Arg"), c.Field(gLogic+".Proto.Return")
	fTypes := c.Field(gLogic + ".typedList.Types")
	dAsm, dCheck := c.Field(gLogic+".OpDetails.asm"), c.Field(gLogic+".OpDetails.check")
	dModes, dSize := c.Field(gLogic+".OpDetails.Modes"), c.Field(gLogic+".OpDetails.Size")
	dImms, dTrusted, dSub := c.Field(gLogic+".OpDetails.Immediates"), c.Field(gLogic+".OpDetails.trusted"), c.Field(gLogic+".OpDetails.SubOpcode")
	iName, iKind, iGroup := c.Field(gLogic+".immediate.Name"), c.Field(gLogic+".immediate.kind"), c.Field(gLogic+".immediate.Group")

	for idx, el := range lit.Elts {
		o := &GOp{Idx: idx, Pos: el.Pos(), und: map[string]string{}}
		a.Ops = append(a.Ops, o)
		cl, ok := el.(*ast.CompositeLit)
		if !ok {
			for _, at := range []string{"Opcode", "Name", "op", "Proto", "Version", "OpDetails"} {
				o.und[at] = "element is not a composite literal"
			}
			continue
		}
		exprs := map[*types.Var]ast.Expr{}
		for i, e := range cl.Elts {
			if kv, ok := e.(*ast.KeyValueExpr); ok {
				if id, ok := kv.Key.(*ast.Ident); ok {
					if f, ok := pk.TypesInfo.Uses[id].(*types.Var); ok {
						exprs[f] = kv.Value
					}
				}
			} else if i < st.NumFields() {
				exprs[st.Field(i)] = e
			}
		}
		get := func(f *types.Var, attr string) (gVal, bool) {
			e, ok := exprs[f]
			if !ok {
				return gZero(f.Type()), true
			}
			v, why := in.EvalExpr(pk, e)
			if why != "" {
				o.und[attr] = why
				return v, false
			}
			return v, true
		}
		if v, ok := get(fOpcode, "Opcode"); ok {
			if n, ok := v.int64(); ok {
				o.Opcode = n
			} else {
				o.und["Opcode"] = "not a constant: " + v.Why
			}
		}
		if v, ok := get(fName, "Name"); ok {
			if s, ok := v.str(); ok {
				o.Name = s
			} else {
				o.und["Name"] = "not a constant: " + v.Why
			}
		}
		if v, ok := get(fVersion, "Version"); ok {
			if n, ok := v.int64(); ok {
				o.Version = n
			} else {
				o.und["Version"] = "not a constant: " + v.Why
			}
		}
		fn := func(v gVal, attr string) (*types.Func, bool) {
			switch {
			case v.K == gNil:
				return nil, true
			case v.K == gFunc && v.F != nil:
				return v.F, false
			case v.K == gFunc:
				o.und[attr] = "function literal"
			default:
				o.und[attr] = "not a function reference: " + v.Why
			}
			return nil, false
		}
		if v, ok := get(fOp, "op"); ok {
			o.Op, o.OpNil = fn(v, "op")
		}
		if v, ok := get(fProto, "Proto"); ok {
			letters := func(tl gVal) ([]string, bool) {
				t := tl.field(fTypes)
				if t.K == gNil {
					return nil, true
				}
				if t.K != gList {
					return nil, false
				}
				var out []string
				for _, x := range t.L {
					s, _ := gVal{K: gConst, C: x.C}.str()
					if x.K != gOpaque || s == "" {
						return nil, false
					}
					out = append(out, s)
				}
				return out, true
			}
			var ok1, ok2 bool
			o.Args, ok1 = letters(v.field(fArg))
			o.Rets, ok2 = letters(v.field(fRet))
			if !ok1 || !ok2 {
				o.und["Proto"] = "Arg/Return types are not the result of proto(\"…\"): " + v.Why
			}
			o.Exits = len(o.Rets) == 1 && a.NoneLetters[o.Rets[0]]
		}
		if v, ok := get(fDet, "OpDetails"); !ok || v.K != gStruct {
			why := o.und["OpDetails"]
			if why == "" {
				why = "details expression is not a modelled builder chain: " + v.Why
			}
			for _, at := range []string{"asm", "check", "Modes", "Size", "Immediates", "trusted", "SubOpcode"} {
				o.und[at] = why
			}
		} else {
			o.Asm, o.AsmNil = fn(v.field(dAsm), "asm")
			o.Check, o.CheckNil = fn(v.field(dCheck), "check")
			num := func(f *types.Var, attr string) int64 {
				x := v.field(f)
				n, ok := x.int64()
				if !ok {
					o.und[attr] = "not a constant: " + x.Why
				}
				return n
			}
			o.Modes, o.Size, o.Sub = num(dModes, "Modes"), num(dSize, "Size"), num(dSub, "SubOpcode")
			if b, ok := v.field(dTrusted).boolean(); ok {
				o.Trusted = b
			} else {
				o.und["trusted"] = "not a constant: " + v.field(dTrusted).Why
			}
			imms := v.field(dImms)
			switch imms.K {
			case gNil:
			case gList:
				for _, iv := range imms.L {
					im := GImm{OK: true}
					var ok bool
					if im.Name, ok = iv.field(iName).str(); !ok {
						im.OK, im.Why = false, "name: "+iv.field(iName).Why
					}
					if im.Kind, ok = iv.field(iKind).int64(); !ok {
						im.OK, im.Why = false, "kind: "+iv.field(iKind).Why
					}
					switch g := iv.field(iGroup); g.K {
					case gNil:
					case gAddr:
						im.Group = g.G
					default:
						im.OK, im.Why = false, "group: "+g.Why
					}
					if !im.OK {
						o.und["Immediates"] = "immediate " + im.Name + ": " + im.Why
					}
					o.Imms = append(o.Imms, im)
				}
			default:
				o.und["Immediates"] = "not a modelled list: " + imms.Why
			}
		}
	}
}

// retField returns the struct field whose value a single-return accessor
// method yields (through embedding and conversions), or nil.
func gAccessorField(fn *ssa.Function) *types.Var {
	if fn == nil || fn.Blocks == nil {
		return nil
	}
	var out *types.Var
	n := 0
	for _, b := range fn.Blocks {
		ret, ok := b.Instrs[len(b.Instrs)-1].(*ssa.Return)
		if !ok {
			continue
		}
		n++
		if len(ret.Results) != 1 {
			return nil
		}
		v := strip(ret.Results[0])
		if u, ok := v.(*ssa.UnOp); ok && u.Op == token.MUL {
			v = u.X
		}
		switch x := v.(type) {
		case *ssa.Field:
			out = structField(x.X.Type(), x.Field)
		case *ssa.FieldAddr:
			out = structField(x.X.Type(), x.Field)
		default:
			return nil
		}
	}
	if n != 1 {
		return nil
	}
	return out
}

func (a *GAvm) extractTables(c *Ctx) {
	pk, in := a.pk, a.in
	iface, _ := c.Named(gLogic + ".FieldSpec").Underlying().(*types.Interface)
	if iface == nil {
		panic(abortRule("FieldSpec is not an interface"))
	}
	mVersion := c.Func(gLogic + ".FieldSpec.Version")
	mField := c.Func(gLogic + ".FieldSpec.Field")
	scope := pk.Types.Scope()
	names := scope.Names()
	sort.Strings(names)
	method := func(t types.Type, m *types.Func) *types.Func {
		obj, _, _ := types.LookupFieldOrMethod(t, false, pk.Types, m.Name())
		f, _ := obj.(*types.Func)
		return f
	}
	for _, nm := range names {
		f, ok := scope.Lookup(nm).(*types.Func)
		if !ok {
			continue
		}
		sig := f.Type().(*types.Signature)
		if sig.Recv() != nil || sig.Params().Len() != 1 || sig.Results().Len() != 2 {
			continue
		}
		if b, ok := sig.Results().At(1).Type().Underlying().(*types.Basic); !ok || b.Kind() != types.Bool {
			continue
		}
		nt, ok := sig.Results().At(0).Type().(*types.Named)
		if !ok || nt.Obj().Pkg() != pk.Types {
			continue
		}
		if _, isStruct := nt.Underlying().(*types.Struct); !isStruct || !types.Implements(nt, iface) {
			continue
		}
		t := &GFieldTable{Lookup: f, Spec: nt}
		a.Tables = append(a.Tables, t)
		a.ByLookup[f] = t
		// accessor fields
		vm, fm := method(nt, mVersion), method(nt, mField)
		if vm != nil {
			t.VersionField = gAccessorField(c.SSAOf(vm))
		}
		if fm != nil {
			t.FieldField = gAccessorField(c.SSAOf(fm))
		}
		// wrapper types: structs embedding nt that declare their own Version()
		for _, wn := range names {
			tn, ok := scope.Lookup(wn).(*types.TypeName)
			if !ok {
				continue
			}
			wt, ok := tn.Type().(*types.Named)
			if !ok {
				continue
			}
			ws, ok := wt.Underlying().(*types.Struct)
			if !ok {
				continue
			}
			emb := false
			for i := 0; i < ws.NumFields(); i++ {
				if ws.Field(i).Embedded() && types.Identical(ws.Field(i).Type(), nt) {
					emb = true
				}
			}
			if !emb {
				continue
			}
			wm := method(wt, mVersion)
			if wm == nil || wm == vm {
				continue
			}
			if af := gAccessorField(c.SSAOf(wm)); af != nil && af != t.VersionField {
				t.AltFields = append(t.AltFields, af)
			}
		}
		// the table: the package-level array/slice of nt the lookup reads
		if fn := c.SSAOf(f); fn != nil {
			for _, b := range fn.Blocks {
				for _, ins := range b.Instrs {
					for _, op := range ins.Operands(nil) {
						g, ok := (*op).(*ssa.Global)
						if !ok {
							continue
						}
						gv, ok := g.Object().(*types.Var)
						if !ok {
							continue
						}
						var elem types.Type
						switch u := gv.Type().Underlying().(type) {
						case *types.Array:
							elem = u.Elem()
						case *types.Slice:
							elem = u.Elem()
						}
						if elem != nil && types.Identical(elem, nt) {
							if t.Table != nil && t.Table != gv {
								t.Und = "the lookup reads more than one table"
							}
							t.Table = gv
						}
					}
				}
			}
		}
		if t.Table == nil {
			t.Und = "no package-level table of " + nt.Obj().Name() + " is read by " + f.Name()
			continue
		}
		lit, ok := gVarInit(pk, t.Table).(*ast.CompositeLit)
		if !ok {
			t.Und = "table " + t.Table.Name() + " is not initialised by a composite literal"
			continue
		}
		for i, el := range lit.Elts {
			e := GFieldEntry{Idx: i, Pos: el.Pos()}
			ve := el
			if kv, ok := el.(*ast.KeyValueExpr); ok {
				ve = kv.Value
				if k, ok := pk.TypesInfo.Types[kv.Key]; ok && k.Value != nil {
					if n, ok := constant.Int64Val(constant.ToInt(k.Value)); ok {
						e.Idx = int(n)
					}
				}
			}
			v, why := in.EvalExpr(pk, ve)
			e.Val = v
			if why != "" || v.K != gStruct {
				e.Why = "element not evaluable: " + why + v.Why
				t.Entries = append(t.Entries, e)
				continue
			}
			if t.FieldField != nil {
				e.Field, e.FieldOK = v.field(t.FieldField).int64()
				// name of the constant, for diagnostics
				if cl, ok := ve.(*ast.CompositeLit); ok {
					for j, x := range cl.Elts {
						var fe ast.Expr
						if kv, ok := x.(*ast.KeyValueExpr); ok {
							if id, ok := kv.Key.(*ast.Ident); ok && pk.TypesInfo.Uses[id] == types.Object(t.FieldField) {
								fe = kv.Value
							}
						} else if st := nt.Underlying().(*types.Struct); j < st.NumFields() && st.Field(j) == t.FieldField {
							fe = x
						}
						if id, ok := fe.(*ast.Ident); ok {
							e.Name = id.Name
						}
					}
				}
			}
			if vm != nil {
				rv := v.clone()
				r, why := in.CallFunc(vm, &rv, nil)
				if n, ok := r.int64(); ok && why == "" {
					e.Version, e.VersionOK = n, true
				} else {
					e.Why = "Version() not evaluable: " + why + r.Why
				}
			}
			t.Entries = append(t.Entries, e)
		}
	}
}

// ---------------------------------------------------------------------------
// SSA helpers
// ---------------------------------------------------------------------------

// gWalk visits the definition tree of v like walkDef, and additionally follows
// loads through field addresses of spilled locals (x := call(); &x.f) back to
// the values stored into the local.
func gWalk(v ssa.Value, depth int, visit func(ssa.Value) bool) {
	seen := map[ssa.Value]bool{}
	var rec func(v ssa.Value, d int)
	rec = func(v ssa.Value, d int) {
		if v == nil || seen[v] || d < 0 {
			return
		}
		seen[v] = true
		if !visit(v) {
			return
		}
		switch x := v.(type) {
		case *ssa.Alloc:
			for _, s := range localStores(x) {
				rec(s, d-1)
			}
		case *ssa.Call:
			for _, a := range callArgs(x.Common()) {
				rec(a, d-1)
			}
			if !x.Common().IsInvoke() {
				rec(x.Common().Value, d-1)
			}
		default:
			if in, ok := v.(ssa.Instruction); ok {
				for _, op := range in.Operands(nil) {
					if *op != nil {
						rec(*op, d-1)
					}
				}
			}
		}
	}
	rec(v, depth)
}

// gDerives reports whether the definition tree of v contains a value matching pred.
func gDerives(v ssa.Value, depth int, pred func(ssa.Value) bool) bool {
	found := false
	gWalk(v, depth, func(x ssa.Value) bool {
		if found {
			return false
		}
		if pred(x) {
			found = true
			return false
		}
		return true
	})
	return found
}

// gIsResult matches result #idx of the specific call instruction.
func gIsResult(call ssa.Value, idx int) func(ssa.Value) bool {
	return func(x ssa.Value) bool {
		if e, ok := x.(*ssa.Extract); ok {
			return e.Tuple == call && e.Index == idx
		}
		return idx <= 0 && x == call
	}
}

// gDerivesNoCall is gDerives that does not look through calls other than
// builtins (len, cap, …): a call's result is opaque, it does not "derive from"
// the call's operands.
func gDerivesNoCall(v ssa.Value, depth int, pred func(ssa.Value) bool) bool {
	found := false
	gWalk(v, depth, func(x ssa.Value) bool {
		if found {
			return false
		}
		if pred(x) {
			found = true
			return false
		}
		if call, ok := x.(*ssa.Call); ok {
			if _, isBuiltin := call.Common().Value.(*ssa.Builtin); !isBuiltin {
				return false
			}
		}
		return true
	})
	return found
}

// gFieldOf matches a value computed (without intervening calls) from a read of
// struct field f whose base derives from a value matching base.
func gFieldOf(f *types.Var, base func(ssa.Value) bool) VM {
	return func(v ssa.Value) bool {
		return gDerivesNoCall(v, 8, func(x ssa.Value) bool {
			switch y := x.(type) {
			case *ssa.Field:
				return structField(y.X.Type(), y.Field) == f && gDerivesNoCall(y.X, 6, base)
			case *ssa.FieldAddr:
				return structField(y.X.Type(), y.Field) == f && gDerivesNoCall(y.X, 6, base)
			}
			return false
		})
	}
}

// gFieldLoad matches exactly a read of field f (x.f or *(&x.f)) whose base
// derives from a value matching base.
func gFieldLoad(f *types.Var, base func(ssa.Value) bool) VM {
	return func(v ssa.Value) bool {
		v = strip(v)
		if u, ok := v.(*ssa.UnOp); ok && u.Op == token.MUL {
			v = u.X
		}
		switch y := v.(type) {
		case *ssa.Field:
			return structField(y.X.Type(), y.Field) == f && gDerivesNoCall(y.X, 6, base)
		case *ssa.FieldAddr:
			return structField(y.X.Type(), y.Field) == f && gDerivesNoCall(y.X, 6, base)
		}
		return false
	}
}

// gReachFrom computes the instructions reachable in fn after instruction
// start (exclusive) when cut edges may not be traversed; calls that never
// return end a path.
type gReach struct {
	full    map[*ssa.BasicBlock]bool // whole block reached (from its first instruction)
	startB  *ssa.BasicBlock
	startI  int
	stopAt  map[*ssa.BasicBlock]int
	partial bool
}

func gReachFrom(start ssa.Instruction, cut []Edge, stop func(ssa.Instruction) bool) *gReach {
	r := &gReach{full: map[*ssa.BasicBlock]bool{}, stopAt: map[*ssa.BasicBlock]int{}}
	b := start.Block()
	r.startB = b
	for i, in := range b.Instrs {
		if in == start {
			r.startI = i
		}
	}
	cutSet := map[Edge]bool{}
	for _, e := range cut {
		cutSet[e] = true
	}
	var work []*ssa.BasicBlock
	push := func(from *ssa.BasicBlock) {
		for i, s := range from.Succs {
			if cutSet[Edge{from, i}] || r.full[s] {
				continue
			}
			r.full[s] = true
			work = append(work, s)
		}
	}
	// tail of the start block
	stopped := false
	for i := r.startI + 1; i < len(b.Instrs); i++ {
		if noReturnCall(b.Instrs[i]) || (stop != nil && stop(b.Instrs[i])) {
			r.stopAt[b] = i
			stopped = true
			break
		}
	}
	r.partial = true
	if !stopped {
		push(b)
	}
	for len(work) > 0 {
		x := work[0]
		work = work[1:]
		st := false
		for i, in := range x.Instrs {
			if noReturnCall(in) || (stop != nil && stop(in)) {
				if x == b && i > r.startI {
					// already handled by the tail scan
				}
				r.stopAt[x] = i
				st = true
				break
			}
		}
		if !st {
			push(x)
		}
	}
	return r
}

func (r *gReach) Reaches(in ssa.Instruction) bool {
	b := in.Block()
	idx := -1
	for i, x := range b.Instrs {
		if x == in {
			idx = i
		}
	}
	if r.full[b] {
		if s, ok := r.stopAt[b]; ok && b != r.startB {
			return idx <= s
		}
		if b != r.startB {
			return true
		}
		// start block re-entered from its top
		if s, ok := r.stopAt[b]; ok && s <= r.startI {
			return idx <= s || (idx > r.startI && r.tailReaches(idx))
		}
		return true
	}
	if b == r.startB && idx > r.startI {
		return r.tailReaches(idx)
	}
	return false
}

func (r *gReach) tailReaches(idx int) bool {
	if s, ok := r.stopAt[r.startB]; ok && s > r.startI {
		return idx <= s
	}
	return true
}

// gStaticCallees lists the functions fn may transfer control to statically:
// static callees, closures it creates, and functions it references as values.
func gStaticCallees(fn *ssa.Function) []*ssa.Function {
	seen := map[*ssa.Function]bool{}
	var out []*ssa.Function
	add := func(f *ssa.Function) {
		if f != nil && !seen[f] {
			seen[f] = true
			out = append(out, f)
		}
	}
	for _, b := range fn.Blocks {
		for _, in := range b.Instrs {
			if ci, ok := in.(ssa.CallInstruction); ok {
				add(ci.Common().StaticCallee())
			}
			for _, op := range in.Operands(nil) {
				switch x := (*op).(type) {
				case *ssa.Function:
					add(x)
				case *ssa.MakeClosure:
					if f, ok := x.Fn.(*ssa.Function); ok {
						add(f)
					}
				}
			}
		}
	}
	return out
}

// gClosure is the set of functions with bodies in package path pkgPath that
// are reachable from roots over gStaticCallees.
func gClosure(roots []*ssa.Function, pkgPath string) map[*ssa.Function]bool {
	seen := map[*ssa.Function]bool{}
	work := append([]*ssa.Function{}, roots...)
	for len(work) > 0 {
		f := work[0]
		work = work[1:]
		if f == nil || seen[f] || f.Blocks == nil {
			continue
		}
		if f.Pkg == nil && f.Parent() == nil {
			if f.Origin() == nil {
				continue
			}
		}
		p := f
		for p.Parent() != nil {
			p = p.Parent()
		}
		if p.Pkg != nil && p.Pkg.Pkg.Path() != pkgPath {
			continue
		}
		seen[f] = true
		work = append(work, gStaticCallees(f)...)
	}
	return seen
}

// gOpRoots maps every evaluation function named in OpSpecs to the table
// entries that use it.
func (a *GAvm) gOpRoots(c *Ctx) (fns []*ssa.Function, users map[*ssa.Function][]*GOp) {
	users = map[*ssa.Function][]*GOp{}
	for _, o := range a.Ops {
		if o.Op == nil {
			continue
		}
		fn := c.SSAOf(o.Op)
		if fn == nil {
			continue
		}
		if _, ok := users[fn]; !ok {
			fns = append(fns, fn)
		}
		users[fn] = append(users[fn], o)
	}
	return
}

// gInvokes returns the interface-method calls in fn whose receiver's static
// type is the named interface.
func gInvokes(fn *ssa.Function, iface *types.Named) []ssa.CallInstruction {
	var out []ssa.CallInstruction
	for _, b := range fn.Blocks {
		for _, in := range b.Instrs {
			ci, ok := in.(ssa.CallInstruction)
			if !ok || !ci.Common().IsInvoke() {
				continue
			}
			if nt, ok := types.Unalias(ci.Common().Value.Type()).(*types.Named); ok && nt.Origin() == iface.Origin() {
				out = append(out, ci)
			}
		}
	}
	return out
}

// gDump renders the extracted tables (debugging aid: AVCHECK_GDUMP=1).
func (a *GAvm) gDump(c *Ctx) string {
	var sb strings.Builder
	for _, o := range a.Ops {
		fmt.Fprintf(&sb, "%s op=%s args=%v rets=%v exits=%v modes=%d size=%d trusted=%v asm=%s check=%s imms=", o.Key(), funcObjName(o.Op), o.Args, o.Rets, o.Exits, o.Modes, o.Size, o.Trusted, funcObjName(o.Asm), funcObjName(o.Check))
		for _, im := range o.Imms {
			g := "-"
			if im.Group != nil {
				g = im.Group.Name()
			}
			fmt.Fprintf(&sb, "(%s k%d %s)", im.Name, im.Kind, g)
		}
		if len(o.und) > 0 {
			fmt.Fprintf(&sb, " UND=%v", o.und)
		}
		sb.WriteString("\n")
	}
	for _, t := range a.Tables {
		vf, ff := "<const>", "?"
		if t.VersionField != nil {
			vf = t.VersionField.Name()
		}
		if t.FieldField != nil {
			ff = t.FieldField.Name()
		}
		tn := "?"
		if t.Table != nil {
			tn = t.Table.Name()
		}
		fmt.Fprintf(&sb, "table %s via %s spec=%s version-field=%s field-field=%s alt=%d und=%q:", tn, t.Lookup.Name(), t.Spec.Obj().Name(), vf, ff, len(t.AltFields), t.Und)
		for _, e := range t.Entries {
			fmt.Fprintf(&sb, " [%d %s f=%d v=%d ok=%v%v %s]", e.Idx, e.Name, e.Field, e.Version, e.FieldOK, e.VersionOK, e.Why)
		}
		sb.WriteString("\n")
	}
	return sb.String()
}

// gBlockReach is plain forward reachability over blocks from start (inclusive)
// without traversing cut edges; blocks ending in a never-returning call do not
// continue.
func gBlockReach(start *ssa.BasicBlock, cut []Edge) map[*ssa.BasicBlock]bool {
	cutSet := map[Edge]bool{}
	for _, e := range cut {
		cutSet[e] = true
	}
	seen := map[*ssa.BasicBlock]bool{start: true}
	work := []*ssa.BasicBlock{start}
	for len(work) > 0 {
		b := work[0]
		work = work[1:]
		stop := false
		for _, in := range b.Instrs {
			if noReturnCall(in) {
				stop = true
			}
		}
		if stop {
			continue
		}
		for i, s := range b.Succs {
			if cutSet[Edge{b, i}] || seen[s] {
				continue
			}
			seen[s] = true
			work = append(work, s)
		}
	}
	return seen
}

// gForAll decides the "for every element: test, else fail" idiom for the If
// that ends block tb and whose failing edge is successor fe:
// reached: an effect reachable through the failing edge (nil when none; edges
// in cut are not traversed); header: the loop header (a block ending in If that
// dominates tb and every effect and is reachable again from tb), nil if none.
func gForAll(tb *ssa.BasicBlock, fe int, effects []ssa.Instruction, cut []Edge) (reached ssa.Instruction, header *ssa.BasicBlock) {
	seen := gBlockReach(tb.Succs[fe], cut)
	for _, e := range effects {
		if seen[e.Block()] {
			reached = e
			break
		}
	}
	back := gBlockReach(tb, nil)
	for h := tb.Idom(); h != nil; h = h.Idom() {
		if _, ok := h.Instrs[len(h.Instrs)-1].(*ssa.If); !ok || !back[h] {
			continue
		}
		all := true
		for _, e := range effects {
			if !h.Dominates(e.Block()) {
				all = false
			}
		}
		if all {
			header = h
			break
		}
	}
	return
}

// gIfs returns the blocks of fn ending in an If whose (negation-normalised)
// condition matches g, with the index of the failing successor.
func gIfs(fn *ssa.Function, g Guard) (blocks []*ssa.BasicBlock, failIdx []int) {
	for _, b := range fn.Blocks {
		iff, ok := b.Instrs[len(b.Instrs)-1].(*ssa.If)
		if !ok {
			continue
		}
		cond, neg := condOf(iff.Cond)
		m, passTrue := g.Match(cond)
		if !m {
			continue
		}
		if neg {
			passTrue = !passTrue
		}
		blocks = append(blocks, b)
		if passTrue {
			failIdx = append(failIdx, 1)
		} else {
			failIdx = append(failIdx, 0)
		}
	}
	return
}

// gSuccessReturns is SuccessReturns minus the returns that hand back an error
// value which a dominating `v != nil` test proves non-nil (SuccessReturns does
// not apply that test to results of calls through function values).
func gSuccessReturns(fn *ssa.Function) []ssa.Instruction {
	idx := errResultIndex(fn)
	var out []ssa.Instruction
	for _, r := range SuccessReturns(fn) {
		ret := r.(*ssa.Return)
		if idx >= 0 && idx < len(ret.Results) && gNonNilHere(ret.Results[idx], ret.Block()) {
			continue
		}
		out = append(out, r)
	}
	return out
}

// gNonNilHere: block at is dominated by the non-nil edge of a nil test on v.
func gNonNilHere(v ssa.Value, at *ssa.BasicBlock) bool {
	for _, b := range at.Parent().Blocks {
		iff, ok := b.Instrs[len(b.Instrs)-1].(*ssa.If)
		if !ok {
			continue
		}
		cond, neg := condOf(iff.Cond)
		bo, ok := cond.(*ssa.BinOp)
		if !ok || (bo.Op != token.NEQ && bo.Op != token.EQL) {
			continue
		}
		var other ssa.Value
		switch v {
		case bo.X:
			other = bo.Y
		case bo.Y:
			other = bo.X
		default:
			continue
		}
		if !IsNil(other) {
			continue
		}
		succ := b.Succs[1]
		if (bo.Op == token.NEQ) != neg {
			succ = b.Succs[0]
		}
		if len(succ.Preds) == 1 && succ.Dominates(at) {
			return true
		}
	}
	return false
}

// gLitFields returns, for a local that holds a struct built field by field
// (composite literal), the value stored into each field; nil when the local is
// also written as a whole.
func gLitFields(a *ssa.Alloc) map[*types.Var]ssa.Value {
	out := map[*types.Var]ssa.Value{}
	for _, r := range *a.Referrers() {
		switch y := r.(type) {
		case *ssa.FieldAddr:
			f := structField(y.X.Type(), y.Field)
			for _, r2 := range *y.Referrers() {
				if st, ok := r2.(*ssa.Store); ok && st.Addr == ssa.Value(y) {
					if _, dup := out[f]; dup {
						return nil
					}
					out[f] = st.Val
				}
			}
		case *ssa.Store:
			if y.Addr == ssa.Value(a) {
				return nil
			}
		}
	}
	return out
}

// gGrantingReturns are the success returns that hand back something other
// than zero values in their non-error results.
func gGrantingReturns(fn *ssa.Function) []ssa.Instruction {
	idx := errResultIndex(fn)
	var out []ssa.Instruction
	for _, r := range gSuccessReturns(fn) {
		ret := r.(*ssa.Return)
		zero := true
		for i, v := range ret.Results {
			if i == idx {
				continue
			}
			k, ok := v.(*ssa.Const)
			if !ok {
				zero = false
				break
			}
			if k.Value != nil {
				if n, isInt := gConstInt(k); !isInt || n != 0 {
					zero = false
				}
			}
		}
		if !zero {
			out = append(out, r)
		}
	}
	return out
}
