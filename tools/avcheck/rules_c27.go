package main

import (
	"go/token"
	"go/types"

	"golang.org/x/tools/go/ssa"
)

func init() {
	register(&Prop{
		ID:       "C27",
		Patterns: []string{"./ledger/eval", "./ledger/apply"},
		Run:      runC27,
		Explanation: "Decides that the validators of the two participation-update lists test every listed account against the stated criteria before the block's effects are applied: " +
			"R27.1 validateExpiredOnlineAccounts (validate mode) returns nil only if len(ExpiredParticipationAccounts)<=proto.MaxProposedExpiredOnlineAccounts, and its per-element loop over that very list proceeds to the next element only if the address was not seen before (and is then recorded in the seen-set), eval.state.lookup(addr) succeeded, the looked-up VoteID is non-empty and VoteLastValid<eval.Round(). " +
			"R27.2 validateAbsentOnlineAccounts: length<=proto.Payouts.MaxMarkAbsent; per element: not seen before (recorded), lookup succeeded, Status==Online, !MicroAlgos.IsZero(), IncentiveEligible, lookupAgreement succeeded, and isAbsent(onlineStake(), oad.VotingStake(), acct.LastSeen(), eval.Round()) or FindChallenge(proto.Payouts, eval.Round(), state, ChActive).Failed(addr, acct.LastSeen()) — each computed for the current element; a failed onlineStake() lets only an empty list pass. " +
			"R27.3 endOfBlock calls resetExpiredOnlineAccountsParticipationKeys only after validateExpiredOnlineAccounts()==nil and suspendAbsentAccounts only after validateAbsentOnlineAccounts()==nil, and returns nil only after both validators returned nil; the two validators' only early `return nil` is under !eval.validate; the reset/suspend loops range over the same two lists; these four functions have no other callers. " +
			"R27.4 (proposer ⊆ validator) in generateKnockOfflineAccountsList an address is appended to ExpiredParticipationAccounts only under !VoteID.IsEmpty(), VoteLastValid<current and len<MaxProposedExpiredOnlineAccounts, and to AbsentParticipationAccounts only under Status==Online, IncentiveEligible, non-zero balance, isAbsent(…)||ch.Failed(…) and len<MaxMarkAbsent. " +
			"R27.5 isAbsent returns a non-false value only as lastSeen+Round(Muldiv(absentFactor,totalOnlineStake.Raw,acctStake.Raw)) < current, with the Muldiv overflow flag false, lastSeen!=0 and acctStake.Raw!=0 (the stake-proportional rule's shape). " +
			"Does NOT decide: the value of absentFactor or the arithmetic, challenge.Failed/FindChallenge internals, completeness of the lists (by design the protocol does not require it), that eval.state.lookup reflects end-of-block state, nor heartbeat transaction handling.",
		Assumptions: []string{"eval.state.lookup/lookupAgreement return the end-of-round account state", "apply.challenge.Failed implements the challenge rule"},
		Floor:       map[string]int{"R27.1": 7, "R27.2": 11, "R27.3": 12, "R27.4": 9, "R27.5": 5},
	})
}

func eFieldByName(t types.Type, name string) *types.Var {
	st, ok := derefStruct(t)
	if !ok {
		return nil
	}
	for i := 0; i < st.NumFields(); i++ {
		if st.Field(i).Name() == name {
			return st.Field(i)
		}
	}
	return nil
}

func runC27(c *Ctx) {
	defer eGuardRun(c, "C27")
	const ev = "ledger/eval."
	const be = ev + "BlockEvaluator."
	fExpired := c.Field("data/bookkeeping.ParticipationUpdates.ExpiredParticipationAccounts")
	fAbsent := c.Field("data/bookkeeping.ParticipationUpdates.AbsentParticipationAccounts")
	fMaxExpired := c.Field("config.ConsensusParams.MaxProposedExpiredOnlineAccounts")
	fMaxAbsent := c.Field("config.ProposerPayoutRules.MaxMarkAbsent")
	fValidate := c.Field(be + "validate")
	fGenerate := c.Field(be + "generate")
	fVoteID := c.Field("data/basics.VotingData.VoteID")
	fVoteLastValid := c.Field("data/basics.VotingData.VoteLastValid")
	fStatus := c.Field("ledger/ledgercore.AccountBaseData.Status")
	fMicro := c.Field("ledger/ledgercore.AccountBaseData.MicroAlgos")
	fEligible := c.Field("ledger/ledgercore.AccountBaseData.IncentiveEligible")
	kOnline := c.Const("data/basics.Online")
	lookup := c.Func(ev + "roundCowState.lookup")
	lookupAgreement := c.Func(ev + "roundCowState.lookupAgreement")
	onlineStake := c.Func(ev + "roundCowState.onlineStake")
	evalRound := c.Func(be + "Round")
	isEmpty := c.Func("crypto.OneTimeSignatureVerifier.IsEmpty")
	isZero := c.Func("data/basics.MicroAlgos.IsZero")
	fIsAbsent := c.Func(ev + "isAbsent")
	failed := c.Func("ledger/apply.challenge.Failed")
	findChallenge := c.Func("ledger/apply.FindChallenge")
	votingStake := c.Func("data/basics.OnlineAccountData.VotingStake")
	lastSeen := c.Func("ledger/ledgercore.AccountData.LastSeen")
	kChActive := c.Const("ledger/apply.ChActive")

	// per-element descriptors for a validator loop
	type elemCtx struct {
		fn   *ssa.Function
		loop eRangeLoop
		acct *ssa.Alloc // local holding lookup(elem) result
		lk   *ssa.Call
	}
	findLoop := func(rule string, fn *ssa.Function, list *types.Var) (elemCtx, bool) {
		loops := eRangeLoopsOver(fn, eLeafIs(list))
		if len(loops) != 1 {
			c.Unk(rule, fnName(fn)+":range "+list.Name(), c.Pos(fn.Pos()), "expected exactly one loop ranging over block."+list.Name()+", found "+itoa(len(loops)))
			return elemCtx{}, false
		}
		ec := elemCtx{fn: fn, loop: loops[0]}
		for _, call := range eCallsToIn(fn, false, lookup) {
			if ec.loop.Elem(eArgs(call.Common())[0]) {
				ec.lk = call
			}
		}
		if ec.lk == nil {
			c.Bad(rule, fnName(fn)+":lookup(current element)", c.Pos(fn.Pos()), "the loop does not look up the account of the current list element")
			return ec, false
		}
		for _, r := range *ec.lk.Referrers() {
			if e, ok := r.(*ssa.Extract); ok && e.Index == 0 {
				for _, r2 := range *e.Referrers() {
					if st, ok := r2.(*ssa.Store); ok {
						if al, isA := st.Addr.(*ssa.Alloc); isA && len(eWholeStores(al)) == 1 {
							ec.acct = al
						}
					}
				}
			}
		}
		if ec.acct == nil {
			c.Unk(rule, fnName(fn)+":acctData<-lookup(current element)", c.Pos(ec.lk.Pos()), "the looked-up record is not kept in a single-assignment local")
			return ec, false
		}
		return ec, true
	}
	acctField := func(ec elemCtx, leaf *types.Var) VM {
		return func(v ssa.Value) bool {
			root, path, ok := eLoadPath(v)
			return ok && root == ssa.Value(ec.acct) && len(path) > 0 && path[len(path)-1] == leaf
		}
	}
	acctWhole := func(ec elemCtx) VM {
		return func(v ssa.Value) bool { a, ok := eLoadedLocal(v); return ok && a == ec.acct }
	}
	callOn := func(f *types.Func, recv VM) VM { return eMethodCallOn(f, recv) }
	// duplicate detection: seen-set lookup + insertion
	dupGuard := func(rule string, ec elemCtx) {
		site := fnName(ec.fn)
		var lk *ssa.Lookup
		for _, b := range ec.fn.Blocks {
			for _, in := range b.Instrs {
				if l, ok := in.(*ssa.Lookup); ok && l.CommaOk && ec.loop.Elem(l.Index) {
					if _, isMap := l.X.(*ssa.MakeMap); isMap {
						lk = l
					}
				}
			}
		}
		if lk == nil {
			c.Bad(rule, site+":next element<=address not seen before", c.Pos(ec.fn.Pos()), "no seen-set membership test `_, exists := set[addr]` for the current element")
			return
		}
		c.eLoopGuard(rule, site, ec.loop, GBool("address not seen before", func(v ssa.Value) bool { return eExtractOf(v, lk, 1) }, false))
		isIns := func(in ssa.Instruction) bool {
			mu, ok := in.(*ssa.MapUpdate)
			return ok && mu.Map == lk.X && ec.loop.Elem(mu.Key)
		}
		open := ec.loop.OpenBackEdges(nil, isIns)
		c.Check(len(open) == 0 && len(Instrs(ec.fn, isIns)) > 0, rule, site+":next element<=address recorded in seen-set", c.Pos(lk.Pos()), "every iteration inserts the current address into the set that the duplicate test reads")
	}
	lengthGuard := func(rule string, fn *ssa.Function, list, limit *types.Var) {
		lenList := func(v ssa.Value) bool { s, ok := lenOf(v); return ok && eLeafIs(list)(s) }
		c.MustGuard(MustGuardSpec{Rule: rule, Fn: fn, Effects: eSuccessReturns(fn), EffName: "return nil",
			Guards: []Guard{GCmp("len("+list.Name()+")<=proto."+limit.Name(), token.LEQ, lenList, eLeafIs(limit))},
			Bypass: []Guard{GBool("!eval.validate", M(fValidate), false)}})
	}

	// ---- R27.1 expired ----
	vExp := c.Fn(be + "validateExpiredOnlineAccounts")
	if ec, ok := findLoop("R27.1", vExp, fExpired); ok {
		site := fnName(vExp)
		lengthGuard("R27.1", vExp, fExpired, fMaxExpired)
		dupGuard("R27.1", ec)
		c.eLoopGuard("R27.1", site, ec.loop, GErrNil("lookup(addr) err==nil", func(v ssa.Value) bool { return eExtractOf(v, ec.lk, 1) }))
		c.eLoopGuard("R27.1", site, ec.loop, GBool("!acct.VoteID.IsEmpty()", callOn(isEmpty, acctField(ec, fVoteID)), false))
		c.eLoopGuard("R27.1", site, ec.loop, GCmp("acct.VoteLastValid<eval.Round()", token.LSS, acctField(ec, fVoteLastValid), ResultOf(0, evalRound)))
		// the only loop-free path to `return nil` besides !validate is the exhausted range
		c.Check(ec.loop.Header.Dominates(ec.lk.Block()), "R27.1", site+":checks inside the loop over ExpiredParticipationAccounts", c.Pos(ec.lk.Pos()), "the per-account checks run for every element of the list")
	}

	// ---- R27.2 absent ----
	vAbs := c.Fn(be + "validateAbsentOnlineAccounts")
	if ec, ok := findLoop("R27.2", vAbs, fAbsent); ok {
		site := fnName(vAbs)
		lengthGuard("R27.2", vAbs, fAbsent, fMaxAbsent)
		dupGuard("R27.2", ec)
		c.eLoopGuard("R27.2", site, ec.loop, GErrNil("lookup(addr) err==nil", func(v ssa.Value) bool { return eExtractOf(v, ec.lk, 1) }))
		c.eLoopGuard("R27.2", site, ec.loop, GCmp("acct.Status==Online", token.EQL, acctField(ec, fStatus), func(v ssa.Value) bool { return valueIs(v, kOnline) }))
		c.eLoopGuard("R27.2", site, ec.loop, GBool("!acct.MicroAlgos.IsZero()", callOn(isZero, acctField(ec, fMicro)), false))
		c.eLoopGuard("R27.2", site, ec.loop, GBool("acct.IncentiveEligible", acctField(ec, fEligible), true))
		// lookupAgreement(current element)
		var la *ssa.Call
		for _, call := range eCallsToIn(vAbs, false, lookupAgreement) {
			if ec.loop.Elem(eArgs(call.Common())[0]) {
				la = call
			}
		}
		var os *ssa.Call
		if cs := eCallsToIn(vAbs, false, onlineStake); len(cs) == 1 {
			os = cs[0]
		}
		if la == nil || os == nil {
			c.Bad("R27.2", site+":lookupAgreement(addr)/onlineStake()", c.Pos(vAbs.Pos()), "the loop does not fetch the agreement data of the current element, or the total online stake")
		} else {
			c.eLoopGuard("R27.2", site, ec.loop, GErrNil("lookupAgreement(addr) err==nil", func(v ssa.Value) bool { return eExtractOf(v, la, 1) }))
			isLastSeen := callOn(lastSeen, acctWhole(ec))
			isRound := ResultOf(0, evalRound)
			absentCall := func(v ssa.Value) bool {
				call, ok := v.(*ssa.Call)
				if !ok || !sameFunc(calleeOf(call.Common()), fIsAbsent) {
					return false
				}
				a := call.Common().Args
				stake := func(x ssa.Value) bool {
					vs, ok := x.(*ssa.Call)
					return ok && sameFunc(calleeOf(vs.Common()), votingStake) && eExtractOf(eRecv(vs.Common()), la, 0)
				}
				return len(a) == 4 && eExtractOf(a[0], os, 0) && stake(a[1]) && isLastSeen(a[2]) && isRound(a[3])
			}
			failedCall := func(v ssa.Value) bool {
				call, ok := v.(*ssa.Call)
				if !ok || !sameFunc(calleeOf(call.Common()), failed) {
					return false
				}
				a := call.Common().Args // ch, addr, lastSeen
				ch, isCh := a[0].(*ssa.Call)
				if !isCh || !sameFunc(calleeOf(ch.Common()), findChallenge) {
					return false
				}
				ca := ch.Common().Args
				okCh := len(ca) == 4 && isRound(ca[1]) && valueIs(strip(ca[3]), kChActive)
				return okCh && ec.loop.Elem(a[1]) && isLastSeen(a[2])
			}
			c.eLoopGuard("R27.2", site, ec.loop, GAnyOf("isAbsent(onlineStake, oad.VotingStake(), acct.LastSeen(), eval.Round()) || ch.Failed(addr, acct.LastSeen())",
				GBool("isAbsent(…)", absentCall, true), GBool("ch.Failed(…)", failedCall, true)))
			// onlineStake failure: only an empty list may pass
			lenList := func(v ssa.Value) bool { s, ok := lenOf(v); return ok && eLeafIs(fAbsent)(s) }
			edges, n := PassEdges(vAbs, GErrNil("onlineStake() err==nil", func(v ssa.Value) bool { return eExtractOf(v, os, 1) }))
			bp, _ := PassEdges(vAbs, GCmp("len(AbsentParticipationAccounts)<=0", token.LEQ, lenList, IsConstInt(0)))
			open := ec.loop.OpenBackEdges(append(edges, bp...), nil)
			c.Check(n > 0 && len(open) == 0, "R27.2", site+":next element<=onlineStake() err==nil (or empty list)", c.Pos(os.Pos()), "an account is accepted as absent only when the total online stake was available")
		}
		c.Check(ec.loop.Header.Dominates(ec.lk.Block()), "R27.2", site+":checks inside the loop over AbsentParticipationAccounts", c.Pos(ec.lk.Pos()), "the per-account checks run for every element of the list")
	}

	// ---- R27.3 endOfBlock ordering ----
	{
		eob := c.Fn(be + "endOfBlock")
		site := fnName(eob)
		pairs := []struct{ val, act string }{
			{"validateExpiredOnlineAccounts", "resetExpiredOnlineAccountsParticipationKeys"},
			{"validateAbsentOnlineAccounts", "suspendAbsentAccounts"},
		}
		for _, p := range pairs {
			vf, af := c.Func(be+p.val), c.Func(be+p.act)
			vc, ac := eCallsToIn(eob, false, vf), eCallsToIn(eob, false, af)
			if len(vc) != 1 || len(ac) != 1 {
				c.Unk("R27.3", site+":"+p.act+"<="+p.val, c.Pos(eob.Pos()), "expected exactly one call to each of "+p.val+" and "+p.act)
				continue
			}
			g := GErrNil(p.val+"()==nil", IsV(vc[0]))
			c.MustGuard(MustGuardSpec{Rule: "R27.3", Fn: eob, Effects: []ssa.Instruction{ac[0]}, EffName: p.act, Guards: []Guard{g}})
			c.MustGuard(MustGuardSpec{Rule: "R27.3", Fn: eob, Effects: eSuccessReturns(eob), EffName: "return nil", Guards: []Guard{g}})
			c.OwnerRule("R27.3", "call("+p.val+")", c.Uses([]*types.Func{vf}, ScanOpts{SkipGenerated: true}), map[string]string{be + "endOfBlock": "end of block"})
			c.OwnerRule("R27.3", "call("+p.act+")", c.Uses([]*types.Func{af}, ScanOpts{SkipGenerated: true}), map[string]string{be + "endOfBlock": "after its validator"})
		}
		// early `return nil` of the validators only under !validate; appliers range over the same lists
		for _, w := range []struct {
			fn   *ssa.Function
			list *types.Var
		}{{vExp, fExpired}, {vAbs, fAbsent}} {
			loops := eRangeLoopsOver(w.fn, eLeafIs(w.list))
			ok := len(loops) == 1
			if ok {
				// cutting the loop header's exit edge and the !validate edge leaves no nil return
				edges, _ := PassEdges(w.fn, GBool("!eval.validate", M(fValidate), false))
				edges = append(edges, Edge{loops[0].Header, 1})
				r := NewReach(w.fn, edges, nil)
				for _, ret := range eSuccessReturns(w.fn) {
					if r.Reaches(ret) {
						ok = false
					}
				}
			}
			c.Check(ok, "R27.3", fnName(w.fn)+":nil only via !validate or the exhausted list", c.Pos(w.fn.Pos()), "the validator has no other accepting exit")
		}
		for _, w := range []struct {
			fn   string
			list *types.Var
			eff  string
		}{{"resetExpiredOnlineAccountsParticipationKeys", fExpired, "ledger/ledgercore.AccountData.ClearOnlineState"}, {"suspendAbsentAccounts", fAbsent, "ledger/ledgercore.AccountData.Suspend"}} {
			fn := c.Fn(be + w.fn)
			effs := eCallsToIn(fn, false, c.Func(w.eff))
			loops := eRangeLoopsOver(fn, eLeafIs(w.list))
			ok := len(loops) == 1 && len(effs) > 0
			if ok {
				for _, e := range effs {
					if !loops[0].Header.Dominates(e.Block()) {
						ok = false
					}
				}
				// the modified record is that of the current element
				for _, call := range eCallsToIn(fn, false, lookup) {
					if !loops[0].Elem(eArgs(call.Common())[0]) {
						ok = false
					}
				}
			}
			c.Check(ok, "R27.3", be+w.fn+":"+c.Func(w.eff).Name()+" only for elements of "+w.list.Name(), c.Pos(fn.Pos()), "only listed (validated) accounts are knocked offline")
		}
	}

	// ---- R27.4 proposer ⊆ validator ----
	{
		gen := c.Fn(be + "generateKnockOfflineAccountsList")
		site := fnName(gen)
		// the candidate record type is local to the function: resolve its fields from the candidates map
		var cand types.Type
		for _, b := range gen.Blocks {
			for _, in := range b.Instrs {
				if mm, ok := in.(*ssa.MakeMap); ok {
					if mt, ok := mm.Type().Underlying().(*types.Map); ok {
						if _, isStruct := mt.Elem().Underlying().(*types.Struct); isStruct {
							cand = mt.Elem()
						}
					}
				}
			}
		}
		need := func(n string) *types.Var {
			if cand == nil {
				panic(abortRule("candidate record type of generateKnockOfflineAccountsList not found"))
			}
			f := eFieldByName(cand, n)
			if f == nil {
				panic(abortRule("candidate record has no field " + n))
			}
			return f
		}
		cVoteID, cLastValid, cStatus, cBal, cElig := need("VoteID"), need("VoteLastValid"), need("Status"), need("MicroAlgosWithRewards"), need("IncentiveEligible")
		lenList := func(list *types.Var) VM {
			return func(v ssa.Value) bool { s, ok := lenOf(v); return ok && eLeafIs(list)(s) }
		}
		generate := GBool("eval.generate", M(fGenerate), true)
		expStores := StoresToField(gen, false, map[*types.Var]bool{fExpired: true})
		c.MustGuard(MustGuardSpec{Rule: "R27.4", Fn: gen, Effects: expStores, EffName: "append(ExpiredParticipationAccounts)", Guards: []Guard{
			generate,
			GBool("!cand.VoteID.IsEmpty()", callOn(isEmpty, eLeafIs(cVoteID)), false),
			GCmp("cand.VoteLastValid<current", token.LSS, eLeafIs(cLastValid), ResultOf(0, evalRound)),
			GCmp("len(Expired)<proto.MaxProposedExpiredOnlineAccounts", token.LSS, lenList(fExpired), eLeafIs(fMaxExpired)),
		}})
		absStores := StoresToField(gen, false, map[*types.Var]bool{fAbsent: true})
		c.MustGuard(MustGuardSpec{Rule: "R27.4", Fn: gen, Effects: absStores, EffName: "append(AbsentParticipationAccounts)", Guards: []Guard{
			GCmp("cand.Status==Online", token.EQL, eLeafIs(cStatus), func(v ssa.Value) bool { return valueIs(v, kOnline) }),
			GBool("cand.IncentiveEligible", eLeafIs(cElig), true),
			GBool("!cand.MicroAlgosWithRewards.IsZero()", callOn(isZero, eLeafIs(cBal)), false),
			GCmp("len(Absent)<proto.Payouts.MaxMarkAbsent", token.LSS, lenList(fAbsent), eLeafIs(fMaxAbsent)),
			GAnyOf("isAbsent(…)||ch.Failed(…)", GBool("isAbsent", ResultOf(0, fIsAbsent), true), GBool("ch.Failed", ResultOf(0, failed), true)),
		}})
		_ = site
	}

	// ---- R27.5 isAbsent shape ----
	{
		fn := c.Fn(ev + "isAbsent")
		site := fnName(fn)
		pTotal, pStake, pSeen, pCur := fn.Params[0], fn.Params[1], fn.Params[2], fn.Params[3]
		fRaw := c.Field("data/basics.MicroAlgos.Raw")
		muldiv := c.Func("data/basics.Muldiv")
		kFactor := c.Const(ev + "absentFactor")
		var md *ssa.Call
		if cs := eCallsToIn(fn, false, muldiv); len(cs) == 1 {
			md = cs[0]
		}
		if md == nil {
			c.Unk("R27.5", site+":Muldiv", c.Pos(fn.Pos()), "expected exactly one basics.Muldiv call")
		} else {
			a := md.Common().Args
			okArgs := len(a) == 3 && valueIs(strip(a[0]), kFactor) && eParamFieldLoad(pTotal, fRaw)(a[1]) && eParamFieldLoad(pStake, fRaw)(a[2])
			c.Check(okArgs, "R27.5", site+":allowableLag=Muldiv(absentFactor,totalOnlineStake.Raw,acctStake.Raw)", c.Pos(md.Pos()), "the tolerated silence is inversely proportional to the account's share of online stake")
			var trueRets []ssa.Instruction
			okShape := true
			for _, r := range eReturnsOf(fn) {
				v := r.Results[0]
				if IsConstBool(false)(v) {
					continue
				}
				trueRets = append(trueRets, r)
				bo, ok := v.(*ssa.BinOp)
				if !ok {
					okShape = false
					continue
				}
				x, y, op := bo.X, bo.Y, bo.Op
				if op == token.GTR {
					x, y, op = y, x, token.LSS
				}
				sum, isSum := x.(*ssa.BinOp)
				if op != token.LSS || !isSum || sum.Op != token.ADD || !eIsParamVal(y, pCur) {
					okShape = false
					continue
				}
				lag := func(v ssa.Value) bool { return eExtractOf(strip(v), md, 0) }
				seen := func(v ssa.Value) bool { return eIsParamVal(v, pSeen) }
				if !((seen(sum.X) && lag(sum.Y)) || (seen(sum.Y) && lag(sum.X))) {
					okShape = false
				}
			}
			c.Check(okShape && len(trueRets) > 0, "R27.5", site+":returns lastSeen+allowableLag<current", c.Pos(fn.Pos()), "the only non-false result compares the last-seen round plus the stake-proportional lag with the current round")
			if len(trueRets) > 0 {
				c.MustGuard(MustGuardSpec{Rule: "R27.5", Fn: fn, Effects: trueRets, EffName: "return lastSeen+lag<current", Guards: []Guard{
					GBool("!overflow(Muldiv)", func(v ssa.Value) bool { return eExtractOf(v, md, 1) }, false),
					GCmp("lastSeen!=0", token.NEQ, func(v ssa.Value) bool { return eIsParamVal(v, pSeen) }, IsConstInt(0)),
					GCmp("acctStake.Raw!=0", token.NEQ, eParamFieldLoad(pStake, fRaw), IsConstInt(0)),
				}})
			}
		}
	}
	eDump(c)
}
