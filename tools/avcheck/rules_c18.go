package main

import (
	"fmt"
	"go/token"
	"go/types"
	"sort"
	"strings"

	"golang.org/x/tools/go/ssa"
)

func init() {
	register(&Prop{
		ID:       "C18",
		Patterns: []string{"./ledger/eval", "./ledger/apply", "./data/transactions/logic"},
		Run:      runC18,
		Explanation: "Decides that Algos move only through one balanced primitive and that every evaluated block passes the conservation check. " +
			"R18.1 the MicroAlgos field of ledgercore.AccountBaseData / basics.AccountData (including writes to its .Raw and struct literals naming it) is written, in ledger/eval, ledger/apply, data/transactions/logic, ledger/ledgercore and data/basics, only by roundCowState.Move, StartEvaluator (rewards-pool withdrawal), the two WithUpdatedRewards and the field-by-field copy constructors; any new writer fails for review. " +
			"R18.2 roundCowState.Move debits and credits the same amount: one OSubA(fromBalNew.MicroAlgos, amt) and one OAddA(toBalNew.MicroAlgos, amt) on the amt parameter, results stored back into the record that putAccount(from,…)/putAccount(to,…) then writes, the records come from lookup(from)/lookup(to); each putAccount is dominated by its overflow flag being false; a nil return that skipped either putAccount is possible only through amt.IsZero(). " +
			"R18.3 the conservation check cannot be skipped: CalculateTotals returns nil only past totals.All()==prevTotals.All() and !ot.Overflowed, where totals starts as prevTotals, has ApplyRewards(mods.Hdr.RewardsLevel) applied, and for every index below mods.Accts.Len() gets DelAccount(lookupParent.lookup(addr)) and AddAccount(updated) of the same GetByIdx entry, all on one OverflowTracker; endOfBlock returns nil only past eval.state.CalculateTotals()==nil; Eval returns a non-empty StateDelta and GenerateBlock a block only past endOfBlock()==nil. " +
			"R18.4 overflow discipline where balances are computed (ledger/eval, ledger/apply, ledger/ledgercore, data/basics): the overflow flag of every call of the wrapping helpers OAdd/OSub/OMul/OAddA/OSubA/ODiff/Muldiv/Mul2div is branched on, returned or stored (the two `feesCollected, _ =` sums are tabled with their source comments), and every local OverflowTracker that is used has its Overflowed flag reach a branch after each use. The saturating helpers (MulMicros, FeeForUsage, Micros.Mul/MulInt) and the fee-pricing / rewards-rate code in data/transactions and data/bookkeeping are out of scope (not balances; see C24/C25). " +
			"Does NOT decide: that each apply.* function calls Move with the right parties and amounts (asset/app logic), the DESIGN's R18.5 dispatcher agreement (not a necessary condition for conservation: a divergent dispatcher still moves money only through Move), or the arithmetic inside AccountTotals.",
		Assumptions: []string{"struct copies of whole account records (x = y, Put(addr, record)) carry a balance previously produced by the listed writers"},
		Floor:       map[string]int{"R18.1": 6, "R18.2": 10, "R18.3": 13, "R18.4": 36},
	})
}

func runC18(c *Ctx) {
	const P = "ledger/eval."
	const L = "ledger/ledgercore."

	// ---- R18.1: who writes a balance ----
	{
		fields := c.Fields(L+"AccountBaseData.MicroAlgos", "data/basics.AccountData.MicroAlgos")
		scope := []string{"ledger/eval/...", "ledger/apply", "data/transactions/logic", "ledger/ledgercore", "data/basics"}
		opts := ScanOpts{SkipGenerated: true, OnlyPkgs: scope}
		sites := append(c.FieldWrites(fields, opts), c.dSubFieldWrites(fields, opts)...)
		c.OwnerRule("R18.1", "write(AccountData.MicroAlgos)", sites, map[string]string{
			P + "roundCowState.Move":              "the balanced transfer primitive (R18.2)",
			P + "StartEvaluator":                  "rewards-pool withdrawal for the round's rewards, matched by AccountTotals.ApplyRewards in CalculateTotals",
			L + "AccountData.WithUpdatedRewards":  "pending rewards folded into the balance at the current level",
			"data/basics.AccountData.WithUpdatedRewards": "same, on the basics representation",
			L + "ToAccountData":                   "field-by-field copy basics -> ledgercore",
			L + "AssignAccountData":               "field-by-field copy ledgercore -> basics",
		})
	}

	// ---- R18.2: Move is balanced ----
	{
		mv := c.Fn(P + "roundCowState.Move")
		osuba := c.Func("data/basics.OSubA")
		oadda := c.Func("data/basics.OAddA")
		put := c.Func(P + "roundCowState.putAccount")
		lookup := c.Func(P + "roundCowState.lookup")
		wur := c.Func(L + "AccountData.WithUpdatedRewards")
		isZero := c.Func("data/basics.MicroAlgos.IsZero")
		fMicro := c.Field(L + "AccountBaseData.MicroAlgos")
		pFrom, pTo, pAmt := dParamAt(mv, 0), dParamAt(mv, 1), dParamAt(mv, 2)
		recv := dRecv(mv)

		side := func(name string, op *types.Func, party *ssa.Parameter) (putCall ssa.Instruction) {
			construct := fnName(mv) + ":" + name
			calls := CallsTo(mv, false, op)
			if len(calls) != 1 {
				c.Bad("R18.2", construct, c.Pos(mv.Pos()), fmt.Sprintf("expected exactly one %s call in Move, found %d", op.Name(), len(calls)))
				return nil
			}
			call := calls[0].(*ssa.Call)
			a := call.Common().Args
			rec, f := dAddrPath(strip(a[0]))
			recAlloc, _ := rec.(*ssa.Alloc)
			okOperand := recAlloc != nil && len(f) >= 1 && f[len(f)-1] == fMicro
			okAmt := dIsParam(pAmt)(a[1])
			// result stored back into the same record's MicroAlgos
			okStore := false
			for _, u := range dUsers(call) {
				e, ok := u.(*ssa.Extract)
				if !ok || e.Index != 0 {
					continue
				}
				for _, uu := range dUsers(e) {
					if st, ok := uu.(*ssa.Store); ok && st.Val == ssa.Value(e) {
						r2, f2 := dAddrPath(st.Addr)
						if r2 == rec && len(f2) >= 1 && f2[len(f2)-1] == fMicro {
							okStore = true
						}
					}
				}
			}
			// the record is WithUpdatedRewards(lookup(cs, party))
			okOrigin := false
			if recAlloc != nil {
				for _, s := range localStores(recAlloc) {
					if w, ok := s.(*ssa.Call); ok && sameFunc(calleeOf(w.Common()), wur) {
						if dFlows(w.Common().Args[0], func(v ssa.Value) bool {
							e, ok := v.(*ssa.Extract)
							if !ok || e.Index != 0 {
								return false
							}
							lc, ok := e.Tuple.(*ssa.Call)
							return ok && sameFunc(calleeOf(lc.Common()), lookup) && dIsParam(recv)(lc.Common().Args[0]) && dIsParam(party)(lc.Common().Args[1])
						}, 6) {
							okOrigin = true
						}
					}
				}
			}
			c.Check(okOperand && okAmt, "R18.2", construct+":"+op.Name()+"(record.MicroAlgos, amt)", c.Pos(call.Pos()), fmt.Sprintf("%s must be applied to the local record's MicroAlgos and to Move's amt parameter itself (first operand is the record balance: %v; second operand is amt: %v): otherwise debit and credit can differ", op.Name(), okOperand, okAmt))
			c.dCheck(okStore, "R18.2", construct+":result stored into record.MicroAlgos", c.Pos(call.Pos()), "the checked result replaces the balance of the same local record")
			c.dCheck(okOrigin, "R18.2", construct+":record=WithUpdatedRewards(lookup("+party.Name()+"))", c.Pos(call.Pos()), "the record is the party's current account with pending rewards applied")
			// the put
			var puts []ssa.Instruction
			for _, pc := range CallsTo(mv, false, put) {
				pa := pc.Common().Args
				if len(pa) == 3 && dIsParam(party)(pa[1]) {
					r3, f3 := dAddrPath(strip(pa[2]))
					if r3 == rec && len(f3) == 0 {
						puts = append(puts, pc)
					} else {
						c.Bad("R18.2", construct+":putAccount writes the updated record", c.Pos(pc.Pos()), "putAccount("+party.Name()+", …) does not write the record that received the "+op.Name()+" result")
						return nil
					}
				}
			}
			if len(puts) != 1 {
				c.Bad("R18.2", construct+":putAccount", c.Pos(mv.Pos()), fmt.Sprintf("expected one putAccount(%s, record) call, found %d", party.Name(), len(puts)))
				return nil
			}
			c.dMustGuard(dGuardSpec{Rule: "R18.2", Fn: mv, Effects: puts, EffName: "putAccount(" + party.Name() + ")", Guards: []Guard{
				GBool("!overflow of "+op.Name(), func(v ssa.Value) bool {
					e, ok := v.(*ssa.Extract)
					return ok && e.Index == 1 && e.Tuple == ssa.Value(call)
				}, false)}})
			return puts[0]
		}
		putFrom := side("debit", osuba, pFrom)
		putTo := side("credit", oadda, pTo)
		amtZero := GBool("amt.IsZero()", func(v ssa.Value) bool {
			call, ok := v.(*ssa.Call)
			return ok && sameFunc(calleeOf(call.Common()), isZero) && dIsParam(pAmt)(call.Common().Args[0])
		}, true)
		for _, x := range []struct {
			name string
			put  ssa.Instruction
		}{{"debit", putFrom}, {"credit", putTo}} {
			if x.put == nil {
				continue
			}
			p := x.put
			c.dMustGuard(dGuardSpec{Rule: "R18.2", Fn: mv, Effects: dSuccessReturns(mv), EffName: "return nil without the " + x.name, Stop: func(in ssa.Instruction) bool { return in == p },
				Guards: []Guard{amtZero}})
		}
	}

	// ---- R18.3: the conservation check ----
	{
		ct := c.Fn(P + "roundCowState.CalculateTotals")
		fCT := c.Func(P + "roundCowState.CalculateTotals")
		all := c.Func(L + "AccountTotals.All")
		applyRewards := c.Func(L + "AccountTotals.ApplyRewards")
		del := c.Func(L + "AccountTotals.DelAccount")
		add := c.Func(L + "AccountTotals.AddAccount")
		getByIdx := c.Func(L + "AccountDeltas.GetByIdx")
		lenFn := c.Func(L + "AccountDeltas.Len")
		parentLookup := c.Func(P + "roundCowParent.lookup")
		fPrev := c.Field(P + "roundCowState.prevTotals")
		fMods := c.Field(P + "roundCowState.mods")
		fAccts := c.Field(L + "StateDelta.Accts")
		fHdr := c.Field(L + "StateDelta.Hdr")
		fLevel := c.Field("data/bookkeeping.RewardsState.RewardsLevel")
		fOverflowed := c.Field("data/basics.OverflowTracker.Overflowed")
		fLookupParent := c.Field(P + "roundCowState.lookupParent")
		recv := dRecv(ct)
		onRecv := func(fields ...*types.Var) VM {
			return func(v ssa.Value) bool {
				r, f := dAddrPath(strip(v))
				if r != ssa.Value(recv) || len(f) != len(fields) {
					return false
				}
				for i := range f {
					if f[i] != fields[i] {
						return false
					}
				}
				return true
			}
		}
		// the running totals local
		var totals *ssa.Alloc
		for _, ci := range CallsTo(ct, false, applyRewards) {
			totals, _ = ci.Common().Args[0].(*ssa.Alloc)
		}
		okInit := totals != nil
		if okInit {
			st := localStores(totals)
			okInit = len(st) == 1 && onRecv(fPrev)(st[0])
		}
		c.dCheck(okInit, "R18.3", fnName(ct)+":totals starts as prevTotals", c.Pos(ct.Pos()), "the running totals are a copy of the previous round's totals, assigned once")
		var ot ssa.Value
		okAR := false
		for _, ci := range CallsTo(ct, false, applyRewards) {
			a := ci.Common().Args
			r, f := dAddrPath(strip(a[1]))
			okAR = len(a) == 3 && r == ssa.Value(recv) && len(f) >= 3 && f[0] == fMods && f[1] == fHdr && f[len(f)-1] == fLevel
			ot = a[2]
		}
		c.dCheck(okAR, "R18.3", fnName(ct)+":ApplyRewards(mods.Hdr.RewardsLevel)", c.Pos(ct.Pos()), "pending rewards are added to the totals at the block's rewards level")
		succ := dSuccessReturns(ct)
		if totals != nil {
			isTotalsAll := func(v ssa.Value) bool {
				call, ok := v.(*ssa.Call)
				return ok && sameFunc(calleeOf(call.Common()), all) && call.Common().Args[0] == ssa.Value(totals)
			}
			isPrevAll := func(v ssa.Value) bool {
				call, ok := v.(*ssa.Call)
				return ok && sameFunc(calleeOf(call.Common()), all) && onRecv(fPrev)(call.Common().Args[0])
			}
			c.dMustGuard(dGuardSpec{Rule: "R18.3", Fn: ct, Effects: succ, EffName: "return nil", Guards: []Guard{
				GCmp("totals.All()==prevTotals.All()", token.EQL, isTotalsAll, isPrevAll),
				GBool("!ot.Overflowed", func(v ssa.Value) bool {
					r, f := dAddrPath(strip(v))
					return ot != nil && r == ot && len(f) == 1 && f[0] == fOverflowed
				}, false),
			}})
			// the loop body: Del(previous) and Add(updated) of the same entry, for every index
			dels, adds := CallsTo(ct, false, del), CallsTo(ct, false, add)
			okLoop := len(dels) == 1 && len(adds) == 1
			detail := "DelAccount(lookupParent.lookup(addr)) and AddAccount(updated) of the same GetByIdx(i) entry, i < mods.Accts.Len(), on the same totals and tracker"
			if okLoop {
				d, a := dels[0].Common().Args, adds[0].Common().Args
				var gb *ssa.Call
				if e, ok := a[2].(*ssa.Extract); ok && e.Index == 1 {
					gb, _ = e.Tuple.(*ssa.Call)
				}
				okLoop = gb != nil && sameFunc(calleeOf(gb.Common()), getByIdx) && onRecv(fMods, fAccts)(gb.Common().Args[0]) &&
					d[0] == ssa.Value(totals) && a[0] == ssa.Value(totals) && d[3] == ot && a[3] == ot && dels[0].Block() == adds[0].Block()
				if okLoop {
					// previous = lookupParent.lookup(addr of the same entry)
					e, ok := d[2].(*ssa.Extract)
					okLoop = ok && e.Index == 0
					if okLoop {
						lc, ok := e.Tuple.(*ssa.Call)
						okLoop = ok && sameFunc(calleeOf(lc.Common()), parentLookup) && onRecv(fLookupParent)(lc.Common().Value)
						if okLoop {
							ae, ok := lc.Common().Args[0].(*ssa.Extract)
							okLoop = ok && ae.Index == 0 && ae.Tuple == ssa.Value(gb)
						}
					}
				}
				if okLoop {
					// index runs to Len(mods.Accts)
					okLoop = false
					for h := range dBackEdges(ct) {
						if iff, ok := h.Instrs[len(h.Instrs)-1].(*ssa.If); ok {
							if bo, ok := iff.Cond.(*ssa.BinOp); ok && bo.Op == token.LSS && bo.X == gb.Common().Args[1] {
								if lc, ok := bo.Y.(*ssa.Call); ok && sameFunc(calleeOf(lc.Common()), lenFn) && onRecv(fMods, fAccts)(lc.Common().Args[0]) && h.Succs[0].Dominates(dels[0].Block()) {
									okLoop = true
									// nil only after the loop exit
									for _, s := range succ {
										if !h.Succs[1].Dominates(s.Block()) {
											okLoop = false
											detail = "a nil return is reachable without running the accounts loop to its end"
										}
									}
								}
							}
						}
					}
				}
			} else {
				detail = fmt.Sprintf("expected one DelAccount and one AddAccount call, found %d/%d", len(dels), len(adds))
			}
			if !okLoop && strings.HasPrefix(detail, "DelAccount(lookupParent") {
				detail = "the code no longer establishes: " + detail
			}
			c.Check(okLoop, "R18.3", fnName(ct)+":every modified account is replaced in the totals", c.Pos(ct.Pos()), detail)
		}
		// callers honour it
		fState := c.Field(P + "BlockEvaluator.state")
		eob := c.Fn(P + "BlockEvaluator.endOfBlock")
		c.dMustGuard(dGuardSpec{Rule: "R18.3", Fn: eob, Effects: dSuccessReturns(eob), EffName: "return nil", Guards: []Guard{
			GErrNil("eval.state.CalculateTotals()==nil", func(v ssa.Value) bool {
				call, ok := v.(*ssa.Call)
				return ok && sameFunc(calleeOf(call.Common()), fCT) && dPath(fState)(call.Common().Args[0])
			})}})
		c.OwnerRule("R18.3", "call(roundCowState.CalculateTotals)", c.Uses([]*types.Func{fCT}, ScanOpts{SkipGenerated: true, OnlyPkgs: []string{"ledger/eval/..."}}), map[string]string{
			P + "BlockEvaluator.endOfBlock": "end of every evaluated block",
		})
		fEOB := c.Func(P + "BlockEvaluator.endOfBlock")
		ev := c.Fn(P + "Eval")
		var withDeltas []ssa.Instruction
		for _, r := range ReturnsWhere(ev, 0, func(v ssa.Value) bool {
			k, isK := v.(*ssa.Const)
			return !(isK && k.Value == nil)
		}) {
			if ev.Recover != r.Block() {
				withDeltas = append(withDeltas, r)
			}
		}
		c.dMustGuard(dGuardSpec{Rule: "R18.3", Fn: ev, Effects: withDeltas, EffName: "return non-empty StateDelta", Guards: []Guard{GErrNil("endOfBlock()==nil", dResultVia(0, fEOB))}})
		gb := c.Fn(P + "BlockEvaluator.GenerateBlock")
		c.dMustGuard(dGuardSpec{Rule: "R18.3", Fn: gb, Effects: dSuccessReturns(gb), EffName: "return block", Guards: []Guard{GErrNil("endOfBlock()==nil", dResultOf(0, fEOB))}})
		c.OwnerRule("R18.3", "call(BlockEvaluator.endOfBlock)", c.Uses([]*types.Func{fEOB}, ScanOpts{SkipGenerated: true, OnlyPkgs: []string{"ledger/eval/..."}}), map[string]string{
			P + "Eval":                         "validation / replay",
			P + "BlockEvaluator.GenerateBlock": "proposal",
			P + "BlockEvaluator.ProcessBlockForIndexer": "indexer replay (validate=generate=false)",
		})
		pbi := c.Fn(P + "BlockEvaluator.ProcessBlockForIndexer")
		c.dMustGuard(dGuardSpec{Rule: "R18.3", Fn: pbi, Effects: dSuccessReturns(pbi), EffName: "return deltas", Guards: []Guard{GErrNil("endOfBlock()==nil", dResultVia(0, fEOB))}})
	}

	// ---- R18.4: overflow flags are looked at ----
	{
		scope := map[string]bool{"ledger/eval": true, "ledger/apply": true, "ledger/ledgercore": true, "data/basics": true}
		flagged := map[string]bool{}
		for _, n := range []string{"OAdd", "OSub", "OMul", "OAddA", "OSubA", "ODiff", "Muldiv", "Mul2div", "muldiv"} {
			if o := c.TryObj("data/basics." + n); o != nil {
				flagged[funcObjName(o.(*types.Func))] = true
			}
		}
		exempt := map[string]string{
			P + "roundCowState.takeFee:data/basics.OAddA":        "source: overflow impossible, these sum the fees actually paid and max supply is uint64",
			P + "roundCowState.commitToParent:data/basics.OAddA": "source: no overflow because max supply is uint64, can't exceed that in fees paid",
		}
		trackerT := c.Named("data/basics.OverflowTracker")
		fOverflowed := c.Field("data/basics.OverflowTracker.Overflowed")
		var paths []string
		for p := range c.SSAPkg {
			if scope[relPkg(p)] {
				paths = append(paths, p)
			}
		}
		sort.Strings(paths)
		for _, p := range paths {
			for _, fn := range c.funcsOf(p) {
				// (a) flag-returning helpers
				for _, b := range fn.Blocks {
					for _, in := range b.Instrs {
						call, ok := in.(*ssa.Call)
						if !ok {
							continue
						}
						f := calleeOf(call.Common())
						if f == nil || !flagged[funcObjName(f)] {
							continue
						}
						sig := f.Type().(*types.Signature)
						flagIdx := sig.Results().Len() - 1
						construct := fnName(fn) + ":" + funcObjName(f)
						used := false
						for _, u := range dUsers(call) {
							if e, ok := u.(*ssa.Extract); ok && e.Index == flagIdx && dFeedsBranch(e, 0) {
								used = true
							}
						}
						switch {
						case used:
							c.Ok("R18.4", construct, c.Pos(call.Pos()), "overflow flag is branched on, returned or stored")
						case exempt[construct] != "":
							c.Ok("R18.4", construct, c.Pos(call.Pos()), "flag discarded, tabled: "+exempt[construct])
						default:
							c.Bad("R18.4", construct, c.Pos(call.Pos()), fmt.Sprintf("%s discards the overflow flag of %s (blank-assigned or never tested): a wrapped balance/fee would be used as if exact", fnName(fn), funcObjName(f)))
						}
					}
				}
				// (b) local OverflowTrackers
				for _, b := range fn.Blocks {
					for _, in := range b.Instrs {
						a, ok := in.(*ssa.Alloc)
						if !ok {
							continue
						}
						pt, _ := a.Type().(*types.Pointer)
						nt, _ := types.Unalias(pt.Elem()).(*types.Named)
						if nt == nil || nt.Origin() != trackerT.Origin() {
							continue
						}
						var uses []ssa.Instruction
						var tests []ssa.Instruction
						for _, u := range dUsers(a) {
							switch x := u.(type) {
							case *ssa.FieldAddr:
								if structField(x.X.Type(), x.Field) == fOverflowed {
									for _, uu := range dUsers(x) {
										if ld, ok := uu.(*ssa.UnOp); ok && ld.Op == token.MUL && dFeedsBranch(ld, 0) {
											tests = append(tests, ld)
										}
									}
								}
							case ssa.CallInstruction:
								uses = append(uses, x)
							}
						}
						if len(uses) == 0 {
							continue
						}
						construct := fnName(fn) + ":OverflowTracker(" + a.Comment + ")"
						okT := len(tests) > 0
						var badUse ssa.Instruction
						for _, u := range uses {
							fw := dReachableFrom(u)
							reach := false
							for _, t := range tests {
								if fw.Reaches(t) {
									reach = true
								}
							}
							if !reach {
								okT = false
								badUse = u
							}
						}
						if okT {
							c.Ok("R18.4", construct, c.Pos(a.Pos()), fmt.Sprintf("%d tracked operation(s), each followed by a test of Overflowed", len(uses)))
						} else {
							pos := a.Pos()
							what := "the tracker's Overflowed flag is never tested"
							if badUse != nil {
								pos = badUse.Pos()
								what = "the tracked operation at " + c.Pos(badUse.Pos()) + " is not followed by any test of Overflowed"
							}
							c.Bad("R18.4", construct, c.Pos(pos), fnName(fn)+": "+what+": an overflow there would go unnoticed")
						}
					}
				}
			}
		}
	}
	dDumpObs(c)
}
