package main

import (
	"go/types"

	"golang.org/x/tools/go/ssa"
)

// R42.6: the compressor accepts only what the decompressor reproduces.
//
// Found by an independent audit of C42 on the pinned tree (repaired by a "fix:"
// commit; see known_findings.json and DESIGN §7). The stateless decoder writes
// the fields of a vote in one fixed, canonical key order and the stateful
// decoder re-creates a delta-coded round in its minimal msgpack width. The
// encoders, however, accepted any msgpack the vote decodes from:
// parseMsgpVote walked the keys of the rawVote and proposalValue maps in the
// order they arrived (never comparing a key with the previous one), so
// r={rnd:100, per:7,…} compressed without error and came out as {per:100,
// rnd:7,…} — a silently different vote — and a duplicated key produced a frame
// that cannot be decompressed; StatefulEncoder.Compress replaced a round
// encoded wider than necessary by a delta code, which comes back narrower.
func init() {
	extend("C42", Extension{
		Run:         ruleParserEnforcesCanonicalForm,
		Explanation: "R42.6 (the encoders reject what the decoders cannot reproduce byte for byte): (a) every loop of vpack.parseMsgpVote that reads map keys (msgpVoteParser.readString inside a loop) compares each key with the key of the previous iteration (bytes.Compare or a string comparison with a loop-carried value), so only strictly increasing — canonical, duplicate-free — key sequences are accepted; (b) StatefulEncoder.Compress compares the width of the round literal with that of its minimal encoding (a len(...) comparison involving the result of msgp.AppendUint64) before it may replace the literal by a delta code. Votes the node itself sends are canonical (agreement re-encodes them), which is why honest traffic never showed it.",
		Floor:       map[string]int{"R42.6": 3},
	})
}

func ruleParserEnforcesCanonicalForm(c *Ctx) {
	const rule = "R42.6"
	parse := c.Fn("network/vpack.parseMsgpVote")
	readString := c.Func("network/vpack.msgpVoteParser.readString")
	n := 0
	for _, l := range naturalLoops(parse) {
		var keyReads []*ssa.Call
		for b := range l.blocks {
			for _, in := range b.Instrs {
				if call, ok := in.(*ssa.Call); ok && sameFunc(calleeOf(call.Common()), readString) {
					keyReads = append(keyReads, call)
				}
			}
		}
		if len(keyReads) == 0 {
			continue
		}
		for i := range keyReads { // deterministic choice of the reported position
			if keyReads[i].Pos() < keyReads[0].Pos() {
				keyReads[0], keyReads[i] = keyReads[i], keyReads[0]
			}
		}
		// innermost loop only: skip an outer loop whose key reads all sit in a nested loop of their own
		nested := false
		for _, l2 := range naturalLoops(parse) {
			if l2 != l && l.blocks[l2.header] && len(l2.blocks) < len(l.blocks) {
				all := true
				for _, k := range keyReads {
					if !l2.blocks[k.Block()] {
						all = false
					}
				}
				if all {
					nested = true
				}
			}
		}
		if nested {
			continue
		}
		n++
		// a comparison inside the loop one operand of which is loop-carried (a header phi of slice or string type)
		ordered := false
		for b := range l.blocks {
			for _, in := range b.Instrs {
				var ops []ssa.Value
				switch x := in.(type) {
				case *ssa.Call:
					if cal := calleeOf(x.Common()); cal != nil && cal.Pkg() != nil && cal.Pkg().Path() == "bytes" && (cal.Name() == "Compare" || cal.Name() == "Equal") {
						ops = x.Call.Args
					}
				case *ssa.BinOp:
					if bt, isB := x.X.Type().Underlying().(*types.Basic); isB && bt.Info()&types.IsString != 0 {
						ops = []ssa.Value{x.X, x.Y}
					}
				}
				for _, o := range ops {
					walkDef(o, 4, func(y ssa.Value) bool {
						if p, isPhi := y.(*ssa.Phi); isPhi && p.Block() == l.header {
							ordered = true
						}
						return !ordered
					})
				}
			}
		}
		c.Check(ordered, rule, "network/vpack.parseMsgpVote:key loop #"+itoa(n)+" compares each key with the previous one", c.Pos(keyReads[0].Pos()),
			"the decoder emits the fields in one fixed order; a key sequence that is not strictly increasing cannot be reproduced and must be refused")
	}
	if n == 0 {
		c.Unk(rule, "network/vpack.parseMsgpVote:key loops", c.Pos(parse.Pos()), "no loop reading map keys found")
	}
	// (b) minimal-width test of the round literal
	comp := c.Fn("network/vpack.StatefulEncoder.Compress")
	minimal := false
	for _, b := range comp.Blocks {
		for _, in := range b.Instrs {
			bo, ok := in.(*ssa.BinOp)
			if !ok {
				continue
			}
			for _, side := range []ssa.Value{bo.X, bo.Y} {
				if x, isLen := lenOf(strip(side)); isLen {
					walkDef(x, 4, func(y ssa.Value) bool {
						if call, isCall := y.(*ssa.Call); isCall {
							if cal := calleeOf(call.Common()); cal != nil && cal.Name() == "AppendUint64" {
								minimal = true
							}
						}
						return !minimal
					})
				}
			}
		}
	}
	c.Check(minimal, rule, "network/vpack.StatefulEncoder.Compress:round literal is minimal before it is delta-coded", c.Pos(comp.Pos()),
		"the decoder re-creates a delta-coded round with msgp.AppendUint64 (minimal width); the encoder compares the literal's width with that encoding")
}
