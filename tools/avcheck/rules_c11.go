package main

import (
	"fmt"
	"go/token"
	"go/types"

	"golang.org/x/tools/go/ssa"
)

func init() {
	register(&Prop{
		ID:       "C11",
		Patterns: []string{"./ledger", "./ledger/eval"},
		Run:      runC11,
		Explanation: "Decides the chain of duplicate/lease checks from the evaluator to the transaction tail, and that what the tail persists is what it reloads. " +
			"R11.1 BlockEvaluator.transaction reaches cow.addTx and a nil return only on the err==nil edge of cow.checkDup (bypass: eval.validate false), BlockEvaluator.testTransaction returns nil only on that edge of eval.state.checkDup; both pass the transaction's own (Txn.FirstValid, Txn.LastValid, txn.ID(), Txlease{Txn.Sender, Txn.Lease}); addTx records the same txid value that was checked. " +
			"R11.2 roundCowState.checkDup delegates to lookupParent.checkDup (with its own four parameters in order, returning the parent's result) only after the in-block tests: mods.Txids[txid] absent, and — unless leases are unsupported or the lease is zero — mods.Txleases[txl] absent or expired (Hdr.Round > expires); roundCowBase.checkDup returns LedgerForCowBase.CheckDup(proto, rnd+1, firstValid, lastValid, txid, txl); Ledger.CheckDup returns txTail.checkDup with its six parameters in order. " +
			"R11.3 txTail.checkDup returns nil only if lastValid >= lowWaterMark, lastValid[lastValid][txid] is absent, and — unless leases are unsupported or the lease is zero — the lease loop ran to exhaustion; inside the loop a hit in recent[rnd].txleases[txl] with current <= expires cannot be followed by a nil return. " +
			"R11.5 the fields of trackerdb.TxTailRound that txTail.loadFromDisk reads are all assigned by txTail.newBlock (so TxnIDs, LastValid, Leases, Hdr survive a restart), every struct field is covered by one of the two sides' table, and the three lease recorders use the same predicate: roundCowState.addTx calls AddTxLease, txTail.newBlock appends to tail.Leases and loadFromDisk fills recent[r].txleases only under `Lease != zero`; newBlock stores delta.Txleases into recent[rnd]; txTail.commitRound persists dcc.txTailDeltas with base round oldBase+1 and returns TxtailNewRound's error. " +
			"Does NOT decide: the window arithmetic (firstChecked/lastChecked, MaxTxnLife retention), the pool's own duplicate filters, or lock discipline of the tail (lockset rule R11.4 provided separately).",
		Assumptions: []string{"transactions.SignedTxn.ID() is a collision-free function of the transaction", "msgp encoding of TxTailRound round-trips all exported fields"},
		Floor:       map[string]int{"R11.1": 6, "R11.2": 6, "R11.3": 5, "R11.5": 9},
	})
}

// bIsZeroConst matches the zero constant of an aggregate type ([32]byte{}).
func bIsZeroConst(v ssa.Value) bool {
	k, ok := v.(*ssa.Const)
	if !ok || k.Value != nil {
		return false
	}
	switch k.Type().Underlying().(type) {
	case *types.Array, *types.Struct:
		return true
	}
	return false
}

// bLeaseNonZero is the guard "a value mentioning one of the lease fields is
// != the zero array".
func bLeaseNonZero(name string, leaseFields ...types.Object) Guard {
	return Guard{Name: name, Match: func(cond ssa.Value) (bool, bool) {
		bo, ok := cond.(*ssa.BinOp)
		if !ok || (bo.Op != token.NEQ && bo.Op != token.EQL) {
			return false, false
		}
		for _, pr := range [][2]ssa.Value{{bo.X, bo.Y}, {bo.Y, bo.X}} {
			if bIsZeroConst(pr[1]) && MAny(leaseFields...)(pr[0]) {
				return true, bo.Op == token.NEQ
			}
		}
		return false, false
	}}
}

// bNegate flips the passing edge of a guard.
func bNegate(name string, g Guard) Guard {
	return Guard{Name: name, Match: func(cond ssa.Value) (bool, bool) {
		m, p := g.Match(cond)
		return m, !p
	}}
}

// bMapLookupOK matches the ok flag of a comma-ok lookup whose map operand
// satisfies isMap.
func bMapLookupOK(isMap VM) VM {
	return func(v ssa.Value) bool {
		e, ok := v.(*ssa.Extract)
		if !ok || e.Index != 1 {
			return false
		}
		l, ok := e.Tuple.(*ssa.Lookup)
		return ok && l.CommaOk && isMap(l.X)
	}
}

func runC11(c *Ctx) {
	hdr := func(f string) *types.Var { return c.Field("data/transactions.Header." + f) }
	fTxn := c.Field("data/transactions.SignedTxn.Txn")
	idF := c.Func("data/transactions.SignedTxn.ID")
	fTlSender, fTlLease := c.Field("ledger/ledgercore.Txlease.Sender"), c.Field("ledger/ledgercore.Txlease.Lease")
	cowCheck := c.Func("ledger/eval.roundCowState.checkDup")
	parentCheck := c.Func("ledger/eval.roundCowParent.checkDup")
	addTx := c.Func("ledger/eval.roundCowState.addTx")
	fValidate := c.Field("ledger/eval.BlockEvaluator.validate")
	fSupport := c.Field("config.ConsensusParams.SupportTransactionLeases")
	isCheckErr := func(fns ...*types.Func) VM {
		return func(v ssa.Value) bool { _, ok := asResultOf(bCanon(v), 0, fns...); return ok }
	}

	// ---------------- R11.1 ----------------
	for _, spec := range []struct {
		fn     string
		bypass bool
	}{{"ledger/eval.BlockEvaluator.transaction", true}, {"ledger/eval.BlockEvaluator.testTransaction", false}} {
		fn := c.Fn(spec.fn)
		effects := append(asInstrs(CallsTo(fn, false, addTx)), bSuccessReturns(fn)...)
		var bypass []Guard
		if spec.bypass {
			bypass = []Guard{GBool("!eval.validate", M(fValidate), false)}
		}
		c.MustGuard(MustGuardSpec{Rule: "R11.1", Fn: fn, Effects: effects, EffName: "addTx/return nil",
			Guards: []Guard{GErrNil("checkDup()==nil", isCheckErr(cowCheck, parentCheck))}, Bypass: bypass})
		calls := CallsTo(fn, false, cowCheck, parentCheck)
		if len(calls) != 1 {
			c.Unk("R11.1", spec.fn+":checkDup(args)", c.Pos(fn.Pos()), fmt.Sprintf("expected one checkDup call, found %d", len(calls)))
			continue
		}
		a := callArgs(calls[0].Common()) // recv, firstValid, lastValid, txid, txl
		pTxn := fn.Params[1]
		fHeader := c.Field("data/transactions.Transaction.Header")
		ofTxn := func(v ssa.Value, f *types.Var) bool {
			base, path := bFieldPath(v)
			return base != nil && bCanonParam(base) == ssa.Value(pTxn) && len(path) == 3 && path[0] == fTxn && path[1] == fHeader && path[2] == f
		}
		ok := len(a) == 5 && ofTxn(a[1], hdr("FirstValid")) && ofTxn(a[2], hdr("LastValid"))
		var idCall *ssa.Call
		if ok {
			idCall, ok = asResultOf(bCanon(a[3]), 0, idF)
			if ok {
				ok = Mentions(idCall.Common().Args[0], pTxn.Object(), 8)
			}
		}
		// the lease literal
		if ok {
			u, isLoad := strip(a[4]).(*ssa.UnOp)
			al, isAlloc := (ssa.Value)(nil), false
			if isLoad {
				al, isAlloc = u.X.(*ssa.Alloc)
			}
			ok = isLoad && isAlloc
			if ok {
				nS, nL := 0, 0
				for _, r := range *al.(*ssa.Alloc).Referrers() {
					fa, isFA := r.(*ssa.FieldAddr)
					if !isFA {
						continue
					}
					for _, rr := range *fa.Referrers() {
						st, isSt := rr.(*ssa.Store)
						if !isSt || st.Addr != ssa.Value(fa) {
							continue
						}
						switch structField(fa.X.Type(), fa.Field) {
						case fTlSender:
							nS++
							ok = ok && ofTxn(st.Val, hdr("Sender"))
						case fTlLease:
							nL++
							ok = ok && ofTxn(st.Val, hdr("Lease"))
						}
					}
				}
				ok = ok && nS == 1 && nL == 1
			}
		}
		c.Check(ok, "R11.1", spec.fn+":checkDup(txn.FirstValid,txn.LastValid,txn.ID(),Txlease{txn.Sender,txn.Lease})", c.Pos(calls[0].Pos()), "the duplicate/lease check is asked about this very transaction's validity window, id, sender and lease")
		if adds := CallsTo(fn, false, addTx); len(adds) > 0 {
			same := true
			for _, ad := range adds {
				x := callArgs(ad.Common())
				if c2, isID := asResultOf(bCanon(x[2]), 0, idF); !isID || c2 != idCall {
					same = false
				}
			}
			c.Check(same && idCall != nil, "R11.1", spec.fn+":addTx(txid)==checkDup(txid)", c.Pos(adds[0].Pos()), "the id recorded in the block's Txids is the id that was checked")
		}
	}
	c.OwnerRule("R11.1", "call(roundCowState.addTx)", c.Uses([]*types.Func{addTx}, ScanOpts{SkipGenerated: true}), map[string]string{"ledger/eval.BlockEvaluator.transaction": "after the duplicate check"})

	// ---------------- R11.2 ----------------
	{
		fn := c.Fn("ledger/eval.roundCowState.checkDup")
		name := "ledger/eval.roundCowState.checkDup"
		fTxids := c.Field("ledger/ledgercore.StateDelta.Txids")
		fTxleases := c.Field("ledger/ledgercore.StateDelta.Txleases")
		fHdrRound := c.Field("data/bookkeeping.BlockHeader.Round")
		deleg := CallsTo(fn, false, parentCheck)
		inBlockTx := GBool("mods.Txids[txid] absent", bMapLookupOK(M(fTxids)), false)
		leaseFree := GAnyOf("mods.Txleases[txl] absent or expired",
			GBool("lease absent", bMapLookupOK(M(fTxleases)), false),
			GCmp("Hdr.Round>expires", token.GTR, M(fHdrRound), func(v ssa.Value) bool {
				e, ok := v.(*ssa.Extract)
				if !ok || e.Index != 0 {
					return false
				}
				l, ok := e.Tuple.(*ssa.Lookup)
				return ok && Mentions(l.X, fTxleases, 4)
			}))
		bypass := []Guard{GBool("!SupportTransactionLeases", M(fSupport), false), bNegate("lease==zero", bLeaseNonZero("lease!=zero", fTlLease))}
		c.MustGuard(MustGuardSpec{Rule: "R11.2", Fn: fn, Effects: asInstrs(deleg), EffName: "lookupParent.checkDup", Guards: []Guard{inBlockTx}})
		c.MustGuard(MustGuardSpec{Rule: "R11.2", Fn: fn, Effects: asInstrs(deleg), EffName: "lookupParent.checkDup", Guards: []Guard{leaseFree}, Bypass: bypass})
		okRet, n := len(deleg) == 1, 0
		for _, r := range bSuccessReturns(fn) {
			n++
			if _, ok := asResultOf(bCanon(r.(*ssa.Return).Results[0]), 0, parentCheck); !ok {
				okRet = false
			}
		}
		if okRet {
			a := deleg[0].Common().Args // invoke: args without receiver
			for i := 0; i < 4; i++ {
				if len(a) != 4 || bCanonParam(a[i]) != ssa.Value(fn.Params[1+i]) {
					okRet = false
				}
			}
		}
		c.Check(okRet && n > 0, "R11.2", name+":returns lookupParent.checkDup(firstValid,lastValid,txid,txl)", c.Pos(fn.Pos()), "the only possibly-nil result is the parent's verdict on the same four arguments")
	}
	{
		fn := c.Fn("ledger/eval.roundCowBase.checkDup")
		lcd := c.Func("ledger/eval.LedgerForCowBase.CheckDup")
		calls := CallsTo(fn, false, lcd)
		ok := len(calls) == 1
		if ok {
			a := calls[0].Common().Args // proto, current, firstValid, lastValid, txid, txl
			ok = len(a) == 6 && Mentions(a[0], c.Field("ledger/eval.roundCowBase.proto"), 4)
			if ok {
				lv, pure := bAddLeaves(a[1], nil)
				hasRnd, hasOne, other := false, false, 0
				for l := range lv {
					switch x := l.(type) {
					case structFieldKey:
						if x.f == c.Field("ledger/eval.roundCowBase.rnd") {
							hasRnd = true
						} else {
							other++
						}
					case *ssa.Const:
						if IsConstInt(1)(x) {
							hasOne = true
						} else {
							other++
						}
					default:
						other++
					}
				}
				ok = pure && hasRnd && hasOne && other == 0
			}
			for i := 0; ok && i < 4; i++ {
				if bCanonParam(a[2+i]) != ssa.Value(fn.Params[1+i]) {
					ok = false
				}
			}
			for _, r := range bSuccessReturns(fn) {
				if bCanon(r.(*ssa.Return).Results[0]) != calls[0].Value() {
					ok = false
				}
			}
		}
		c.Check(ok, "R11.2", "ledger/eval.roundCowBase.checkDup:returns l.CheckDup(proto,rnd+1,firstValid,lastValid,txid,txl)", c.Pos(fn.Pos()), "the base of the copy-on-write chain asks the ledger, for the round being built")
	}
	{
		fn := c.Fn("ledger.Ledger.CheckDup")
		tcd := c.Func("ledger.txTail.checkDup")
		calls := CallsTo(fn, false, tcd)
		ok := len(calls) == 1
		if ok {
			a := calls[0].Common().Args // recv + 6
			for i := 0; i < 6; i++ {
				if len(a) != 7 || bCanonParam(a[1+i]) != ssa.Value(fn.Params[1+i]) {
					ok = false
				}
			}
			for _, r := range bSuccessReturns(fn) {
				if bCanon(r.(*ssa.Return).Results[0]) != calls[0].Value() {
					ok = false
				}
			}
		}
		c.Check(ok, "R11.2", "ledger.Ledger.CheckDup:returns txTail.checkDup(same six arguments)", c.Pos(fn.Pos()), "the ledger's answer is the transaction tail's")
		c.OwnerRule("R11.2", "implements(LedgerForCowBase.CheckDup→txTail.checkDup)", c.Uses([]*types.Func{tcd}, ScanOpts{SkipGenerated: true}), map[string]string{"ledger.Ledger.CheckDup": "the only route to the tail"})
	}

	// ---------------- R11.3 ----------------
	{
		fn := c.Fn("ledger.txTail.checkDup")
		name := "ledger.txTail.checkDup"
		fLow := c.Field("ledger.txTail.lowWaterMark")
		fLastValid := c.Field("ledger.txTail.lastValid")
		fRecent := c.Field("ledger.txTail.recent")
		fTxleases := c.Field("ledger.roundLeases.txleases")
		pCurrent, pLastValid := fn.Params[2], fn.Params[4]
		rets := bSuccessReturns(fn)
		isLoopCounter := func(v ssa.Value) bool {
			ph, ok := v.(*ssa.Phi)
			if !ok {
				return false
			}
			for _, e := range ph.Edges {
				if bo, ok := e.(*ssa.BinOp); ok && bo.Op == token.ADD && (bo.X == ssa.Value(ph) && IsConstInt(1)(bo.Y) || bo.Y == ssa.Value(ph) && IsConstInt(1)(bo.X)) {
					return true
				}
			}
			return false
		}
		// the loop bound is the lastValid or the current parameter (on every path)
		var isLoopBound VM
		isLoopBound = func(v ssa.Value) bool {
			v = bCanonParam(v)
			if v == ssa.Value(pLastValid) || v == ssa.Value(pCurrent) {
				return true
			}
			if ph, ok := v.(*ssa.Phi); ok {
				for _, e := range ph.Edges {
					if e == ssa.Value(ph) {
						continue
					}
					ec := bCanonParam(e)
					if ec != ssa.Value(pLastValid) && ec != ssa.Value(pCurrent) {
						return false
					}
				}
				return len(ph.Edges) > 0
			}
			return false
		}
		bypass := []Guard{GBool("!SupportTransactionLeases", M(fSupport), false), bNegate("lease==zero", bLeaseNonZero("lease!=zero", fTlLease))}
		c.MustGuard(MustGuardSpec{Rule: "R11.3", Fn: fn, Effects: rets, EffName: "return nil",
			Guards: []Guard{
				GCmp("lastValid>=lowWaterMark", token.GEQ, bParamVM(pLastValid), M(fLow)),
				GBool("lastValid[lastValid][txid] absent", bMapLookupOK(func(v ssa.Value) bool { return Mentions(v, fLastValid, 6) }), false),
			}})
		c.MustGuard(MustGuardSpec{Rule: "R11.3", Fn: fn, Effects: rets, EffName: "return nil",
			Guards: []Guard{GCmp("lease loop exhausted (rnd>lastChecked)", token.GTR, isLoopCounter, isLoopBound)}, Bypass: bypass})
		// the txid lookup is keyed by the lastValid and txid parameters
		okKey := false
		for _, b := range fn.Blocks {
			for _, in := range b.Instrs {
				l, ok := in.(*ssa.Lookup)
				if !ok || !l.CommaOk {
					continue
				}
				inner, ok := l.X.(*ssa.Lookup)
				if ok && Mentions(inner.X, fLastValid, 4) && bCanonParam(inner.Index) == ssa.Value(pLastValid) && bCanonParam(l.Index) == ssa.Value(fn.Params[5]) {
					okKey = true
				}
			}
		}
		c.Check(okKey, "R11.3", name+":lastValid[lastValid][txid]", c.Pos(fn.Pos()), "the confirmed-transaction lookup is keyed by the lastValid and txid parameters")
		// an active lease cannot be followed by nil
		var leaseLookups []*ssa.Lookup
		for _, b := range fn.Blocks {
			for _, in := range b.Instrs {
				if l, ok := in.(*ssa.Lookup); ok && l.CommaOk && Mentions(l.X, fTxleases, 4) && Mentions(l.X, fRecent, 6) {
					leaseLookups = append(leaseLookups, l)
				}
			}
		}
		if len(leaseLookups) != 1 {
			c.Bad("R11.3", name+":active lease => error", c.Pos(fn.Pos()), fmt.Sprintf("expected one lookup in recent[rnd].txleases, found %d", len(leaseLookups)))
		} else {
			l := leaseLookups[0]
			isOK := func(v ssa.Value) bool { e, ok := v.(*ssa.Extract); return ok && e.Tuple == ssa.Value(l) && e.Index == 1 }
			isExp := func(v ssa.Value) bool { e, ok := v.(*ssa.Extract); return ok && e.Tuple == ssa.Value(l) && e.Index == 0 }
			cut1, n1 := PassEdges(fn, GBool("absent", isOK, false))
			cut2, n2 := PassEdges(fn, GCmp("current>expires", token.GTR, bParamVM(pCurrent), isExp))
			bad := bNoEffectAfter(l, append(cut1, cut2...), nil, rets)
			c.Check(bad == nil && n1 > 0 && n2 > 0 && bCanonParam(l.Index) == ssa.Value(fn.Params[6]), "R11.3", name+":active lease => error", c.Pos(l.Pos()),
				"when recent[rnd].txleases[txl] is present and current <= expires, no nil return is reachable (keyed by the txl parameter)")
		}
	}

	// ---------------- R11.5 ----------------
	{
		tailT := c.Named("ledger/store/trackerdb.TxTailRound")
		st := tailT.Underlying().(*types.Struct)
		nb := c.Fn("ledger.txTail.newBlock")
		lfd := c.Fn("ledger.txTail.loadFromDisk")
		fieldsOf := func(fn *ssa.Function, wantStore bool) map[*types.Var]bool {
			out := map[*types.Var]bool{}
			for _, f := range withAnon(fn) {
				for _, b := range f.Blocks {
					for _, in := range b.Instrs {
						var fld *types.Var
						var addr ssa.Value
						switch x := in.(type) {
						case *ssa.FieldAddr:
							if nt := bNamedOf(x.X.Type()); nt != nil && nt.Origin() == tailT.Origin() {
								fld, addr = structField(x.X.Type(), x.Field), x
							}
						case *ssa.Field:
							if nt := bNamedOf(x.X.Type()); nt != nil && nt.Origin() == tailT.Origin() && !wantStore {
								out[structField(x.X.Type(), x.Field)] = true
							}
						}
						if fld == nil {
							continue
						}
						stored, loaded := false, false
						for _, r := range *addr.Referrers() {
							switch y := r.(type) {
							case *ssa.Store:
								if y.Addr == addr {
									stored = true
								}
							case *ssa.UnOp:
								loaded = true
							case *ssa.FieldAddr, *ssa.IndexAddr:
								loaded = true
							}
						}
						if wantStore && stored || !wantStore && loaded {
							out[fld] = true
						}
					}
				}
			}
			return out
		}
		written := fieldsOf(nb, true)
		read := fieldsOf(lfd, false)
		for i := 0; i < st.NumFields(); i++ {
			f := st.Field(i)
			if f.Name() == "_struct" || !f.Exported() {
				continue
			}
			switch {
			case read[f] && !written[f]:
				c.Bad("R11.5", "trackerdb.TxTailRound."+f.Name()+":persisted⊇reloaded", c.Pos(nb.Pos()), "txTail.loadFromDisk reads TxTailRound."+f.Name()+" but txTail.newBlock never assigns it: the information is lost across a restart")
			case !read[f] && !written[f]:
				c.Bad("R11.5", "trackerdb.TxTailRound."+f.Name()+":persisted⊇reloaded", c.Pos(nb.Pos()), "TxTailRound."+f.Name()+" is neither written by newBlock nor read by loadFromDisk: new field needs review")
			default:
				c.Ok("R11.5", "trackerdb.TxTailRound."+f.Name()+":persisted⊇reloaded", c.Pos(nb.Pos()), fmt.Sprintf("written by newBlock=%v, read by loadFromDisk=%v", written[f], read[f]))
			}
		}
		// the same non-zero-lease predicate at the three recorders
		addTxFn := c.Fn("ledger/eval.roundCowState.addTx")
		c.MustGuard(MustGuardSpec{Rule: "R11.5", Fn: addTxFn, Effects: asInstrs(CallsTo(addTxFn, false, c.Func("ledger/ledgercore.StateDelta.AddTxLease"))), EffName: "mods.AddTxLease",
			Guards: []Guard{bLeaseNonZero("txn.Lease!=zero", hdr("Lease"))}})
		fLeases := c.Field("ledger/store/trackerdb.TxTailRound.Leases")
		c.MustGuard(MustGuardSpec{Rule: "R11.5", Fn: nb, Effects: StoresToField(nb, false, map[*types.Var]bool{fLeases: true}), EffName: "tail.Leases=append(…)",
			Guards: []Guard{bLeaseNonZero("Txn.Lease!=zero", hdr("Lease"))}})
		var upd []ssa.Instruction
		fTxleases := c.Field("ledger.roundLeases.txleases")
		for _, b := range lfd.Blocks {
			for _, in := range b.Instrs {
				if mu, ok := in.(*ssa.MapUpdate); ok && Mentions(mu.Map, fTxleases, 6) {
					upd = append(upd, mu)
				}
			}
		}
		c.MustGuard(MustGuardSpec{Rule: "R11.5", Fn: lfd, Effects: upd, EffName: "recent[r].txleases[key]=…",
			Guards: []Guard{bLeaseNonZero("rlease.Lease!=zero", c.Field("ledger/store/trackerdb.TxTailRoundLease.Lease"))}})
		// the in-memory lease map of a new round is the block's
		okRec := false
		for _, s := range StoresToField(nb, false, map[*types.Var]bool{fTxleases: true}) {
			if Mentions(s.(*ssa.Store).Val, c.Field("ledger/ledgercore.StateDelta.Txleases"), 6) {
				okRec = true
			}
		}
		c.Check(okRec, "R11.5", "ledger.txTail.newBlock:recent[rnd].txleases=delta.Txleases", c.Pos(nb.Pos()), "the leases taken in the new block become visible to checkDup")
		// commitRound persists the prepared deltas
		cm := c.Fn("ledger.txTail.commitRound")
		tnr := c.Func("ledger/store/trackerdb.AccountsWriterExt.TxtailNewRound")
		calls := CallsTo(cm, false, tnr)
		ok := len(calls) == 1
		if ok {
			a := calls[0].Common().Args // ctx, baseRound, roundData, forgetBefore
			lv, pure := bAddLeaves(a[1], nil)
			hasOld, hasOne, other := false, false, 0
			for l := range lv {
				switch x := l.(type) {
				case structFieldKey:
					if x.f == c.Field("ledger.deferredCommitRange.oldBase") {
						hasOld = true
					} else {
						other++
					}
				case *ssa.Const:
					if IsConstInt(1)(x) {
						hasOne = true
					} else {
						other++
					}
				default:
					other++
				}
			}
			ok = len(a) == 4 && pure && hasOld && hasOne && other == 0 && Mentions(a[2], c.Field("ledger.deferredCommitContext.txTailDeltas"), 6)
			_, isNil := bErrEdges(cm, bErrOf(calls[0]))
			if bad := bNoEffectAfter(calls[0], isNil, nil, bSuccessReturns(cm)); bad != nil || len(isNil) == 0 {
				ok = false
			}
		}
		c.Check(ok, "R11.5", "ledger.txTail.commitRound:TxtailNewRound(oldBase+1,dcc.txTailDeltas)", c.Pos(cm.Pos()), "the serialized rounds prepared for this commit are persisted starting at oldBase+1, and a failure is returned")
	}
}

func bNamedOf(t types.Type) *types.Named {
	if p, ok := t.Underlying().(*types.Pointer); ok {
		t = p.Elem()
	}
	if p, ok := t.(*types.Pointer); ok {
		t = p.Elem()
	}
	nt, _ := types.Unalias(t).(*types.Named)
	return nt
}

// bFieldPath decomposes a value that is a (load of a) chain of field
// selections into its base and the selected fields, outermost first. A base
// that is a private local holding a single whole value is returned as a load
// of it, so bCanonParam can map a spilled parameter back to the parameter.
func bFieldPath(v ssa.Value) (ssa.Value, []*types.Var) {
	v = strip(v)
	var path []*types.Var
	cur := v
	if u, ok := cur.(*ssa.UnOp); ok && u.Op == token.MUL {
		cur = u.X
		for {
			fa, ok := cur.(*ssa.FieldAddr)
			if !ok {
				break
			}
			path = append([]*types.Var{structField(fa.X.Type(), fa.Field)}, path...)
			cur = fa.X
		}
		if a, ok := cur.(*ssa.Alloc); ok {
			st, partial := bWholeStores(a)
			if partial || len(st) != 1 {
				return nil, nil
			}
			cur = st[0]
		} else if len(path) > 0 {
			// pointer base: *p.f
			if u2, ok := cur.(*ssa.UnOp); ok && u2.Op == token.MUL {
				cur = u2
			}
		}
	}
	for {
		f, ok := cur.(*ssa.Field)
		if !ok {
			break
		}
		path = append([]*types.Var{structField(f.X.Type(), f.Field)}, path...)
		cur = f.X
	}
	if len(path) == 0 {
		return nil, nil
	}
	return cur, path
}
