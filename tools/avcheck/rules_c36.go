package main

import (
	"fmt"
	"go/token"
	"go/types"

	"golang.org/x/tools/go/ssa"
)

func init() {
	register(&Prop{
		ID:       "C36",
		Patterns: []string{"./crypto", "./data/account"},
		Run:      runC36,
		Explanation: "Thin. Decides the structural conditions under which 'secrets for identifiers before the advance point are gone, the remaining ones still index the right keys, and a signature is only valid for the identifier it was made for': " +
			"R36.1 the key-state fields (FirstBatch, Batches, FirstOffset, Offsets, OffsetsPK2, OffsetsPK2Sig and the embedded persistent struct) are written only by the generator, DeleteBeforeFineGrained and Snapshot (generated decoders apart) — nothing can put a deleted key back; " +
			"R36.2 in DeleteBeforeFineGrained every store to Batches/Offsets is nil, a suffix re-slice of the same field, or (Offsets only) an append of a key freshly drawn from ed25519GenerateKeyRNG; each suffix re-slice by n is paired in its block with First* += the same n and vice versa (so index i keeps meaning identifier First+i); FirstBatch/FirstOffset are reset only where the slice is nil; on every path that moves into a new batch Offsets is cleared before returning; after a batch key has been expanded into offset keys the function cannot return without dropping that batch key (Batches[k:], k>=1); the expanded keys are certified by Batches[0].SK for (current.Batch, off) with off running from the value FirstOffset was reset to, and OffsetsPK2/OffsetsPK2Sig are Batches[0]'s; " +
			"R36.3 Sign reads s.Offsets[i] only under id.Batch+1==FirstBatch, id.Offset>=FirstOffset, id.Offset-FirstOffset<len(Offsets) with i=id.Offset-FirstOffset, and s.Batches[j] only under id.Batch>=FirstBatch, id.Batch-FirstBatch<len(Batches) with j=id.Batch-FirstBatch, and certifies a one-off key for exactly (id.Batch,id.Offset); " +
			"R36.4 persistence of the deletion: PersistedParticipation.DeleteOldKeys encodes part.Voting.Snapshot() taken after DeleteBeforeFineGrained on the same secrets, hands exactly those bytes to the goroutine that executes the UPDATE inside Store.Atomic, whose error is sent on the returned channel; participationDB.DeleteExpired appends every record whose keys it advanced to the slice whose records are all marked dirty, and updateRollingFields writes record.Voting.Snapshot(); DeleteBeforeFineGrained has no other caller; " +
			"R36.5 OneTimeSignatureVerifier.Verify returns exactly bv.Verify()==nil over the three enqueued checks master->(PK2,id.Batch), PK2->(PK,id.Batch,id.Offset), PK->message, so a signature is bound to its identifier. " +
			"Does NOT decide: the key algebra (that the certificates verify), that jump amounts are the right numbers, secure wiping of memory, SQL text, that the registry flush runs, nor concurrency (locks).",
		Assumptions: []string{"ed25519 primitives are correct", "util/db Accessor.Atomic commits durably before returning nil"},
		Floor:       map[string]int{"R36.1": 3, "R36.2": 18, "R36.3": 8, "R36.4": 13, "R36.5": 5},
	})
}

// hSpill returns the local slot a by-value parameter is spilled to (or the parameter).
func hSpill(p *ssa.Parameter) ssa.Value {
	for _, r := range *p.Referrers() {
		if st, ok := r.(*ssa.Store); ok && st.Val == ssa.Value(p) {
			return st.Addr
		}
	}
	return p
}

func runC36(c *Ctx) {
	P := "crypto.OneTimeSignatureSecretsPersistent."
	fPersist := c.Field("crypto.OneTimeSignatureSecrets.OneTimeSignatureSecretsPersistent")
	fFirstBatch := c.Field(P + "FirstBatch")
	fBatches := c.Field(P + "Batches")
	fFirstOffset := c.Field(P + "FirstOffset")
	fOffsets := c.Field(P + "Offsets")
	fPK2 := c.Field(P + "OffsetsPK2")
	fPK2Sig := c.Field(P + "OffsetsPK2Sig")
	fIDBatch := c.Field("crypto.OneTimeSignatureIdentifier.Batch")
	fIDOffset := c.Field("crypto.OneTimeSignatureIdentifier.Offset")
	fSubPK := c.Field("crypto.ephemeralSubkey.PK")
	fSubSK := c.Field("crypto.ephemeralSubkey.SK")
	fSubSig := c.Field("crypto.ephemeralSubkey.PKSigNew")
	genKey := c.Func("crypto.ed25519GenerateKeyRNG")
	edSign := c.Func("crypto.ed25519Sign")
	hashRep := c.Func("crypto.HashRep")
	fOffIDPK := c.Field("crypto.OneTimeSignatureSubkeyOffsetID.SubKeyPK")
	fOffIDBatch := c.Field("crypto.OneTimeSignatureSubkeyOffsetID.Batch")
	fOffIDOffset := c.Field("crypto.OneTimeSignatureSubkeyOffsetID.Offset")

	// ---------------- R36.1 ownership ----------------
	state := map[*types.Var]bool{fFirstBatch: true, fBatches: true, fFirstOffset: true, fOffsets: true, fPK2: true, fPK2Sig: true, fPersist: true}
	only := []string{"crypto", "data/account"}
	if c.Thorough {
		only = nil
	}
	c.OwnerRule("R36.1", "write(one-time key state)", c.FieldWrites(state, ScanOpts{SkipGenerated: true, OnlyPkgs: only}), map[string]string{
		"crypto.GenerateOneTimeSignatureSecretsRNG":              "key generation",
		"crypto.OneTimeSignatureSecrets.DeleteBeforeFineGrained": "the deletion procedure (shape decided by R36.2)",
		"crypto.OneTimeSignatureSecrets.Snapshot":                "copy for serialisation",
	})

	// ---------------- R36.2 DeleteBeforeFineGrained ----------------
	del := c.Fn("crypto.OneTimeSignatureSecrets.DeleteBeforeFineGrained")
	dname := "crypto.OneTimeSignatureSecrets.DeleteBeforeFineGrained"
	s := del.Params[0]
	cur := hSpill(del.Params[1])
	isState := func(v ssa.Value, f *types.Var) bool { return hIsPath(v, s, fPersist, f) }
	isCur := func(v ssa.Value, f *types.Var) bool {
		return hIsPath(hResolveLoadsLocal(v), cur, f) || hIsPath(v, cur, f)
	}
	sameAmount := func(a, b ssa.Value) bool {
		if a == b {
			return true
		}
		ka, oka := hStripConv(a).(*ssa.Const)
		kb, okb := hStripConv(b).(*ssa.Const)
		return oka && okb && ka.Value != nil && kb.Value != nil && ka.Int64() == kb.Int64()
	}
	type sliceStore struct {
		st    *ssa.Store
		field *types.Var
		kind  string // nil | suffix | append
		low   ssa.Value
	}
	type firstStore struct {
		st     *ssa.Store
		field  *types.Var
		amount ssa.Value // non-nil: First += amount
	}
	var slices []sliceStore
	var firsts []firstStore
	firstOf := map[*types.Var]*types.Var{fBatches: fFirstBatch, fOffsets: fFirstOffset}
	var freshKeyCalls []*ssa.Call
	for _, b := range del.Blocks {
		for _, in := range b.Instrs {
			st, ok := in.(*ssa.Store)
			if !ok {
				continue
			}
			for _, f := range []*types.Var{fBatches, fOffsets} {
				if !isState(st.Addr, f) {
					continue
				}
				construct := dname + ":store(" + f.Name() + ")"
				ss := sliceStore{st: st, field: f}
				switch v := st.Val.(type) {
				case *ssa.Const:
					if v.IsNil() {
						ss.kind = "nil"
					}
				case *ssa.Slice:
					if isState(v.X, f) && v.Low != nil && v.High == nil && v.Max == nil {
						ss.kind, ss.low = "suffix", v.Low
					}
				case *ssa.Call:
					if cc, isApp := isBuiltinCall(v, "append"); isApp && f == fOffsets && len(cc.Args) == 2 && isState(cc.Args[0], f) {
						// the appended element: a one element array holding a literal with fresh PK/SK
						if sl, ok := cc.Args[1].(*ssa.Slice); ok {
							if arr, ok := sl.X.(*ssa.Alloc); ok {
								for _, r := range *arr.Referrers() {
									ia, ok := r.(*ssa.IndexAddr)
									if !ok {
										continue
									}
									for _, r2 := range *ia.Referrers() {
										est, ok := r2.(*ssa.Store)
										if !ok || est.Addr != ssa.Value(ia) {
											continue
										}
										if ld, ok := est.Val.(*ssa.UnOp); ok {
											if lit, ok := ld.X.(*ssa.Alloc); ok {
												lf := hLitFields(lit)
												if len(lf[fSubSK]) == 1 && len(lf[fSubPK]) == 1 {
													skc, ok1 := asResultOf(lf[fSubSK][0], 1, genKey)
													pkc, ok2 := asResultOf(lf[fSubPK][0], 0, genKey)
													if ok1 && ok2 && skc == pkc {
														ss.kind = "append"
														freshKeyCalls = append(freshKeyCalls, skc)
													}
												}
											}
										}
									}
								}
							}
						}
					}
				}
				if ss.kind == "" {
					c.Bad("R36.2", construct, c.Pos(st.Pos()), "store to "+f.Name()+" is neither nil, a suffix re-slice of itself nor an append of a freshly generated key: "+describe(st.Val)+" — it may keep or re-introduce secrets of earlier identifiers")
					continue
				}
				c.Ok("R36.2", construct+":"+ss.kind, c.Pos(st.Pos()), "store only shrinks the key list from the front, clears it, or appends a fresh key")
				slices = append(slices, ss)
			}
			for _, f := range []*types.Var{fFirstBatch, fFirstOffset} {
				if !isState(st.Addr, f) {
					continue
				}
				fs := firstStore{st: st, field: f}
				if bo, ok := st.Val.(*ssa.BinOp); ok && bo.Op == token.ADD {
					switch {
					case isState(bo.X, f):
						fs.amount = bo.Y
					case isState(bo.Y, f):
						fs.amount = bo.X
					}
				}
				firsts = append(firsts, fs)
			}
		}
	}
	if len(slices) == 0 || len(firsts) == 0 {
		c.Unk("R36.2", dname, c.Pos(del.Pos()), "no stores to the key lists found")
	}
	// pairing
	for _, ss := range slices {
		if ss.kind != "suffix" {
			continue
		}
		ok := false
		for _, fs := range firsts {
			if fs.field == firstOf[ss.field] && fs.amount != nil && fs.st.Block() == ss.st.Block() && sameAmount(fs.amount, ss.low) {
				ok = true
			}
		}
		c.Check(ok, "R36.2", dname+":"+ss.field.Name()+"[n:] paired with "+firstOf[ss.field].Name()+"+=n", c.Pos(ss.st.Pos()), "dropping n keys from the front of "+ss.field.Name()+" must advance "+firstOf[ss.field].Name()+" by the same n in the same step, otherwise the remaining keys are used for the wrong identifiers")
	}
	for _, fs := range firsts {
		listF := fBatches
		if fs.field == fFirstOffset {
			listF = fOffsets
		}
		if fs.amount != nil {
			ok := false
			for _, ss := range slices {
				if ss.field == listF && ss.kind == "suffix" && ss.st.Block() == fs.st.Block() && sameAmount(fs.amount, ss.low) {
					ok = true
				}
			}
			c.Check(ok, "R36.2", dname+":"+fs.field.Name()+"+=n paired with "+listF.Name()+"[n:]", c.Pos(fs.st.Pos()), "advancing "+fs.field.Name()+" by n must drop exactly n keys from the front of "+listF.Name()+" in the same step (otherwise deleted identifiers stay signable or live keys shift)")
			continue
		}
		// reset: the list must be nil here
		var nilStore *ssa.Store
		for _, ss := range slices {
			if ss.field == listF && ss.kind == "nil" && (Dominates(ss.st, fs.st) || ss.st.Block() == fs.st.Block()) {
				nilStore = ss.st
			}
		}
		ok := nilStore != nil
		why := "no `" + listF.Name() + " = nil` on the way"
		if ok {
			for _, ss := range slices {
				if ss.field != listF || ss.kind == "nil" {
					continue
				}
				// a non-nil store between the clearing and the reset
				if hReachFrom(nilStore.Block(), nil)[ss.st.Block()] && hReachFrom(ss.st.Block(), nil)[fs.st.Block()] && !Dominates(fs.st, ss.st) {
					ok = false
					why = "a non-nil store to " + listF.Name() + " lies between the clearing and the reset"
				}
			}
		}
		c.Check(ok, "R36.2", dname+":"+fs.field.Name()+" reset only with "+listF.Name()+" cleared", c.Pos(fs.st.Pos()), fs.field.Name()+" is set to a new origin only when "+listF.Name()+" has been cleared (stale keys would otherwise be re-labelled): "+why)
	}
	// moving into a new batch clears the offsets before returning
	{
		batchPlus1 := func(v ssa.Value) bool {
			bo, ok := v.(*ssa.BinOp)
			return ok && bo.Op == token.ADD && ((isCur(bo.X, fIDBatch) && IsConstInt(1)(bo.Y)) || (isCur(bo.Y, fIDBatch) && IsConstInt(1)(bo.X)))
		}
		first := func(v ssa.Value) bool { return isState(v, fFirstBatch) }
		same, n1 := PassEdges(del, GCmp("current.Batch+1==FirstBatch", token.EQL, batchPlus1, first))
		earlier, n2 := PassEdges(del, GCmp("current.Batch+1<FirstBatch", token.LSS, batchPlus1, first))
		if n1 == 0 || n2 == 0 {
			c.Bad("R36.2", dname+":new batch clears Offsets", c.Pos(del.Pos()), "the tests current.Batch+1 == / < FirstBatch that separate 'same batch' and 'already deleted' from 'advance into a new batch' were not found")
		} else {
			clears := map[ssa.Instruction]bool{}
			for _, ss := range slices {
				if ss.field == fOffsets && ss.kind == "nil" {
					clears[ss.st] = true
				}
			}
			r := NewReach(del, append(append([]Edge{}, same...), earlier...), func(in ssa.Instruction) bool { return clears[in] })
			ok := len(clears) > 0
			for _, b := range del.Blocks {
				if ret, isRet := b.Instrs[len(b.Instrs)-1].(*ssa.Return); isRet && b != del.Recover && r.Reaches(ret) {
					ok = false
				}
			}
			c.Check(ok, "R36.2", dname+":new batch clears Offsets", c.Pos(del.Pos()), "when the advance leaves the batch the offset keys belong to, every path clears Offsets before returning (they are secrets of the batch being left)")
		}
	}
	// the expanded batch key is dropped
	{
		var appendBlocks []*ssa.BasicBlock
		for _, ss := range slices {
			if ss.kind == "append" {
				appendBlocks = append(appendBlocks, ss.st.Block())
			}
		}
		if len(appendBlocks) == 0 {
			c.Bad("R36.2", dname+":expanded batch key dropped", c.Pos(del.Pos()), "no expansion of a batch key into offset keys found")
		}
		for _, ab := range appendBlocks {
			drops := map[ssa.Instruction]bool{}
			for _, ss := range slices {
				if ss.field == fBatches && ss.kind == "suffix" {
					if k, ok := hStripConv(ss.low).(*ssa.Const); ok && k.Value != nil && k.Int64() >= 1 {
						drops[ss.st] = true
					}
				}
				if ss.field == fBatches && ss.kind == "nil" {
					drops[ss.st] = true
				}
			}
			// forward reachability from the expansion with the drop as a stop
			seen := map[*ssa.BasicBlock]bool{ab: true}
			work := []*ssa.BasicBlock{ab}
			ok := len(drops) > 0
			for len(work) > 0 {
				b := work[0]
				work = work[1:]
				stopped := false
				for _, in := range b.Instrs {
					if drops[in] {
						stopped = true
						break
					}
					if _, isRet := in.(*ssa.Return); isRet {
						ok = false
					}
				}
				if stopped {
					continue
				}
				for _, sc := range b.Succs {
					if !seen[sc] {
						seen[sc] = true
						work = append(work, sc)
					}
				}
			}
			c.Check(ok, "R36.2", dname+":expanded batch key dropped", c.Pos(ab.Instrs[0].Pos()), "after Batches[0] has certified the per-offset keys, the function cannot return without removing it from Batches (it could otherwise certify keys for already deleted offsets of the batch)")
		}
	}
	// certificates of the expanded keys
	for _, gk := range freshKeyCalls {
		var pk ssa.Value
		for _, r := range *gk.Referrers() {
			if e, ok := r.(*ssa.Extract); ok && e.Index == 0 {
				pk = e
			}
		}
		okCert := false
		why := "no ed25519Sign(Batches[0].SK, HashRep(OneTimeSignatureSubkeyOffsetID{pk, current.Batch, off})) for the generated key"
		for _, ci := range CallsTo(del, false, edSign) {
			a := ci.Common().Args
			// key: Batches[0].SK
			root, steps, ok := hAddrPath(a[0])
			if !ok || root != ssa.Value(s) || len(steps) != 4 || steps[0].F != fPersist || steps[1].F != fBatches || steps[2].F != nil || steps[3].F != fSubSK {
				continue
			}
			hr, ok := asResultOf(a[1], 0, hashRep)
			if !ok {
				continue
			}
			ld, ok := hr.Common().Args[0].(*ssa.UnOp)
			if !ok {
				continue
			}
			lit, ok := ld.X.(*ssa.Alloc)
			if !ok {
				continue
			}
			lf := hLitFields(lit)
			if len(lf[fOffIDPK]) != 1 || lf[fOffIDPK][0] != pk {
				continue
			}
			why = "certificate does not name (current.Batch, running offset)"
			if len(lf[fOffIDBatch]) == 1 && isCur(lf[fOffIDBatch][0], fIDBatch) && len(lf[fOffIDOffset]) == 1 {
				// running offset: a phi starting at current.Offset and incremented by one
				if phi, ok := lf[fOffIDOffset][0].(*ssa.Phi); ok && len(phi.Edges) == 2 {
					init, step := false, false
					for _, e := range phi.Edges {
						if isCur(e, fIDOffset) {
							init = true
						}
						if bo, ok := e.(*ssa.BinOp); ok && bo.Op == token.ADD && bo.X == ssa.Value(phi) && IsConstInt(1)(bo.Y) {
							step = true
						}
					}
					// and FirstOffset was reset to current.Offset
					reset := false
					for _, fs := range firsts {
						if fs.field == fFirstOffset && fs.amount == nil && isCur(fs.st.Val, fIDOffset) {
							reset = true
						}
					}
					okCert = init && step && reset
				}
			}
		}
		c.Check(okCert, "R36.2", dname+":offset keys certified for (current.Batch, FirstOffset+k)", c.Pos(gk.Pos()), "the k-th appended key is certified by the batch key for offset current.Offset+k, the value FirstOffset is reset to: "+why)
	}
	{
		ok1, ok2 := false, false
		for _, b := range del.Blocks {
			for _, in := range b.Instrs {
				st, ok := in.(*ssa.Store)
				if !ok {
					continue
				}
				isB0 := func(v ssa.Value, f *types.Var) bool {
					root, steps, ok := hAddrPath(v)
					if !ok || root != ssa.Value(s) || len(steps) != 4 || steps[0].F != fPersist || steps[1].F != fBatches || steps[2].F != nil || steps[3].F != f {
						return false
					}
					// index 0
					ld, _ := v.(*ssa.UnOp)
					if ld == nil {
						return false
					}
					fa, _ := ld.X.(*ssa.FieldAddr)
					if fa == nil {
						return false
					}
					ia, _ := fa.X.(*ssa.IndexAddr)
					return ia != nil && IsConstInt(0)(ia.Index)
				}
				if isState(st.Addr, fPK2) {
					ok1 = isB0(st.Val, fSubPK)
				}
				if isState(st.Addr, fPK2Sig) {
					ok2 = isB0(st.Val, fSubSig)
				}
			}
		}
		c.Check(ok1 && ok2, "R36.2", dname+":OffsetsPK2/OffsetsPK2Sig=Batches[0].PK/PKSigNew", c.Pos(del.Pos()), "the intermediate key published with offset signatures is the expanded batch key and its master certificate")
	}

	// ---------------- R36.3 Sign ----------------
	{
		sign := c.Fn("crypto.OneTimeSignatureSecrets.Sign")
		sname := "crypto.OneTimeSignatureSecrets.Sign"
		ss := sign.Params[0]
		id := hSpill(sign.Params[1])
		isSt := func(v ssa.Value, f *types.Var) bool { return hIsPath(v, ss, fPersist, f) }
		isID := func(v ssa.Value, f *types.Var) bool { return hIsPath(v, id, f) }
		diff := func(a, b *types.Var) VM {
			return func(v ssa.Value) bool {
				bo, ok := hStripConv(v).(*ssa.BinOp)
				return ok && bo.Op == token.SUB && isID(bo.X, a) && isSt(bo.Y, b)
			}
		}
		lenState := func(f *types.Var) VM {
			return func(v ssa.Value) bool { l, ok := lenOf(hStripConv(v)); return ok && isSt(l, f) }
		}
		reads := func(list *types.Var) (ins []ssa.Instruction, idx []ssa.Value) {
			for _, b := range sign.Blocks {
				for _, in := range b.Instrs {
					if ia, ok := in.(*ssa.IndexAddr); ok && isSt(ia.X, list) {
						ins = append(ins, ia)
						idx = append(idx, ia.Index)
					}
				}
			}
			return
		}
		offReads, offIdx := reads(fOffsets)
		batReads, batIdx := reads(fBatches)
		if len(offReads) == 0 || len(batReads) == 0 {
			c.Unk("R36.3", sname, c.Pos(sign.Pos()), "reads of s.Offsets[i] / s.Batches[j] not found")
		} else {
			plus1 := func(v ssa.Value) bool {
				bo, ok := v.(*ssa.BinOp)
				return ok && bo.Op == token.ADD && isID(bo.X, fIDBatch) && IsConstInt(1)(bo.Y)
			}
			c.MustGuard(MustGuardSpec{Rule: "R36.3", Fn: sign, Effects: offReads, EffName: "s.Offsets[i]", Guards: []Guard{
				GCmp("id.Batch+1==FirstBatch", token.EQL, plus1, func(v ssa.Value) bool { return isSt(v, fFirstBatch) }),
				GCmp("id.Offset>=FirstOffset", token.GEQ, func(v ssa.Value) bool { return isID(v, fIDOffset) }, func(v ssa.Value) bool { return isSt(v, fFirstOffset) }),
				GCmp("id.Offset-FirstOffset<len(Offsets)", token.LSS, diff(fIDOffset, fFirstOffset), lenState(fOffsets)),
			}})
			c.MustGuard(MustGuardSpec{Rule: "R36.3", Fn: sign, Effects: batReads, EffName: "s.Batches[j]", Guards: []Guard{
				GCmp("id.Batch>=FirstBatch", token.GEQ, func(v ssa.Value) bool { return isID(v, fIDBatch) }, func(v ssa.Value) bool { return isSt(v, fFirstBatch) }),
				GCmp("id.Batch-FirstBatch<len(Batches)", token.LSS, diff(fIDBatch, fFirstBatch), lenState(fBatches)),
			}})
			ok := true
			for _, i := range offIdx {
				if !diff(fIDOffset, fFirstOffset)(i) {
					ok = false
				}
			}
			c.Check(ok, "R36.3", sname+":Offsets index=id.Offset-FirstOffset", c.Pos(offReads[0].Pos()), "the offset key used is the one at id.Offset-FirstOffset")
			ok = true
			for _, i := range batIdx {
				if !diff(fIDBatch, fFirstBatch)(i) {
					ok = false
				}
			}
			c.Check(ok, "R36.3", sname+":Batches index=id.Batch-FirstBatch", c.Pos(batReads[0].Pos()), "the batch key used is the one at id.Batch-FirstBatch")
		}
		// the one-off key of the batch branch is certified for (id.Batch, id.Offset)
		okID := false
		for _, ci := range CallsTo(sign, false, edSign) {
			hr, ok := asResultOf(ci.Common().Args[1], 0, hashRep)
			if !ok {
				continue
			}
			ld, ok := hr.Common().Args[0].(*ssa.UnOp)
			if !ok {
				continue
			}
			lit, ok := ld.X.(*ssa.Alloc)
			if !ok {
				continue
			}
			lf := hLitFields(lit)
			if len(lf[fOffIDPK]) != 1 {
				continue
			}
			_, fresh := asResultOf(lf[fOffIDPK][0], 0, genKey)
			okID = fresh && len(lf[fOffIDBatch]) == 1 && isID(lf[fOffIDBatch][0], fIDBatch) && len(lf[fOffIDOffset]) == 1 && isID(lf[fOffIDOffset][0], fIDOffset)
			// signed with the batch key
			root, steps, okp := hAddrPath(ci.Common().Args[0])
			okID = okID && okp && root == ssa.Value(ss) && len(steps) == 4 && steps[1].F == fBatches && steps[3].F == fSubSK
		}
		c.Check(okID, "R36.3", sname+":one-off key certified for (id.Batch,id.Offset)", c.Pos(sign.Pos()), "when signing from a whole batch key, the fresh key is certified by that batch key for exactly the requested identifier")
	}

	// ---------------- R36.4 persistence ----------------
	hC36Persist(c)

	// ---------------- R36.5 Verify ----------------
	{
		vf := c.Fn("crypto.OneTimeSignatureVerifier.Verify")
		vname := "crypto.OneTimeSignatureVerifier.Verify"
		pV := vf.Params[0]
		id := hSpill(vf.Params[1])
		pMsg := vf.Params[2]
		sig := hSpill(vf.Params[3])
		enq := c.Func("crypto.BatchVerifier.EnqueueSignature")
		bvVerify := c.Func("crypto.BatchVerifier.Verify")
		fSigPK := c.Field("crypto.OneTimeSignature.PK")
		fSigPK2 := c.Field("crypto.OneTimeSignature.PK2")
		fSigSig := c.Field("crypto.OneTimeSignature.Sig")
		fSigPK1Sig := c.Field("crypto.OneTimeSignature.PK1Sig")
		fSigPK2Sig := c.Field("crypto.OneTimeSignature.PK2Sig")
		fBIDPK := c.Field("crypto.OneTimeSignatureSubkeyBatchID.SubKeyPK")
		fBIDBatch := c.Field("crypto.OneTimeSignatureSubkeyBatchID.Batch")
		isSig := func(v ssa.Value, f *types.Var) bool { return hIsPath(hStripConv(v), sig, f) }
		isID := func(v ssa.Value, f *types.Var) bool { return hIsPath(hStripConv(v), id, f) }
		// a struct local and the values of its fields
		litOf := func(v ssa.Value) map[*types.Var][]ssa.Value {
			v = strip(v)
			if ld, ok := v.(*ssa.UnOp); ok {
				if a, ok := ld.X.(*ssa.Alloc); ok {
					return hLitFields(a)
				}
			}
			return nil
		}
		// a public key argument: either sig.F directly or the field of a literal holding sig.F
		pkIs := func(v ssa.Value, f *types.Var, litField *types.Var) bool {
			v = hStripConv(v)
			if isSig(v, f) {
				return true
			}
			root, fs, ok := hFieldPath(v)
			if ok && len(fs) == 1 && fs[0] == litField {
				if a, ok := root.(*ssa.Alloc); ok {
					lf := hLitFields(a)
					return len(lf[litField]) == 1 && isSig(lf[litField][0], f)
				}
			}
			return false
		}
		calls := CallsTo(vf, false, enq)
		got := map[string]bool{}
		for _, ci := range calls {
			a := ci.Common().Args
			if len(a) != 3 {
				continue
			}
			switch {
			case hFromParam(a[0], pV):
				lf := litOf(a[1])
				if lf != nil && len(lf[fBIDPK]) == 1 && isSig(lf[fBIDPK][0], fSigPK2) && len(lf[fBIDBatch]) == 1 && isID(lf[fBIDBatch][0], fIDBatch) && isSig(a[2], fSigPK2Sig) {
					got["master"] = true
				}
			case pkIs(a[0], fSigPK2, fBIDPK):
				lf := litOf(a[1])
				if lf != nil && len(lf[fOffIDPK]) == 1 && isSig(lf[fOffIDPK][0], fSigPK) && len(lf[fOffIDBatch]) == 1 && isID(lf[fOffIDBatch][0], fIDBatch) && len(lf[fOffIDOffset]) == 1 && isID(lf[fOffIDOffset][0], fIDOffset) && isSig(a[2], fSigPK1Sig) {
					got["batch"] = true
				}
			case pkIs(a[0], fSigPK, fOffIDPK):
				if strip(a[1]) == ssa.Value(pMsg) && isSig(a[2], fSigSig) {
					got["message"] = true
				}
			}
		}
		c.Check(got["master"], "R36.5", vname+":master key certifies (sig.PK2, id.Batch) with sig.PK2Sig", c.Pos(vf.Pos()), "the batch-level key is accepted only with the verifier's certificate for this batch number")
		c.Check(got["batch"], "R36.5", vname+":sig.PK2 certifies (sig.PK, id.Batch, id.Offset) with sig.PK1Sig", c.Pos(vf.Pos()), "the signing key is accepted only with the batch key's certificate for exactly this identifier")
		c.Check(got["message"], "R36.5", vname+":sig.PK signs the message with sig.Sig", c.Pos(vf.Pos()), "the message signature is checked under the certified key")
		c.Check(len(calls) == 3, "R36.5", vname+":exactly three enqueued checks", c.Pos(vf.Pos()), fmt.Sprintf("found %d EnqueueSignature calls", len(calls)))
		okRet := true
		n := 0
		for _, b := range vf.Blocks {
			ret, isRet := b.Instrs[len(b.Instrs)-1].(*ssa.Return)
			if !isRet {
				continue
			}
			n++
			bo, ok := ret.Results[0].(*ssa.BinOp)
			if !ok || bo.Op != token.EQL || !IsNil(bo.Y) {
				okRet = false
				continue
			}
			call, ok := asResultOf(bo.X, 0, bvVerify)
			if !ok {
				okRet = false
				continue
			}
			// the same verifier the checks were enqueued on
			for _, ci := range calls {
				if callArgs(ci.Common())[0] != callArgs(call.Common())[0] {
					okRet = false
				}
			}
		}
		c.Check(okRet && n > 0, "R36.5", vname+":returns bv.Verify()==nil", c.Pos(vf.Pos()), "the result is exactly the outcome of the batch holding the three checks")
	}

	hDebugDump(c)
}

func hC36Persist(c *Ctx) {
	delFn := c.Func("crypto.OneTimeSignatureSecrets.DeleteBeforeFineGrained")
	snapFn := c.Func("crypto.OneTimeSignatureSecrets.Snapshot")
	encode := c.Func("protocol.Encode")
	idForRound := c.Func("data/basics.OneTimeIDForRound")
	only := []string{"crypto", "data/account"}
	if c.Thorough {
		only = nil
	}
	c.OwnerRule("R36.4", "call(DeleteBeforeFineGrained)", c.Uses([]*types.Func{delFn}, ScanOpts{SkipGenerated: true, OnlyPkgs: only, SkipPkgs: []string{"test/...", "tools/...", "cmd/..."}}), map[string]string{
		"data/account.PersistedParticipation.DeleteOldKeys": "persists the snapshot (checked below)",
		"data/account.participationDB.DeleteExpired":        "marks the record dirty for the registry flush (checked below)",
	})

	// ---- PersistedParticipation.DeleteOldKeys ----
	fn := c.Fn("data/account.PersistedParticipation.DeleteOldKeys")
	name := "data/account.PersistedParticipation.DeleteOldKeys"
	part := hSpill(fn.Params[0])
	fParticipation := c.Field("data/account.PersistedParticipation.Participation")
	fVoting := c.Field("data/account.Participation.Voting")
	fStore := c.Field("data/account.PersistedParticipation.Store")
	atomic := c.Func("util/db.Accessor.Atomic")
	isVoting := func(v ssa.Value) bool { return hIsPath(v, part, fParticipation, fVoting) }
	dc := hOneCall(c, "R36.4", fn, delFn, nil)
	sc := hOneCall(c, "R36.4", fn, snapFn, nil)
	ec := hOneCall(c, "R36.4", fn, encode, nil)
	if dc == nil || sc == nil || ec == nil {
		return
	}
	da := dc.Common().Args
	okD := len(da) == 3 && isVoting(da[0])
	if okD {
		ic, isID := asResultOf(da[1], 0, idForRound)
		okD = isID && ic.Common().Args[0] == ssa.Value(fn.Params[1]) && ic.Common().Args[1] == da[2]
	}
	c.Check(okD, "R36.4", name+":DeleteBeforeFineGrained(part.Voting, OneTimeIDForRound(current,kd), kd)", c.Pos(dc.Pos()), "keys are advanced to the identifier of the requested round with one and the same key dilution")
	c.Check(isVoting(sc.Common().Args[0]) && Dominates(dc, sc), "R36.4", name+":Snapshot(part.Voting) after the deletion", c.Pos(sc.Pos()), "the snapshot that is persisted is taken from the same secrets after DeleteBeforeFineGrained (a snapshot taken before would resurrect deleted keys on restart)")
	okE := false
	if mi, ok := ec.Common().Args[0].(*ssa.MakeInterface); ok {
		if a, ok := mi.X.(*ssa.Alloc); ok {
			st := localStores(a)
			okE = len(st) == 1 && st[0] == sc.Value()
		}
	}
	c.Check(okE, "R36.4", name+":Encode(&snapshot)", c.Pos(ec.Pos()), "the bytes written are the encoding of that snapshot")
	// go closure(encoded)
	var goI *ssa.Go
	for _, b := range fn.Blocks {
		for _, in := range b.Instrs {
			if g, ok := in.(*ssa.Go); ok {
				goI = g
			}
		}
	}
	var lit *ssa.Function
	var mc *ssa.MakeClosure
	if goI != nil {
		mc, _ = goI.Call.Value.(*ssa.MakeClosure)
		if mc != nil {
			lit, _ = mc.Fn.(*ssa.Function)
		}
	}
	if lit == nil || len(goI.Call.Args) != 1 {
		c.Bad("R36.4", name+":go write(encoded)", c.Pos(fn.Pos()), "the database write is no longer a goroutine started on a function literal with the encoded secrets")
		return
	}
	c.Check(goI.Call.Args[0] == ec.Value() && Dominates(ec.(ssa.Instruction), goI), "R36.4", name+":go write(Encode(&snapshot))", c.Pos(goI.Pos()), "the goroutine receives exactly the encoded post-deletion snapshot")
	// inside the literal: errorCh <- part.Store.Atomic(func(tx){ tx.Exec(..., encoded) })
	ac := hOneCall(c, "R36.4", lit, atomic, nil)
	if ac == nil {
		return
	}
	var chanFV *ssa.FreeVar
	var sends []*ssa.Send
	for _, b := range lit.Blocks {
		for _, in := range b.Instrs {
			if sd, ok := in.(*ssa.Send); ok {
				sends = append(sends, sd)
			}
		}
	}
	okSend := false
	for _, sd := range sends {
		if sd.X == ac.Value() {
			if ld, ok := sd.Chan.(*ssa.UnOp); ok {
				if fv, ok := ld.X.(*ssa.FreeVar); ok {
					chanFV = fv
					okSend = true
				}
			}
		}
	}
	c.Check(okSend, "R36.4", name+":errorCh<-Store.Atomic(...)", c.Pos(ac.Pos()), "the outcome of the database transaction is delivered on the channel")
	okStore := false
	{
		root, fs, ok := hFieldPath(ac.Common().Args[0])
		if ok && len(fs) == 1 && fs[0] == fStore {
			if fv, isFV := root.(*ssa.FreeVar); isFV {
				for i, x := range lit.FreeVars {
					if x == fv && mc.Bindings[i] == part {
						okStore = true
					}
				}
			}
		}
	}
	c.Check(okStore, "R36.4", name+":part.Store", c.Pos(ac.Pos()), "the transaction runs on this participation's own database")
	// the returned channel is the one the goroutine sends on
	okRet := false
	if chanFV != nil {
		for i, x := range lit.FreeVars {
			if x != chanFV {
				continue
			}
			for _, b := range fn.Blocks {
				if ret, ok := b.Instrs[len(b.Instrs)-1].(*ssa.Return); ok {
					if ld, ok := hStripConv(ret.Results[0]).(*ssa.UnOp); ok && ld.X == mc.Bindings[i] {
						okRet = true
					}
				}
			}
		}
	}
	c.Check(okRet, "R36.4", name+":returns errorCh", c.Pos(fn.Pos()), "the caller waits on the channel that carries the write's error")
	// the transaction body writes the bytes and propagates Exec's error
	var txLit *ssa.Function
	if tmc, ok := strip(ac.Common().Args[1]).(*ssa.MakeClosure); ok {
		txLit, _ = tmc.Fn.(*ssa.Function)
		okBytes := false
		if txLit != nil {
			for _, b := range txLit.Blocks {
				for _, in := range b.Instrs {
					call, ok := in.(*ssa.Call)
					if !ok {
						continue
					}
					f := calleeOf(call.Common())
					if f == nil || (f.Name() != "Exec" && f.Name() != "ExecContext") || f.Pkg() == nil || f.Pkg().Path() != "database/sql" {
						continue
					}
					// some variadic argument is the captured encoded bytes
					for _, b2 := range txLit.Blocks {
						for _, in2 := range b2.Instrs {
							mi, ok := in2.(*ssa.MakeInterface)
							if !ok {
								continue
							}
							if ld, ok := mi.X.(*ssa.UnOp); ok {
								if fv, ok := ld.X.(*ssa.FreeVar); ok {
									for i, x := range txLit.FreeVars {
										if x == fv {
											if a, ok := tmc.Bindings[i].(*ssa.Alloc); ok {
												st := localStores(a)
												if len(st) == 1 && len(lit.Params) == 1 && st[0] == ssa.Value(lit.Params[0]) {
													okBytes = true
												}
											}
										}
									}
								}
							}
						}
					}
					c.MustGuard(MustGuardSpec{Rule: "R36.4", Fn: txLit, Effects: hSuccessReturns(txLit), EffName: "return nil", Guards: []Guard{GErrNil("tx.Exec err==nil", hErrOf(call))}})
				}
			}
		}
		c.Check(okBytes, "R36.4", name+":tx.Exec(…, encoded)", c.Pos(ac.Pos()), "the statement executed inside the transaction is given the goroutine's encoded-secrets argument")
	} else {
		c.Bad("R36.4", name+":tx body", c.Pos(ac.Pos()), "Atomic is not given a function literal")
	}

	// ---- participationDB.DeleteExpired ----
	de := c.Fn("data/account.participationDB.DeleteExpired")
	dename := "data/account.participationDB.DeleteExpired"
	fRecVoting := c.Field("data/account.ParticipationRecord.Voting")
	fRecID := c.Field("data/account.ParticipationRecord.ParticipationID")
	fDirty := c.Field("data/account.participationDB.dirty")
	for _, ci := range CallsTo(de, false, delFn) {
		call := ci.(*ssa.Call)
		root, fs, ok := hFieldPath(call.Common().Args[0])
		rec, isAlloc := root.(*ssa.Alloc)
		if !ok || !isAlloc || len(fs) != 1 || fs[0] != fRecVoting {
			c.Unk("R36.4", dename+":DeleteBeforeFineGrained(v.Voting)", c.Pos(call.Pos()), "receiver is not the Voting field of a local record: "+describe(call.Common().Args[0]))
			continue
		}
		// append(updated, v) after the call in the same block
		var app *ssa.Call
		for _, in := range call.Block().Instrs {
			ac, ok := in.(*ssa.Call)
			if !ok || !Dominates(call, ac) {
				continue
			}
			cc, isApp := isBuiltinCall(ac, "append")
			if !isApp || len(cc.Args) != 2 {
				continue
			}
			if sl, ok := cc.Args[1].(*ssa.Slice); ok {
				if arr, ok := sl.X.(*ssa.Alloc); ok {
					for _, r := range *arr.Referrers() {
						if ia, ok := r.(*ssa.IndexAddr); ok {
							for _, r2 := range *ia.Referrers() {
								if st, ok := r2.(*ssa.Store); ok && st.Addr == ssa.Value(ia) {
									if ld, ok := st.Val.(*ssa.UnOp); ok && ld.X == ssa.Value(rec) {
										app = ac
									}
								}
							}
						}
					}
				}
			}
		}
		okDirty := false
		if app != nil {
			phi, _ := app.Common().Args[0].(*ssa.Phi)
			inPhi := false
			if phi != nil {
				for _, e := range phi.Edges {
					if e == ssa.Value(app) {
						inPhi = true
					}
				}
			}
			if inPhi {
				for _, b := range de.Blocks {
					for _, in := range b.Instrs {
						mu, ok := in.(*ssa.MapUpdate)
						if !ok || !hIsPath(mu.Map, de.Params[0], fDirty) {
							continue
						}
						r, fs, ok := hFieldPath(mu.Key)
						ra, isA := r.(*ssa.Alloc)
						if !ok || !isA || len(fs) != 1 || fs[0] != fRecID {
							continue
						}
						st := localStores(ra)
						if len(st) != 1 {
							continue
						}
						if ld, ok := st[0].(*ssa.UnOp); ok {
							if ia, ok := ld.X.(*ssa.IndexAddr); ok && ia.X == ssa.Value(phi) {
								okDirty = true
							}
						}
					}
				}
			}
		}
		c.Check(okDirty, "R36.4", dename+":advanced record marked dirty", c.Pos(call.Pos()), "a record whose keys were advanced is appended to the list whose every element is entered into db.dirty (so the next registry flush rewrites its secrets)")
	}
	ur := c.Fn("data/account.updateRollingFields")
	rec := hSpill(ur.Params[2])
	okU := false
	for _, ci := range CallsTo(ur, false, snapFn) {
		if !hIsPath(ci.Common().Args[0], rec, fRecVoting) {
			continue
		}
		for _, ei := range CallsTo(ur, false, encode) {
			if mi, ok := ei.Common().Args[0].(*ssa.MakeInterface); ok {
				if a, ok := mi.X.(*ssa.Alloc); ok {
					st := localStores(a)
					if len(st) == 1 && st[0] == ci.Value() {
						// the encoded bytes reach ExecContext
						for _, b := range ur.Blocks {
							for _, in := range b.Instrs {
								if m2, ok := in.(*ssa.MakeInterface); ok && m2.X == ei.Value() {
									okU = true
								}
							}
						}
					}
				}
			}
		}
	}
	c.Check(okU, "R36.4", "data/account.updateRollingFields:writes Encode(record.Voting.Snapshot())", c.Pos(ur.Pos()), "the registry flush stores the current (post-deletion) secrets of the record")
}
