package main

import (
	"go/token"
	"go/types"

	"golang.org/x/tools/go/ssa"
)

// Rules added after independent seeded changes showed a gap (see DESIGN §11).

func init() {
	extend("C28", Extension{
		Run:         ruleVerifiedCacheCoversAuthorization,
		Explanation: "R28.7 (verified-transaction cache): GetUnverifiedTransactionGroups counts a transaction as already verified only if every authorization-carrying field of SignedTxn (all fields except Txn, which the Txid key binds: Sig, Msig, Lsig, PQsig, AuthAddr and any future one) of the cached copy was compared with the presented one — otherwise a result cached for (tx, AuthAddr=A, sig by A) would be reused for the same tx with AuthAddr stripped.",
		Floor:       map[string]int{"R28.7": 5},
	})
	extend("C44", Extension{
		Run:         rulePoolSpillOrder,
		Explanation: "R44.6 (spill-over order): in addToPendingBlockEvaluator the retry of a group after ErrNoSpace happens only after numPendingWholeBlocks was advanced and the evaluator's byte counter reset, so the retry's liveness test (LastValid against evaluator round + pending whole blocks) is made for the block the group actually lands in.",
		Floor:       map[string]int{"R44.6": 2},
	})
	extend("C14", Extension{
		Run:         func(c *Ctx) { determinismCatchpoint(c, "R14.5") },
		Explanation: "R14.5 (map-iteration order over the call closure of the catchpoint tracker's commit, first-stage and label methods, interface calls resolved to every module implementation in ledger, ledgercore, trackerdb, sqlitedriver and merkletrie): every `range` over a map is order-insensitive by construction or is in the reviewed table with the reason why Go's randomised iteration order cannot reach a hashed value; a new or unrecognised map iteration fails until reviewed.",
		Floor:       map[string]int{"R14.5": 10},
	})
	extend("C11", Extension{
		Run:         ruleTxTailLeaseReload,
		Explanation: "R11.6 (lease reload): txTail.loadFromDisk restores each persisted lease with the expiry LastValid[lease.TxnIdx] of its own transaction (the Leases list is sparse, so any other index restores a wrong expiry), mirroring the TxnIdx recorded when the round was encoded.",
		Floor:       map[string]int{"R11.6": 2},
	})
}

// NewReachFromBlock is NewReach starting at the top of block start instead of
// the function entry.
func NewReachFromBlock(start *ssa.BasicBlock, cut []Edge, stop func(ssa.Instruction) bool) *Reach {
	fn := start.Parent()
	r := &Reach{fn: fn, visited: map[*ssa.BasicBlock]bool{}, cutAt: map[*ssa.BasicBlock]int{}, pred: map[*ssa.BasicBlock]*ssa.BasicBlock{}}
	cutSet := map[Edge]bool{}
	for _, e := range cut {
		cutSet[e] = true
	}
	work := []*ssa.BasicBlock{start}
	r.visited[start] = true
	for len(work) > 0 {
		b := work[0]
		work = work[1:]
		stopped := false
		for i, in := range b.Instrs {
			if noReturnCall(in) || (stop != nil && stop(in)) {
				r.cutAt[b] = i
				stopped = true
				break
			}
		}
		if stopped {
			continue
		}
		for i, s := range b.Succs {
			if cutSet[Edge{b, i}] {
				continue
			}
			if !r.visited[s] {
				r.visited[s] = true
				r.pred[s] = b
				work = append(work, s)
			}
		}
	}
	return r
}

// comparesField reports whether instruction in is a comparison (==, != or a
// call to an Equal method) one of whose operands reads field f.
func comparesField(in ssa.Instruction, f *types.Var) bool {
	switch x := in.(type) {
	case *ssa.BinOp:
		if x.Op == token.EQL || x.Op == token.NEQ {
			return Mentions(x.X, f, 5) || Mentions(x.Y, f, 5)
		}
	case *ssa.Call:
		if cal := calleeOf(x.Common()); cal != nil && cal.Name() == "Equal" {
			for _, a := range callArgs(x.Common()) {
				if Mentions(a, f, 5) {
					return true
				}
			}
		}
	}
	return false
}

func ruleVerifiedCacheCoversAuthorization(c *Ctx) {
	const rule = "R28.7"
	fn := c.Fn("data/transactions/verify.verifiedTransactionCache.GetUnverifiedTransactionGroups")
	st := c.Named("data/transactions.SignedTxn").Underlying().(*types.Struct)
	fTxn := c.Field("data/transactions.SignedTxn.Txn")
	// the cache-hit effect: the counter of verified members is advanced
	var hits []ssa.Instruction
	for _, b := range fn.Blocks {
		for _, in := range b.Instrs {
			if bo, ok := in.(*ssa.BinOp); ok && bo.Op == token.ADD && IsConstInt(1)(bo.Y) {
				if _, isPhi := bo.X.(*ssa.Phi); isPhi {
					// the counter is the one compared with len(group) after the loop
					for _, r := range *bo.Referrers() {
						if p, ok := r.(*ssa.Phi); ok {
							for _, r2 := range *p.Referrers() {
								if cmp, ok := r2.(*ssa.BinOp); ok && (cmp.Op == token.NEQ || cmp.Op == token.EQL) {
									if _, isLen := lenOf(cmp.Y); isLen {
										hits = append(hits, bo)
									}
								}
							}
						}
					}
				}
			}
		}
	}
	if len(hits) != 1 {
		c.Unk(rule, "data/transactions/verify.verifiedTransactionCache.GetUnverifiedTransactionGroups:hit-counter", c.Pos(fn.Pos()), "cache-hit counter idiom (n++ compared with len(group)) not recognised: found "+itoa(len(hits)))
		return
	}
	// helpers: static callees in package verify reachable within 2 calls
	helpers := map[*ssa.Function]bool{}
	var add func(f *ssa.Function, d int)
	add = func(f *ssa.Function, d int) {
		for _, b := range f.Blocks {
			for _, in := range b.Instrs {
				if call, ok := in.(*ssa.Call); ok {
					if sc := call.Common().StaticCallee(); sc != nil && sc.Pkg == fn.Pkg && sc.Blocks != nil && !helpers[sc] && sc != fn {
						helpers[sc] = true
						if d > 0 {
							add(sc, d-1)
						}
					}
				}
			}
		}
	}
	add(fn, 1)
	for i := 0; i < st.NumFields(); i++ {
		f := st.Field(i)
		if f == fTxn || f.Name() == "_struct" {
			continue
		}
		construct := "data/transactions/verify.verifiedTransactionCache.GetUnverifiedTransactionGroups:cache-hit<=cached." + f.Name() + "==presented." + f.Name()
		inFn := false
		for _, b := range fn.Blocks {
			for _, in := range b.Instrs {
				if comparesField(in, f) {
					inFn = true
				}
			}
		}
		if inFn {
			g := GAnyOf("cached."+f.Name()+"==presented."+f.Name(),
				GCmp("==", token.EQL, M(f), M(f)),
				GBool("Equal", func(v ssa.Value) bool {
					call, ok := v.(*ssa.Call)
					return ok && comparesField(call, f)
				}, true))
			edges, matched := PassEdges(fn, g)
			if matched == 0 {
				c.Bad(rule, construct, c.Pos(hits[0].Pos()), "the comparison of field "+f.Name()+" does not steer a branch")
				continue
			}
			r := NewReach(fn, edges, nil)
			c.Check(!r.Reaches(hits[0]), rule, construct, c.Pos(hits[0].Pos()), "a transaction is counted as already verified only past the equality of "+f.Name()+" between the cached and the presented copy")
			continue
		}
		inHelper := ""
		for h := range helpers {
			for _, b := range h.Blocks {
				for _, in := range b.Instrs {
					if comparesField(in, f) {
						inHelper = fnName(h)
					}
				}
			}
		}
		if inHelper != "" {
			c.Ok(rule, construct, c.Pos(hits[0].Pos()), "field "+f.Name()+" is compared in helper "+inHelper+" (coverage only: the helper's polarity is not decided)")
			continue
		}
		c.Bad(rule, construct, c.Pos(hits[0].Pos()), "SignedTxn."+f.Name()+" is never compared between the cached and the presented transaction, yet the cached verification result is reused: an authorization that differs only in "+f.Name()+" is accepted without verification")
	}
}

func rulePoolSpillOrder(c *Ctx) {
	const rule = "R44.6"
	fn := c.Fn("data/pools.TransactionPool.addToPendingBlockEvaluator")
	once := c.Func("data/pools.TransactionPool.addToPendingBlockEvaluatorOnce")
	errNoSpace := c.Obj("ledger/ledgercore.ErrNoSpace")
	fWhole := c.Fields("data/pools.TransactionPool.numPendingWholeBlocks")
	reset := c.Func("data/pools.BlockEvaluator.ResetTxnBytes")
	name := "data/pools.TransactionPool.addToPendingBlockEvaluator"
	edges, matched := PassEdges(fn, GCmp("err==ErrNoSpace", token.EQL, ResultOf(-1, once), M(errNoSpace)))
	if matched != 1 || len(edges) != 1 {
		c.Unk(rule, name+":err==ErrNoSpace", c.Pos(fn.Pos()), "the ErrNoSpace test on the first attempt's result was not found")
		return
	}
	start := edges[0].From.Succs[edges[0].Idx]
	var retries []ssa.Instruction
	for _, ci := range CallsTo(fn, false, once) {
		if start.Dominates(ci.Block()) {
			retries = append(retries, ci)
		}
	}
	if len(retries) == 0 {
		c.Unk(rule, name+":retry", c.Pos(fn.Pos()), "no retry of addToPendingBlockEvaluatorOnce on the ErrNoSpace edge found")
		return
	}
	stores := map[ssa.Instruction]bool{}
	for _, s := range StoresToField(fn, false, fWhole) {
		stores[s] = true
	}
	r1 := NewReachFromBlock(start, nil, func(in ssa.Instruction) bool { return stores[in] })
	ok1 := true
	for _, rt := range retries {
		if r1.Reaches(rt) {
			ok1 = false
		}
	}
	c.Check(ok1, rule, name+":retry<=numPendingWholeBlocks++", c.Pos(retries[0].Pos()), "after ErrNoSpace the group is retried only after numPendingWholeBlocks was advanced (the retry's liveness test uses it)")
	resets := map[ssa.Instruction]bool{}
	for _, ci := range CallsTo(fn, false, reset) {
		resets[ci] = true
	}
	r2 := NewReachFromBlock(start, nil, func(in ssa.Instruction) bool { return resets[in] })
	ok2 := len(resets) > 0
	for _, rt := range retries {
		if r2.Reaches(rt) {
			ok2 = false
		}
	}
	c.Check(ok2, rule, name+":retry<=ResetTxnBytes()", c.Pos(retries[0].Pos()), "after ErrNoSpace the group is retried only after the evaluator's byte counter was reset")
}

func ruleTxTailLeaseReload(c *Ctx) {
	const rule = "R11.6"
	fn := c.Fn("ledger.txTail.loadFromDisk")
	fLeases := c.Field("ledger.roundLeases.txleases")
	fLastValid := c.Field("ledger/store/trackerdb.TxTailRound.LastValid")
	fTxnIdx := c.Field("ledger/store/trackerdb.TxTailRoundLease.TxnIdx")
	name := "ledger.txTail.loadFromDisk"
	n := 0
	for _, f := range withAnon(fn) {
		for _, b := range f.Blocks {
			for _, in := range b.Instrs {
				mu, ok := in.(*ssa.MapUpdate)
				if !ok || !Mentions(mu.Map, fLeases, 6) {
					continue
				}
				n++
				// value = LastValid[idx] with idx derived from lease.TxnIdx
				okVal := false
				walkDef(mu.Value, 6, func(v ssa.Value) bool {
					if ia, isIA := v.(*ssa.IndexAddr); isIA && Mentions(ia.X, fLastValid, 4) && Mentions(ia.Index, fTxnIdx, 5) {
						okVal = true
					}
					return !okVal
				})
				c.Check(okVal, rule, name+":txleases[key]=LastValid[lease.TxnIdx]", c.Pos(mu.Pos()), "the restored lease expiry is the LastValid entry selected by the lease's own TxnIdx")
			}
		}
	}
	if n == 0 {
		c.Unk(rule, name+":txleases-store", c.Pos(fn.Pos()), "no store into roundLeases.txleases found in loadFromDisk")
	}
	// the writer side records the transaction's own index
	enc := c.Fn("ledger/store/trackerdb.TxTailRoundFromBlock")
	st := StoresToField(enc, true, map[*types.Var]bool{fTxnIdx: true})
	okEnc := len(st) > 0
	for _, s := range st {
		// the stored index is the loop index over the payset (a phi / range index), converted
		v := strip(s.(*ssa.Store).Val)
		if _, isConst := v.(*ssa.Const); isConst {
			okEnc = false
		}
	}
	c.Check(okEnc, rule, "ledger/store/trackerdb.TxTailRoundFromBlock:TxnIdx=index of the transaction", c.Pos(enc.Pos()), "every persisted lease records a (non-constant) transaction index")
}
