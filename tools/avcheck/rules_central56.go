package main

import (
	"golang.org/x/tools/go/ssa"
)

// R16.9: a catchpoint is labelled and versioned as what its first stage wrote.
//
// Found by a second independent audit of C16 (a genuine defect, repaired by a
// "fix:" commit, see known_findings.json and DESIGN §7). A catchpoint for round R
// is produced in two stages: the first (finishFirstStage) runs when the trackers
// flush to accountsRound = R - CatchpointLookback and, under the protocol of
// THAT round, decides whether the online-accounts and online-round-params tables
// are hashed and written to the data file; the second (createCatchpoint) runs at
// R and picked the label maker and the file version from the protocol of R
// alone. When the upgrade that enables online accounts in catchpoints takes
// effect in between, every honest node publishes a version-8 label computed over
// two zero digests and a version-8 file without any online row; the restoring
// node hashes its empty staging tables (SHA512_256 of nothing, never the zero
// digest) and rejects the genuine file: nobody can fast-catch-up to that
// catchpoint. (The analogous switch for state-proof contexts is guarded by
// reenableCatchpointsRound.)
func init() {
	extend("C16", Extension{
		Run:         ruleLabelVersionFollowsFirstStage,
		Explanation: "R16.9 (the second stage describes what the first stage produced): in catchpointTracker.createCatchpoint the version-8 label maker (MakeCatchpointLabelMakerCurrent, which commits to the online-accounts and online-round-params hashes) is called only after the first-stage record's OnlineAccountsHash or OnlineRoundParamsHash has been examined (an IsZero() test of one of those fields dominates the call) — the protocol of the catchpoint round alone does not say whether the first stage, which ran CatchpointLookback rounds earlier under its own protocol, hashed and wrote those tables.",
		Floor:       map[string]int{"R16.9": 1},
	})
}

func ruleLabelVersionFollowsFirstStage(c *Ctx) {
	const rule = "R16.9"
	const spec = "ledger.catchpointTracker.createCatchpoint"
	fn := c.Fn(spec)
	mk := c.Func("ledger/ledgercore.MakeCatchpointLabelMakerCurrent")
	fA := c.Field("ledger/store/trackerdb.CatchpointFirstStageInfo.OnlineAccountsHash")
	fB := c.Field("ledger/store/trackerdb.CatchpointFirstStageInfo.OnlineRoundParamsHash")
	calls := CallsTo(fn, false, mk)
	if len(calls) == 0 {
		c.Unk(rule, spec+":MakeCatchpointLabelMakerCurrent", c.Pos(fn.Pos()), "no call found")
		return
	}
	for _, call := range calls {
		examined := false
		for _, b := range fn.Blocks {
			for _, in := range b.Instrs {
				z, ok := in.(*ssa.Call)
				if !ok {
					continue
				}
				cal := calleeOf(z.Common())
				if cal == nil || cal.Name() != "IsZero" {
					continue
				}
				a := callArgs(z.Common())
				if len(a) == 1 && (Mentions(a[0], fA, 4) || Mentions(a[0], fB, 4)) && Dominates(z, call) {
					examined = true
				}
			}
		}
		c.Check(examined, rule, spec+":version-8 label only if the first stage recorded the online hashes", c.Pos(call.Pos()),
			"the first-stage record's online-accounts / online-round-params hash is examined before a label committing to them is made")
	}
}
