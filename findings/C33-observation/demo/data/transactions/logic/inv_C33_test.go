package logic

import (
	"fmt"
	"testing"

	"github.com/stretchr/testify/require"

	"github.com/algorand/go-algorand/test/partitiontest"
)

// invC33Assemble assembles without letting an assembler panic take the test
// binary down: the property says every well-formed program is either rejected
// with an error or accepted; crashing is neither.
func invC33Assemble(src string, ver uint64) (ops *OpStream, err error, panicked any) {
	defer func() {
		if x := recover(); x != nil {
			ops, err, panicked = nil, nil, x
		}
	}()
	ops, err = AssembleStringWithVersion(src, ver)
	return
}

// invC33RoundTrip asserts property C33 on one source text:
//   - the assembler either rejects the text with an error or accepts it (never panics)
//   - if accepted, the bytecode passes the static check for its version
//   - if accepted, assemble(disassemble(bytecode)) == bytecode
func invC33RoundTrip(t *testing.T, src string, mode RunMode) {
	t.Helper()
	ops, err, panicked := invC33Assemble(src, assemblerNoVersion)
	require.Nil(t, panicked, "assembler panicked on well-formed source:\n%s", src)
	if err != nil {
		t.Logf("assembler rejected (fine):\n%s\n%v", src, ops.Errors)
		return
	}
	require.NotNil(t, ops.Program)

	// static check for the program's version
	var ep *EvalParams
	if mode == ModeSig {
		ep = defaultSigParams()
	} else {
		ep = defaultAppParams()
	}
	require.NoError(t, check(ops.Program, 0, ep, mode),
		"assembler accepted, static check refused. program %x source:\n%s", ops.Program, src)

	dis, err := Disassemble(ops.Program)
	require.NoError(t, err, "cannot disassemble %x", ops.Program)

	// typetrack false: type knowledge is (by design) not carried by the disassembly
	ops2, err, panicked := invC33Assemble(notrack(dis), assemblerNoVersion)
	require.Nil(t, panicked, "assembler panicked on disassembly:\n%s", dis)
	require.NoError(t, err, "disassembly of an accepted program cannot be reassembled: %v\nsource:\n%s\ndisassembly:\n%s",
		ops2Errors(ops2), src, dis)
	require.Equal(t, ops.Program, ops2.Program, "source:\n%s\ndisassembly:\n%s", src, dis)
}

func ops2Errors(ops *OpStream) []sourceError {
	if ops == nil {
		return nil
	}
	return ops.Errors
}

// TestInvC33ConstScratchIndex: a decimal `int N` (N > 255) feeding loads/stores
// makes the assembler index its 256-entry scratch type table with N and panic.
// `int N; loads` is a well-formed program (it passes the static check; it only
// fails when evaluated), so the assembler must accept or reject it, not crash.
func TestInvC33ConstScratchIndex(t *testing.T) {
	partitiontest.PartitionTest(t)
	t.Parallel()

	for v := uint64(5); v <= AssemblerMaxVersion; v++ { // loads/stores are v5
		for _, n := range []uint64{255, 256, 300, 1 << 32, ^uint64(0)} {
			for _, body := range []string{
				"int %d\nloads\nreturn\n",
				"int %d\nint 7\nstores\nint 1\nreturn\n",
			} {
				for _, track := range []string{"", "#pragma typetrack false\n"} {
					src := fmt.Sprintf("#pragma version %d\n%s"+body, v, track, n)
					invC33RoundTrip(t, src, ModeSig)
				}
			}
		}
	}
}

// TestInvC33DeadCblock: the assembler ignores a cblock that it believes is in
// dead code, but the disassembly loses unreferenced labels, so code that was
// live in the source (it followed a label) is dead in the disassembly.  The
// `intc N` that was checked against the cblock when assembling the source is
// then refused ("intc 4 is not defined") when assembling the disassembly.
func TestInvC33DeadCblock(t *testing.T) {
	partitiontest.PartitionTest(t)
	t.Parallel()

	for v := uint64(4); v <= AssemblerMaxVersion; v++ { // retsub is v4
		// `unused` is a subroutine nobody calls (yet); it carries its own constants.
		invC33RoundTrip(t, fmt.Sprintf(`#pragma version %d
pushint 1
return
unused:
intcblock 10 20 30 40 50
intc 4
retsub
`, v), ModeSig)
		invC33RoundTrip(t, fmt.Sprintf(`#pragma version %d
pushint 1
return
unused:
bytecblock 0x00 0x01 0x02 0x03 0x04
bytec 4
len
retsub
`, v), ModeSig)
	}
}

// TestInvC33NoInstructions: a source text with no instruction and no `#pragma
// version` (comments, a typetrack pragma, a macro definition) is accepted, but
// the version is never settled: the "program" is the 10-byte varint of the
// internal assemblerNoVersion marker (2^64-1), which no static check accepts.
// The same text with an explicit `#pragma version` yields a one byte program
// that does pass the static check.
func TestInvC33NoInstructions(t *testing.T) {
	partitiontest.PartitionTest(t)
	t.Parallel()

	invC33RoundTrip(t, "#pragma version 2\n// TODO: write the program\n", ModeSig) // control
	for _, src := range []string{
		"// TODO: write the program\n",
		"#pragma typetrack false\n",
		"#define five 5\n",
	} {
		invC33RoundTrip(t, src, ModeSig)
	}
}
