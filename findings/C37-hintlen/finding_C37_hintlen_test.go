package merklearray

import (
	"testing"

	"github.com/algorand/go-algorand/crypto"
	"github.com/stretchr/testify/require"
)

// A junk element "verifies" at an odd leaf of a vector-commitment tree built with a
// 32-byte hash: the forged proof presents, as the LEFT sibling of the junk leaf, the
// 64-byte string leafhash(even)‖leafhash(odd). pair.ToBeHashed writes the right child at
// buf[len(p.l):], i.e. behind the buffer, so the junk leaf's own hash is ignored and the
// genuine parent is recomputed. Soundness of C37 is violated on the unmodified code.
func TestFindingC37OversizedHintForgesLeaf(t *testing.T) {
	arr := make(TestArray, 8)
	for i := range arr {
		crypto.RandBytes(arr[i][:])
	}
	factory := crypto.HashFactory{HashType: crypto.Sha512_256}
	tree, err := BuildVectorCommitmentTree(arr, factory)
	require.NoError(t, err)
	root := tree.Root()

	const pos = 4 // lsb position whose msb (bit-reversed) index 1 is odd: a right child
	genuine, err := tree.ProveSingleLeaf(pos)
	require.NoError(t, err)
	require.NoError(t, VerifyVectorCommitment(root, map[uint64]crypto.Hashable{pos: arr[pos]}, genuine.ToProof()))

	// forged proof: same path, but Path[0] = hash(leaf msb 0)‖hash(leaf msb 1)
	forged := *genuine.ToProof()
	forged.Path = append([]crypto.GenericDigest(nil), genuine.Path...)
	l0 := tree.Levels[0][0]
	l1 := tree.Levels[0][1]
	forged.Path[0] = append(append(crypto.GenericDigest{}, l0...), l1...)
	require.Len(t, forged.Path[0], 64)

	var junk TestData
	crypto.RandBytes(junk[:])
	require.NotEqual(t, arr[pos], junk)
	err = VerifyVectorCommitment(root, map[uint64]crypto.Hashable{pos: junk}, &forged)
	require.Error(t, err, "a junk element was accepted at position %d under the genuine root", pos)
}
