// Copyright (C) 2019-2026 Algorand Foundation Ltd.
// This file is part of go-algorand
//
// go-algorand is free software: you can redistribute it and/or modify
// it under the terms of the GNU Affero General Public License as
// published by the Free Software Foundation, either version 3 of the
// License, or (at your option) any later version.
//
// go-algorand is distributed in the hope that it will be useful,
// but WITHOUT ANY WARRANTY; without even the implied warranty of
// MERCHANTABILITY or FITNESS FOR A PARTICULAR PURPOSE.  See the
// GNU Affero General Public License for more details.
//
// You should have received a copy of the GNU Affero General Public License
// along with go-algorand.  If not, see <https://www.gnu.org/licenses/>.

package ledger

import (
	"path/filepath"
	"strconv"
	"testing"
	"time"

	"github.com/stretchr/testify/require"

	"github.com/algorand/go-algorand/config"
	"github.com/algorand/go-algorand/data/basics"
	"github.com/algorand/go-algorand/data/transactions"
	"github.com/algorand/go-algorand/data/txntest"
	"github.com/algorand/go-algorand/ledger/ledgercore"
	ledgertesting "github.com/algorand/go-algorand/ledger/testing"
	"github.com/algorand/go-algorand/protocol"
	"github.com/algorand/go-algorand/test/partitiontest"
)

// invC14Flush persists everything up to Latest()-lookback, in this goroutine's
// time ( i.e. when it returns, the flush - if there was anything to flush - is done ).
func invC14Flush(l *Ledger, lookback basics.Round) {
	l.WaitForCommit(l.Latest())

	l.trackers.mu.Lock()
	l.trackers.lastFlushTime = time.Time{}
	l.trackers.mu.Unlock()

	l.trackerMu.Lock()
	l.trackers.scheduleCommit(l.Latest(), lookback)
	l.trackers.waitAccountsWriting()
	l.trackerMu.Unlock()
}

// TestInvC14CatchpointLabelsIndependentOfFlushSchedule feeds the very same blocks ( made of
// ordinary, valid transactions ) to two ledgers. One of them persists its trackers after every
// block, like a node that follows the tip of the chain. The other persists many rounds at once,
// like a node that is catching up. Both must publish the same catchpoint label for the same
// catchpoint round.
func TestInvC14CatchpointLabelsIndependentOfFlushSchedule(t *testing.T) {
	partitiontest.PartitionTest(t)
	// t.Parallel() NO! config.Consensus is modified

	// two unrelated boxes : shows that the harness itself does not make the labels differ.
	t.Run("boxes-x-y", func(t *testing.T) { testInvC14CatchpointLabels(t, "x", 2, "y\x00", 1) })
	// box "x" holding two zero bytes, and box "x\x00" holding one zero byte.
	t.Run("boxes-x-x0", func(t *testing.T) { testInvC14CatchpointLabels(t, "x", 2, "x\x00", 1) })
}

func testInvC14CatchpointLabels(t *testing.T, firstBox string, firstBoxSize byte, secondBox string, secondBoxSize byte) {
	const catchpointLookback = 8
	const catchpointInterval = 16

	testProtocolVersion := protocol.ConsensusVersion("test-protocol-TestInvC14CatchpointLabels-" + secondBox)
	protoParams := config.Consensus[protocol.ConsensusFuture]
	protoParams.CatchpointLookback = catchpointLookback
	config.Consensus[testProtocolVersion] = protoParams
	defer func() {
		delete(config.Consensus, testProtocolVersion)
	}()

	genBalances, addrs, _ := ledgertesting.NewTestGenesis()

	// the node that follows the chain : default configuration, tracking catchpoint labels.
	tipCfg := config.GetDefaultLocal()
	tipCfg.CatchpointInterval = catchpointInterval
	tipCfg.CatchpointTracking = 1
	// the node that flushes rarely : same thing, but it never flushes on its own; the test decides when.
	bulkCfg := tipCfg
	bulkCfg.MaxAcctLookback = 1000

	tip := newSimpleLedgerWithConsensusVersion(t, genBalances, testProtocolVersion, tipCfg, simpleLedgerNotArchival())
	bulk := newSimpleLedgerFull(t, genBalances, testProtocolVersion, tip.GenesisHash(), bulkCfg, simpleLedgerNotArchival())
	dl := DoubleLedger{t: t, generator: tip, validator: bulk, proposer: genBalances.FeeSink}
	defer dl.Close()

	tipLabels := make(map[basics.Round]string)
	bulkLabels := make(map[basics.Round]string)
	recordLabel := func(l *Ledger, labels map[basics.Round]string) {
		label := l.GetLastCatchpointLabel()
		if label == "" {
			return
		}
		rnd, _, err := ledgercore.ParseCatchpointLabel(label)
		require.NoError(t, err)
		labels[rnd] = label
	}

	// every block is handed to both ledgers; the "tip" ledger flushes right away.
	block := func(txns ...*txntest.Txn) {
		dl.fullBlock(txns...)
		invC14Flush(tip, basics.Round(tipCfg.MaxAcctLookback))
		recordLabel(tip, tipLabels)
	}

	pay := txntest.Txn{
		Type:     "pay",
		Sender:   addrs[0],
		Receiver: addrs[1],
		Amount:   1000,
	}
	padTo := func(rnd basics.Round) {
		for tip.Latest() < rnd {
			block(pay.Noted(strconv.Itoa(int(tip.Latest()))))
		}
	}

	// rounds 1, 2 : an application that creates and deletes boxes on request.
	appID := dl.fundedApp(addrs[0], 10_000_000, boxAppSource)
	invC14Flush(tip, basics.Round(tipCfg.MaxAcctLookback))
	call := txntest.Txn{
		Type:          "appl",
		Sender:        addrs[0],
		ApplicationID: appID,
	}

	// get past the first data round ( 16-8 = 8 ), so that the three rounds below are all in the range (8, 24].
	padTo(9)

	// round 10 : the first box is created
	createFirst := call.Args("create", firstBox, string([]byte{firstBoxSize}))
	createFirst.Boxes = []transactions.BoxRef{{Index: 0, Name: []byte(firstBox)}}
	block(createFirst)
	// round 11 : the second box is created
	createSecond := call.Args("create", secondBox, string([]byte{secondBoxSize}))
	createSecond.Boxes = []transactions.BoxRef{{Index: 0, Name: []byte(secondBox)}}
	block(createSecond)
	// round 12 : the first box goes away. The second one stays.
	deleteFirst := call.Args("delete", firstBox)
	deleteFirst.Boxes = []transactions.BoxRef{{Index: 0, Name: []byte(firstBox)}}
	block(deleteFirst)

	// run past catchpoint round 32, whose balances are the ones of round 24.
	lastRound := basics.Round(2*catchpointInterval) + basics.Round(tipCfg.MaxAcctLookback) + 1
	padTo(lastRound)

	// now let the other ledger persist. It has all of the rounds in memory, so the first flush
	// is one big one, up to the data round 24; the following ones take it to the same place as "tip".
	for i := 0; i < 4; i++ {
		invC14Flush(bulk, basics.Round(tipCfg.MaxAcctLookback))
		recordLabel(bulk, bulkLabels)
	}

	// both ledgers hold the same blocks and persisted up to the same round.
	require.Equal(t, tip.Latest(), bulk.Latest())
	require.Equal(t, tip.LatestTrackerCommitted(), bulk.LatestTrackerCommitted())
	tipHdr, err := tip.BlockHdr(tip.Latest())
	require.NoError(t, err)
	bulkHdr, err := bulk.BlockHdr(bulk.Latest())
	require.NoError(t, err)
	require.Equal(t, tipHdr.Hash(), bulkHdr.Hash())

	// and the state is the same : a single box is left.
	for _, l := range []*Ledger{tip, bulk} {
		keys, err := l.LookupKeysByPrefix(l.Latest(), "bx:", 10)
		require.NoError(t, err)
		require.Len(t, keys, 1)
	}

	cpRound := basics.Round(2 * catchpointInterval)
	require.Contains(t, tipLabels, cpRound)
	require.Contains(t, bulkLabels, cpRound)
	require.Equal(t, tipLabels[cpRound], bulkLabels[cpRound],
		"two ledgers with the same blocks disagree on the label of catchpoint round %d", cpRound)
	require.Equal(t, tip.GetLastCatchpointLabel(), bulk.GetLastCatchpointLabel())
}

// TestInvC14CollidingBoxesCatchpointRestore is supplementary to the test above : it shows what the
// two boxes do to the consumers of the catchpoint. A catchpoint file that was written by a ledger
// holding both boxes cannot be restored, since the restoring side finds the same trie entry twice.
func TestInvC14CollidingBoxesCatchpointRestore(t *testing.T) {
	partitiontest.PartitionTest(t)
	t.Parallel()

	genBalances, addrs, _ := ledgertesting.NewTestGenesis()
	cfg := config.GetDefaultLocal()
	proto := protocol.ConsensusFuture
	dl := NewDoubleLedger(t, genBalances, proto, cfg)
	defer dl.Close()

	appID := dl.fundedApp(addrs[0], 10_000_000, boxAppSource)
	call := txntest.Txn{
		Type:          "appl",
		Sender:        addrs[0],
		ApplicationID: appID,
	}
	createX := call.Args("create", "x", "\x02")
	createX.Boxes = []transactions.BoxRef{{Index: 0, Name: []byte("x")}}
	dl.fullBlock(createX)
	createX0 := call.Args("create", "x\x00", "\x01")
	createX0.Boxes = []transactions.BoxRef{{Index: 0, Name: []byte("x\x00")}}
	dl.fullBlock(createX0)

	pay := txntest.Txn{
		Type:     "pay",
		Sender:   addrs[0],
		Receiver: addrs[1],
		Amount:   1000,
	}
	for i := 0; i < 10; i++ {
		dl.fullBlock(pay.Noted(strconv.Itoa(i)))
	}

	tempDir := t.TempDir()
	catchpointDataFilePath := filepath.Join(tempDir, t.Name()+".data")
	catchpointFilePath := filepath.Join(tempDir, t.Name()+".catchpoint.tar.gz")

	testCatchpointFlushRound(dl.validator)
	testWriteCatchpoint(t, config.Consensus[proto], dl.validator.trackerDB(), catchpointDataFilePath, catchpointFilePath, 0, 0)

	// fails in BuildMerkleTrie : "The provided catchpoint file contained the same account more than once"
	l := testNewLedgerFromCatchpoint(t, dl.validator.trackerDB(), catchpointFilePath)
	defer l.Close()
	values, err := l.LookupKeysByPrefix(l.Latest(), "bx:", 10)
	require.NoError(t, err)
	require.Len(t, values, 2)
}
