// Copyright (C) 2019-2026 Algorand Foundation Ltd.
// This file is part of go-algorand
//
// go-algorand is free software: you can redistribute it and/or modify
// it under the terms of the GNU Affero General Public License as
// published by the Free Software Foundation, either version 3 of the
// License, or (at your option) any later version.
//
// go-algorand is distributed in the hope that it will be useful,
// but WITHOUT ANY WARRANTY; without even the implied warranty of
// MERCHANTABILITY or FITNESS FOR A PARTICULAR PURPOSE.  See the
// GNU Affero General Public License for more details.
//
// You should have received a copy of the GNU Affero General Public License
// along with go-algorand.  If not, see <https://www.gnu.org/licenses/>.

package pools

import (
	"context"
	"testing"
	"time"

	"github.com/stretchr/testify/require"

	"github.com/algorand/go-algorand/config"
	"github.com/algorand/go-algorand/crypto"
	"github.com/algorand/go-algorand/data/basics"
	"github.com/algorand/go-algorand/data/committee"
	"github.com/algorand/go-algorand/data/transactions"
	"github.com/algorand/go-algorand/data/transactions/logic"
	"github.com/algorand/go-algorand/data/transactions/verify"
	"github.com/algorand/go-algorand/logging"
	"github.com/algorand/go-algorand/protocol"
	"github.com/algorand/go-algorand/test/partitiontest"
	"github.com/algorand/go-algorand/util/execpool"
)

// TestInvC20AssembledBlockAcrossProtocolSwitch: a transaction group is verified
// (as the transaction handler does) under the protocol of the latest block and
// remembered by the pool in the last round of protocol A. The next block is the
// first block of protocol B = the real v41, which no longer accepts a LogicSig
// delegated with the legacy Msig field (A = the real v40 does). The property:
// whatever block the node then assembles from its pool must be accepted by
// Ledger.Validate.
func TestInvC20AssembledBlockAcrossProtocolSwitch(t *testing.T) {
	partitiontest.PartitionTest(t)
	// not parallel: adds entries to config.Consensus

	// the group reaches the node while block 3 is the latest one: it stays pending over block 4
	// and the node assembles block 5, the first block of B
	t.Run("pending-over-the-switch", func(t *testing.T) { invC20ProtocolSwitch(t, 3, 5) })
	// the group reaches the node while block 4 (the last block of A) is the latest one, i.e. while
	// the pool is already working on block 5; the node assembles block 6
	t.Run("arrives-in-the-last-round", func(t *testing.T) { invC20ProtocolSwitch(t, 4, 6) })
}

// invC20ProtocolSwitch: arrival is the latest round at the time the group is verified and
// remembered, assemble is the round of the block this node assembles (the blocks in between come
// from other proposers that never saw the group).
func invC20ProtocolSwitch(t *testing.T, arrival, assemble basics.Round) {

	const protoA = protocol.ConsensusVersion("test-inv-C20-A")
	const protoB = protocol.ConsensusVersion("test-inv-C20-B")
	a := config.Consensus[protocol.ConsensusV40]
	a.UpgradeVoteRounds = 2
	a.UpgradeThreshold = 1
	a.DefaultUpgradeWaitRounds = 2
	a.MinUpgradeWaitRounds = 0
	a.ApprovedUpgrades = map[protocol.ConsensusVersion]uint64{protoB: 0}
	b := config.Consensus[protocol.ConsensusV41]
	b.ApprovedUpgrades = map[protocol.ConsensusVersion]uint64{}
	require.True(t, a.LogicSigMsig)
	require.False(t, b.LogicSigMsig)
	config.Consensus[protoA] = a
	config.Consensus[protoB] = b
	defer func() {
		delete(config.Consensus, protoA)
		delete(config.Consensus, protoB)
	}()

	// a 1-of-1 multisig account that delegates to the program "int 1" with LogicSig.Msig
	secrets, addresses := generateAccounts(3)
	ops, err := logic.AssembleString("int 1")
	require.NoError(t, err)
	pks := []crypto.PublicKey{secrets[0].SignatureVerifier}
	maddr, err := crypto.MultisigAddrGen(1, 1, pks)
	require.NoError(t, err)
	msig, err := crypto.MultisigSign(logic.Program(ops.Program), maddr, 1, 1, pks, *secrets[0])
	require.NoError(t, err)
	sender := basics.Address(maddr)

	l := mockLedger(t, initAcc(map[basics.Address]uint64{
		sender:       10_000_000,
		addresses[1]: 10_000_000,
		addresses[2]: 10_000_000,
	}), protoA)
	defer l.Close()
	pool := MakeTransactionPool(l, config.GetDefaultLocal(), logging.Base(), nil)

	// the upgrade is proposed in block 1, approved, and block 5 is the first block of B
	for l.Latest() < arrival {
		commitTxns(t, l, pool)
	}
	latestHdr, err := l.BlockHdr(arrival)
	require.NoError(t, err)
	require.Equal(t, protoA, latestHdr.CurrentProtocol)
	require.Equal(t, basics.Round(5), latestHdr.NextProtocolSwitchOn)

	stx := transactions.SignedTxn{
		Txn: transactions.Transaction{
			Type: protocol.PaymentTx,
			Header: transactions.Header{
				Sender:      sender,
				Fee:         basics.MicroAlgos{Raw: a.MinTxnFee},
				FirstValid:  arrival,
				LastValid:   500,
				GenesisHash: l.GenesisHash(),
			},
			PaymentTxnFields: transactions.PaymentTxnFields{
				Receiver: addresses[1],
				Amount:   basics.MicroAlgos{Raw: 1},
			},
		},
		Lsig: transactions.LogicSig{Logic: ops.Program, Msig: msig},
	}
	group := []transactions.SignedTxn{stx}

	// what the transaction handler does: verify against the latest header, then remember
	_, err = verify.TxnGroup(group, &latestHdr, l.VerifiedTransactionCache(), l)
	require.NoError(t, err, "the group is properly signed when it reaches the node")
	// (the pool may refuse the group; what matters is the block it assembles)
	if err = pool.Remember(group); err != nil {
		t.Logf("Remember refused the group: %.60s...", err.Error())
	}

	// the blocks before the one we assemble come from other proposers and do not carry the group
	for l.Latest() < assemble-1 {
		commitTxns(t, l, pool)
	}
	t.Logf("%d txn(s) pending in the pool after block %d", pool.PendingCount(), l.Latest())

	// this node assembles a block of protocol B
	ub, err := pool.AssembleBlock(assemble, time.Now().Add(5*time.Second))
	require.NoError(t, err)
	blk := ub.FinishBlock(committee.Seed{1}, addresses[2], false)
	require.Equal(t, protoB, blk.CurrentProtocol)
	t.Logf("assembled block %d under %s with %d txn(s)", blk.Round(), blk.CurrentProtocol, len(blk.Payset))

	// every node with the same ledger state must accept it
	backlog := execpool.MakeBacklog(nil, 0, execpool.LowPriority, nil)
	defer backlog.Shutdown()
	_, err = l.Validate(context.Background(), blk, backlog)
	require.NoError(t, err, "a block assembled from the pool must validate")
}
