// Copyright (C) 2019-2026 Algorand Foundation Ltd.
// This file is part of go-algorand
//
// go-algorand is free software: you can redistribute it and/or modify
// it under the terms of the GNU Affero General Public License as
// published by the Free Software Foundation, either version 3 of the
// License, or (at your option) any later version.
//
// go-algorand is distributed in the hope that it will be useful,
// but WITHOUT ANY WARRANTY; without even the implied warranty of
// MERCHANTABILITY or FITNESS FOR A PARTICULAR PURPOSE.  See the
// GNU Affero General Public License for more details.
//
// You should have received a copy of the GNU Affero General Public License
// along with go-algorand.  If not, see <https://www.gnu.org/licenses/>.

package ledger

import (
	"testing"

	"github.com/stretchr/testify/require"

	"github.com/algorand/go-algorand/config"
	"github.com/algorand/go-algorand/data/basics"
	"github.com/algorand/go-algorand/data/committee"
	"github.com/algorand/go-algorand/data/txntest"
	"github.com/algorand/go-algorand/ledger/ledgercore"
	ledgertesting "github.com/algorand/go-algorand/ledger/testing"
	"github.com/algorand/go-algorand/protocol"
	"github.com/algorand/go-algorand/test/partitiontest"
)

// TestInvC20RepeatedValidateSameDelta assembles one block that calls several
// existing applications (each call writes one global key), and then validates
// that very block several times against the very same ledger state (the block
// is never added). The property under test: re-evaluating the same block on
// the same state always yields the identical state change. The comparison is
// the one the DoubleLedger helper (checkBlock) uses between the generator and
// the validator ledgers: require.Equal on the dehydrated StateDelta.
func TestInvC20RepeatedValidateSameDelta(t *testing.T) {
	partitiontest.PartitionTest(t)

	genBalances, addrs, _ := ledgertesting.NewTestGenesis()
	cfg := config.GetDefaultLocal()
	dl := NewDoubleLedger(t, genBalances, protocol.ConsensusFuture, cfg)
	defer dl.Close()

	// six apps with six different creators; calling one stores arg 0 in global "k"
	src := main(`byte "k"; txn ApplicationArgs 0; app_global_put`)
	var apps []basics.AppIndex
	for i := 0; i < 6; i++ {
		apps = append(apps, dl.createApp(addrs[i], src, basics.StateSchema{NumByteSlice: 1}))
	}

	// assemble the block on the generator ledger; it is NOT added to the ledger
	eval := nextBlock(t, dl.generator)
	for _, app := range apps {
		call := txntest.Txn{Type: "appl", Sender: addrs[7], ApplicationID: app}
		txn(t, dl.generator, eval, call.Args("v"))
	}
	ub, err := eval.GenerateBlock(nil)
	require.NoError(t, err)
	prp := genBalances.FeeSink
	blk := ub.UnfinishedBlock().WithProposer(committee.Seed(prp), prp, true)

	normalized := func(l *Ledger) ledgercore.StateDelta {
		vb, err := validateWithoutSignatures(t, l, blk)
		require.NoError(t, err)
		d := vb.Delta()
		d.Dehydrate()
		d.Hdr = nil // a pointer to the evaluator's private copy of the header
		return d
	}

	// appOrder is a short rendering of the part of the delta that turns out to differ
	appOrder := func(d ledgercore.StateDelta) (order []basics.AppIndex) {
		for _, r := range d.Accts.AppResources {
			order = append(order, r.Aidx)
		}
		return order
	}

	first := normalized(dl.generator)
	for i := 0; i < 12; i++ {
		// same block, same ledger, same round: must be the same state change
		again := normalized(dl.generator)
		require.Equal(t, appOrder(first), appOrder(again), "validation #%d of the same block on the same state", i+2)
		require.Equal(t, first, again, "validation #%d of the same block on the same state", i+2)
	}
	// and a different node with the same state must compute the same change as well
	other := normalized(dl.validator)
	require.Equal(t, appOrder(first), appOrder(other))
	require.Equal(t, first, other)
}
