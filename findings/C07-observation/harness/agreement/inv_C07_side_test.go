package agreement

import (
	"testing"

	"github.com/algorand/go-algorand/protocol"
	"github.com/algorand/go-algorand/test/partitiontest"
)

func TestInvC07SideStaleCertBundle(t *testing.T) {
	partitiontest.PartitionTest(t)
	const r = round(20)
	_, pM, helper := setupP(t, r, 5, soft)
	pV := helper.MakeRandomProposalValue()
	b := helper.MakeVerifiedBundle(t, r, 2, cert, *pV)
	inMsg := messageEvent{T: bundleVerified, Input: message{Bundle: b, UnauthenticatedBundle: b.U}, Proto: ConsensusVersionView{Version: protocol.ConsensusCurrentVersion}}
	err, panicErr := pM.transition(inMsg)
	t.Logf("err=%v panicErr=%v", err, panicErr)
	if panicErr != nil {
		t.Fatalf("panic: %v", panicErr)
	}
}
