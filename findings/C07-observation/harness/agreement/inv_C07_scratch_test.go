package agreement

import (
	"bytes"
	"fmt"
	"math/rand"
	"sort"
	"strings"
	"testing"
	"time"

	"github.com/algorand/go-algorand/config"
	"github.com/algorand/go-algorand/logging"
	"github.com/algorand/go-algorand/protocol"
	"github.com/algorand/go-algorand/test/partitiontest"
	"github.com/algorand/go-algorand/util/timers"
)

type dualC07 struct {
	t     *testing.T
	pa    player
	ra    rootRouter
	pb    player
	rb    rootRouter
	clock timers.Clock[TimeoutType]
	log   serviceLogger
	n     int
	diffs int
	mask  bool
	tolerant bool
}

func newDualC07(t *testing.T, p0 player, mask bool) *dualC07 {
	d := &dualC07{t: t, mask: mask}
	d.clock = timers.MakeMonotonicClock[TimeoutType](time.Date(2015, 1, 2, 5, 6, 7, 8, time.UTC))
	d.log = makeServiceLogger(logging.Base())
	d.pa = p0
	d.pa.lowestCredentialArrivals = makeCredentialArrivalHistory(dynamicFilterCredentialArrivalHistory)
	d.ra = makeRootRouter(d.pa)
	d.pb = p0
	d.pb.lowestCredentialArrivals = makeCredentialArrivalHistory(dynamicFilterCredentialArrivalHistory)
	d.rb = makeRootRouter(d.pb)
	return d
}

func actsStr(as []action) string {
	var b bytes.Buffer
	for _, a := range as {
		if na, ok := a.(networkAction); ok && na.T == broadcastVotes {
			var vs []string
			for _, v := range na.UnauthenticatedVotes {
				vs = append(vs, fmt.Sprintf("%x", protocol.Encode(&v)))
			}
			sort.Strings(vs)
			fmt.Fprintf(&b, "[broadcastVotes %v] ", vs)
			continue
		}
		fmt.Fprintf(&b, "[%s | %x] ", a.ComparableStr(), protocol.EncodeReflect(a))
	}
	return b.String()
}

func actsShort(as []action) string {
	var b bytes.Buffer
	for _, a := range as {
		fmt.Fprintf(&b, "[%s] ", a.ComparableStr())
	}
	return b.String()
}

func (d *dualC07) submit(e event) []action {
	d.n++
	var aa, ab []action
	d.pa, aa = d.ra.submitTop(&playerTracer, d.pa, e)
	d.pb, ab = d.rb.submitTop(&playerTracer, d.pb, e)
	if actsStr(aa) != actsStr(ab) && !(d.tolerant && len(aa) == 1 && len(ab) == 1 && strings.Contains(aa[0].ComparableStr(), "ignore: proposalTracker") && strings.HasPrefix(ab[0].ComparableStr(), "relay: AV")) {
		d.diffs++
		d.t.Errorf("step %d event %v: actions diverge\n  uncrashed: %s\n  restored:  %s", d.n, e.ComparableStr(), actsShort(aa), actsShort(ab))
	}
	ea := encode(d.clock, d.ra, d.pa, nil, false)
	eb := encode(d.clock, d.rb, d.pb, nil, false)
	if !persistent(ab) {
		ab = nil
	}
	eb = encode(d.clock, d.rb, d.pb, ab, false)
	if !bytes.Equal(ea, encode(d.clock, d.rb, d.pb, nil, false)) {
		d.diffs++
		d.t.Errorf("step %d event %v: exported state diverges (len %d vs %d)", d.n, e.ComparableStr(), len(ea), len(eb))
	}
	_, rr, p, acts, err := decode(eb, d.clock, d.log, false)
	if err != nil {
		d.t.Fatalf("step %d: decode failed: %v", d.n, err)
	}
	if actsStr(acts) != actsStr(ab) {
		d.t.Errorf("step %d: decoded actions differ", d.n)
	}
	// re-encode
	eb2 := encode(d.clock, rr, p, acts, false)
	if !bytes.Equal(eb, eb2) {
		d.t.Errorf("step %d: re-encode differs", d.n)
	}
	if d.mask {
		p.lowestCredentialArrivals = d.pa.lowestCredentialArrivals
		p.dynamicFilterTimeout = d.pa.dynamicFilterTimeout
		pc := p
		rr.root = checkedActor{actor: &pc, actorContract: playerContract{}}
	}
	d.rb, d.pb = rr, p
	return aa
}

func (d *dualC07) submitAll(es []event) (all []action) {
	for _, e := range es {
		all = append(all, d.submit(e)...)
	}
	return
}

func (d *dualC07) timeout() []action {
	return d.submit(makeTimeoutEvent())
}

func c07Present(es []event) (out []event) {
	for _, e := range es {
		me := e.(messageEvent)
		switch me.T {
		case voteVerified:
			me.T = votePresent
			me.Input.Vote = vote{}
		case payloadVerified:
			me.T = payloadPresent
			me.Input.Proposal = proposal{}
		}
		out = append(out, me)
	}
	return
}

func TestInvC07Scratch(t *testing.T) {
	partitiontest.PartitionTest(t)

	p0, _, accs, f, ledger := testPlayerSetup()
	d := newDualC07(t, player{Round: p0.Round, Period: 0, Step: soft}, false)

	syncRound := func() {
		pv, pp, lowest := generateProposalEvents(t, d.pa, accs, f, ledger)
		softB := generateVoteEvents(t, d.pa, soft, accs, lowest, ledger)
		certB := generateVoteEvents(t, d.pa, cert, accs, lowest, ledger)
		// present then verified
		for i := range pv {
			pres := c07Present([]event{pv[i], pp[i]})
			d.submit(pres[0])
			d.submit(pv[i])
			d.submit(pres[1])
			d.submit(pp[i])
		}
		d.timeout()
		d.submitAll(softB)
		// late proposal-votes (already seen -> dup) and from next round
		acts := d.submitAll(certB)
		for _, a := range acts {
			if a.t() == ensure {
				ea := a.(ensureAction)
				ledger.EnsureBlock(ea.Payload.Block, ea.Certificate)
			}
		}
	}
	for i := 0; i < 3; i++ {
		syncRound()
	}
	t.Logf("after sync rounds: steps=%d diffs=%d round=%d", d.n, d.diffs, d.pa.Round)

	// late-vote round: half of proposal votes before freeze, rest after
	{
		pv, pp, _ := generateProposalEvents(t, d.pa, accs, f, ledger)
		h := len(pv) / 2
		for i := 0; i < h; i++ {
			d.submit(pv[i])
			d.submit(pp[i])
		}
		d.timeout() // soft vote, freeze
		for i := h; i < len(pv); i++ {
			d.submit(pv[i])
			d.submit(pp[i])
		}
		// frozen value
		frozen := bottom
		// find what A soft-voted: read lowest
		re := d.ra.Children[d.pa.Round].Children[0].ProposalTracker.Freezer.Lowest.R.Proposal
		frozen = re
		softB := generateVoteEvents(t, d.pa, soft, accs, frozen, ledger)
		certB := generateVoteEvents(t, d.pa, cert, accs, frozen, ledger)
		// next round pipelined proposals
		nxt := d.pa
		nxt.Round++
		npv, npp, _ := generateProposalEvents(t, nxt, accs, f, ledger)
		_ = npv
		_ = npp
		d.submitAll(softB)
		acts := d.submitAll(certB)
		for _, a := range acts {
			if a.t() == ensure {
				ea := a.(ensureAction)
				ledger.EnsureBlock(ea.Payload.Block, ea.Certificate)
			}
		}
	}
	t.Logf("after late round: steps=%d diffs=%d round=%d", d.n, d.diffs, d.pa.Round)

	// recovery: timeouts, next votes bottom, new period
	{
		d.timeout() // soft (nothing)
		d.timeout() // cert -> next
		for i := 0; i < 6; i++ {
			d.timeout()
		}
		d.submit(timeoutEvent{T: fastTimeout, RandomEntropy: 7, Proto: ConsensusVersionView{Version: protocol.ConsensusCurrentVersion}})
		d.submit(timeoutEvent{T: fastTimeout, RandomEntropy: 9, Proto: ConsensusVersionView{Version: protocol.ConsensusCurrentVersion}})
		nextB := generateVoteEvents(t, d.pa, next, accs, bottom, ledger)
		d.submitAll(nextB)
		if d.pa.Period != 1 {
			t.Fatalf("expected period 1, got %d", d.pa.Period)
		}
		// period 1: proposals, soft, then next-value votes -> period 2 w/ repropose
		pv, pp, lowest := generateProposalEvents(t, d.pa, accs, f, ledger)
		for i := range pv {
			d.submit(pv[i])
			d.submit(pp[i])
		}
		d.timeout()
		softB := generateVoteEvents(t, d.pa, soft, accs, lowest, ledger)
		d.submitAll(softB)
		d.timeout()
		d.timeout()
		d.timeout()
		nextV := generateVoteEvents(t, d.pa, next, accs, lowest, ledger)
		d.submitAll(nextV)
		if d.pa.Period != 2 {
			t.Fatalf("expected period 2, got %d", d.pa.Period)
		}
		d.timeout() // soft vote for starting value
		d.timeout()
		d.timeout()
		d.submit(timeoutEvent{T: fastTimeout, RandomEntropy: 7, Proto: ConsensusVersionView{Version: protocol.ConsensusCurrentVersion}})
		d.submit(timeoutEvent{T: fastTimeout, RandomEntropy: 9, Proto: ConsensusVersionView{Version: protocol.ConsensusCurrentVersion}})
		// jump: soft bundle in period 4
		p4 := d.pa
		p4.Period = 4
		soft4 := generateVoteEvents(t, p4, soft, accs, lowest, ledger)
		d.submitAll(soft4)
		t.Logf("period now %d step %d", d.pa.Period, d.pa.Step)
		// next-round pipelined stuff
		nxt := d.pa
		nxt.Round++
		nxt.Period = 0
		npv, npp, nlow := generateProposalEvents(t, nxt, accs, f, ledger)
		for i := range npv {
			d.submit(npv[i])
			d.submit(c07Present([]event{npp[i]})[0])
		}
		nsoft := generateVoteEvents(t, nxt, soft, accs, nlow, ledger)
		d.submitAll(nsoft)
		ncert := generateVoteEvents(t, nxt, cert, accs, nlow, ledger)
		d.submitAll(ncert)
		cert4 := generateVoteEvents(t, p4, cert, accs, lowest, ledger)
		acts := d.submitAll(cert4)
		for _, a := range acts {
			if a.t() == ensure {
				ea := a.(ensureAction)
				ledger.EnsureBlock(ea.Payload.Block, ea.Certificate)
			}
		}
		t.Logf("round now %d period %d step %d", d.pa.Round, d.pa.Period, d.pa.Step)
		for i := range npp {
			d.submit(npp[i])
		}
		t.Logf("round now %d period %d step %d", d.pa.Round, d.pa.Period, d.pa.Step)
	}
	t.Logf("end: steps=%d diffs=%d round=%d", d.n, d.diffs, d.pa.Round)
}


func c07Bundle(votes []event) event {
	var vs []vote
	for _, e := range votes {
		vs = append(vs, e.(messageEvent).Input.Vote)
	}
	v0 := vs[0]
	ub := makeBundle(config.Consensus[protocol.ConsensusCurrentVersion], v0.R.Proposal, vs, nil)
	ub.Round, ub.Period, ub.Step = v0.R.Round, v0.R.Period, v0.R.Step
	return messageEvent{T: bundleVerified, Input: message{Bundle: bundle{U: ub, Votes: vs}, UnauthenticatedBundle: ub}, Proto: ConsensusVersionView{Version: protocol.ConsensusCurrentVersion}}
}

func TestInvC07Fuzz(t *testing.T) {
	partitiontest.PartitionTest(t)
	for seed := int64(1); seed <= 12; seed++ {
		rng := rand.New(rand.NewSource(seed))
		p0, _, accs, f, ledger := testPlayerSetup()
		d := newDualC07(t, player{Round: p0.Round, Period: 0, Step: soft}, false)
		d.tolerant = true
		type rp struct {
			r round
			p period
		}
		cache := map[rp][]event{}
		genPool := func() (pool []event) {
			for _, rr := range []round{d.pa.Round, d.pa.Round + 1} {
				maxP := period(3)
				if rr != d.pa.Round {
					maxP = 1
				}
				for per := period(0); per < maxP; per++ {
					pp := player{Round: rr, Period: d.pa.Period + per}
					if rr != d.pa.Round {
						pp.Period = per
					}
					if c, ok := cache[rp{pp.Round, pp.Period}]; ok {
						pool = append(pool, c...)
						continue
					}
					start := len(pool)
					pv, pl, lowest := generateProposalEvents(t, pp, accs, f, ledger)
					for i := range pv {
						if rng.Intn(3) == 0 {
							continue
						}
						pool = append(pool, pv[i])
						if rng.Intn(2) == 0 {
							pool = append(pool, c07Present([]event{pl[i]})[0])
						}
						pool = append(pool, pl[i])
					}
					for _, st := range []step{soft, cert, next, next + 1, late, redo, down} {
						val := lowest
						if st >= next && st < late && rng.Intn(2) == 0 {
							val = bottom
						}
						if val == bottom && (st < next || st == late || st == redo) {
							continue
						}
						if st == down {
							val = bottom
						}
						vs := generateVoteEvents(t, pp, st, accs, val, ledger)
						if len(vs) == 0 {
							continue
						}
						if rng.Intn(2) == 0 && st != down {
							// a couple of equivocating votes
							sub := testAccountData{addresses: accs.addresses[:2], vrfs: accs.vrfs[:2], ots: accs.ots[:2]}
							other := proposalValue{BlockDigest: randomBlockHash(), EncodingDigest: randomBlockHash()}
							eq := generateVoteEvents(t, pp, st, sub, other, ledger)
							pool = append(pool, eq...)
							pool = append(pool, c07Present(eq)...)
						}
						if rng.Intn(2) == 0 {
							pool = append(pool, c07Present(vs[:len(vs)/3])...)
						}
						switch rng.Intn(3) {
						case 0:
							pool = append(pool, vs...)
						case 1:
							pool = append(pool, c07Bundle(vs))
						case 2:
							pool = append(pool, vs[:len(vs)/2]...)
						}
					}
					cache[rp{pp.Round, pp.Period}] = append([]event{}, pool[start:]...)
				}
			}
			rng.Shuffle(len(pool), func(i, j int) { pool[i], pool[j] = pool[j], pool[i] })
			return
		}
		for iter := 0; iter < 6 && !t.Failed(); iter++ {
			pool := genPool()
			startRound := d.pa.Round
			for _, e := range pool {
				if d.pa.Round != startRound {
					break
				}
				if me := e.(messageEvent); me.T == bundleVerified && me.Input.Bundle.U.Round == d.pa.Round && me.Input.Bundle.U.Period > 1 && me.Input.Bundle.U.Period+1 < d.pa.Period {
					continue // avoids unrelated nil-deref in roundRouter GC for stale-period cert bundles
				}
				var acts []action
				switch rng.Intn(8) {
				case 0:
					if d.pa.Step < 20 {
						acts = d.timeout()
					}
				case 1:
					acts = d.submit(timeoutEvent{T: fastTimeout, RandomEntropy: rng.Uint64(), Proto: ConsensusVersionView{Version: protocol.ConsensusCurrentVersion}})
				}
				acts = append(acts, d.submit(e)...)
				for _, a := range acts {
					if a.t() == ensure {
						ea := a.(ensureAction)
						ledger.EnsureBlock(ea.Payload.Block, ea.Certificate)
					}
				}
			}
		}
		t.Logf("seed %d: steps=%d diffs=%d round=%d period=%d", seed, d.n, d.diffs, d.pa.Round, d.pa.Period)
		if t.Failed() {
			break
		}
	}
}

func TestInvC07Tail(t *testing.T) {
	partitiontest.PartitionTest(t)
	p0, _, accs, f, ledger := testPlayerSetup()
	d := newDualC07(t, player{Round: p0.Round, Period: 0, Step: soft}, false)
	d.tolerant = true
	pv, pp, lowest := generateProposalEvents(t, d.pa, accs, f, ledger)
	seqs := make([]uint64, len(pv))
	for i := range pv {
		pres := c07Present([]event{pv[i], pp[i]})
		vp := pres[0].(messageEvent)
		tail := pres[1].(messageEvent)
		vp.Tail = &tail
		acts := d.submit(vp)
		for _, a := range acts {
			if ca, ok := a.(cryptoAction); ok && ca.T == verifyVote {
				seqs[i] = ca.TaskIndex
			}
		}
		if i == 2 {
			d.timeout()
		}
	}
	t.Logf("pending: %d", len(d.pb.Pending.Pending))
	for i := range pv {
		vv := pv[i].(messageEvent)
		vv.TaskIndex = seqs[i]
		d.submit(vv)
	}
	t.Logf("pending: %d", len(d.pb.Pending.Pending))
	for i := range pp {
		d.submit(pp[i])
	}
	d.timeout()
	d.submitAll(generateVoteEvents(t, d.pa, soft, accs, lowest, ledger))
	d.submitAll(generateVoteEvents(t, d.pa, cert, accs, lowest, ledger))
	t.Logf("steps=%d diffs=%d round=%d", d.n, d.diffs, d.pa.Round)
}
