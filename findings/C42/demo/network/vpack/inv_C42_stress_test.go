// Copyright (C) 2019-2026 Algorand Foundation Ltd.
// This file is part of go-algorand
//
// go-algorand is free software: you can redistribute it and/or modify
// it under the terms of the GNU Affero General Public License as
// published by the Free Software Foundation, either version 3 of the
// License, or (at your option) any later version.
//
// go-algorand is distributed in the hope that it will be useful,
// but WITHOUT ANY WARRANTY; without even the implied warranty of
// MERCHANTABILITY or FITNESS FOR A PARTICULAR PURPOSE.  See the
// GNU Affero General Public License for more details.
//
// You should have received a copy of the GNU Affero General Public License
// along with go-algorand.  If not, see <https://www.gnu.org/licenses/>.

package vpack

import (
	"bytes"
	"encoding/binary"
	"math"
	"math/rand"
	"slices"
	"testing"

	"github.com/algorand/msgp/msgp"
)

func invBuildStateless(r *rand.Rand, pools *invPools) []byte {
	var hdr0 byte
	out := []byte{0, 0}
	pf := make([]byte, 80)
	r.Read(pf)
	out = append(out, pf...)
	if r.Intn(2) == 0 {
		hdr0 |= bitPer
		out = msgp.AppendUint64(out, pools.uints[r.Intn(len(pools.uints))])
	}
	p := pools.props[r.Intn(len(pools.props))]
	hdr0 |= p.mask
	if p.mask&bitDig != 0 {
		out = append(out, p.dig[:]...)
	}
	if p.mask&bitEncDig != 0 {
		out = append(out, p.encdig[:]...)
	}
	if p.mask&bitOper != 0 {
		out = append(out, p.operEnc[:p.operLen]...)
	}
	if p.mask&bitOprop != 0 {
		out = append(out, p.oprop[:]...)
	}
	// rnd
	var rnd uint64
	switch r.Intn(6) {
	case 0:
		rnd = pools.lastRnd
	case 1:
		rnd = pools.lastRnd + 1
	case 2:
		rnd = pools.lastRnd - 1
	case 3:
		rnd = pools.uints[r.Intn(len(pools.uints))]
	case 4:
		rnd = 0
	case 5:
		rnd = math.MaxUint64
	}
	pools.lastRnd = rnd
	out = msgp.AppendUint64(out, rnd)
	snd := pools.snds[r.Intn(len(pools.snds))]
	out = append(out, snd[:]...)
	if r.Intn(2) == 0 {
		hdr0 |= bitStep
		out = msgp.AppendUint64(out, pools.uints[r.Intn(len(pools.uints))])
	}
	pk := pools.pks[r.Intn(len(pools.pks))]
	out = append(out, pk.pk[:]...)
	out = append(out, pk.sig[:]...)
	pk2 := pools.pks[r.Intn(len(pools.pks))]
	out = append(out, pk2.pk[:]...)
	out = append(out, pk2.sig[:]...)
	sig := make([]byte, 64)
	r.Read(sig)
	out = append(out, sig...)
	out[0] = hdr0
	return out
}

type invPools struct {
	uints   []uint64
	props   []proposalEntry
	snds    []addressValue
	pks     []pkSigPair
	lastRnd uint64
}

func invMakePools(r *rand.Rand, nprops, nsnd, npk int) *invPools {
	p := &invPools{}
	p.uints = []uint64{0, 1, 2, 127, 128, 255, 256, 65535, 65536, math.MaxUint32, math.MaxUint32 + 1, math.MaxUint64 - 1, math.MaxUint64, 5, 6, 7}
	for i := 0; i < nprops; i++ {
		var e proposalEntry
		e.mask = byte(r.Intn(16)) << 1
		if e.mask&bitDig != 0 {
			r.Read(e.dig[:])
			if r.Intn(3) == 0 {
				e.dig = [32]byte{}
			}
		}
		if e.mask&bitEncDig != 0 {
			r.Read(e.encdig[:])
		}
		if e.mask&bitOper != 0 {
			b := msgp.AppendUint64(nil, p.uints[r.Intn(len(p.uints))])
			copy(e.operEnc[:], b)
			e.operLen = uint8(len(b))
		}
		if e.mask&bitOprop != 0 {
			r.Read(e.oprop[:])
		}
		p.props = append(p.props, e)
	}
	for i := 0; i < nsnd; i++ {
		var a addressValue
		if i > 0 {
			r.Read(a[:])
			// force low hash bits to collide
			if r.Intn(2) == 0 {
				binary.LittleEndian.PutUint64(a[:8], uint64(r.Intn(3)))
				for j := 8; j < 32; j++ {
					a[j] = 0
				}
				a[31] = 0
				binary.LittleEndian.PutUint64(a[8:16], uint64(r.Intn(4))<<32)
			}
		}
		p.snds = append(p.snds, a)
	}
	for i := 0; i < npk; i++ {
		var k pkSigPair
		if i > 0 {
			r.Read(k.pk[:])
			r.Read(k.sig[:])
			if r.Intn(2) == 0 {
				binary.LittleEndian.PutUint64(k.pk[:8], uint64(r.Intn(3)))
				binary.LittleEndian.PutUint64(k.sig[:8], uint64(r.Intn(2))<<40)
			}
		}
		p.pks = append(p.pks, k)
	}
	return p
}

func TestInvC42Stress(t *testing.T) {
	for seed := int64(0); seed < 300; seed++ {
		r := rand.New(rand.NewSource(seed))
		sizes := []uint{16, 32, 64, 128, 256, 512, 1024, 2048}
		ts := sizes[r.Intn(len(sizes))]
		enc, err := NewStatefulEncoder(ts)
		if err != nil {
			t.Fatal(err)
		}
		dec, err := NewStatefulDecoder(ts)
		if err != nil {
			t.Fatal(err)
		}
		pools := invMakePools(r, 1+r.Intn(12), 1+r.Intn(60), 1+r.Intn(60))
		var stDec StatelessDecoder
		for i := 0; i < 2000; i++ {
			src := invBuildStateless(r, pools)
			c, err := enc.Compress(nil, src)
			if err != nil {
				t.Fatalf("seed %d i %d compress: %v", seed, i, err)
			}
			if len(c) > len(src) {
				t.Fatalf("grew")
			}
			d, err := dec.Decompress(nil, c)
			if err != nil {
				t.Fatalf("seed %d i %d decompress: %v", seed, i, err)
			}
			if !bytes.Equal(d, src) {
				t.Fatalf("seed %d i %d ts %d mismatch\n%x\n%x", seed, i, ts, src, d)
			}
			if !invStateEq(&enc.dynamicTableState, &dec.dynamicTableState) {
				t.Fatalf("seed %d i %d state diverged", seed, i)
			}
			if _, err := stDec.DecompressVote(nil, d); err != nil {
				t.Fatalf("stateless: %v", err)
			}
		}
	}
}

func invTblEq[K comparable](a, b *lruTable[K]) bool {
	return a.numBuckets == b.numBuckets && slices.Equal(a.buckets, b.buckets) && bytes.Equal(a.mru, b.mru)
}

func invStateEq(a, b *dynamicTableState) bool {
	return a.lastRnd == b.lastRnd && a.proposalWindow == b.proposalWindow &&
		invTblEq(a.sndTable, b.sndTable) && invTblEq(a.pkTable, b.pkTable) && invTblEq(a.pk2Table, b.pk2Table)
}
