// Copyright (C) 2019-2026 Algorand Foundation Ltd.
// This file is part of go-algorand
//
// go-algorand is free software: you can redistribute it and/or modify
// it under the terms of the GNU Affero General Public License as
// published by the Free Software Foundation, either version 3 of the
// License, or (at your option) any later version.
//
// go-algorand is distributed in the hope that it will be useful,
// but WITHOUT ANY WARRANTY; without even the implied warranty of
// MERCHANTABILITY or FITNESS FOR A PARTICULAR PURPOSE.  See the
// GNU Affero General Public License for more details.
//
// You should have received a copy of the GNU Affero General Public License
// along with go-algorand.  If not, see <https://www.gnu.org/licenses/>.

package vpack

import (
	"bytes"
	"testing"

	"github.com/stretchr/testify/require"

	"github.com/algorand/go-algorand/agreement"
	"github.com/algorand/go-algorand/protocol"
	"github.com/algorand/go-algorand/test/partitiontest"
)

// invC42Field is one "key: value" pair of the rawVote ("r") map, already msgpack-encoded.
type invC42Field struct {
	key string // msgpack fixstr, e.g. msgpFixstrRnd
	val []byte // msgpack-encoded value
}

func invC42Bin(b []byte) []byte {
	return append([]byte{msgpBin8, byte(len(b))}, b...)
}

func invC42Fill(n int, seed byte) []byte {
	b := make([]byte, n)
	for i := range b {
		b[i] = seed + byte(i)
	}
	return b
}

// invC42VoteMsgp builds the msgpack encoding of an agreement.UnauthenticatedVote whose
// rawVote map holds rFields in the given order. Everything else is canonical.
func invC42VoteMsgp(rFields []invC42Field) []byte {
	var b []byte
	b = append(b, msgpFixMapMask|3)
	// cred
	b = append(b, msgpFixstrCred...)
	b = append(b, msgpFixMapMask|1)
	b = append(b, msgpFixstrPf...)
	b = append(b, invC42Bin(invC42Fill(80, 0x10))...)
	// r
	b = append(b, msgpFixstrR...)
	b = append(b, msgpFixMapMask|byte(len(rFields)))
	for _, f := range rFields {
		b = append(b, f.key...)
		b = append(b, f.val...)
	}
	// sig
	b = append(b, msgpFixstrSig...)
	b = append(b, msgpFixMapMask|6)
	b = append(b, msgpFixstrP...)
	b = append(b, invC42Bin(invC42Fill(32, 0x20))...)
	b = append(b, msgpFixstrP1s...)
	b = append(b, invC42Bin(invC42Fill(64, 0x30))...)
	b = append(b, msgpFixstrP2...)
	b = append(b, invC42Bin(invC42Fill(32, 0x40))...)
	b = append(b, msgpFixstrP2s...)
	b = append(b, invC42Bin(invC42Fill(64, 0x50))...)
	b = append(b, msgpFixstrPs...)
	b = append(b, invC42Bin(make([]byte, 64))...)
	b = append(b, msgpFixstrS...)
	b = append(b, invC42Bin(invC42Fill(64, 0x60))...)
	return b
}

// invC42RoundTrip pushes a msgpack vote through the full VP pipeline
// (stateless -> stateful -> stateful -> stateless) and returns what the receiver sees.
// ok==false means the sender-side encoders refused the vote (which is a fine outcome:
// the network layer then falls back to sending the original bytes).
func invC42RoundTrip(t *testing.T, enc *StatefulEncoder, dec *StatefulDecoder, vote []byte) (out []byte, ok bool) {
	var stEnc StatelessEncoder
	var stDec StatelessDecoder
	stateless, err := stEnc.CompressVote(nil, vote)
	if err != nil {
		return nil, false
	}
	stateful, err := enc.Compress(nil, stateless)
	if err != nil {
		return nil, false
	}
	statelessOut, err := dec.Decompress(nil, stateful)
	require.NoError(t, err, "receiver failed to decompress what the sender produced")
	require.True(t, bytes.Equal(stateless, statelessOut),
		"StatefulDecoder.Decompress(StatefulEncoder.Compress(x)) != x\n in : %x\n out: %x", stateless[:100], statelessOut[:100])
	out, err = stDec.DecompressVote(nil, statelessOut)
	require.NoError(t, err, "receiver failed to decompress what the sender produced")
	return out, true
}

// TestInvC42RawVoteKeyOrder: the node's msgpack decoder accepts the keys of the "r" map in
// any order, so a vote with "rnd" before "per" is a perfectly decodable vote. The stateless
// encoder accepts it too, but writes the values in the order it met them while the decoder
// reads them in canonical order: the receiver silently gets a vote with round and period
// exchanged.
func TestInvC42RawVoteKeyOrder(t *testing.T) {
	partitiontest.PartitionTest(t)

	per := invC42Field{msgpFixstrPer, []byte{0x07}} // period 7
	rnd := invC42Field{msgpFixstrRnd, []byte{0x64}} // round 100
	snd := invC42Field{msgpFixstrSnd, invC42Bin(invC42Fill(32, 0x70))}
	step := invC42Field{msgpFixstrStep, []byte{0x02}} // step 2

	canonical := invC42VoteMsgp([]invC42Field{per, rnd, snd, step})
	reordered := invC42VoteMsgp([]invC42Field{rnd, per, snd, step})

	// both byte strings are the same vote as far as the node is concerned
	var v0, v1 agreement.UnauthenticatedVote
	require.NoError(t, protocol.Decode(canonical, &v0))
	require.NoError(t, protocol.Decode(reordered, &v1))
	require.Equal(t, v0, v1)
	require.Equal(t, canonical, protocol.Encode(&v0), "helper must build canonical msgpack")

	for name, vote := range map[string][]byte{"canonical": canonical, "reordered": reordered} {
		t.Run(name, func(t *testing.T) {
			enc, err := NewStatefulEncoder(16)
			require.NoError(t, err)
			dec, err := NewStatefulDecoder(16)
			require.NoError(t, err)

			out, ok := invC42RoundTrip(t, enc, dec, vote)
			if !ok {
				return // refused by the sender: nothing wrong reaches the receiver
			}
			require.True(t, bytes.Equal(vote, out),
				"compress/decompress did not reproduce the exact bytes of the r map\n sent    : %x\n received: %x", vote[92:108], out[92:108])
			var got agreement.UnauthenticatedVote
			require.NoError(t, protocol.Decode(out, &got))
			require.Equal(t, v0, got, "receiver decoded a different vote")
		})
	}
}

// TestInvC42DuplicateKey: a rawVote map with "rnd" twice and no "snd" has the right number
// of required values, so the stateless encoder accepts it, but what it emits cannot be
// decompressed (or, depending on the bytes, decompresses to something else).
func TestInvC42DuplicateKey(t *testing.T) {
	partitiontest.PartitionTest(t)

	rnd1 := invC42Field{msgpFixstrRnd, []byte{0x64}}
	rnd2 := invC42Field{msgpFixstrRnd, []byte{0x65}}
	vote := invC42VoteMsgp([]invC42Field{rnd1, rnd2})

	var stEnc StatelessEncoder
	var stDec StatelessDecoder
	c, err := stEnc.CompressVote(nil, vote)
	if err != nil {
		return // refused: fine
	}
	out, err := stDec.DecompressVote(nil, c)
	require.NoError(t, err, "encoder accepted a vote that cannot be decompressed")
	require.True(t, bytes.Equal(vote, out), "compress/decompress did not reproduce the exact bytes")
}

// TestInvC42NonMinimalRound: msgpack allows the round to be encoded wider than necessary
// (0xcd 0x00 0x64 == 100), the node's decoder accepts that, and the stateless layer passes
// the bytes through untouched. The stateful layer replaces the round by a 2-bit delta when
// it matches the previous vote, and the decoder re-creates it with the minimal encoding:
// the bytes that come out are not the bytes that went in.
func TestInvC42NonMinimalRound(t *testing.T) {
	partitiontest.PartitionTest(t)

	snd := invC42Field{msgpFixstrSnd, invC42Bin(invC42Fill(32, 0x70))}
	minimal := invC42VoteMsgp([]invC42Field{{msgpFixstrRnd, []byte{0x64}}, snd})
	wide := invC42VoteMsgp([]invC42Field{{msgpFixstrRnd, []byte{msgpUint16, 0x00, 0x64}}, snd})
	wideNext := invC42VoteMsgp([]invC42Field{{msgpFixstrRnd, []byte{msgpUint32, 0x00, 0x00, 0x00, 0x65}}, snd})

	var v0, v1 agreement.UnauthenticatedVote
	require.NoError(t, protocol.Decode(minimal, &v0))
	require.NoError(t, protocol.Decode(wide, &v1))
	require.Equal(t, v0, v1)

	enc, err := NewStatefulEncoder(16)
	require.NoError(t, err)
	dec, err := NewStatefulDecoder(16)
	require.NoError(t, err)

	for i, vote := range [][]byte{minimal, wide, wideNext, wide, minimal} {
		out, ok := invC42RoundTrip(t, enc, dec, vote)
		if !ok {
			continue // refused by the sender: fine
		}
		require.True(t, bytes.Equal(vote, out), "vote %d: compress/decompress did not reproduce the exact bytes", i)
		require.Equal(t, enc.lastRnd, dec.lastRnd)
	}
}
