package driver

import (
	"bytes"
	"crypto/sha256"
	"testing"

	"github.com/stretchr/testify/assert"
	"github.com/stretchr/testify/require"

	"github.com/algorand/go-algorand/crypto"
)

// Property C46 (password part): exporting or deleting a key or the master
// derivation key fails without the correct password.
//
// The wallet is created with password P. Every operation below is attempted
// with a password P' that is NOT byte-equal to P and must therefore fail.
func TestInvC46WrongPasswordAccepted(t *testing.T) {
	dir := t.TempDir()
	d := invDriver(t, dir)

	pw := []byte("hunter2")
	wrong := append(append([]byte{}, pw...), 0) // "hunter2\x00"
	require.False(t, bytes.Equal(pw, wrong))

	var mdk crypto.MasterDerivationKey
	mdk[0] = 1
	id := []byte("0123456789abcdef")
	require.NoError(t, d.CreateWallet([]byte("w"), id, pw, mdk))

	// Owner generates a key with the right password.
	owner, err := d.FetchWallet(id)
	require.NoError(t, err)
	require.NoError(t, owner.Init(pw))
	addr, err := owner.GenerateKey(false)
	require.NoError(t, err)
	addr2, err := owner.GenerateKey(false)
	require.NoError(t, err)

	// A handle that was initialised with the right password does reject P'...
	_, err = owner.ExportKey(addr, wrong)
	require.Error(t, err)
	require.Error(t, owner.CheckPassword(wrong))

	// ...but a fresh handle (what kmd builds for every init_wallet_handle
	// request, and what RenameWallet uses internally) must reject it as well.
	fresh, err := d.FetchWallet(id)
	require.NoError(t, err)

	errCheck := fresh.CheckPassword(wrong)
	errInit := fresh.Init(wrong)
	sk, errExport := fresh.ExportKey(addr, wrong)
	gotMDK, errMDK := fresh.ExportMasterDerivationKey(wrong)

	fresh2, err := d.FetchWallet(id)
	require.NoError(t, err)
	errDelete := fresh2.DeleteKey(addr2, wrong)
	keysAfter, err := owner.ListKeys()
	require.NoError(t, err)

	errRename := d.RenameWallet([]byte("renamed"), id, wrong)

	assert.Error(t, errCheck, "CheckPassword accepted a password that is not the wallet password")
	assert.Error(t, errInit, "Init accepted a password that is not the wallet password")
	assert.Error(t, errExport, "ExportKey succeeded without the correct password")
	assert.Equal(t, crypto.PrivateKey{}, sk, "ExportKey leaked the secret key without the correct password")
	assert.Error(t, errMDK, "ExportMasterDerivationKey succeeded without the correct password")
	assert.NotEqual(t, mdk, gotMDK, "ExportMasterDerivationKey leaked the MDK without the correct password")
	assert.Error(t, errDelete, "DeleteKey succeeded without the correct password")
	assert.Len(t, keysAfter, 2, "DeleteKey removed a key without the correct password")
	assert.Error(t, errRename, "RenameWallet succeeded without the correct password")
}

// Same root cause, second alias class: a password longer than the HMAC-SHA256
// block (64 bytes) is interchangeable with the raw 32-byte SHA-256 of itself.
// (Informational: no format-compatible repair exists for this one.)
func TestInvC46LongPasswordAlias(t *testing.T) {
	d := invDriver(t, t.TempDir())
	pw := bytes.Repeat([]byte("correct horse battery staple "), 3) // 87 bytes
	h := sha256.Sum256(pw)
	alias := h[:]
	id := []byte("0123456789abcdef")
	require.NoError(t, d.CreateWallet([]byte("w"), id, pw, crypto.MasterDerivationKey{}))
	w, err := d.FetchWallet(id)
	require.NoError(t, err)
	if err := w.Init(alias); err == nil {
		t.Logf("Init accepted SHA-256(password) in place of the %d-byte password", len(pw))
		t.Fail()
	}
}
