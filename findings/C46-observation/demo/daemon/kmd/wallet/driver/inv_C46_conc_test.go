package driver

import (
	"sync"
	"testing"

	"github.com/algorand/go-algorand/crypto"
)

func TestInvC46Concurrent(t *testing.T) {
	d := invDriver(t, t.TempDir())
	var mdk crypto.MasterDerivationKey
	mdk[0] = 7
	pw := []byte("pw")
	if err := d.CreateWallet([]byte("n"), []byte("i"), pw, mdk); err != nil {
		t.Fatal(err)
	}
	const G = 6
	const N = 15
	var mu sync.Mutex
	got := map[crypto.Digest]int{}
	errs := 0
	var wg sync.WaitGroup
	for g := 0; g < G; g++ {
		w, _ := d.FetchWallet([]byte("i"))
		if err := w.Init(pw); err != nil {
			t.Fatal(err)
		}
		wg.Add(1)
		go func(g int) {
			defer wg.Done()
			for i := 0; i < N; i++ {
				if g == 0 {
					// importer: import derived keys ahead
					_, sk, _ := extractKeyWithIndex(mdk[:], uint64(3*i+2))
					w.ImportKey(sk)
					continue
				}
				a, err := w.GenerateKey(false)
				mu.Lock()
				if err != nil {
					errs++
				} else {
					got[a]++
				}
				mu.Unlock()
			}
		}(g)
	}
	wg.Wait()
	t.Logf("generated %d errs %d", len(got), errs)
	for a, c := range got {
		if c != 1 {
			t.Fatalf("address %v generated %d times", a, c)
		}
	}
	w, _ := d.FetchWallet([]byte("i"))
	l, _ := w.ListKeys()
	seen := map[crypto.Digest]bool{}
	for _, a := range l {
		if seen[a] {
			t.Fatal("dup")
		}
		seen[a] = true
	}
	// every generated address is a derived index, and all indices up to the max are present (generated or imported)
	idx := map[crypto.Digest]uint64{}
	for i := uint64(1); i < 200; i++ {
		pk, _, _ := extractKeyWithIndex(mdk[:], i)
		idx[publicKeyToAddress(pk)] = i
	}
	var max uint64
	for a := range got {
		i, ok := idx[a]
		if !ok {
			t.Fatal("generated address not derived")
		}
		if i > max {
			max = i
		}
	}
	for i := uint64(1); i <= max; i++ {
		pk, _, _ := extractKeyWithIndex(mdk[:], i)
		if !seen[publicKeyToAddress(pk)] {
			t.Fatalf("index %d missing (max %d)", i, max)
		}
	}
}
