package driver

import (
	"bytes"
	"fmt"
	"math/rand"
	"testing"

	"github.com/algorand/go-algorand/crypto"
	"github.com/algorand/go-algorand/daemon/kmd/config"
)

func invDriver(t *testing.T, dir string) *SQLiteWalletDriver {
	cfg := config.DefaultConfig(dir)
	cfg.DriverConfig.SQLiteWalletDriverConfig.UnsafeScrypt = true
	cfg.DriverConfig.SQLiteWalletDriverConfig.ScryptParams = config.ScryptParams{ScryptN: 2, ScryptR: 1, ScryptP: 1}
	d := &SQLiteWalletDriver{}
	if err := d.InitWithConfig(cfg, nil); err != nil {
		t.Fatal(err)
	}
	return d
}

type invKey struct {
	sk       crypto.PrivateKey
	imported bool
	idx      uint64
}

func invWrongPw(r *rand.Rand, pw []byte) []byte {
	for {
		var w []byte
		switch r.Intn(8) {
		case 0:
			w = nil
		case 1:
			w = []byte{}
		case 2:
			w = append(append([]byte{}, pw...), 0)
		case 3:
			if len(pw) > 0 {
				w = append([]byte{}, pw[:len(pw)-1]...)
			}
		case 4:
			w = append([]byte{0}, pw...)
		case 5:
			w = bytes.ToUpper(pw)
		case 6:
			w = make([]byte, 32)
			r.Read(w)
		case 7:
			w = append(append([]byte{}, pw...), pw...)
		}
		if !bytes.Equal(w, pw) {
			return w
		}
	}
}

func TestInvC46Model(t *testing.T) {
	for seed := int64(0); seed < 60; seed++ {
		seed := seed
		t.Run(fmt.Sprintf("seed%d", seed), func(t *testing.T) {
			r := rand.New(rand.NewSource(seed))
			dir := t.TempDir()
			d := invDriver(t, dir)

			pws := [][]byte{[]byte("hunter2"), nil, []byte("p"), bytes.Repeat([]byte("x"), 32), []byte("pass\x00word")}
			pw := pws[r.Intn(len(pws))]
			var mdk crypto.MasterDerivationKey
			if r.Intn(3) > 0 {
				r.Read(mdk[:])
			}
			name := []byte(fmt.Sprintf("w%d", seed))
			id := []byte(fmt.Sprintf("id%d", seed))
			if err := d.CreateWallet(name, id, pw, mdk); err != nil {
				t.Fatal(err)
			}
			open := func() *SQLiteWallet {
				w, err := d.FetchWallet(id)
				if err != nil {
					t.Fatal(err)
				}
				sw := w.(*SQLiteWallet)
				if err := sw.Init(pw); err != nil {
					t.Fatal(err)
				}
				return sw
			}
			handles := []*SQLiteWallet{open()}
			gotMdk, err := handles[0].ExportMasterDerivationKey(pw)
			if err != nil {
				t.Fatal(err)
			}
			if mdk != (crypto.MasterDerivationKey{}) && gotMdk != mdk {
				t.Fatalf("mdk mismatch")
			}
			mdk = gotMdk

			derive := func(i uint64) (crypto.Digest, crypto.PrivateKey) {
				pk, sk, err := extractKeyWithIndex(mdk[:], i)
				if err != nil {
					t.Fatal(err)
				}
				return publicKeyToAddress(pk), sk
			}

			keys := map[crypto.Digest]invKey{}
			everSeen := map[crypto.Digest]bool{}
			var maxIdx uint64
			var generated []crypto.Digest
			var allAddrs []crypto.Digest

			check := func(sw *SQLiteWallet) {
				l, err := sw.ListKeys()
				if err != nil {
					t.Fatal(err)
				}
				seen := map[crypto.Digest]bool{}
				for _, a := range l {
					if seen[a] {
						t.Fatalf("dup address in list")
					}
					seen[a] = true
					if _, ok := keys[a]; !ok {
						t.Fatalf("unexpected address in list")
					}
				}
				if len(l) != len(keys) {
					t.Fatalf("list len %d, model %d", len(l), len(keys))
				}
			}

			for step := 0; step < 120; step++ {
				sw := handles[r.Intn(len(handles))]
				switch op := r.Intn(12); op {
				case 0, 1, 2: // generate
					idx := maxIdx + 1
					for {
						a, _ := derive(idx)
						k, ok := keys[a]
						if !ok {
							break
						}
						if !k.imported {
							t.Fatalf("model: generated key at idx>max")
						}
						idx++
					}
					wantA, wantSK := derive(idx)
					a, err := sw.GenerateKey(false)
					if err != nil {
						t.Fatalf("generate: %v", err)
					}
					if a != wantA {
						t.Fatalf("step %d: generate gave wrong address (want idx %d, max %d)", step, idx, maxIdx)
					}
					if everSeen[a] && !func() bool { return false }() {
						// may have been seen as imported+deleted; but never as generated
						for _, g := range generated {
							if g == a {
								t.Fatalf("address generated twice")
							}
						}
					}
					keys[a] = invKey{sk: wantSK, idx: idx}
					everSeen[a] = true
					maxIdx = idx
					generated = append(generated, a)
					allAddrs = append(allAddrs, a)
				case 3: // import random key
					var s crypto.Seed
					r.Read(s[:])
					sec := crypto.GenerateSignatureSecrets(s)
					a, err := sw.ImportKey(crypto.PrivateKey(sec.SK))
					if err != nil {
						t.Fatalf("import: %v", err)
					}
					if a != crypto.Digest(sec.SignatureVerifier) {
						t.Fatalf("import addr mismatch")
					}
					keys[a] = invKey{sk: crypto.PrivateKey(sec.SK), imported: true}
					allAddrs = append(allAddrs, a)
				case 4: // import derived key near max
					idx := uint64(int64(maxIdx) + int64(r.Intn(5)) - 1)
					if idx == 0 {
						idx = 1
					}
					a, sk := derive(idx)
					if r.Intn(3) == 0 {
						// corrupt the public half; must not be trusted
						sk[40] ^= 0xff
					}
					got, err := sw.ImportKey(sk)
					if _, ok := keys[a]; ok {
						if err != errKeyExists {
							t.Fatalf("dup import: %v", err)
						}
					} else {
						if err != nil {
							t.Fatalf("import derived: %v", err)
						}
						if got != a {
							t.Fatalf("import derived addr mismatch")
						}
						_, goodSK := derive(idx)
						keys[a] = invKey{sk: goodSK, imported: true}
						allAddrs = append(allAddrs, a)
					}
				case 5: // delete wrong pw
					if len(allAddrs) == 0 {
						continue
					}
					a := allAddrs[r.Intn(len(allAddrs))]
					if err := sw.DeleteKey(a, invWrongPw(r, pw)); err == nil {
						t.Fatalf("delete with wrong pw succeeded")
					}
				case 6: // delete right pw
					if len(allAddrs) == 0 {
						continue
					}
					a := allAddrs[r.Intn(len(allAddrs))]
					if err := sw.DeleteKey(a, pw); err != nil {
						t.Fatalf("delete: %v", err)
					}
					delete(keys, a)
				case 7: // export wrong pw
					if len(allAddrs) == 0 {
						continue
					}
					a := allAddrs[r.Intn(len(allAddrs))]
					wp := invWrongPw(r, pw)
					if sk, err := sw.ExportKey(a, wp); err == nil || sk != (crypto.PrivateKey{}) {
						t.Fatalf("export with wrong pw succeeded")
					}
					if m, err := sw.ExportMasterDerivationKey(wp); err == nil || m != (crypto.MasterDerivationKey{}) {
						t.Fatalf("export mdk with wrong pw succeeded")
					}
					// uninitialised handle too
					w2, _ := d.FetchWallet(id)
					if sk, err := w2.ExportKey(a, wp); err == nil || sk != (crypto.PrivateKey{}) {
						t.Fatalf("export (uninit) with wrong pw succeeded")
					}
					if m, err := w2.ExportMasterDerivationKey(wp); err == nil || m != (crypto.MasterDerivationKey{}) {
						t.Fatalf("export mdk (uninit) with wrong pw succeeded pw=%q wp=%q err=%v", pw, wp, err)
					}
					if err := w2.DeleteKey(a, wp); err == nil {
						t.Fatalf("delete (uninit) with wrong pw succeeded")
					}
					if err := w2.Init(wp); err == nil {
						t.Fatalf("init with wrong pw succeeded")
					}
				case 8: // export right pw
					if len(allAddrs) == 0 {
						continue
					}
					a := allAddrs[r.Intn(len(allAddrs))]
					sk, err := sw.ExportKey(a, pw)
					if k, ok := keys[a]; ok {
						if err != nil || sk != k.sk {
							t.Fatalf("export: %v", err)
						}
					} else if err == nil {
						t.Fatalf("export deleted key succeeded")
					}
					m, err := sw.ExportMasterDerivationKey(pw)
					if err != nil || m != mdk {
						t.Fatalf("export mdk")
					}
				case 9: // rename
					nn := []byte(fmt.Sprintf("w%d-%d", seed, step))
					wp := invWrongPw(r, pw)
					if err := d.RenameWallet(nn, id, wp); err == nil {
						t.Fatalf("rename with wrong pw succeeded pw=%q wp=%q", pw, wp)
					}
					if r.Intn(2) == 0 {
						if err := d.RenameWallet(nn, id, pw); err != nil {
							t.Fatalf("rename: %v", err)
						}
					}
				case 10: // new handle / restart
					if r.Intn(2) == 0 {
						d = invDriver(t, dir)
					}
					if len(handles) < 3 {
						handles = append(handles, open())
					} else {
						handles[r.Intn(len(handles))] = open()
					}
				case 11:
					check(sw)
				}
			}
			check(handles[0])

			// restore
			d2 := invDriver(t, t.TempDir())
			if err := d2.CreateWallet([]byte("r"), []byte("rid"), []byte("other"), mdk); err != nil {
				t.Fatal(err)
			}
			w, err := d2.FetchWallet([]byte("rid"))
			if err != nil {
				t.Fatal(err)
			}
			if err := w.Init([]byte("other")); err != nil {
				t.Fatal(err)
			}
			var restored []crypto.Digest
			for i := uint64(0); i < maxIdx; i++ {
				a, err := w.GenerateKey(false)
				if err != nil {
					t.Fatal(err)
				}
				restored = append(restored, a)
			}
			// generated must be a subsequence of restored
			j := 0
			for _, g := range generated {
				for j < len(restored) && restored[j] != g {
					j++
				}
				if j == len(restored) {
					t.Fatalf("generated address not regenerated in order by restored wallet")
				}
				j++
			}
		})
	}
}
