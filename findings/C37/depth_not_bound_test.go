// Demonstration of the known finding C37/R37.4 (place in crypto/merklearray/ and run
// `go test -run TestC37DepthNotBound ./crypto/merklearray/`): on the unchanged tree the
// forged proof is ACCEPTED, i.e. this test FAILS.
package merklearray

import (
	"testing"

	"github.com/algorand/go-algorand/crypto"
)

func TestC37DepthNotBound(t *testing.T) {
	arr := make(TestArray, 4)
	for i := range arr {
		crypto.RandBytes(arr[i][:])
	}
	tree, err := BuildVectorCommitmentTree(arr, crypto.HashFactory{HashType: crypto.Sha512_256})
	if err != nil {
		t.Fatal(err)
	}
	root := tree.Root()
	proof, err := tree.ProveSingleLeaf(1)
	if err != nil {
		t.Fatal(err)
	}
	if err := VerifyVectorCommitment(root, map[uint64]crypto.Hashable{1: arr[1]}, proof.ToProof()); err != nil {
		t.Fatalf("honest proof rejected: %v", err)
	}
	// element 1 presented as the element at index 2, with TreeDepth forged from 2 to 3:
	// bit-reversing index 2 over 3 bits gives leaf position 2 again, the two hints climb to the
	// root, and nothing compares the number of levels climbed with proof.TreeDepth.
	forged := *proof.ToProof()
	forged.TreeDepth = 3
	if err := VerifyVectorCommitment(root, map[uint64]crypto.Hashable{2: arr[1]}, &forged); err == nil {
		t.Fatalf("forgery accepted: arr[1] verified as the element at index 2 (the tree holds arr[2] there)")
	}
}
