// Copyright (C) 2019-2026 Algorand Foundation Ltd.
// This file is part of go-algorand
//
// go-algorand is free software: you can redistribute it and/or modify
// it under the terms of the GNU Affero General Public License as
// published by the Free Software Foundation, either version 3 of the
// License, or (at your option) any later version.
//
// go-algorand is distributed in the hope that it will be useful,
// but WITHOUT ANY WARRANTY; without even the implied warranty of
// MERCHANTABILITY or FITNESS FOR A PARTICULAR PURPOSE.  See the
// GNU Affero General Public License for more details.
//
// You should have received a copy of the GNU Affero General Public License
// along with go-algorand.  If not, see <https://www.gnu.org/licenses/>.

package merklearray

import (
	"testing"

	"github.com/stretchr/testify/require"

	"github.com/algorand/go-algorand/crypto"
	"github.com/algorand/go-algorand/protocol"
	"github.com/algorand/go-algorand/test/partitiontest"
)

func invC37Array(n int) TestArray {
	arr := make(TestArray, n)
	for i := range arr {
		crypto.RandBytes(arr[i][:])
	}
	return arr
}

// A proof produced for position p of an array must not verify the same element at a
// different position q. On a tree whose last node of a layer has no sibling (array
// length not a power of two) the honest proof for the last element also verifies at
// positions that are not even part of the array.
func TestInvC37ProofDoesNotVerifyAtAnotherPosition(t *testing.T) {
	partitiontest.PartitionTest(t)

	hf := crypto.HashFactory{HashType: crypto.Sha512_256}
	for _, n := range []int{3, 5, 6, 7, 9} {
		arr := invC37Array(n)
		tree, err := Build(arr, hf)
		require.NoError(t, err)
		root := tree.Root()

		for p := uint64(0); p < uint64(n); p++ {
			proof, err := tree.Prove([]uint64{p})
			require.NoError(t, err)
			// completeness
			require.NoError(t, Verify(root, map[uint64]crypto.Hashable{p: arr[p]}, proof))
			// soundness: any other position (inside the 2^TreeDepth range accepted by Verify)
			for q := uint64(0); q < 1<<proof.TreeDepth; q++ {
				if q == p {
					continue
				}
				err := Verify(root, map[uint64]crypto.Hashable{q: arr[p]}, proof)
				require.Errorf(t, err, "n=%d: proof of position %d verifies the element at position %d", n, p, q)
			}
		}
	}
}

// A proof whose TreeDepth field was altered must not verify.
func TestInvC37ProofDoesNotVerifyWithAnotherTreeDepth(t *testing.T) {
	partitiontest.PartitionTest(t)

	hf := crypto.HashFactory{HashType: crypto.Sha512_256}
	for _, n := range []int{1, 2, 4, 5, 8, 9} {
		arr := invC37Array(n)

		tree, err := Build(arr, hf)
		require.NoError(t, err)
		vctree, err := BuildVectorCommitmentTree(arr, hf)
		require.NoError(t, err)

		for p := uint64(0); p < uint64(n); p++ {
			elems := map[uint64]crypto.Hashable{p: arr[p]}

			proof, err := tree.Prove([]uint64{p})
			require.NoError(t, err)
			require.NoError(t, Verify(tree.Root(), elems, proof))

			vcproof, err := vctree.Prove([]uint64{p})
			require.NoError(t, err)
			require.NoError(t, VerifyVectorCommitment(vctree.Root(), elems, vcproof))

			for d := 0; d <= MaxEncodedTreeDepth+1; d++ {
				if uint8(d) != proof.TreeDepth {
					mutated := *proof
					mutated.TreeDepth = uint8(d)
					err = Verify(tree.Root(), elems, &mutated)
					require.Errorf(t, err, "merkle tree n=%d pos=%d: proof of depth %d verifies with TreeDepth=%d", n, p, proof.TreeDepth, d)
				}
				if uint8(d) != vcproof.TreeDepth {
					mutated := *vcproof
					mutated.TreeDepth = uint8(d)
					err = VerifyVectorCommitment(vctree.Root(), elems, &mutated)
					require.Errorf(t, err, "vector commitment n=%d pos=%d: proof of depth %d verifies with TreeDepth=%d", n, p, vcproof.TreeDepth, d)
				}
			}
		}
	}
}

// No proof may verify an element that is not in the array. Because an internal node is
// hashed as buf[len(left):] = right, a "sibling" whose length is twice the digest size
// pushes the hash computed from the presented element out of the buffer: the element is
// then not bound at all and anything verifies at that position. The forged proof below
// is built only from public data (the two children of the root) and survives a msgpack
// round trip, i.e. it can be received from the network.
func TestInvC37ProofDoesNotVerifyAnotherElement(t *testing.T) {
	partitiontest.PartitionTest(t)

	hf := crypto.HashFactory{HashType: crypto.Sha512_256}
	arr := invC37Array(2)

	for _, vc := range []bool{false, true} {
		var tree *Tree
		var err error
		verify := Verify
		if vc {
			tree, err = BuildVectorCommitmentTree(arr, hf)
			verify = VerifyVectorCommitment
		} else {
			tree, err = Build(arr, hf)
		}
		require.NoError(t, err)
		root := tree.Root()

		honest, err := tree.Prove([]uint64{1})
		require.NoError(t, err)
		require.NoError(t, verify(root, map[uint64]crypto.Hashable{1: arr[1]}, honest))

		var notInArray TestData
		crypto.RandBytes(notInArray[:])
		require.NotEqual(t, arr[0], notInArray)
		require.NotEqual(t, arr[1], notInArray)

		// the honest proof rejects the foreign element
		require.Error(t, verify(root, map[uint64]crypto.Hashable{1: notInArray}, honest))

		// forged proof: one hint made of both children of the root
		hint := append(crypto.GenericDigest{}, tree.Levels[0][0]...)
		hint = append(hint, tree.Levels[0][1]...)
		forged := Proof{Path: []crypto.GenericDigest{hint}, HashFactory: hf, TreeDepth: 1}

		var decoded Proof
		require.NoError(t, protocol.Decode(protocol.Encode(&forged), &decoded))

		err = verify(root, map[uint64]crypto.Hashable{1: notInArray}, &decoded)
		require.Errorf(t, err, "vc=%v: an element that is not in the array verifies against the root", vc)
	}
}
