// Copyright (C) 2019-2026 Algorand Foundation Ltd.
// This file is part of go-algorand
//
// go-algorand is free software: you can redistribute it and/or modify
// it under the terms of the GNU Affero General Public License as
// published by the Free Software Foundation, either version 3 of the
// License, or (at your option) any later version.
//
// go-algorand is distributed in the hope that it will be useful,
// but WITHOUT ANY WARRANTY; without even the implied warranty of
// MERCHANTABILITY or FITNESS FOR A PARTICULAR PURPOSE.  See the
// GNU Affero General Public License for more details.
//
// You should have received a copy of the GNU Affero General Public License
// along with go-algorand.  If not, see <https://www.gnu.org/licenses/>.

package agreement

import (
	"bytes"
	"testing"
	"time"

	"github.com/stretchr/testify/require"

	"github.com/algorand/msgp/msgp"

	"github.com/algorand/go-algorand/crypto"
	"github.com/algorand/go-algorand/data/basics"
	"github.com/algorand/go-algorand/logging"
	"github.com/algorand/go-algorand/protocol"
	"github.com/algorand/go-algorand/test/partitiontest"
	"github.com/algorand/go-algorand/util/timers"
)

// twoProposalValues returns two distinct proposal-values, as they arise whenever two proposers
// propose in the same period: same OriginalPeriod, different proposers and different digests.
// The proposer addresses are ordered one way, the block digests the other way.
func twoProposalValues() (proposalValue, proposalValue) {
	pvA := proposalValue{
		OriginalPeriod:   1,
		OriginalProposer: basics.Address{0x01},
		BlockDigest:      crypto.Digest{0xee},
		EncodingDigest:   crypto.Digest{0xee},
	}
	pvB := proposalValue{
		OriginalPeriod:   1,
		OriginalProposer: basics.Address{0x02},
		BlockDigest:      crypto.Digest{0x11},
		EncodingDigest:   crypto.Digest{0x11},
	}
	return pvA, pvB
}

// checkOneCanonicalEncoding asserts property C40 on obj: the generated and the reflection encoder
// produce identical bytes, and decoding these bytes (with either decoder) and re-encoding the result
// (with either encoder) reproduces them.
func checkOneCanonicalEncoding[T any, PT interface {
	*T
	msgp.Marshaler
	msgp.Unmarshaler
}](t *testing.T, obj PT) {
	t.Helper()
	gen := protocol.Encode(obj)
	refl := protocol.EncodeReflect(obj)
	require.Truef(t, bytes.Equal(refl, gen), "%T: generated encoder and reflection encoder disagree:\n msgp    %x\n reflect %x", obj, gen, refl)

	var viaMsgp, viaReflect T
	require.NoError(t, protocol.Decode(gen, PT(&viaMsgp)))
	require.NoError(t, protocol.DecodeReflect(gen, &viaReflect))
	require.Equal(t, viaReflect, viaMsgp, "%T: decoders disagree", obj)
	require.Truef(t, bytes.Equal(gen, protocol.Encode(PT(&viaMsgp))), "%T: decode + generated re-encode does not reproduce the bytes", obj)
	require.Truef(t, bytes.Equal(gen, protocol.EncodeReflect(PT(&viaMsgp))), "%T: decode + reflection re-encode does not reproduce the bytes", obj)
}

// TestInvC40ProposalValueKeyedMapsHaveOneEncoding: a vote tracker that has counted votes for two
// proposal-values, and a proposal store that assembles two proposals, must have one canonical encoding.
func TestInvC40ProposalValueKeyedMapsHaveOneEncoding(t *testing.T) {
	partitiontest.PartitionTest(t)

	pvA, pvB := twoProposalValues()

	// sanity: each key on its own has one canonical encoding
	checkOneCanonicalEncoding(t, &pvA)
	checkOneCanonicalEncoding(t, &pvB)

	t.Run("voteTracker", func(t *testing.T) {
		vt := voteTracker{
			Counts: map[proposalValue]proposalVoteCounter{
				pvA: {Count: 7},
				pvB: {Count: 9},
			},
		}
		checkOneCanonicalEncoding(t, &vt)
	})

	t.Run("proposalStore", func(t *testing.T) {
		ps := proposalStore{
			Assemblers: map[proposalValue]blockAssembler{
				pvA: {Filled: true},
				pvB: {Assembled: true},
			},
		}
		checkOneCanonicalEncoding(t, &ps)
	})
}

// TestInvC40DiskStateHasOneEncoding is TestRandomizedEncodingFullDiskState for one concrete, ordinary
// state: in round 10, period 1, the soft-vote tracker has seen votes for two proposal-values.
// The two serializations of the crash state offered by encode() must be the same bytes.
func TestInvC40DiskStateHasOneEncoding(t *testing.T) {
	partitiontest.PartitionTest(t)

	pvA, pvB := twoProposalValues()

	p := player{Round: 10, Period: 1, Step: soft, Deadline: Deadline{Duration: time.Second, Type: TimeoutDeadline},
		lowestCredentialArrivals: makeCredentialArrivalHistory(dynamicFilterCredentialArrivalHistory)}
	rr := makeRootRouter(p)
	rr.Children = map[round]*roundRouter{
		10: {
			Children: map[period]*periodRouter{
				1: {
					Children: map[step]*stepRouter{
						soft: {
							VoteTracker: voteTracker{
								Counts: map[proposalValue]proposalVoteCounter{
									pvA: {Count: 7},
									pvB: {Count: 9},
								},
							},
						},
					},
				},
			},
		},
	}

	clock := timers.MakeMonotonicClock[TimeoutType](time.Date(2015, 1, 2, 5, 6, 7, 8, time.UTC))
	log := makeServiceLogger(logging.Base())

	e1 := encode(clock, rr, p, []action{}, true)
	e2 := encode(clock, rr, p, []action{}, false)
	require.Truef(t, bytes.Equal(e1, e2), "msgp and go-codec encodings of the agreement crash state differ (len %d vs %d)", len(e2), len(e1))

	_, rr1, p1, _, err1 := decode(e2, clock, log, true)
	_, rr2, p2, _, err2 := decode(e2, clock, log, false)
	require.NoError(t, err1)
	require.NoError(t, err2)
	require.Equal(t, rr1, rr2)
	require.Equal(t, p1, p2)
	require.True(t, bytes.Equal(e2, encode(clock, rr2, p2, []action{}, false)), "decode + re-encode does not reproduce the crash state bytes")
	require.True(t, bytes.Equal(e2, encode(clock, rr2, p2, []action{}, true)), "decode + reflection re-encode does not reproduce the crash state bytes")
}
