// Copyright (C) 2019-2025 Algorand, Inc.
// This file is part of go-algorand
//
// go-algorand is free software: you can redistribute it and/or modify
// it under the terms of the GNU Affero General Public License as
// published by the Free Software Foundation, either version 3 of the
// License, or (at your option) any later version.
//
// go-algorand is distributed in the hope that it will be useful,
// but WITHOUT ANY WARRANTY; without even the implied warranty of
// MERCHANTABILITY or FITNESS FOR A PARTICULAR PURPOSE.  See the
// GNU Affero General Public License for more details.
//
// You should have received a copy of the GNU Affero General Public License
// along with go-algorand.  If not, see <https://www.gnu.org/licenses/>.

package ledger

import (
	"context"
	"fmt"
	"path/filepath"
	"strings"
	"testing"
	"time"

	"github.com/stretchr/testify/require"

	"github.com/algorand/go-algorand/config"
	"github.com/algorand/go-algorand/crypto"
	"github.com/algorand/go-algorand/data/basics"
	"github.com/algorand/go-algorand/data/bookkeeping"
	"github.com/algorand/go-algorand/ledger/ledgercore"
	"github.com/algorand/go-algorand/ledger/store/trackerdb"
	ledgertesting "github.com/algorand/go-algorand/ledger/testing"
	"github.com/algorand/go-algorand/logging"
	"github.com/algorand/go-algorand/protocol"
	"github.com/algorand/go-algorand/test/partitiontest"
)

// Property C16: restoring a catchpoint file produced by a node yields a ledger whose accounts, totals and label
// equal the producer's at that round.
//
// The producer here is the real catchpointTracker (first stage at round R-CatchpointLookback, second stage at
// round R), the file is the one it writes to disk, the label is the one it publishes (GetLastCatchpointLabel).
// The consumer is a fresh Ledger driven through the call sequence of catchup/catchpointService.go:
// ResetStagingBalances, SetLabel, ProcessStagingBalances (every section), BuildMerkleTrie, VerifyCatchpoint,
// finishBalances.
//
// The history is a chain in which the consensus protocol is upgraded from a version without
// EnableCatchpointsWithOnlineAccounts (like v38/v39) to a version with it (like v40) at round `upgradeRound`.
// upgradeRound == 0 means that the newer protocol is in effect from genesis on.
func invC16ProduceAndRestore(t *testing.T, upgradeRound basics.Round) {
	const catchpointLookback = 32
	const catchpointInterval = 50
	const catchpointRound = basics.Round(100)
	const accountsRound = catchpointRound - catchpointLookback // 68

	name := strings.ReplaceAll(t.Name(), "/", "_")
	oldProto := protocol.ConsensusVersion("test-protocol-invC16-old-" + name)
	newProto := protocol.ConsensusVersion("test-protocol-invC16-new-" + name)
	oldParams := config.Consensus[protocol.ConsensusCurrentVersion]
	oldParams.CatchpointLookback = catchpointLookback
	oldParams.EnableCatchpointsWithSPContexts = true
	oldParams.EnableCatchpointsWithOnlineAccounts = false
	newParams := oldParams
	newParams.EnableCatchpointsWithOnlineAccounts = true
	config.Consensus[oldProto] = oldParams
	config.Consensus[newProto] = newParams
	defer func() {
		delete(config.Consensus, oldProto)
		delete(config.Consensus, newProto)
	}()
	protoAt := func(rnd basics.Round) protocol.ConsensusVersion {
		if rnd >= upgradeRound {
			return newProto
		}
		return oldProto
	}

	accts := []map[basics.Address]basics.AccountData{ledgertesting.RandomAccounts(20, true)}
	addSinkAndPoolAccounts(accts)
	ml := makeMockLedgerForTracker(t, false, 1, protoAt(0), accts)
	defer ml.Close()
	genesisTotals := ml.deltas[0].Totals

	tempDirectory := t.TempDir()
	catchpointsDirectory := filepath.Join(tempDirectory, trackerdb.CatchpointDirName)

	cfg := config.GetDefaultLocal()
	cfg.CatchpointInterval = catchpointInterval
	cfg.CatchpointTracking = 2 // track and store catchpoint files
	cfg.MaxAcctLookback = 0
	ct := newCatchpointTracker(t, ml, cfg, tempDirectory)
	defer ct.close()

	// the producer's history
	for i := basics.Round(1); i <= catchpointRound; i++ {
		blk := bookkeeping.Block{
			BlockHeader: bookkeeping.BlockHeader{
				Round: i,
				UpgradeState: bookkeeping.UpgradeState{
					CurrentProtocol: protoAt(i),
				},
			},
		}
		delta := ledgercore.MakeStateDelta(&blk.BlockHeader, 0, 0, 0)
		delta.Totals = genesisTotals
		ml.addBlock(blockEntry{block: blk}, delta)

		isDataFileRound := (uint64(i)+catchpointLookback)%catchpointInterval == 0
		isCatchpointRound := i > catchpointLookback && uint64(i)%catchpointInterval == 0
		if isDataFileRound || isCatchpointRound {
			// a flush never spans two consensus versions (accountUpdates.consecutiveVersion); a node gets there by
			// being notified on every block, here we ask until the trackers have flushed up to round i.
			for attempt := 0; ml.trackers.getDbRound() < i; attempt++ {
				require.Less(t, attempt, 10, "trackers did not flush up to round %d", i)
				ml.trackers.mu.Lock()
				ml.trackers.lastFlushTime = time.Time{}
				ml.trackers.mu.Unlock()
				ml.trackers.committedUpTo(i)
				ml.trackers.waitAccountsWriting()
				for ct.isWritingCatchpointDataFile() {
					time.Sleep(time.Millisecond)
				}
			}
		}
	}

	// what the producer publishes for round 100
	label := ct.GetLastCatchpointLabel()
	labelRound, _, err := ledgercore.ParseCatchpointLabel(label)
	require.NoError(t, err)
	require.Equal(t, catchpointRound, labelRound, "the producer did not publish a catchpoint for round %d", catchpointRound)
	catchpointFilePath := filepath.Join(catchpointsDirectory, trackerdb.MakeCatchpointFilePath(catchpointRound))
	sections := readCatchpointFile(t, catchpointFilePath)
	require.NotEmpty(t, sections)
	producerBlock, err := ml.Block(catchpointRound)
	require.NoError(t, err)
	var producerTotals ledgercore.AccountTotals
	err = ml.trackerDB().Snapshot(func(ctx context.Context, tx trackerdb.SnapshotScope) error {
		ar, err0 := tx.MakeAccountsReader()
		if err0 != nil {
			return err0
		}
		producerTotals, err0 = ar.AccountsTotals(ctx, false)
		return err0
	})
	require.NoError(t, err)

	var header CatchpointFileHeader
	require.Equal(t, CatchpointContentFileName, sections[0].headerName)
	require.NoError(t, protocol.Decode(sections[0].data, &header))
	require.Equal(t, label, header.Catchpoint)
	require.Equal(t, accountsRound, header.BalancesRound)
	t.Logf("upgrade round %d: producer published %s, file version %o, %d online account rows, %d online round params rows",
		upgradeRound, label, header.Version, header.TotalOnlineAccounts, header.TotalOnlineRoundParams)

	// the consumer
	var initState ledgercore.InitState
	initState.Block.CurrentProtocol = protocol.ConsensusCurrentVersion
	dbName := fmt.Sprintf("%s.%d", name+"FromCatchpoint", crypto.RandUint64())
	l, err := OpenLedger(logging.TestingLog(t), dbName, true, initState, config.GetDefaultLocal())
	require.NoError(t, err)
	defer l.Close()
	accessor := MakeCatchpointCatchupAccessor(l, l.log)
	ctx := context.Background()

	require.NoError(t, accessor.ResetStagingBalances(ctx, true))
	require.NoError(t, accessor.SetLabel(ctx, label))
	var progress CatchpointCatchupAccessorProgress
	for _, section := range sections {
		err = accessor.ProcessStagingBalances(ctx, section.headerName, section.data, &progress)
		require.NoError(t, err, "genuine catchpoint file refused in section %s", section.headerName)
	}
	require.NoError(t, accessor.BuildMerkleTrie(ctx, nil), "genuine catchpoint file refused by BuildMerkleTrie")

	err = accessor.VerifyCatchpoint(ctx, &producerBlock)
	require.NoError(t, err, "GENUINE catchpoint file of round %d (protocol upgrade at round %d, accounts round %d) refused under the label %s the producer published for it",
		catchpointRound, upgradeRound, accountsRound, label)

	// (as in testNewLedgerFromCatchpoint, the balances round is not stored: the txtail migration would need the block database)
	require.NoError(t, accessor.(*catchpointCatchupAccessorImpl).finishBalances(ctx))

	// restored accounts and totals equal the producer's
	for addr, acct := range accts[0] {
		acctData, _, _, err := l.LookupLatest(addr)
		require.NoErrorf(t, err, "failed to lookup account %v after restoring from catchpoint", addr)
		require.Equal(t, acct, acctData)
	}
	var restoredTotals ledgercore.AccountTotals
	err = l.trackerDB().Snapshot(func(ctx context.Context, tx trackerdb.SnapshotScope) error {
		ar, err0 := tx.MakeAccountsReader()
		if err0 != nil {
			return err0
		}
		restoredTotals, err0 = ar.AccountsTotals(ctx, false)
		return err0
	})
	require.NoError(t, err)
	require.Equal(t, producerTotals, restoredTotals)
}

// TestInvC16ControlNoUpgradeInWindow: the harness is sound - the same history round-trips when the protocol
// upgrade is not between the accounts round (68) and the catchpoint round (100).
func TestInvC16ControlNoUpgradeInWindow(t *testing.T) {
	partitiontest.PartitionTest(t)
	// no t.Parallel(): config.Consensus is modified

	for _, upgradeRound := range []basics.Round{0, 40, 68} {
		t.Run(fmt.Sprintf("upgrade-at-%d", upgradeRound), func(t *testing.T) {
			invC16ProduceAndRestore(t, upgradeRound)
		})
	}
}

// TestInvC16UpgradeBetweenStages: the protocol that enables online accounts in catchpoints takes effect after
// the accounts round (first stage) and not later than the catchpoint round (second stage).
func TestInvC16UpgradeBetweenStages(t *testing.T) {
	partitiontest.PartitionTest(t)
	// no t.Parallel(): config.Consensus is modified

	for _, upgradeRound := range []basics.Round{69, 80, 100} {
		t.Run(fmt.Sprintf("upgrade-at-%d", upgradeRound), func(t *testing.T) {
			invC16ProduceAndRestore(t, upgradeRound)
		})
	}
}
