// Copyright (C) 2019-2026 Algorand Foundation Ltd.
// This file is part of go-algorand
//
// go-algorand is free software: you can redistribute it and/or modify
// it under the terms of the GNU Affero General Public License as
// published by the Free Software Foundation, either version 3 of the
// License, or (at your option) any later version.
//
// go-algorand is distributed in the hope that it will be useful,
// but WITHOUT ANY WARRANTY; without even the implied warranty of
// MERCHANTABILITY or FITNESS FOR A PARTICULAR PURPOSE.  See the
// GNU Affero General Public License for more details.
//
// You should have received a copy of the GNU Affero General Public License
// along with go-algorand.  If not, see <https://www.gnu.org/licenses/>.

package agreement

import (
	"fmt"
	"math/rand"
	"testing"
	"time"

	"github.com/stretchr/testify/require"

	"github.com/algorand/go-algorand/logging"
	"github.com/algorand/go-algorand/protocol"
	"github.com/algorand/go-algorand/test/partitiontest"
	"github.com/algorand/go-algorand/util/timers"
)

// decodeCrashStateNoPanic runs the crash-state decoder (the function Service.mainLoop calls on the bytes
// read from the crash database, with no recover() around it) and converts a panic into a test-visible value.
func decodeCrashStateNoPanic(raw []byte) (err error, panicked any) {
	defer func() {
		panicked = recover()
	}()
	t0 := timers.MakeMonotonicClock[TimeoutType](time.Date(2000, 0, 0, 0, 0, 0, 0, time.UTC))
	log := makeServiceLogger(logging.Base())
	_, _, _, _, err = decode(raw, t0, log, false)
	return
}

func validCrashStateC41(t *testing.T) (raw []byte, ds diskState) {
	clock := timers.MakeMonotonicClock[TimeoutType](time.Date(2015, 1, 2, 5, 6, 7, 8, time.UTC))
	status := player{Round: 350, Step: soft, Deadline: Deadline{Duration: 23 * time.Second, Type: TimeoutDeadline}, lowestCredentialArrivals: makeCredentialArrivalHistory(dynamicFilterCredentialArrivalHistory)}
	router := makeRootRouter(status)
	a := []action{checkpointAction{}, disconnectAction(messageEvent{}, nil)}
	raw = encode(clock, router, status, a, false)

	// sanity: the unmodified bytes decode fine
	err, p := decodeCrashStateNoPanic(raw)
	require.Nil(t, p)
	require.NoError(t, err)

	require.NoError(t, protocol.Decode(raw, &ds))
	require.Len(t, ds.ActionTypes, 2)
	require.Len(t, ds.Actions, 2)
	return
}

// TestInvC41CrashStateDecodeNeverPanics: property C41 - decoding arbitrary bytes from disk into a message
// type (here agreement.diskState, the content of the agreement crash database) either succeeds or returns
// an error; it never crashes. decode() documents "In all decoding errors, it returns the error code in
// err", and Service.mainLoop relies on that to wipe an unusable crash state and start fresh.
func TestInvC41CrashStateDecodeNeverPanics(t *testing.T) {
	partitiontest.PartitionTest(t)

	_, ds := validCrashStateC41(t)

	t.Run("unknown action type", func(t *testing.T) {
		// e.g. a crash state written by a newer binary that knows one more action type (same downgrade
		// scenario as the "UnexpectedDiskField" cases of TestDecodeErrs), or a flipped byte on disk.
		for _, bad := range []actionType{checkpoint + 1, 0x7f, stageDigest} {
			m := ds
			m.ActionTypes = []actionType{bad, ds.ActionTypes[1]}
			err, p := decodeCrashStateNoPanic(protocol.Encode(&m))
			require.Nilf(t, p, "C41 violated: decoding a crash state with action type %d panicked instead of returning an error: %v", bad, p)
			require.Errorf(t, err, "action type %d", bad)
		}
	})

	t.Run("fewer action types than actions", func(t *testing.T) {
		m := ds
		m.ActionTypes = ds.ActionTypes[:1]
		err, p := decodeCrashStateNoPanic(protocol.Encode(&m))
		require.Nilf(t, p, "C41 violated: decoding a crash state with %d action types for %d actions panicked instead of returning an error: %v", len(m.ActionTypes), len(m.Actions), p)
		require.Error(t, err)

		m.ActionTypes = nil
		err, p = decodeCrashStateNoPanic(protocol.Encode(&m))
		require.Nilf(t, p, "C41 violated: decoding a crash state without action types panicked instead of returning an error: %v", p)
		require.Error(t, err)
	})

	t.Run("more action types than actions", func(t *testing.T) {
		m := ds
		m.Actions = ds.Actions[:1]
		// success and error are both acceptable here; a panic is not
		_, p := decodeCrashStateNoPanic(protocol.Encode(&m))
		require.Nilf(t, p, "C41 violated: decoding a crash state with %d action types for %d actions panicked: %v", len(m.ActionTypes), len(m.Actions), p)
	})
}

// TestInvC41CrashStateDecodeMutated feeds randomly mutated encodings of a valid crash state to decode().
func TestInvC41CrashStateDecodeMutated(t *testing.T) {
	partitiontest.PartitionTest(t)

	raw, ds := validCrashStateC41(t)
	rnd := rand.New(rand.NewSource(41))

	var panics []string
	for i := 0; i < 20000 && len(panics) < 5; i++ {
		b := append([]byte{}, raw...)
		switch rnd.Intn(4) {
		case 0: // flip one byte anywhere
			b[rnd.Intn(len(b))] = byte(rnd.Intn(256))
		case 1: // truncate
			b = b[:rnd.Intn(len(b))]
		case 2: // flip one bit anywhere
			b[rnd.Intn(len(b))] ^= 1 << uint(rnd.Intn(8))
		case 3: // re-encode with random action types / counts
			m := ds
			m.ActionTypes = make([]actionType, rnd.Intn(4))
			for j := range m.ActionTypes {
				m.ActionTypes[j] = actionType(rnd.Intn(32))
			}
			b = protocol.Encode(&m)
		}
		_, p := decodeCrashStateNoPanic(b)
		if p != nil {
			panics = append(panics, fmt.Sprintf("%v (input %x...)", p, b[:min(len(b), 24)]))
		}
	}
	require.Emptyf(t, panics, "C41 violated: decode() panicked on mutated crash state bytes: %v", panics)
}
