// Copyright (C) 2019-2026 Algorand Foundation Ltd.
// This file is part of go-algorand
//
// go-algorand is free software: you can redistribute it and/or modify
// it under the terms of the GNU Affero General Public License as
// published by the Free Software Foundation, either version 3 of the
// License, or (at your option) any later version.
//
// go-algorand is distributed in the hope that it will be useful,
// but WITHOUT ANY WARRANTY; without even the implied warranty of
// MERCHANTABILITY or FITNESS FOR A PARTICULAR PURPOSE.  See the
// GNU Affero General Public License for more details.
//
// You should have received a copy of the GNU Affero General Public License
// along with go-algorand.  If not, see <https://www.gnu.org/licenses/>.

package rpcs

import (
	"context"
	"net/http"
	"strconv"
	"sync"
	"testing"
	"time"

	"github.com/stretchr/testify/require"

	"github.com/algorand/go-algorand/config"
	"github.com/algorand/go-algorand/config/bounds"
	"github.com/algorand/go-algorand/crypto"
	"github.com/algorand/go-algorand/data/basics"
	"github.com/algorand/go-algorand/data/transactions"
	"github.com/algorand/go-algorand/protocol"
	"github.com/algorand/go-algorand/test/partitiontest"
)

// capturingHandler records what the tx syncer hands to the node's transaction handler.
type capturingHandler struct {
	mu   sync.Mutex
	txns []transactions.SignedTxn
}

func (h *capturingHandler) Handle(txgroup []transactions.SignedTxn) error {
	h.mu.Lock()
	defer h.mu.Unlock()
	h.txns = append(h.txns, txgroup...)
	return nil
}

// withinDeclaredBounds reports whether every collection of stxn respects the allocbound declared for it:
// the msgp decoder (protocol.Decode) enforces exactly these bounds, so an object that was legitimately
// decoded from untrusted bytes can always be re-encoded and decoded again.
func withinDeclaredBounds(stxn transactions.SignedTxn) error {
	var out transactions.SignedTxn
	return protocol.Decode(protocol.Encode(&stxn), &out)
}

// TestInvC41TxSyncResponseRespectsDeclaredBounds: property C41 - decoding arbitrary bytes from the network
// into a message type either succeeds or returns an error, and never builds collections larger than the
// type's declared bounds. The bytes here are the body of a relay's answer to the periodic transaction sync
// request (rpcs.HTTPTxSync.Sync, driven by TxSyncer for every non-relay node), the message type is
// []transactions.SignedTxn.
func TestInvC41TxSyncResponseRespectsDeclaredBounds(t *testing.T) {
	partitiontest.PartitionTest(t)

	var sender basics.Address
	crypto.RandBytes(sender[:])
	hdr := transactions.Header{Sender: sender, Fee: basics.MicroAlgos{Raw: 1000}, FirstValid: 1, LastValid: 100}

	manyArgs := make([][]byte, 2000)
	for i := range manyArgs {
		manyArgs[i] = []byte{byte(i)}
	}
	manyApps := make([]basics.AppIndex, 20000)
	for i := range manyApps {
		manyApps[i] = basics.AppIndex(i + 1)
	}

	cases := []struct {
		name string
		stxn transactions.SignedTxn
	}{
		{
			// Header.Note: allocbound=bounds.MaxTxnNoteBytes (1024)
			name: "note of 100000 bytes",
			stxn: func() transactions.SignedTxn {
				h := hdr
				h.Note = make([]byte, 100000)
				return transactions.SignedTxn{Txn: transactions.Transaction{Type: protocol.PaymentTx, Header: h}}
			}(),
		},
		{
			// ApplicationCallTxnFields.ApplicationArgs: allocbound=encodedMaxApplicationArgs (32)
			name: "2000 application args",
			stxn: transactions.SignedTxn{Txn: transactions.Transaction{Type: protocol.ApplicationCallTx, Header: hdr,
				ApplicationCallTxnFields: transactions.ApplicationCallTxnFields{ApplicationID: 1, ApplicationArgs: manyArgs}}},
		},
		{
			// ApplicationCallTxnFields.ForeignApps: allocbound=encodedMaxForeignApps (32)
			name: "20000 foreign apps",
			stxn: transactions.SignedTxn{Txn: transactions.Transaction{Type: protocol.ApplicationCallTx, Header: hdr,
				ApplicationCallTxnFields: transactions.ApplicationCallTxnFields{ApplicationID: 1, ForeignApps: manyApps}}},
		},
		{
			// MultisigSig.Subsigs: allocbound=maxMultisig (255)
			name: "3000 multisig subsigs",
			stxn: transactions.SignedTxn{Txn: transactions.Transaction{Type: protocol.PaymentTx, Header: hdr},
				Msig: crypto.MultisigSig{Version: 1, Threshold: 1, Subsigs: make([]crypto.MultisigSubsig, 3000)}},
		},
	}

	for _, tc := range cases {
		t.Run(tc.name, func(t *testing.T) {
			// sanity: the crafted transaction is out of the declared bounds, the regular decoder refuses it
			require.Error(t, withinDeclaredBounds(tc.stxn))

			// the body a peer sends: the same framing TxService.ServeHTTP uses
			body := protocol.EncodeReflect([]transactions.SignedTxn{tc.stxn})
			require.Less(t, len(body), config.GetDefaultLocal().TxSyncServeResponseSize)

			// A network with two nodes: relay A (untrusted peer) and node B
			nodeA, nodeB := nodePair()
			defer nodeA.stop()
			defer nodeB.stop()
			nodeA.RegisterHTTPHandlerFunc(TxServiceHTTPPath, func(w http.ResponseWriter, r *http.Request) {
				w.Header().Set("Content-Length", strconv.Itoa(len(body)))
				w.Header().Set("Content-Type", responseContentType)
				w.WriteHeader(http.StatusOK)
				_, _ = w.Write(body)
			})

			handler := capturingHandler{}
			syncer := MakeTxSyncer(makeMockPendingTxAggregate(0), nodeB, &handler, time.Second, 5*time.Second, config.GetDefaultLocal().TxSyncServeResponseSize)
			syncer.ctx, syncer.cancel = context.WithCancel(context.Background())
			defer syncer.cancel()

			// either outcome is fine for the property: an error, or a successful decoding. What is not fine
			// is a "successfully" decoded transaction whose collections exceed the declared bounds.
			err := syncer.sync()
			t.Logf("sync returned: %v; %d transactions handed to the transaction handler", err, len(handler.txns))
			for _, got := range handler.txns {
				require.NoErrorf(t, withinDeclaredBounds(got),
					"C41 violated: the tx sync response was decoded into a SignedTxn that exceeds its declared allocbounds "+
						"(note %d bytes / bound %d, %d app args, %d foreign apps, %d subsigs)",
					len(got.Txn.Note), bounds.MaxTxnNoteBytes, len(got.Txn.ApplicationArgs), len(got.Txn.ForeignApps), len(got.Msig.Subsigs))
			}
		})
	}
}
