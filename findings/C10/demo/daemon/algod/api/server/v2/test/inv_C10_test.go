package test

import (
	"encoding/json"
	"testing"

	"github.com/stretchr/testify/require"

	"github.com/algorand/go-algorand/agreement"
	"github.com/algorand/go-algorand/config"
	"github.com/algorand/go-algorand/crypto"
	v2 "github.com/algorand/go-algorand/daemon/algod/api/server/v2"
	"github.com/algorand/go-algorand/daemon/algod/api/server/v2/generated/model"
	"github.com/algorand/go-algorand/data"
	"github.com/algorand/go-algorand/data/basics"
	"github.com/algorand/go-algorand/data/bookkeeping"
	"github.com/algorand/go-algorand/data/transactions"
	"github.com/algorand/go-algorand/data/transactions/logic"
	"github.com/algorand/go-algorand/data/txntest"
	"github.com/algorand/go-algorand/ledger/eval"
	"github.com/algorand/go-algorand/ledger/ledgercore"
	ledgertesting "github.com/algorand/go-algorand/ledger/testing"
	"github.com/algorand/go-algorand/logging"
	"github.com/algorand/go-algorand/protocol"
	"github.com/algorand/go-algorand/test/partitiontest"
)

// invC10Block evaluates txns on top of the ledger's latest block and appends the resulting block.
func invC10Block(t *testing.T, l *data.Ledger, txns ...*txntest.Txn) {
	t.Helper()
	hdr, err := l.BlockHdr(l.Latest())
	require.NoError(t, err)
	nextHdr := bookkeeping.MakeBlock(hdr).BlockHeader
	nextHdr.TimeStamp = hdr.TimeStamp + 1
	ev, err := eval.StartEvaluator(l.Ledger, nextHdr, eval.EvaluatorOptions{Generate: true, Validate: true, Tracer: logic.EvalErrorDetailsTracer{}})
	require.NoError(t, err)
	for _, tx := range txns {
		if tx.FirstValid == 0 {
			tx.FirstValid = nextHdr.Round
		}
		if tx.GenesisHash.IsZero() {
			tx.GenesisHash = l.GenesisHash()
		}
		tx.FillDefaults(config.Consensus[protocol.ConsensusFuture])
		g := []transactions.SignedTxn{tx.SignedTxn()}
		require.NoError(t, ev.TestTransactionGroup(g))
		require.NoError(t, ev.TransactionGroup(transactions.WrapSignedTxnsWithAD(g)...))
	}
	ub, err := ev.GenerateBlock(nil)
	require.NoError(t, err)
	vb := ledgercore.MakeValidatedBlock(ub.UnfinishedBlock(), ub.UnfinishedDeltas())
	require.NoError(t, l.AddValidatedBlock(vb, agreement.Certificate{}))
	l.WaitForCommit(l.Latest())
}

// TestInvC10GetApplicationBoxesUnlimitedConfig drives the real GetApplicationBoxes handler on a real ledger.
// The node is configured with MaxAPIBoxPerApplication=0 (unlimited, as in setupLargeBoxTestHandlers) and
// the client pages through the boxes by following next-tokens, without choosing a page size.
// Every box of the application must be returned exactly once, in increasing order.
func TestInvC10GetApplicationBoxesUnlimitedConfig(t *testing.T) {
	partitiontest.PartitionTest(t)

	genBalances, addrs, _ := ledgertesting.NewTestGenesis()
	cfg := config.GetDefaultLocal()
	cfg.Archival = true
	var genHash crypto.Digest
	crypto.RandBytes(genHash[:])
	l, err := data.LoadLedger(logging.Base(), t.Name(), true, protocol.ConsensusFuture, genBalances, "invC10", genHash, cfg)
	require.NoError(t, err)
	defer l.Close()

	const boxApp = `
txn ApplicationID
bz end
txn ApplicationArgs 0
int 8
box_create
assert
end:
int 1
`
	hdr, err := l.BlockHdr(l.Latest())
	require.NoError(t, err)
	appID := basics.AppIndex(hdr.TxnCounter + 1)
	invC10Block(t, l,
		&txntest.Txn{Type: "appl", Sender: addrs[0], ApprovalProgram: boxApp, ClearStateProgram: "int 1"},
		&txntest.Txn{Type: "pay", Sender: addrs[0], Receiver: appID.Address(), Amount: 10_000_000},
	)
	names := []string{"a", "b", "c", "d", "e"}
	var creates []*txntest.Txn
	for _, n := range names {
		creates = append(creates, &txntest.Txn{Type: "appl", Sender: addrs[0], ApplicationID: appID,
			ApplicationArgs: [][]byte{[]byte(n)}, Boxes: []transactions.BoxRef{{Index: 0, Name: []byte(n)}}})
	}
	invC10Block(t, l, creates...)

	mockNode := makeMockNode(l, t.Name(), nil, cannedStatusReportGolden, false)
	mockNode.config.MaxAPIBoxPerApplication = 0 // unlimited
	handlers := v2.Handlers{Node: mockNode, Log: logging.Base(), Shutdown: make(chan struct{})}

	listAll := func(params model.GetApplicationBoxesParams) []string {
		var got []string
		for pages := 0; ; pages++ {
			require.Less(t, pages, 100)
			ctx, rec := newReq(t)
			require.NoError(t, handlers.GetApplicationBoxes(ctx, appID, params))
			require.Equal(t, 200, rec.Code, rec.Body.String())
			var resp model.BoxesResponse
			require.NoError(t, json.Unmarshal(rec.Body.Bytes(), &resp))
			for _, b := range resp.Boxes {
				got = append(got, string(b.Name))
			}
			if resp.NextToken == nil {
				return got
			}
			params.Next = resp.NextToken
		}
	}

	// sanity: the legacy (unpaginated) form and an explicit page size both see all five boxes
	legacy := listAll(model.GetApplicationBoxesParams{})
	require.ElementsMatch(t, names, legacy)
	two := uint64(2)
	require.Equal(t, names, listAll(model.GetApplicationBoxesParams{Limit: &two}))

	// pagination mode without an explicit page size: include=values / prefix / round
	include := []model.GetApplicationBoxesParamsInclude{model.GetApplicationBoxesParamsIncludeValues}
	require.Equal(t, names, listAll(model.GetApplicationBoxesParams{Include: &include}), "include=values, no limit")
	rnd := l.Latest()
	require.Equal(t, names, listAll(model.GetApplicationBoxesParams{Round: &rnd}), "round=latest, no limit")
}
