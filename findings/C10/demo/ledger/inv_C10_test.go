// Property C10 audit: paginated listings return each resource exactly once.
//
//   - TestInvC10BoxesListingWithoutCountLimit FAILS on the unmodified code (the finding).
//   - TestInvC10PaginatedResourcesRandom / TestInvC10PaginatedKvRandom are randomized differential
//     tests of the delta/DB merge that PASS (kept as evidence of what was examined).
package ledger

import (
	"fmt"
	"math/rand"
	"slices"
	"testing"

	"github.com/stretchr/testify/require"

	"github.com/algorand/avm-abi/apps"

	"github.com/algorand/go-algorand/config"
	"github.com/algorand/go-algorand/data/basics"
	"github.com/algorand/go-algorand/data/transactions"
	"github.com/algorand/go-algorand/data/txntest"
	"github.com/algorand/go-algorand/ledger/eval"
	"github.com/algorand/go-algorand/ledger/ledgercore"
	ledgertesting "github.com/algorand/go-algorand/ledger/testing"
	"github.com/algorand/go-algorand/protocol"
	"github.com/algorand/go-algorand/test/partitiontest"
)

const invC10Counter = `
txn ApplicationID
bz end
txn OnCompletion
int NoOp
==
bz end
int 0
txn ApplicationID
app_opted_in
bz end
int 0
byte "c"
int 0
byte "c"
app_local_get
int 1
+
app_local_put
end:
int 1
`

type invC10Env struct {
	t       *testing.T
	l       *Ledger
	rng     *rand.Rand
	addrs   []basics.Address
	nonce   int
	assets  []basics.AssetIndex // every asset ever created
	apps    []basics.AppIndex   // every app ever created
	counter uint64
	ok      map[string]int
	maxA    int
	maxP    int
	flushes int
}

func (e *invC10Env) try(ev *eval.BlockEvaluator, tx *txntest.Txn) bool {
	e.nonce++
	tx.Note = fmt.Sprintf("n%d", e.nonce)
	fillDefaults(e.t, e.l, ev, tx)
	g := []transactions.SignedTxn{tx.SignedTxn()}
	if err := ev.TestTransactionGroup(g); err != nil {
		return false
	}
	if err := ev.TransactionGroup(transactions.WrapSignedTxnsWithAD(g)...); err != nil {
		return false
	}
	e.counter++
	e.ok[string(tx.Type)+fmt.Sprint(tx.OnCompletion)]++
	return true
}

func (e *invC10Env) pick() basics.Address { return e.addrs[e.rng.Intn(len(e.addrs))] }

// expected view built from the non-paginated code path (LookupLatest loads all resources).
func (e *invC10Env) expectedAssets(addr basics.Address) []ledgercore.AssetResourceWithIDs {
	ad := lookup(e.t, e.l, addr)
	var out []ledgercore.AssetResourceWithIDs
	for id, h := range ad.Assets {
		h := h
		r := ledgercore.AssetResourceWithIDs{AssetID: id}
		r.AssetHolding = &h
		creator, ok, err := e.l.GetCreator(basics.CreatableIndex(id), basics.AssetCreatable)
		require.NoError(e.t, err)
		if ok {
			r.Creator = creator
			p, ok := lookup(e.t, e.l, creator).AssetParams[id]
			require.True(e.t, ok)
			r.AssetParams = &p
		}
		out = append(out, r)
	}
	slices.SortFunc(out, func(a, b ledgercore.AssetResourceWithIDs) int { return int(int64(a.AssetID) - int64(b.AssetID)) })
	return out
}

func (e *invC10Env) expectedApps(addr basics.Address) []ledgercore.AppResourceWithIDs {
	ad := lookup(e.t, e.l, addr)
	ids := map[basics.AppIndex]bool{}
	for id := range ad.AppLocalStates {
		ids[id] = true
	}
	for id := range ad.AppParams {
		ids[id] = true
	}
	var out []ledgercore.AppResourceWithIDs
	for id := range ids {
		r := ledgercore.AppResourceWithIDs{AppID: id}
		if ls, ok := ad.AppLocalStates[id]; ok {
			r.AppLocalState = &ls
		}
		creator, ok, err := e.l.GetCreator(basics.CreatableIndex(id), basics.AppCreatable)
		require.NoError(e.t, err)
		if ok {
			r.Creator = creator
			p, ok := lookup(e.t, e.l, creator).AppParams[id]
			require.True(e.t, ok)
			r.AppParams = &p
		}
		out = append(out, r)
	}
	slices.SortFunc(out, func(a, b ledgercore.AppResourceWithIDs) int { return int(int64(a.AppID) - int64(b.AppID)) })
	return out
}

func (e *invC10Env) listAssets(addr basics.Address, start basics.AssetIndex, limit uint64, handlerStyle bool) []ledgercore.AssetResourceWithIDs {
	var out []ledgercore.AssetResourceWithIDs
	cursor := start
	for pages := 0; ; pages++ {
		require.Less(e.t, pages, 10000)
		if handlerStyle {
			page, _, err := e.l.LookupAssets(addr, cursor, limit+1)
			require.NoError(e.t, err)
			more := uint64(len(page)) > limit
			if more {
				page = page[:limit]
			}
			out = append(out, page...)
			if !more {
				return out
			}
			cursor = page[len(page)-1].AssetID
		} else {
			page, _, err := e.l.LookupAssets(addr, cursor, limit)
			require.NoError(e.t, err)
			require.LessOrEqual(e.t, uint64(len(page)), limit)
			out = append(out, page...)
			if uint64(len(page)) < limit {
				return out
			}
			cursor = page[len(page)-1].AssetID
		}
	}
}

func (e *invC10Env) listApps(addr basics.Address, start basics.AppIndex, limit uint64, handlerStyle bool, includeParams bool) []ledgercore.AppResourceWithIDs {
	var out []ledgercore.AppResourceWithIDs
	cursor := start
	for pages := 0; ; pages++ {
		require.Less(e.t, pages, 10000)
		if handlerStyle {
			page, _, err := e.l.LookupApplications(addr, cursor, limit+1, includeParams)
			require.NoError(e.t, err)
			more := uint64(len(page)) > limit
			if more {
				page = page[:limit]
			}
			out = append(out, page...)
			if !more {
				return out
			}
			cursor = page[len(page)-1].AppID
		} else {
			page, _, err := e.l.LookupApplications(addr, cursor, limit, includeParams)
			require.NoError(e.t, err)
			require.LessOrEqual(e.t, uint64(len(page)), limit)
			out = append(out, page...)
			if uint64(len(page)) < limit {
				return out
			}
			cursor = page[len(page)-1].AppID
		}
	}
}

func invC10AssetIDs(rs []ledgercore.AssetResourceWithIDs) []basics.AssetIndex {
	ids := make([]basics.AssetIndex, 0, len(rs))
	for _, r := range rs {
		ids = append(ids, r.AssetID)
	}
	return ids
}

func invC10AppIDs(rs []ledgercore.AppResourceWithIDs) []basics.AppIndex {
	ids := make([]basics.AppIndex, 0, len(rs))
	for _, r := range rs {
		ids = append(ids, r.AppID)
	}
	return ids
}

func (e *invC10Env) check(ctx string) {
	limits := []uint64{1, 2, 3, 5, 1000}
	for _, addr := range e.addrs {
		expA := e.expectedAssets(addr)
		expP := e.expectedApps(addr)
		e.maxA = max(e.maxA, len(expA))
		e.maxP = max(e.maxP, len(expP))
		for _, limit := range limits {
			for _, hs := range []bool{false, true} {
				// random starting cursor too
				starts := []uint64{0}
				if len(expA) > 0 {
					starts = append(starts, uint64(expA[e.rng.Intn(len(expA))].AssetID)-uint64(e.rng.Intn(2)))
				}
				for _, st := range starts {
					var want []ledgercore.AssetResourceWithIDs
					for _, r := range expA {
						if uint64(r.AssetID) > st {
							want = append(want, r)
						}
					}
					got := e.listAssets(addr, basics.AssetIndex(st), limit, hs)
					require.Equal(e.t, invC10AssetIDs(want), invC10AssetIDs(got), "%s: assets of %s start=%d limit=%d handlerStyle=%v", ctx, addr, st, limit, hs)
					for i := range want {
						require.Equal(e.t, *want[i].AssetHolding, *got[i].AssetHolding, "%s: asset %d holding", ctx, want[i].AssetID)
						require.Equal(e.t, want[i].Creator, got[i].Creator, "%s: asset %d creator", ctx, want[i].AssetID)
						if want[i].AssetParams == nil {
							require.Nil(e.t, got[i].AssetParams, "%s: asset %d params", ctx, want[i].AssetID)
						} else {
							require.NotNil(e.t, got[i].AssetParams, "%s: asset %d params", ctx, want[i].AssetID)
							require.Equal(e.t, *want[i].AssetParams, *got[i].AssetParams, "%s: asset %d params", ctx, want[i].AssetID)
						}
					}
				}

				starts = []uint64{0}
				if len(expP) > 0 {
					starts = append(starts, uint64(expP[e.rng.Intn(len(expP))].AppID)-uint64(e.rng.Intn(2)))
				}
				for _, st := range starts {
					var want []ledgercore.AppResourceWithIDs
					for _, r := range expP {
						if uint64(r.AppID) > st {
							want = append(want, r)
						}
					}
					inc := e.rng.Intn(2) == 0
					got := e.listApps(addr, basics.AppIndex(st), limit, hs, inc)
					require.Equal(e.t, invC10AppIDs(want), invC10AppIDs(got), "%s: apps of %s start=%d limit=%d handlerStyle=%v", ctx, addr, st, limit, hs)
					for i := range want {
						if want[i].AppLocalState == nil {
							require.Nil(e.t, got[i].AppLocalState, "%s: app %d locals", ctx, want[i].AppID)
						} else {
							require.NotNil(e.t, got[i].AppLocalState, "%s: app %d locals", ctx, want[i].AppID)
							require.Equal(e.t, want[i].AppLocalState.Schema, got[i].AppLocalState.Schema, "%s: app %d locals", ctx, want[i].AppID)
							require.Equal(e.t, len(want[i].AppLocalState.KeyValue), len(got[i].AppLocalState.KeyValue), "%s: app %d locals", ctx, want[i].AppID)
							for k, v := range want[i].AppLocalState.KeyValue {
								require.Equal(e.t, v, got[i].AppLocalState.KeyValue[k], "%s: app %d locals", ctx, want[i].AppID)
							}
						}
						require.Equal(e.t, want[i].Creator, got[i].Creator, "%s: app %d creator", ctx, want[i].AppID)
						if inc && want[i].AppParams != nil {
							require.NotNil(e.t, got[i].AppParams, "%s: app %d params", ctx, want[i].AppID)
							require.Equal(e.t, want[i].AppParams.ApprovalProgram, got[i].AppParams.ApprovalProgram, "%s: app %d params", ctx, want[i].AppID)
							require.Equal(e.t, want[i].AppParams.LocalStateSchema, got[i].AppParams.LocalStateSchema, "%s: app %d params", ctx, want[i].AppID)
						}
					}
				}
			}
		}
	}
}

func (e *invC10Env) randomTxn(ev *eval.BlockEvaluator) {
	addr := e.pick()
	ad := lookup(e.t, e.l, addr)
	switch r := e.rng.Intn(100); {
	case r < 12: // create asset
		if e.try(ev, &txntest.Txn{Type: "acfg", Sender: addr, AssetParams: basics.AssetParams{
			Total: 1000, UnitName: fmt.Sprintf("u%d", e.nonce), Manager: addr, Reserve: addr,
		}}) {
			e.assets = append(e.assets, basics.AssetIndex(e.counter))
		}
	case r < 30: // opt in asset
		if len(e.assets) == 0 {
			return
		}
		a := e.assets[e.rng.Intn(len(e.assets))]
		e.try(ev, &txntest.Txn{Type: "axfer", Sender: addr, XferAsset: a, AssetReceiver: addr})
	case r < 44: // opt out asset
		for _, a := range invC10Sorted(ad.Assets) {
			closeTo := addr
			if c, ok, _ := e.l.GetCreator(basics.CreatableIndex(a), basics.AssetCreatable); ok {
				closeTo = c
			} else {
				closeTo = e.pick()
			}
			e.try(ev, &txntest.Txn{Type: "axfer", Sender: addr, XferAsset: a, AssetReceiver: closeTo, AssetCloseTo: closeTo})
			break
		}
	case r < 50: // transfer from creator
		for _, a := range invC10Sorted(ad.AssetParams) {
			e.try(ev, &txntest.Txn{Type: "axfer", Sender: addr, XferAsset: a, AssetReceiver: e.pick(), AssetAmount: uint64(1 + e.rng.Intn(5))})
			break
		}
	case r < 58: // destroy asset (return funds first)
		for _, a := range invC10Sorted(ad.AssetParams) {
			for _, other := range e.addrs {
				if other == addr {
					continue
				}
				if h, ok := lookup(e.t, e.l, other).Assets[a]; ok && h.Amount > 0 {
					e.try(ev, &txntest.Txn{Type: "axfer", Sender: other, XferAsset: a, AssetReceiver: addr, AssetAmount: h.Amount})
				}
			}
			e.try(ev, &txntest.Txn{Type: "acfg", Sender: addr, ConfigAsset: a})
			break
		}
	case r < 62: // reconfigure asset
		for _, a := range invC10Sorted(ad.AssetParams) {
			e.try(ev, &txntest.Txn{Type: "acfg", Sender: addr, ConfigAsset: a, AssetParams: basics.AssetParams{Manager: addr, Reserve: e.pick()}})
			break
		}
	case r < 70: // create app
		if e.try(ev, &txntest.Txn{Type: "appl", Sender: addr, ApprovalProgram: invC10Counter, ClearStateProgram: "int 1",
			LocalStateSchema: basics.StateSchema{NumUint: uint64(e.rng.Intn(2))}}) {
			e.apps = append(e.apps, basics.AppIndex(e.counter))
		}
	case r < 80: // opt in app
		if len(e.apps) == 0 {
			return
		}
		a := e.apps[e.rng.Intn(len(e.apps))]
		e.try(ev, &txntest.Txn{Type: "appl", Sender: addr, ApplicationID: a, OnCompletion: transactions.OptInOC})
	case r < 88: // close out / clear state
		for _, a := range invC10Sorted(ad.AppLocalStates) {
			oc := transactions.CloseOutOC
			if e.rng.Intn(2) == 0 {
				oc = transactions.ClearStateOC
			}
			if !e.try(ev, &txntest.Txn{Type: "appl", Sender: addr, ApplicationID: a, OnCompletion: oc}) {
				e.try(ev, &txntest.Txn{Type: "appl", Sender: addr, ApplicationID: a, OnCompletion: transactions.ClearStateOC})
			}
			break
		}
	case r < 93: // delete app
		for _, a := range invC10Sorted(ad.AppParams) {
			e.try(ev, &txntest.Txn{Type: "appl", Sender: addr, ApplicationID: a, OnCompletion: transactions.DeleteApplicationOC})
			break
		}
	case r < 96: // update app
		for _, a := range invC10Sorted(ad.AppParams) {
			e.try(ev, &txntest.Txn{Type: "appl", Sender: addr, ApplicationID: a, OnCompletion: transactions.UpdateApplicationOC,
				ApprovalProgram: invC10Counter + fmt.Sprintf("\nint %d\npop\n", e.nonce), ClearStateProgram: "int 1"})
			break
		}
	default: // call app (bumps local counter)
		for _, a := range invC10Sorted(ad.AppLocalStates) {
			e.try(ev, &txntest.Txn{Type: "appl", Sender: addr, ApplicationID: a})
			break
		}
	}
}

func TestInvC10PaginatedResourcesRandom(t *testing.T) {
	partitiontest.PartitionTest(t)

	for seed := int64(1); seed <= 4; seed++ {
		t.Run(fmt.Sprintf("seed%d", seed), func(t *testing.T) {
			genBalances, addrs, _ := ledgertesting.NewTestGenesis()
			cfg := config.GetDefaultLocal()
			l := newSimpleLedgerWithConsensusVersion(t, genBalances, protocol.ConsensusFuture, cfg, simpleLedgerOnDisk())
			defer l.Close()

			e := &invC10Env{t: t, l: l, rng: rand.New(rand.NewSource(seed)), addrs: addrs[:3], ok: map[string]int{}}
			for blk := 0; blk < 150; blk++ {
				hdr, err := l.BlockHdr(l.Latest())
				require.NoError(t, err)
				e.counter = hdr.TxnCounter
				ev := nextBlock(t, l)
				n := e.rng.Intn(9)
				for i := 0; i < n; i++ {
					e.randomTxn(ev)
				}
				endBlock(t, l, ev)

				if e.rng.Intn(7) == 0 {
					l.trackers.mu.RLock()
					dbRound := l.trackers.dbRound
					l.trackers.mu.RUnlock()
					pending := uint64(l.Latest() - dbRound)
					if pending > 0 {
						commitRoundLookback(basics.Round(e.rng.Intn(int(pending))), l)
						e.flushes++
					}
				}
				l.trackers.mu.RLock()
				dbRound := l.trackers.dbRound
				l.trackers.mu.RUnlock()
				e.check(fmt.Sprintf("seed %d block %d latest %d dbRound %d", seed, blk, l.Latest(), dbRound))
			}
			t.Logf("ok txns %v maxAssets %d maxApps %d flushes %d", e.ok, e.maxA, e.maxP, e.flushes)
		})
	}
}

// invC10Sorted returns the keys of m in a seeded-random but deterministic order (sorted, then rotated by len).
func invC10Sorted[K ~uint64, V any](m map[K]V) []K {
	keys := make([]K, 0, len(m))
	for k := range m {
		keys = append(keys, k)
	}
	slices.Sort(keys)
	if len(keys) > 1 {
		r := int(uint64(keys[0])+uint64(len(keys))*7) % len(keys)
		keys = append(keys[r:], keys[:r]...)
	}
	return keys
}

func TestInvC10PaginatedKvRandom(t *testing.T) {
	partitiontest.PartitionTest(t)

	testProtocolVersion := protocol.ConsensusCurrentVersion
	protoParams := config.Consensus[testProtocolVersion]

	for seed := int64(1); seed <= 6; seed++ {
		t.Run(fmt.Sprintf("seed%d", seed), func(t *testing.T) {
			rng := rand.New(rand.NewSource(seed))
			accts := setupAccts(1)
			ml := makeMockLedgerForTracker(t, false, 1, testProtocolVersion, accts)
			defer ml.Close()

			conf := config.GetDefaultLocal()
			conf.MaxAcctLookback = uint64(rng.Intn(4))
			au, _ := newAcctUpdates(t, ml, conf)
			knownCreatables := make(map[basics.CreatableIndex]bool)
			base := accts[0]
			var emptyUpdates ledgercore.AccountDeltas
			opts := auNewBlockOpts{emptyUpdates, testProtocolVersion, protoParams, knownCreatables}

			alphabet := []byte{0x00, 'a', 'b', 0xff}
			randName := func() string {
				n := 1 + rng.Intn(3)
				b := make([]byte, n)
				for i := range b {
					b[i] = alphabet[rng.Intn(len(alphabet))]
				}
				return string(b)
			}
			appPrefixes := []string{"bx:\x00\x00\x00\x00\x00\x00\x00\x01", "bx:\x00\x00\x00\x00\x00\x00\x00\x02", "bx:\x00\x00\x00\x00\x00\x00\x00\xff"}

			// states[r] is the full kv state at round r
			states := []map[string][]byte{{}}
			for rnd := basics.Round(1); rnd <= 60; rnd++ {
				cur := map[string][]byte{}
				for k, v := range states[len(states)-1] {
					cur[k] = v
				}
				mods := map[string]ledgercore.KvValueDelta{}
				nmods := rng.Intn(8)
				for i := 0; i < nmods; i++ {
					key := appPrefixes[rng.Intn(len(appPrefixes))] + randName()
					if _, dup := mods[key]; dup {
						continue
					}
					old, exists := cur[key]
					if exists && rng.Intn(2) == 0 {
						mods[key] = ledgercore.KvValueDelta{Data: nil, OldData: old}
						delete(cur, key)
					} else {
						val := make([]byte, 1+rng.Intn(20))
						rng.Read(val)
						mods[key] = ledgercore.KvValueDelta{Data: val, OldData: old}
						cur[key] = val
					}
				}
				states = append(states, cur)
				auNewBlock(t, rnd, au, base, opts, mods)
				if rng.Intn(3) == 0 {
					auCommitSync(t, rnd, au, ml)
				}

				for q := 0; q < 40; q++ {
					au.accountsMu.RLock()
					dbRound := au.cachedDBRound
					au.accountsMu.RUnlock()
					qr := dbRound + basics.Round(rng.Intn(int(rnd-dbRound)+1))
					prefix := appPrefixes[rng.Intn(len(appPrefixes))]
					switch rng.Intn(4) {
					case 0:
						prefix += randName()[:1]
					case 1:
						prefix += randName()
					}
					start := ""
					switch rng.Intn(4) {
					case 0:
						start = appPrefixes[rng.Intn(len(appPrefixes))] + randName()
					case 1:
						start = prefix + randName()
					}
					limit := uint64(1 + rng.Intn(6))
					maxBytes := []uint64{0, 1, 20, 40, 100, 1_000_000}[rng.Intn(6)]
					includeValues := rng.Intn(2) == 0

					var want []string
					for k := range states[qr] {
						if len(k) >= len(prefix) && k[:len(prefix)] == prefix && k > start {
							want = append(want, k)
						}
					}
					slices.Sort(want)

					var got []ledgercore.KvPairResult
					cursor := start
					for pages := 0; ; pages++ {
						require.Less(t, pages, 10000)
						page, gotRnd, more, err := au.LookupKvPairsByPrefix(qr, prefix, cursor, limit, maxBytes, includeValues)
						require.NoError(t, err)
						require.Equal(t, qr, gotRnd)
						require.LessOrEqual(t, uint64(len(page)), limit)
						got = append(got, page...)
						if !more {
							break
						}
						require.NotEmpty(t, page, "moreData with empty page")
						cursor = page[len(page)-1].Key
					}
					gotKeys := make([]string, 0, len(got))
					for _, kv := range got {
						gotKeys = append(gotKeys, kv.Key)
					}
					if want == nil {
						want = []string{}
					}
					require.Equal(t, want, gotKeys, "seed %d rnd %d dbRound %d qr %d prefix %q start %q limit %d maxBytes %d vals %v", seed, rnd, dbRound, qr, prefix, start, limit, maxBytes, includeValues)
					if includeValues {
						for _, kv := range got {
							require.Equal(t, string(states[qr][kv.Key]), string(kv.Value), "value of %q at %d", kv.Key, qr)
						}
					}
				}
			}
			t.Logf("final dbRound %d latest %d keys %d lookback %d", au.cachedDBRound, au.latest(), len(states[len(states)-1]), conf.MaxAcctLookback)
		})
	}
}

// TestInvC10BoxesListingWithoutCountLimit lists an application's boxes exactly the way
// v2.Handlers.GetApplicationBoxes does when the request carries no `limit` and the node is configured
// with MaxAPIBoxPerApplication=0 ("unlimited"): the handler passes limit=0 (no count limit, only the
// 1MB byte cap) to Ledger.LookupKvPairsByPrefix and follows next-tokens while moreData is reported.
// Every box present at the queried round must come back exactly once, in increasing order.
func TestInvC10BoxesListingWithoutCountLimit(t *testing.T) {
	partitiontest.PartitionTest(t)

	genBalances, addrs, _ := ledgertesting.NewTestGenesis()
	cfg := config.GetDefaultLocal()
	l := newSimpleLedgerWithConsensusVersion(t, genBalances, protocol.ConsensusFuture, cfg, simpleLedgerOnDisk())
	defer l.Close()

	// round 1: create + fund the box app
	ev := nextBlock(t, l)
	hdr, err := l.BlockHdr(l.Latest())
	require.NoError(t, err)
	txn(t, l, ev, &txntest.Txn{Type: "appl", Sender: addrs[0], ApprovalProgram: boxAppSource})
	appID := basics.AppIndex(hdr.TxnCounter + 1)
	txn(t, l, ev, &txntest.Txn{Type: "pay", Sender: addrs[0], Receiver: appID.Address(), Amount: 10_000_000})
	endBlock(t, l, ev)

	// rounds 2,3: create boxes; the first batch is flushed to disk, the second stays in memory.
	names := []string{"a", "b", "c", "d", "e", "f"}
	call := txntest.Txn{Type: "appl", Sender: addrs[0], ApplicationID: appID}
	for i, batch := range [][]string{names[:3], names[3:]} {
		ev = nextBlock(t, l)
		for _, n := range batch {
			c := call.Args("create", n)
			c.Boxes = []transactions.BoxRef{{Index: 0, Name: []byte(n)}}
			txn(t, l, ev, c)
		}
		endBlock(t, l, ev)
		if i == 0 {
			commitRoundLookback(0, l)
		}
	}
	rnd := l.Latest()
	prefix := apps.MakeBoxKey(uint64(appID), "")

	// reference: the legacy, unpaginated listing sees all six boxes at this round
	all, err := l.LookupKeysByPrefix(rnd, prefix, 1000)
	require.NoError(t, err)
	require.Len(t, all, len(names))

	list := func(limit, maxBytes uint64) []string {
		var got []string
		cursor := ""
		for pages := 0; ; pages++ {
			require.Less(t, pages, 100)
			page, pageRnd, more, err := l.LookupKvPairsByPrefix(rnd, prefix, cursor, limit, maxBytes, true)
			require.NoError(t, err)
			require.Equal(t, rnd, pageRnd)
			for _, kv := range page {
				got = append(got, kv.Key[len(prefix):])
			}
			if !more || len(page) == 0 { // the handler only emits a next-token when moreData && len(results) > 0
				return got
			}
			cursor = page[len(page)-1].Key
		}
	}

	const maxBoxFetchBytes = 1_000_000 // what the handler passes
	require.Equal(t, names, list(2, maxBoxFetchBytes), "limit=2")
	require.Equal(t, names, list(100, maxBoxFetchBytes), "limit=100")
	require.Equal(t, names, list(0, maxBoxFetchBytes), "no count limit (limit=0), as sent by GetApplicationBoxes when MaxAPIBoxPerApplication=0 and the request has no limit")
	require.Equal(t, names, list(0, 0), "no count limit and no byte cap")
}
