// Copyright (C) 2019-2026 Algorand Foundation Ltd.
// This file is part of go-algorand
//
// go-algorand is free software: you can redistribute it and/or modify
// it under the terms of the GNU Affero General Public License as
// published by the Free Software Foundation, either version 3 of the
// License, or (at your option) any later version.
//
// go-algorand is distributed in the hope that it will be useful,
// but WITHOUT ANY WARRANTY; without even the implied warranty of
// MERCHANTABILITY or FITNESS FOR A PARTICULAR PURPOSE.  See the
// GNU Affero General Public License for more details.
//
// You should have received a copy of the GNU Affero General Public License
// along with go-algorand.  If not, see <https://www.gnu.org/licenses/>.

package logic_test

import (
	"testing"

	"github.com/stretchr/testify/require"

	"github.com/algorand/go-algorand/data/basics"
	"github.com/algorand/go-algorand/data/transactions"
	. "github.com/algorand/go-algorand/data/transactions/logic"
	"github.com/algorand/go-algorand/data/txntest"
	"github.com/algorand/go-algorand/protocol"
	"github.com/algorand/go-algorand/test/partitiontest"
)

// TestInvC35UnnamedAccountUnderAccess checks that an app program can only touch
// an account that the transaction group made available. The group below never
// names the zero address: it is not a Sender, it is not in tx.Accounts, and it
// can not even be expressed in tx.Access (a ResourceRef whose Address is zero
// is, by definition, not an address reference). So every opcode that reads an
// account must fail the program when handed the zero address, no matter
// whether the group lists its (unrelated) resources with the foreign arrays or
// with tx.Access.
func TestInvC35UnnamedAccountUnderAccess(t *testing.T) {
	partitiontest.PartitionTest(t)
	t.Parallel()

	sender := basics.Address{1, 2, 3, 4}
	named := basics.Address{7, 7, 7, 7}
	var zero basics.Address

	_, _, ledger := MakeSampleEnv()
	ledger.NewAccount(sender, 100_000)
	ledger.NewAccount(named, 4321)
	ledger.NewAccount(zero, 777) // the zero address is a real, funded account on every network

	// The same call, naming the same unrelated resources, expressed two ways.
	withForeign := txntest.Txn{
		Type:          protocol.ApplicationCallTx,
		ApplicationID: 900,
		Sender:        sender,
		Accounts:      []basics.Address{named},
		ForeignAssets: []basics.AssetIndex{500},
		ForeignApps:   []basics.AppIndex{600},
	}
	withAccess := txntest.Txn{
		Type:          protocol.ApplicationCallTx,
		ApplicationID: 900,
		Sender:        sender,
		Access: []transactions.ResourceRef{
			{Address: named},
			{Asset: 500},
			{App: 600},
		},
	}

	// sanity: the account that _is_ named is readable in both forms
	readNamed := "addr " + named.String() + "; balance; int 4321; ==; assert; int 1"
	TestApps(t, []string{readNamed}, txntest.Group(&withForeign), 9, ledger)
	TestApps(t, []string{readNamed}, txntest.Group(&withAccess), 9, ledger)

	reads := map[string]string{
		"balance":         "global ZeroAddress; balance; pop; int 1",
		"min_balance":     "global ZeroAddress; min_balance; pop; int 1",
		"acct_params_get": "global ZeroAddress; acct_params_get AcctBalance; pop; pop; int 1",
		"itxn Receiver": `itxn_begin
                           int pay; itxn_field TypeEnum
                           global ZeroAddress; itxn_field Receiver
                          int 1`, // no submit needed, itxn_field checks availability
	}
	for name, source := range reads {
		t.Run(name, func(t *testing.T) { // nolint:paralleltest // shares `ledger`
			// With foreign arrays, the unnamed account is (properly) unavailable.
			TestApps(t, []string{source}, txntest.Group(&withForeign), 9, ledger,
				Exp(0, "unavailable Account "+zero.String()))

			// The property: with tx.Access it must be just as unavailable.
			ep := NewAppEvalParams(transactions.WrapSignedTxnsWithAD(txntest.Group(&withAccess)),
				MakeTestProto(), &transactions.SpecialAddresses{})
			ledger.Reset()
			ep.Ledger = ledger
			ep.SigLedger = ledger
			ops := TestProg(t, source, 9)
			pass, err := EvalApp(ops.Program, 0, 900, ep)
			require.False(t, pass && err == nil,
				"%s: program touched %s, which no transaction in the group made available", name, zero)
			require.ErrorContains(t, err, "unavailable Account "+zero.String())
		})
	}
}
